(* Proofs/CrcProofs.v — GF(2) algebra of the reflected CRC register, zlib-style combine, and the
   block logic of parallelHashWriter. *)
From Verif Require Import Bytes Codec Crc.
From Coq Require Import ZifyBool ZifyN ZifyNat.
Local Open Scope N_scope.

(* ---- iter ---- *)
Lemma iter_S_r {A} n (f : A -> A) x : iter (S n) f x = f (iter n f x).
Proof. revert x; induction n as [|n IH]; intros x; [reflexivity|]. cbn [iter] in *. rewrite <- IH. reflexivity. Qed.
Lemma iter_add {A} n m (f : A -> A) x : iter (n + m) f x = iter m f (iter n f x).
Proof. revert x; induction n as [|n IH]; intros x; cbn [iter Nat.add]; auto. Qed.
Lemma iter_ext {A} n (f g : A -> A) x : (forall y, f y = g y) -> iter n f x = iter n g x.
Proof. intros E. revert x; induction n as [|n IH]; intros x; cbn [iter]; [reflexivity|]. rewrite E. apply IH. Qed.
Lemma iter_mul {A} n k (f : A -> A) x : iter n (iter k f) x = iter (n * k) f x.
Proof. revert x; induction n as [|n IH]; intros x; cbn [iter Nat.mul]; [reflexivity|]. rewrite iter_add. apply IH. Qed.

(* ---- xor algebra ---- *)
Ltac xor_ac :=
  apply N.bits_inj; intro; rewrite ?N.lxor_spec, ?N.bits_0;
  repeat match goal with |- context [N.testbit ?x ?i] => generalize (N.testbit x i); intro end;
  repeat match goal with b : bool |- _ => destruct b end; reflexivity.

Definition linear (f : N -> N) : Prop := forall a b, f (N.lxor a b) = N.lxor (f a) (f b).

Lemma linear_0 f : linear f -> f 0 = 0.
Proof. intros L. pose proof (L 0 0) as H. rewrite N.lxor_nilpotent in H. rewrite N.lxor_nilpotent in H. exact H. Qed.

Lemma linear_iter n f : linear f -> linear (iter n f).
Proof. intros L. induction n as [|n IH]; intros a b; [reflexivity|]. rewrite !iter_S_r, IH, L. reflexivity. Qed.

Lemma linear_comp f g : linear f -> linear g -> linear (fun x => f (g x)).
Proof. intros Lf Lg a b. rewrite Lg, Lf. reflexivity. Qed.

Lemma odd_lxor a b : N.odd (N.lxor a b) = xorb (N.odd a) (N.odd b).
Proof. rewrite <- !N.bit0_odd. apply N.lxor_spec. Qed.
Lemma div2_lxor a b : N.div2 (N.lxor a b) = N.lxor (N.div2 a) (N.div2 b).
Proof. rewrite !N.div2_spec. apply N.shiftr_lxor. Qed.

Lemma step0_linear P : linear (step0 P).
Proof.
  intros a b. unfold step0. rewrite odd_lxor, div2_lxor.
  destruct (N.odd a), (N.odd b); cbn [xorb]; xor_ac.
Qed.

(* ---- bounds ---- *)
Lemma lxor_lt_pow2 a b n : a < 2 ^ n -> b < 2 ^ n -> N.lxor a b < 2 ^ n.
Proof.
  intros Ha Hb.
  destruct (N.eq_dec a 0) as [->|Na]; [rewrite N.lxor_0_l; exact Hb|].
  destruct (N.eq_dec b 0) as [->|Nb]; [rewrite N.lxor_0_r; exact Ha|].
  destruct (N.eq_dec (N.lxor a b) 0) as [->|Nx].
  { apply N.neq_0_lt_0. apply N.pow_nonzero. discriminate. }
  apply N.log2_lt_pow2; [lia|].
  apply N.log2_lt_pow2 in Ha; [|lia]. apply N.log2_lt_pow2 in Hb; [|lia].
  pose proof (N.log2_lxor a b). lia.
Qed.

Lemma div2_lt_pow2 a n : a < 2 ^ n -> N.div2 a < 2 ^ n.
Proof. intros H. rewrite N.div2_div. pose proof (N.div_le_upper_bound a 2 a). 
  assert (a / 2 <= a) by (apply N.div_le_upper_bound; lia). lia. Qed.

Definition pres (W : nat) (f : N -> N) : Prop := forall x, x < 2 ^ N.of_nat W -> f x < 2 ^ N.of_nat W.

Lemma step0_pres P W : poly_refl P < 2 ^ N.of_nat W -> pres W (step0 P).
Proof.
  intros Hp x Hx. unfold step0. destruct (N.odd x).
  - apply lxor_lt_pow2; [apply div2_lt_pow2; exact Hx | exact Hp].
  - apply div2_lt_pow2; exact Hx.
Qed.
Lemma pres_iter W n f : pres W f -> pres W (iter n f).
Proof. intros Pf. induction n as [|n IH]; intros x Hx; [exact Hx|]. rewrite iter_S_r. apply Pf, IH, Hx. Qed.
Lemma pres_comp W f g : pres W f -> pres W g -> pres W (fun x => f (g x)).
Proof. intros Pf Pg x Hx. apply Pf, Pg, Hx. Qed.
(* ---- matrices ---- *)
Definition pw (i : nat) : N := N.shiftl 1 (N.of_nat i).

Definition represents (W : nat) (m : list N) (f : N -> N) : Prop :=
  length m = W /\ forall i, (i < W)%nat -> nth i m 0 = f (pw i).

Lemma hd_skipn {A} (d : A) k l : hd d (skipn k l) = nth k l d.
Proof. revert l; induction k as [|k IH]; intros [|x l]; cbn; auto. Qed.
Lemma tl_skipn {A} k (l : list A) : tl (skipn k l) = skipn (S k) l.
Proof.
  revert l; induction k as [|k IH]; intros [|x l]; try reflexivity.
  change (tl (skipn k l) = skipn (S k) l). apply IH.
Qed.

Lemma shiftl_xO p k : N.shiftl (Npos p) (N.of_nat (S k)) = N.shiftl (Npos p~0) (N.of_nat k).
Proof.
  rewrite Nat2N.inj_succ, <- N.add_1_l, <- N.shiftl_shiftl. reflexivity.
Qed.
Lemma shiftl_xI p k :
  N.lxor (pw k) (N.shiftl (Npos p) (N.of_nat (S k))) = N.shiftl (Npos p~1) (N.of_nat k).
Proof. rewrite shiftl_xO. unfold pw. rewrite <- N.shiftl_lxor. reflexivity. Qed.

Lemma pw_pow i : pw i = 2 ^ N.of_nat i.
Proof. unfold pw. rewrite N.shiftl_mul_pow2. lia. Qed.

Lemma pow_lt_inv i W : 2 ^ N.of_nat i < 2 ^ N.of_nat W -> (i < W)%nat.
Proof. intros H. apply N.pow_lt_mono_r_iff in H; lia. Qed.

Lemma mt_pos_spec W m f : linear f -> represents W m f ->
  forall p k, N.shiftl (Npos p) (N.of_nat k) < 2 ^ N.of_nat W ->
  mt_pos (skipn k m) p = f (N.shiftl (Npos p) (N.of_nat k)).
Proof.
  intros L [Hlen Hcol]. induction p as [p IH|p IH|]; intros k Hb; cbn [mt_pos].
  - rewrite hd_skipn, tl_skipn.
    assert (Hk : (k < W)%nat /\ N.shiftl (Npos p) (N.of_nat (S k)) < 2 ^ N.of_nat W).
    { rewrite shiftl_xO. rewrite !N.shiftl_mul_pow2 in *. split.
      - apply pow_lt_inv. nia.
      - nia. }
    destruct Hk as [Hk Hb']. rewrite IH by exact Hb'. rewrite Hcol by exact Hk.
    rewrite <- L, shiftl_xI. reflexivity.
  - rewrite tl_skipn. rewrite IH; rewrite shiftl_xO; [reflexivity | exact Hb].
  - rewrite hd_skipn. apply Hcol. apply pow_lt_inv. rewrite N.shiftl_mul_pow2 in Hb. lia.
Qed.

Lemma matrix_times_spec W m f v : linear f -> represents W m f -> v < 2 ^ N.of_nat W ->
  matrix_times m v = f v.
Proof.
  intros L R Hv. destruct v as [|p]; cbn [matrix_times].
  - symmetry. apply linear_0, L.
  - pose proof (mt_pos_spec W m f L R p 0%nat) as H. cbn [skipn N.of_nat] in H.
    rewrite N.shiftl_0_r in H. apply H, Hv.
Qed.

Lemma pw_lt i W : (i < W)%nat -> pw i < 2 ^ N.of_nat W.
Proof. intros H. rewrite pw_pow. apply N.pow_lt_mono_r; lia. Qed.

Lemma square_represents W m f : linear f -> pres W f -> represents W m f ->
  represents W (matrix_square m) (fun x => f (f x)).
Proof.
  intros L Pf R. pose proof R as [Hlen Hcol]. split.
  - unfold matrix_square. rewrite map_length. exact Hlen.
  - intros i Hi. unfold matrix_square.
    change 0 with (matrix_times m 0). rewrite map_nth. rewrite Hcol by exact Hi.
    apply (matrix_times_spec W m f); [exact L | exact R |]. apply Pf, pw_lt, Hi.
Qed.

Lemma rows_length n r : length (rows n r) = n.
Proof. revert r; induction n as [|n IH]; intros r; cbn; auto. Qed.
Lemma rows_nth n r i : (i < n)%nat -> nth i (rows n r) 0 = N.shiftl r (N.of_nat i).
Proof.
  revert r i; induction n as [|n IH]; intros r i Hi; [lia|]. destruct i as [|i]; cbn [rows nth].
  - cbn. rewrite N.shiftl_0_r. reflexivity.
  - rewrite IH by lia. rewrite !N.shiftl_mul_pow2, Nat2N.inj_succ, N.pow_succ_r', N.double_spec. lia.
Qed.

Lemma step0_pw_S P i : step0 P (pw (S i)) = pw i.
Proof.
  unfold step0, pw. rewrite Nat2N.inj_succ, N.shiftl_succ_r.
  set (x := N.shiftl 1 (N.of_nat i)).
  replace (N.odd (N.double x)) with false.
  - apply N.div2_double.
  - rewrite N.double_spec, N.odd_mul. reflexivity.
Qed.

Lemma odd_init_represents P W : (1 <= W)%nat -> represents W (odd_init (poly_refl P) W) (step0 P).
Proof.
  intros HW. split.
  - unfold odd_init. cbn [length]. rewrite rows_length. lia.
  - intros i Hi. unfold odd_init. destruct i as [|i]; cbn [nth].
    + unfold step0, pw. cbn. try rewrite N.lxor_0_l. reflexivity.
    + rewrite rows_nth by lia. rewrite step0_pw_S. reflexivity.
Qed.
(* ---- the squaring loop ---- *)
Fixpoint loop1 (p : positive) (m : list N) (c : N) : N :=
  let m' := matrix_square m in
  match p with
  | xH => matrix_times m' c
  | xO p' => loop1 p' m' c
  | xI p' => loop1 p' m' (matrix_times m' c)
  end.

Lemma comb_loop_loop1_aux p :
  (forall e o c, comb_loop p e o c = loop1 p o c) /\
  (forall e o c, comb_loop p~0 e o c = loop1 p~0 o c) /\
  (forall e o c, comb_loop p~1 e o c = loop1 p~1 o c).
Proof.
  induction p as [p [IH [IH0 IH1]]|p [IH [IH0 IH1]]|].
  - split; [exact IH1|]. split; intros e o c; cbn [comb_loop loop1 pos_bit0]; rewrite IH; reflexivity.
  - split; [exact IH0|]. split; intros e o c; cbn [comb_loop loop1 pos_bit0]; rewrite IH; reflexivity.
  - split; [|split]; intros e o c; reflexivity.
Qed.
Lemma comb_loop_loop1 p e o c : comb_loop p e o c = loop1 p o c.
Proof. apply comb_loop_loop1_aux. Qed.

Lemma loop1_spec W : forall p m f c, linear f -> pres W f -> represents W m f -> c < 2 ^ N.of_nat W ->
  loop1 p m c = iter (Pos.to_nat p) (fun x => f (f (x))) c.
Proof.
  induction p as [p IH|p IH|]; intros m f c L Pf R Hc; cbn [loop1];
    pose proof (square_represents W m f L Pf R) as R2;
    pose proof (linear_comp f f L L) as L2; pose proof (pres_comp W f f Pf Pf) as P2.
  - rewrite (matrix_times_spec W _ _ c L2 R2 Hc).
    rewrite (IH _ _ _ L2 P2 R2) by (apply P2, Hc).
    rewrite Pos2Nat.inj_xI. cbn [iter].
    change (fun x => f (f (f (f x)))) with (fun x => iter 2 (fun y => f (f y)) x).
    rewrite (iter_mul (Pos.to_nat p) 2). f_equal. lia.
  - rewrite (IH _ _ _ L2 P2 R2 Hc).
    rewrite Pos2Nat.inj_xO.
    change (fun x => f (f (f (f x)))) with (fun x => iter 2 (fun y => f (f y)) x).
    rewrite (iter_mul (Pos.to_nat p) 2). f_equal. lia.
  - rewrite (matrix_times_spec W _ _ c L2 R2 Hc). reflexivity.
Qed.

(* ---- CRC of a concatenation ---- *)
Lemma raw_app P r a b : raw P r (a ++ b) = raw P (raw P r a) b.
Proof. unfold raw. apply fold_left_app. Qed.

Lemma raw_byte_split P r b : raw_byte P r b = N.lxor (iter 8 (step0 P) r) (raw_byte P 0 b).
Proof.
  unfold raw_byte. rewrite N.lxor_0_l. apply (linear_iter 8 _ (step0_linear P)).
Qed.

(* the register after feeding s from r = (r shifted through 8|s| zero bits) xor (register from 0) *)
Lemma raw_split P s : forall r, raw P r s = N.lxor (iter (8 * length s) (step0 P) r) (raw P 0 s).
Proof.
  induction s as [|b s IH]; intros r.
  - cbn. rewrite N.lxor_0_r. reflexivity.
  - change (raw P r (b :: s)) with (raw P (raw_byte P r b) s).
    change (raw P 0 (b :: s)) with (raw P (raw_byte P 0 b) s).
    rewrite (IH (raw_byte P r b)), (IH (raw_byte P 0 b)).
    rewrite (raw_byte_split P r b).
    rewrite (linear_iter _ _ (step0_linear P)).
    replace (8 * length (b :: s))%nat with (8 + 8 * length s)%nat by (cbn [length]; lia).
    rewrite iter_add. xor_ac.
Qed.

Definition wf_params (P : crc_params) : Prop :=
  (8 <= width P)%nat /\ poly_refl P < 2 ^ N.of_nat (width P) /\ init P < 2 ^ N.of_nat (width P) /\
  xorout P = init P.

Lemma crc_app_shift P a b : xorout P = init P ->
  crc P (a ++ b) = N.lxor (iter (8 * length b) (step0 P) (crc P a)) (crc P b).
Proof.
  intros E. unfold crc. rewrite raw_app, E.
  rewrite (raw_split P b (raw P (init P) a)), (raw_split P b (init P)).
  rewrite !(linear_iter _ _ (step0_linear P)). xor_ac.
Qed.

Lemma byteN_lt b : byteN b < 256.
Proof. unfold byteN. pose proof (Byte.to_N_bounded b). lia. Qed.

Lemma raw_pres P W r s : (8 <= W)%nat -> poly_refl P < 2 ^ N.of_nat W -> r < 2 ^ N.of_nat W ->
  raw P r s < 2 ^ N.of_nat W.
Proof.
  intros HW Hp. revert r; induction s as [|b s IH]; intros r Hr; [exact Hr|].
  change (raw P r (b :: s)) with (raw P (raw_byte P r b) s). apply IH.
  unfold raw_byte. apply (pres_iter W 8 _ (step0_pres P W Hp)).
  apply lxor_lt_pow2; [exact Hr|].
  pose proof (byteN_lt b). assert (2 ^ 8 <= 2 ^ N.of_nat W) by (apply N.pow_le_mono_r; lia).
  change (2 ^ 8) with 256 in *. lia.
Qed.

Lemma crc_bound P a : wf_params P -> crc P a < 2 ^ N.of_nat (width P).
Proof.
  intros (HW & Hp & Hi & E). unfold crc. apply lxor_lt_pow2.
  - apply raw_pres; assumption.
  - rewrite E. exact Hi.
Qed.

Lemma combine_shift P c1 c2 p : wf_params P -> c1 < 2 ^ N.of_nat (width P) ->
  combine (poly_refl P) (width P) (N.lxor 0 (xorout P)) (xorout P) c1 c2 (Npos p) =
  N.lxor (iter (8 * Pos.to_nat p) (step0 P) c1) c2.
Proof.
  intros (HW & Hp & Hi & E) Hc. unfold combine.
  replace (N.lxor c1 (N.lxor (N.lxor 0 (xorout P)) (xorout P))) with c1 by xor_ac.
  rewrite comb_loop_loop1.
  set (W := width P) in *. set (Z := step0 P).
  assert (L1 : linear Z) by apply step0_linear.
  assert (P1 : pres W Z) by (apply step0_pres; exact Hp).
  assert (R1 : represents W (odd_init (poly_refl P) W) Z) by (apply odd_init_represents; lia).
  pose proof (square_represents W _ _ L1 P1 R1) as R2.
  pose proof (linear_comp _ _ L1 L1) as L2. pose proof (pres_comp W _ _ P1 P1) as P2.
  pose proof (square_represents W _ _ L2 P2 R2) as R4.
  pose proof (linear_comp _ _ L2 L2) as L4. pose proof (pres_comp W _ _ P2 P2) as P4.
  rewrite (loop1_spec W p _ _ c1 L4 P4 R4 Hc).
  f_equal.
  rewrite (iter_ext _ _ (iter 8 Z)) by reflexivity.
  rewrite iter_mul. f_equal. lia.
Qed.

Theorem combine_correct P : wf_params P -> forall a b,
  combine (poly_refl P) (width P) (N.lxor 0 (xorout P)) (xorout P) (crc P a) (crc P b) (lenN b) = crc P (a ++ b).
Proof.
  intros WF a b. unfold lenN. destruct (N.of_nat (length b)) as [|p] eqn:El.
  - assert (b = []) as -> by (destruct b; [reflexivity | cbn in El; lia]).
    rewrite app_nil_r. reflexivity.
  - rewrite (combine_shift P _ _ p WF (crc_bound P a WF)).
    destruct WF as (_ & _ & _ & E). rewrite (crc_app_shift P a b E).
    replace (Pos.to_nat p) with (length b) by lia. reflexivity.
Qed.
(* ---- big-endian digests ---- *)
Lemma byteN_Nbyte x : x < 256 -> byteN (Nbyte x) = x.
Proof.
  intros H. unfold byteN, Nbyte. destruct (Byte.of_N x) as [b|] eqn:E.
  - apply Byte.to_of_N. exact E.
  - apply Byte.of_N_None_iff in E. lia.
Qed.

Lemma le_enc_length k n : length (le_enc k n) = k.
Proof. revert n; induction k as [|k IH]; intros n; cbn [le_enc length]; auto. Qed.

Lemma le_dec_enc k : forall n,
  fold_right (fun b acc => acc * 256 + byteN b) 0 (le_enc k n) = n mod 256 ^ N.of_nat k.
Proof.
  induction k as [|k IH]; intros n.
  - cbn. rewrite N.mod_1_r. reflexivity.
  - cbn [le_enc fold_right]. rewrite IH, byteN_Nbyte by (apply N.mod_lt; lia).
    rewrite Nat2N.inj_succ, N.pow_succ_r', N.mod_mul_r by (try apply N.pow_nonzero; lia). lia.
Qed.

Lemma be_dec_enc k n : be_dec (be_enc k n) = n mod 256 ^ N.of_nat k.
Proof.
  unfold be_dec, be_enc. rewrite <- (le_dec_enc k n).
  rewrite <- fold_left_rev_right, rev_involutive. reflexivity.
Qed.
Lemma be_enc_length k n : length (be_enc k n) = k.
Proof. unfold be_enc. rewrite rev_length. apply le_enc_length. Qed.

Lemma decode_crc_enc k n : (k = 4 \/ k = 8)%nat -> n < 256 ^ N.of_nat k -> decode_crc (be_enc k n) = n.
Proof.
  intros Hk Hn. unfold decode_crc. rewrite be_enc_length.
  destruct Hk as [-> | ->]; cbn [Nat.eqb].
  - rewrite be_dec_enc. apply N.mod_small, Hn.
  - rewrite firstn_all2 by (rewrite be_enc_length; lia). rewrite be_dec_enc. apply N.mod_small, Hn.
Qed.

(* createCombineFunction instantiated with a normal-form polynomial whose bit reversal is the
   reflected polynomial of P *)
Lemma combine_fn_correct P poly_normal : wf_params P -> (width P = 32 \/ width P = 64)%nat ->
  bitrev (N.land poly_normal (ones (width P))) (width P) = poly_refl P ->
  forall a b,
  combine_fn poly_normal (width P) (xorout P) (crc_digest P a) (crc_digest P b) (lenN b) = crc_digest P (a ++ b).
Proof.
  intros WF HW Hrev a b. unfold combine_fn, crc_digest. rewrite Hrev.
  assert (H8 : (width P / 8 = 4 \/ width P / 8 = 8)%nat) by (destruct HW as [-> | ->]; [left | right]; reflexivity).
  assert (Hpow : 256 ^ N.of_nat (width P / 8) = 2 ^ N.of_nat (width P)) by (destruct HW as [-> | ->]; reflexivity).
  rewrite !decode_crc_enc by (try exact H8; rewrite Hpow; apply crc_bound, WF).
  rewrite combine_correct by exact WF. reflexivity.
Qed.

Lemma wf_crc32 : wf_params crc32_params.
Proof. unfold wf_params; cbn. repeat split; try lia; reflexivity. Qed.
Lemma wf_crc32c : wf_params crc32c_params.
Proof. unfold wf_params; cbn. repeat split; try lia; reflexivity. Qed.
Lemma wf_crc64nvme : wf_params crc64nvme_params.
Proof. unfold wf_params; cbn. repeat split; try lia; reflexivity. Qed.

Lemma combine_crc32_correct a b :
  combine_crc32 (crc_digest crc32_params a) (crc_digest crc32_params b) (lenN b) = crc_digest crc32_params (a ++ b).
Proof. apply (combine_fn_correct crc32_params); [apply wf_crc32 | left; reflexivity | vm_compute; reflexivity]. Qed.
Lemma combine_crc32c_correct a b :
  combine_crc32c (crc_digest crc32c_params a) (crc_digest crc32c_params b) (lenN b) = crc_digest crc32c_params (a ++ b).
Proof. apply (combine_fn_correct crc32c_params); [apply wf_crc32c | left; reflexivity | vm_compute; reflexivity]. Qed.
Lemma combine_crc64nvme_correct a b :
  combine_crc64nvme (crc_digest crc64nvme_params a) (crc_digest crc64nvme_params b) (lenN b) = crc_digest crc64nvme_params (a ++ b).
Proof. apply (combine_fn_correct crc64nvme_params); [apply wf_crc64nvme | right; reflexivity | vm_compute; reflexivity]. Qed.
(* ---- parallelHashWriter block logic ---- *)
Local Close Scope N_scope.

Definition phw_data (s : phw) : bytes := concat (ph_out s) ++ ph_buf s.
Definition phw_ok (BS : nat) (s : phw) : Prop :=
  length (ph_buf s) < BS /\ Forall (fun b => length b = BS) (ph_out s).

Lemma dispatch_data s : phw_data (dispatch s) = phw_data s.
Proof.
  unfold dispatch, phw_data. destruct (ph_buf s) as [|x b] eqn:E; [rewrite E; reflexivity|].
  cbn [ph_out ph_buf]. rewrite concat_app. cbn [concat]. rewrite !app_nil_r. reflexivity.
Qed.

Lemma write_loop_S fuel BS s p : p <> [] ->
  write_loop (S fuel) BS s p =
  let n := Nat.min (BS - length (ph_buf s)) (length p) in
  let s1 := {| ph_buf := ph_buf s ++ firstn n p; ph_out := ph_out s |} in
  let s2 := if length (ph_buf s1) =? BS then dispatch s1 else s1 in
  write_loop fuel BS s2 (skipn n p).
Proof. destruct p; [contradiction | reflexivity]. Qed.

Lemma write_loop_inv BS : 0 < BS -> forall fuel s p, length p <= fuel -> phw_ok BS s ->
  phw_data (write_loop fuel BS s p) = phw_data s ++ p /\ phw_ok BS (write_loop fuel BS s p).
Proof.
  intros HBS. induction fuel as [|fuel IH]; intros s p Hf [Hb Hfull].
  - destruct p; [|cbn in Hf; lia]. cbn. rewrite app_nil_r. split; [reflexivity | split; assumption].
  - destruct p as [|x p'] eqn:Ep; [cbn; rewrite app_nil_r; split; [reflexivity | split; assumption]|].
    rewrite <- Ep in *. assert (Hp : 0 < length p) by (rewrite Ep; cbn; lia).
    rewrite write_loop_S by (rewrite Ep; discriminate). cbv zeta.
    set (n := Nat.min (BS - length (ph_buf s)) (length p)).
    assert (Hn : 0 < n /\ n <= length p /\ n <= BS - length (ph_buf s)) by (unfold n; lia).
    assert (Hl1 : length (ph_buf s ++ firstn n p) = length (ph_buf s) + n)
      by (rewrite app_length, firstn_length; lia).
    cbn [ph_buf]. rewrite Hl1.
    assert (Hsk : length (skipn n p) <= fuel) by (rewrite skipn_length; lia).
    destruct (length (ph_buf s) + n =? BS) eqn:Efull.
    + apply Nat.eqb_eq in Efull.
      unfold dispatch. cbn [ph_buf ph_out].
      destruct (ph_buf s ++ firstn n p) as [|y blk] eqn:Eb; [cbn in Hl1; lia|]. rewrite <- Eb in *.
      match goal with |- context [write_loop fuel BS ?s2 _] => destruct (IH s2 (skipn n p) Hsk) as [Hd Hok] end.
      { split; cbn [ph_buf ph_out]; [cbn; lia|]. apply Forall_app. split; [exact Hfull|].
        constructor; [lia | constructor]. }
      split; [|exact Hok]. rewrite Hd. unfold phw_data. cbn [ph_buf ph_out].
      rewrite concat_app. cbn [concat]. rewrite !app_nil_r, <- !app_assoc.
      rewrite (firstn_skipn n p). reflexivity.
    + apply Nat.eqb_neq in Efull.
      match goal with |- context [write_loop fuel BS ?s2 _] => destruct (IH s2 (skipn n p) Hsk) as [Hd Hok] end.
      { split; cbn [ph_buf ph_out]; [lia | exact Hfull]. }
      split; [|exact Hok]. rewrite Hd. unfold phw_data. cbn [ph_buf ph_out].
      rewrite <- !app_assoc. rewrite (firstn_skipn n p). reflexivity.
Qed.

Lemma phw_write_inv BS s p : 0 < BS -> phw_ok BS s ->
  phw_data (phw_write BS s p) = phw_data s ++ p /\ phw_ok BS (phw_write BS s p).
Proof. intros HBS Hok. apply write_loop_inv; auto. Qed.

Lemma phw_writes_inv BS : 0 < BS -> forall ws s, phw_ok BS s ->
  phw_data (fold_left (phw_write BS) ws s) = phw_data s ++ concat ws /\
  phw_ok BS (fold_left (phw_write BS) ws s).
Proof.
  intros HBS. induction ws as [|w ws IH]; intros s Hok.
  - cbn. rewrite app_nil_r. auto.
  - cbn [fold_left concat]. destruct (phw_write_inv BS s w HBS Hok) as [Hd Hok'].
    destruct (IH _ Hok') as [Hd2 Hok2]. split; [|exact Hok2]. rewrite Hd2, Hd, app_assoc. reflexivity.
Qed.

Lemma phw_init_ok BS : 0 < BS -> phw_ok BS phw_init.
Proof. intros H. split; [exact H | constructor]. Qed.

Theorem blocks_concat BS ws : 0 < BS -> concat (dispatched BS ws) = concat ws.
Proof.
  intros HBS. unfold dispatched, phw_flush.
  destruct (phw_writes_inv BS HBS ws phw_init (phw_init_ok BS HBS)) as [Hd _].
  set (s := fold_left (phw_write BS) ws phw_init) in *.
  rewrite <- (dispatch_data s) in Hd. unfold phw_data in Hd.
  assert (ph_buf (dispatch s) = []) as Eb by (unfold dispatch; destruct (ph_buf s) eqn:E; [exact E | reflexivity]).
  rewrite Eb, app_nil_r in Hd. exact Hd.
Qed.

(* every dispatched block is full except possibly the last one, which is non-empty and shorter *)
Theorem blocks_shape BS ws : 0 < BS ->
  exists full last, dispatched BS ws = full ++ last /\ Forall (fun b => length b = BS) full /\
    (last = [] \/ exists b, last = [b] /\ 0 < length b < BS).
Proof.
  intros HBS. unfold dispatched, phw_flush.
  destruct (phw_writes_inv BS HBS ws phw_init (phw_init_ok BS HBS)) as [_ [Hb Hfull]].
  set (s := fold_left (phw_write BS) ws phw_init) in *.
  unfold dispatch. destruct (ph_buf s) as [|x b] eqn:E.
  - exists (ph_out s), []. rewrite app_nil_r. auto.
  - exists (ph_out s), [x :: b]. cbn [ph_out]. split; [reflexivity|]. split; [exact Hfull|].
    right. exists (x :: b). split; [reflexivity|]. cbn [length] in *. lia.
Qed.

(* a hash whose Write is a monoid action sees the same thing block-wise and at once *)
Lemma fold_blocks {S} (upd : S -> bytes -> S) :
  (forall s, upd s [] = s) -> (forall s a b, upd (upd s a) b = upd s (a ++ b)) ->
  forall blocks s, fold_left upd blocks s = upd s (concat blocks).
Proof.
  intros H0 Happ. induction blocks as [|b bl IH]; intros s; cbn [fold_left concat].
  - symmetry. apply H0.
  - rewrite IH, Happ. reflexivity.
Qed.

Theorem stream_hash_oneshot {S} (upd : S -> bytes -> S) s0 BS ws : 0 < BS ->
  (forall s, upd s [] = s) -> (forall s a b, upd (upd s a) b = upd s (a ++ b)) ->
  stream_hash upd s0 BS ws = upd s0 (concat ws).
Proof.
  intros HBS H0 Happ. unfold stream_hash. rewrite (fold_blocks upd H0 Happ), blocks_concat by exact HBS.
  reflexivity.
Qed.

Theorem stream_crc_oneshot P BS ws : 0 < BS -> stream_crc P BS ws = crc P (concat ws).
Proof.
  intros HBS. unfold stream_crc, crc. f_equal.
  apply stream_hash_oneshot; [exact HBS | reflexivity |]. intros s a b. symmetry. apply raw_app.
Qed.

(* feeding any split of the input to the Gallina CRC register equals one shot *)
Theorem raw_feed_concat P ws r : fold_left (raw P) ws r = raw P r (concat ws).
Proof.
  apply (fold_blocks (raw P)); [reflexivity|]. intros s a b. symmetry. apply raw_app.
Qed.
(* ---- the length-level closed form agrees with the byte-level writer ---- *)
Definition phw_abs (s : phw) : N * list N := (lenN (ph_buf s), map lenN (ph_out s)).

Lemma write_loop_nil fuel BS s : write_loop fuel BS s [] = s.
Proof. destruct fuel; reflexivity. Qed.

Lemma lwrite_after_full (BS : N) out rest : (0 < BS)%N ->
  lwrite BS (0%N, out ++ [BS]) rest = ((rest mod BS)%N, out ++ BS :: repeat BS (N.to_nat (rest / BS))).
Proof.
  intros HBS. unfold lwrite. destruct (rest =? 0)%N eqn:E0.
  - apply N.eqb_eq in E0. subst rest. rewrite N.mod_0_l, N.div_0_l by lia. reflexivity.
  - apply N.eqb_neq in E0. rewrite N.sub_0_r. destruct (rest <? BS)%N eqn:E1.
    + apply N.ltb_lt in E1. rewrite N.mod_small, N.div_small by exact E1. reflexivity.
    + apply N.ltb_ge in E1.
      assert (Hr : rest = (rest - BS + 1 * BS)%N) by lia.
      rewrite Hr at 3 4. rewrite N.mod_add, N.div_add by lia.
      replace (N.to_nat ((rest - BS) / BS + 1)) with (S (N.to_nat ((rest - BS) / BS))) by lia.
      cbn [repeat]. rewrite <- app_assoc. reflexivity.
Qed.

Lemma write_loop_abs BS : 0 < BS -> forall fuel s p, length p <= fuel -> phw_ok BS s ->
  phw_abs (write_loop fuel BS s p) = lwrite (N.of_nat BS) (phw_abs s) (lenN p).
Proof.
  intros HBS. induction fuel as [|fuel IH]; intros s p Hf [Hb Hfull].
  - destruct p; [|cbn in Hf; lia]. reflexivity.
  - destruct p as [|x p'] eqn:Ep; [reflexivity|].
    rewrite <- Ep in *. assert (Hp : 0 < length p) by (rewrite Ep; cbn; lia).
    rewrite write_loop_S by (rewrite Ep; discriminate). cbv zeta.
    set (n := Nat.min (BS - length (ph_buf s)) (length p)).
    assert (Hl1 : length (ph_buf s ++ firstn n p) = length (ph_buf s) + n)
      by (rewrite app_length, firstn_length; lia).
    cbn [ph_buf]. rewrite Hl1.
    assert (Hsk : length (skipn n p) <= fuel) by (rewrite skipn_length; lia).
    unfold phw_abs at 2. unfold lwrite, lenN.
    replace (N.of_nat (length p) =? 0)%N with false by (symmetry; apply N.eqb_neq; lia).
    destruct (length (ph_buf s) + n =? BS) eqn:Efull.
    + apply Nat.eqb_eq in Efull.
      replace (N.of_nat (length p) <? N.of_nat BS - N.of_nat (length (ph_buf s)))%N with false
        by (symmetry; apply N.ltb_ge; lia).
      unfold dispatch. cbn [ph_buf ph_out].
      destruct (ph_buf s ++ firstn n p) as [|y blk] eqn:Eb; [cbn in Hl1; lia|]. rewrite <- Eb in *.
      rewrite IH; [| exact Hsk |].
      2:{ split; cbn [ph_buf ph_out]; [cbn; lia|]. apply Forall_app. split; [exact Hfull|].
          constructor; [lia | constructor]. }
      unfold phw_abs. cbn [ph_buf ph_out]. rewrite map_app. cbn [map].
      replace (lenN []) with 0%N by reflexivity.
      replace (lenN (ph_buf s ++ firstn n p)) with (N.of_nat BS) by (unfold lenN; lia).
      rewrite lwrite_after_full by lia.
      replace (lenN (skipn n p)) with (N.of_nat (length p) - (N.of_nat BS - N.of_nat (length (ph_buf s))))%N
        by (unfold lenN; rewrite skipn_length; lia).
      reflexivity.
    + apply Nat.eqb_neq in Efull.
      assert (Hn : n = length p) by lia.
      replace (N.of_nat (length p) <? N.of_nat BS - N.of_nat (length (ph_buf s)))%N with true
        by (symmetry; apply N.ltb_lt; lia).
      rewrite Hn, skipn_all, write_loop_nil. unfold phw_abs, lenN. cbn [ph_buf ph_out].
      rewrite app_length, firstn_all. f_equal. lia.
Qed.

Lemma phw_writes_abs BS : 0 < BS -> forall ws s, phw_ok BS s ->
  phw_abs (fold_left (phw_write BS) ws s) = fold_left (lwrite (N.of_nat BS)) (map lenN ws) (phw_abs s).
Proof.
  intros HBS. induction ws as [|w ws IH]; intros s Hok; [reflexivity|].
  cbn [fold_left map]. destruct (phw_write_inv BS s w HBS Hok) as [_ Hok'].
  rewrite IH by exact Hok'. f_equal. apply write_loop_abs; auto.
Qed.

Theorem block_lens_agree BS ws : 0 < BS ->
  map lenN (dispatched BS ws) = block_lens (N.of_nat BS) (map lenN ws).
Proof.
  intros HBS. unfold dispatched, block_lens, phw_flush.
  pose proof (phw_writes_abs BS HBS ws phw_init (phw_init_ok BS HBS)) as H.
  change (phw_abs phw_init) with (0%N, @nil N) in H. rewrite <- H.
  set (s := fold_left (phw_write BS) ws phw_init). unfold phw_abs, lflush, dispatch.
  destruct (ph_buf s) as [|x b] eqn:E; [reflexivity|].
  cbn [ph_out]. rewrite map_app. reflexivity.
Qed.
Lemma chunks_concat lens : forall c, concat (chunks lens c) = c.
Proof.
  induction lens as [|n lens IH]; intros [|x c]; try reflexivity.
  - cbn. rewrite app_nil_r. reflexivity.
  - cbn [chunks concat]. rewrite IH. apply firstn_skipn.
Qed.
