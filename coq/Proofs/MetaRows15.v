(* Proofs/MetaRows15.v — M-META: a key-only delete in an Enabled bucket also keeps the null version (C02). *)
From Verif Require Import Bytes Codec Md5 Meta MetaBasics MetaPartsDefs MetaParts MetaPartsOps MetaPartsOwned.
From Verif Require Import MetaRows1 MetaRows2 MetaRows3 MetaRows4 MetaRows5 MetaRows6 MetaRows7 MetaRows8 MetaRows9
  MetaRows11 MetaRows13.
From Coq Require Import ZifyBool ZifyN ZifyNat.

Lemma hasrow_same id c s s' : objs s' = objs s -> HasRow id c s -> HasRow id c s'.
Proof. intros E H. unfold HasRow. rewrite E. exact H. Qed.
Lemma hasrow_insert id c s mk : HasRow id c s -> HasRow id c (snd (insert_row s mk)).
Proof. intros (x & Hx & E). exists x. split; [rewrite insert_row_objs; apply in_or_app; left; exact Hx | exact E]. Qed.

Lemma delete_enabled_keeps_null i hist s b k cr r :
  Inv1 s -> bucket_ver s b = Some VEnabled -> find_version s b k VNull = Some r ->
  exists r', find_version (fst (step i hist s (ODel b k VRNone cr))) b k VNull = Some r' /\ core r' = core r /\
             obj_parts (fst (step i hist s (ODel b k VRNone cr))) (o_id r) = obj_parts s (o_id r).
Proof.
  intros [I U] Hst F. pose proof (step_uniq i hist s (ODel b k VRNone cr) U) as [U' _].
  destruct (find_version_some _ _ _ _ _ F) as (Hr & Kr & Cr & Vr).
  assert (R0 : HasRow (o_id r) (core r) (with_ids s i)) by (exists r; repeat split; exact Hr).
  assert (I0 : IdsOk (with_ids s i)) by (apply (IdsOk_same s); [apply same_with_ids | exact I]).
  unfold bucket_ver in Hst. destruct (find_bucket s b) as [bk|] eqn:Hb; [|discriminate].
  cbn [option_map] in Hst. inversion Hst as [Hv]. clear Hst.
  assert (G : HasRow (o_id r) (core r) (fst (step i hist s (ODel b k VRNone cr))) /\
              obj_parts (fst (step i hist s (ODel b k VRNone cr))) (o_id r) = obj_parts s (o_id r)).
  { clear U'. cbn [step resolve_vref]. unfold op_delete.
    match goal with |- context[commit ?s0 ?body] => destruct (commit_cases s0 body) as [E|[E _]]; rewrite E; clear E end;
      [split; [exact R0 | reflexivity]|].
    change (find_bucket (with_ids s i) b) with (find_bucket s b). rewrite Hb.
    unfold meta_delete. cbv beta zeta. rewrite Hv. repeat dm; cbn [fst snd].
    all: try (split; [exact R0 | reflexivity]).
    all: split; [apply (hasrow_same _ _ _ _ (sm_objs _ _ (same_delete_unreferenced _ _))); apply hasrow_insert; try exact R0
                | rewrite obj_parts_delete_unref; reflexivity].
    all: unfold set_latest; apply hasrow_update; [exact R0|]; cbn [with_row o_id]; intros E; rewrite core_with_row;
         match goal with Hl : find_latest _ _ _ = Some ?cur |- _ =>
           assert (cur = r) as -> by (eapply NoDup_map_inj;
             [exact (proj1 I0) | exact (proj1 (find_latest_some _ _ _ _ Hl)) | exact Hr | exact E]) end; reflexivity. }
  destruct G as [(x & Hx & Ex & Cx) Px].
  destruct (core_fields _ _ Cx) as (_ & Eb & Ekk & Ev & _ & Eu & _).
  exists x. split; [|split; [exact Cx | exact Px]].
  apply find_version_unique; try assumption.
  - apply on_key_eq. apply on_key_eq in Kr. destruct Kr. split; congruence.
  - unfold completed in *. rewrite Eu. exact Cr.
  - congruence.
Qed.

Lemma delete_enabled_keeps_null_out i hist s b k cr r :
  Inv1 s -> option_map b_ver (find_bucket s b) = Some VEnabled -> find_version s b k VNull = Some r ->
  exists r', find_version (fst (step i hist s (ODel b k VRNone cr))) b k VNull = Some r' /\
    o_id r' = o_id r /\ o_etag r' = o_etag r /\ o_size r' = o_size r /\ o_dm r' = o_dm r /\
    o_ctype r' = o_ctype r /\ o_created r' = o_created r /\
    obj_parts (fst (step i hist s (ODel b k VRNone cr))) (o_id r') = obj_parts s (o_id r).
Proof.
  intros H Hst F. destruct (delete_enabled_keeps_null i hist s b k cr r H Hst F) as (r' & F' & C & Pp).
  exists r'. destruct (core_fields _ _ C) as (E1 & _ & _ & _ & E5 & _ & E7 & E8 & E9 & E10 & _).
  rewrite E1. tauto.
Qed.
