(* Proofs/MetaRows1.v — M-META at row level, layer 1: what the repository primitives do to the
   objects table, the parts table, the bucket list and the id counter; the id invariant;
   the trace relation [Tr] describing every operation as a sequence of primitive row actions
   addressed to ONE (bucket,key). *)
From Verif Require Import Bytes Codec Md5 Meta MetaBasics.
From Coq Require Import ZifyBool ZifyN ZifyNat.

(* ---------- projections of the neutral primitives ---------- *)
Lemma vid_eqb_eq a b : vid_eqb a b = true <-> a = b.
Proof.
  destruct a, b; cbn; try (split; congruence).
  rewrite N.eqb_eq. split; congruence.
Qed.
Lemma vid_eqb_refl a : vid_eqb a a = true. Proof. apply vid_eqb_eq. reflexivity. Qed.

Lemma on_key_eq b k r : on_key b k r = true <-> o_bucket r = b /\ o_key r = k.
Proof. unfold on_key. rewrite andb_true_iff, !bytes_eqb_eq. tauto. Qed.
Lemma on_key_refl r : on_key (o_bucket r) (o_key r) r = true.
Proof. apply on_key_eq. split; reflexivity. Qed.

(* the four components every row-level statement looks at *)
Record same (s s' : mstate) : Prop := mk_same {
  sm_objs : objs s' = objs s; sm_parts : parts s' = parts s;
  sm_buckets : buckets s' = buckets s; sm_next : (next_id s <= next_id s')%N }.

Lemma same_refl s : same s s. Proof. split; first [reflexivity | cbn; lia]. Qed.
Lemma same_trans s1 s2 s3 : same s1 s2 -> same s2 s3 -> same s1 s3.
Proof. intros [X1 X2 X3 X4] [Y1 Y2 Y3 Y4]. split; try congruence. lia. Qed.

Lemma same_with_ids s i : same s (with_ids s i). Proof. split; first [reflexivity | cbn; lia]. Qed.
Lemma same_tick s : same s (snd (tick s)). Proof. split; first [reflexivity | cbn; lia]. Qed.
Lemma same_fresh s : same s (snd (fresh s)). Proof. split; first [reflexivity | cbn; lia]. Qed.
Lemma same_set_registry s r : same s (set_registry s r). Proof. split; first [reflexivity | cbn; lia]. Qed.
Lemma same_set_dedup s r : same s (set_dedup s r). Proof. split; first [reflexivity | cbn; lia]. Qed.
Lemma same_set_store s r : same s (set_store s r). Proof. split; first [reflexivity | cbn; lia]. Qed.
Lemma same_register_part s p : same s (register_part s p). Proof. apply same_set_registry. Qed.
Lemma same_store_put s p c : same s (store_put s p c). Proof. apply same_set_store. Qed.
Lemma same_store_del s p : same s (store_del s p). Proof. apply same_set_store. Qed.

Lemma same_remove_ref s p : same s (fst (remove_ref s p)).
Proof.
  unfold remove_ref. destruct (reg_get (registry s) p); [|apply same_refl].
  destruct (n <? 1)%N; [apply same_refl|]. destruct (n =? 1)%N; cbn [fst].
  - eapply same_trans; [apply same_set_registry | apply same_set_dedup].
  - apply same_set_registry.
Qed.

Lemma same_remove_refs pids : forall s, same s (fst (remove_refs s pids)).
Proof.
  induction pids as [|p rest IH]; intros s; cbn [remove_refs]; [apply same_refl|].
  pose proof (same_remove_ref s p) as H1. destruct (remove_ref s p) as [s1 z]. cbn [fst] in H1.
  pose proof (IH s1) as H2. destruct (remove_refs s1 rest) as [s2 zs]. cbn [fst] in *.
  eapply same_trans; eassumption.
Qed.

Lemma same_delete_unreferenced pids : forall s, same s (delete_unreferenced s pids).
Proof.
  unfold delete_unreferenced. induction pids as [|p rest IH]; intros s; cbn [fold_left]; [apply same_refl|].
  eapply same_trans; [apply same_store_del | apply IH].
Qed.

Lemma same_put_fresh_part s c : same s (snd (put_fresh_part s c)).
Proof.
  unfold put_fresh_part.
  assert (H0 : same s (store_put (snd (fresh s)) (fst (fresh s)) c))
    by (eapply same_trans; [apply same_fresh | apply same_store_put]).
  cbn [fresh fst snd] in *. set (s1 := store_put _ _ c) in *. clearbody s1.
  destruct (dedup_get (dedup s1) c) as [sh|].
  - destruct (try_add_refs (registry s1) [sh]); cbn [snd].
    + eapply same_trans; [exact H0|]. eapply same_trans; [apply same_set_registry | apply same_store_del].
    + eapply same_trans; [exact H0|]. eapply same_trans; [apply same_set_dedup | apply same_set_dedup].
  - cbn [snd]. eapply same_trans; [exact H0 | apply same_set_dedup].
Qed.

(* ---------- row primitives ---------- *)
Definition upd_fun (r : orow) (now : N) (x : orow) : orow :=
  if N.eqb (o_id x) (o_id r) then with_row r (o_latest r) now (o_lock x + 1) else x.

Lemma update_row_objs s r : objs (update_row s r) = map (upd_fun r (clock s)) (objs s).
Proof. reflexivity. Qed.
Lemma update_row_parts s r : parts (update_row s r) = parts s. Proof. reflexivity. Qed.
Lemma update_row_buckets s r : buckets (update_row s r) = buckets s. Proof. reflexivity. Qed.
Lemma update_row_next s r : next_id (update_row s r) = next_id s. Proof. reflexivity. Qed.

Lemma upd_fun_id r now x : o_id (upd_fun r now x) = o_id x.
Proof. unfold upd_fun. destruct (N.eqb_spec (o_id x) (o_id r)); [cbn; congruence | reflexivity]. Qed.

Lemma update_row_ids s r : map o_id (objs (update_row s r)) = map o_id (objs s).
Proof. rewrite update_row_objs, map_map. apply map_ext. intros x. apply upd_fun_id. Qed.

Lemma insert_row_fst s mk : fst (insert_row s mk) = next_id s. Proof. reflexivity. Qed.
Lemma insert_row_objs s mk : objs (snd (insert_row s mk)) = objs s ++ [mk (next_id s) (clock s)].
Proof. reflexivity. Qed.
Lemma insert_row_parts s mk : parts (snd (insert_row s mk)) = parts s. Proof. reflexivity. Qed.
Lemma insert_row_buckets s mk : buckets (snd (insert_row s mk)) = buckets s. Proof. reflexivity. Qed.
Lemma insert_row_next s mk : next_id (snd (insert_row s mk)) = (next_id s + 1)%N. Proof. reflexivity. Qed.

Lemma delete_row_objs s id : objs (delete_row s id) = filter (fun r => negb (N.eqb (o_id r) id)) (objs s).
Proof. reflexivity. Qed.
Lemma delete_row_parts s id : parts (delete_row s id) = parts s. Proof. reflexivity. Qed.
Lemma delete_row_buckets s id : buckets (delete_row s id) = buckets s. Proof. reflexivity. Qed.
Lemma delete_row_next s id : next_id (delete_row s id) = next_id s. Proof. reflexivity. Qed.

(* part rows *)
Fixpoint new_prows (oid : N) (ps : list npart) (seq : N) : list prow :=
  match ps with
  | [] => []
  | p :: rest => {| p_obj := oid; p_seq := seq; p_pid := n_pid p; p_content := n_content p |}
                 :: new_prows oid rest (seq + 1)
  end.

Lemma save_part_rows_spec oid ps : forall s seq,
  objs (save_part_rows s oid ps seq) = objs s /\ buckets (save_part_rows s oid ps seq) = buckets s /\
  next_id (save_part_rows s oid ps seq) = next_id s /\
  parts (save_part_rows s oid ps seq) = parts s ++ new_prows oid ps seq.
Proof.
  induction ps as [|p rest IH]; intros s seq; cbn [save_part_rows new_prows].
  - rewrite app_nil_r. repeat split.
  - match goal with |- context[save_part_rows ?s1 oid rest (seq + 1)%N] => destruct (IH s1 (seq + 1)%N) as (X1 & X2 & X3 & X4) end.
    rewrite X1, X2, X3, X4. destruct (n_pre p); cbn; rewrite <- app_assoc; repeat split.
Qed.
Lemma save_part_rows_objs s oid ps seq : objs (save_part_rows s oid ps seq) = objs s.
Proof. apply save_part_rows_spec. Qed.
Lemma save_part_rows_buckets s oid ps seq : buckets (save_part_rows s oid ps seq) = buckets s.
Proof. apply save_part_rows_spec. Qed.
Lemma save_part_rows_next s oid ps seq : next_id (save_part_rows s oid ps seq) = next_id s.
Proof. apply save_part_rows_spec. Qed.
Lemma save_part_rows_parts s oid ps seq : parts (save_part_rows s oid ps seq) = parts s ++ new_prows oid ps seq.
Proof. apply save_part_rows_spec. Qed.
Lemma new_prows_obj oid ps : forall seq p, In p (new_prows oid ps seq) -> p_obj p = oid.
Proof.
  induction ps as [|q rest IH]; intros seq p H; cbn in H; [contradiction|].
  destruct H as [<-|H]; [reflexivity | eapply IH; exact H].
Qed.

Lemma remove_part_rows_spec s sel :
  objs (fst (remove_part_rows s sel)) = objs s /\ buckets (fst (remove_part_rows s sel)) = buckets s /\
  next_id (fst (remove_part_rows s sel)) = next_id s /\
  parts (fst (remove_part_rows s sel)) = filter (fun p => negb (sel p)) (parts s).
Proof.
  unfold remove_part_rows.
  match goal with |- context[remove_refs ?s1 ?l] => destruct (same_remove_refs l s1) as [X1 X2 X3 X4];
    assert (E : next_id (fst (remove_refs s1 l)) = next_id s1) end.
  { clear. match goal with |- context[remove_refs ?s1 ?l] => generalize s1; generalize l end.
    induction l as [|p rest IH]; intros s1; cbn [remove_refs]; [reflexivity|].
    assert (X : next_id (fst (remove_ref s1 p)) = next_id s1).
    { unfold remove_ref. destruct (reg_get _ _); [|reflexivity]. destruct (_ <? _)%N; [reflexivity|].
      destruct (_ =? _)%N; reflexivity. }
    destruct (remove_ref s1 p) as [s2 z]. cbn [fst] in X. specialize (IH s2).
    destruct (remove_refs s2 rest) as [s3 zs]. cbn [fst] in *. congruence. }
  rewrite X1, X3, E, X2. repeat split.
Qed.
Lemma remove_part_rows_objs s sel : objs (fst (remove_part_rows s sel)) = objs s.
Proof. apply remove_part_rows_spec. Qed.
Lemma remove_part_rows_buckets s sel : buckets (fst (remove_part_rows s sel)) = buckets s.
Proof. apply remove_part_rows_spec. Qed.
Lemma remove_part_rows_next s sel : next_id (fst (remove_part_rows s sel)) = next_id s.
Proof. apply remove_part_rows_spec. Qed.
Lemma remove_part_rows_parts s sel :
  parts (fst (remove_part_rows s sel)) = filter (fun p => negb (sel p)) (parts s).
Proof. apply remove_part_rows_spec. Qed.

(* ---------- finds ---------- *)
Lemma find_ext_objs {s s'} : objs s' = objs s ->
  (forall b k, find_latest s' b k = find_latest s b k) /\
  (forall b k v, find_version s' b k v = find_version s b k v) /\
  (forall b k u, find_upload s' b k u = find_upload s b k u) /\
  (forall b k e, find_next_latest s' b k e = find_next_latest s b k e).
Proof.
  intros E. unfold find_latest, find_version, find_upload, find_next_latest. rewrite E. repeat split.
Qed.

Lemma find_latest_some s b k r : find_latest s b k = Some r ->
  In r (objs s) /\ on_key b k r = true /\ completed r = true /\ o_latest r = true.
Proof.
  intros H. apply find_some in H. destruct H as [I P].
  apply andb_true_iff in P. destruct P as [P L]. apply andb_true_iff in P. tauto.
Qed.
Lemma find_version_some s b k v r : find_version s b k v = Some r ->
  In r (objs s) /\ on_key b k r = true /\ completed r = true /\ o_vid r = Some v.
Proof.
  intros H. apply find_some in H. destruct H as [I P].
  apply andb_true_iff in P. destruct P as [P L]. apply andb_true_iff in P.
  destruct (o_vid r) as [v'|]; [|discriminate]. apply vid_eqb_eq in L. subst. tauto.
Qed.
Lemma find_upload_some s b k u r : find_upload s b k u = Some r ->
  In r (objs s) /\ on_key b k r = true /\ o_upload r = Some u.
Proof.
  intros H. apply find_some in H. destruct H as [I P].
  apply andb_true_iff in P. destruct P as [P L].
  destruct (o_upload r) as [u'|]; [|discriminate]. apply N.eqb_eq in L. subst. tauto.
Qed.

Lemma fold_max_created_in l : forall a r, fold_left max_created l a = Some r -> a = Some r \/ In r l.
Proof.
  induction l as [|x l IH]; intros a r H; cbn in H; [left; exact H|].
  apply IH in H. destruct H as [H|H]; [|right; right; exact H].
  unfold max_created in H. destruct a as [y|].
  - destruct (o_created y <? o_created x)%N; inversion H; subst; [right; left; reflexivity | left; reflexivity].
  - inversion H. right. left. reflexivity.
Qed.
Lemma find_next_latest_some s b k e r : find_next_latest s b k e = Some r ->
  In r (objs s) /\ on_key b k r = true /\ completed r = true /\ o_id r <> e.
Proof.
  intros H. unfold find_next_latest in H. apply fold_max_created_in in H. destruct H as [H|H]; [discriminate|].
  apply filter_In in H. destruct H as [I P].
  apply andb_true_iff in P. destruct P as [P L]. apply andb_true_iff in P.
  apply negb_true_iff in L. apply N.eqb_neq in L. tauto.
Qed.

(* ---------- the id invariant ---------- *)
Definition IdsOk (s : mstate) : Prop :=
  NoDup (map o_id (objs s)) /\ forall x, In x (objs s) -> (o_id x < next_id s)%N.

Lemma NoDup_map_inj {A X} (f : A -> X) l : NoDup (map f l) -> forall x y, In x l -> In y l -> f x = f y -> x = y.
Proof.
  induction l as [|a l IH]; intros N x y Hx Hy E; [contradiction|].
  cbn in N. inversion N as [|? ? Hn N']; subst.
  destruct Hx as [<-|Hx], Hy as [<-|Hy]; try reflexivity.
  - exfalso. apply Hn. rewrite E. apply in_map. exact Hy.
  - exfalso. apply Hn. rewrite <- E. apply in_map. exact Hx.
  - apply IH; assumption.
Qed.

Lemma NoDup_filter {A} (f : A -> bool) l : NoDup l -> NoDup (filter f l).
Proof.
  induction 1 as [|x l Hn N IH]; cbn; [constructor|].
  destruct (f x); [constructor; [|exact IH] | exact IH].
  intros H. apply filter_In in H. tauto.
Qed.

Lemma map_filter_comm {A X} (f : A -> X) (q : X -> bool) l : map f (filter (fun x => q (f x)) l) = filter q (map f l).
Proof. induction l as [|x l IH]; cbn; [reflexivity|]. destruct (q (f x)); cbn; rewrite IH; reflexivity. Qed.

Lemma IdsOk_same s s' : same s s' -> IdsOk s -> IdsOk s'.
Proof.
  intros [E _ _ L] [N Hb]. split; rewrite E; [exact N|]. intros x Hx. specialize (Hb x Hx). lia.
Qed.
Lemma IdsOk_update s r : IdsOk s -> IdsOk (update_row s r).
Proof.
  intros [N Hb]. split; [rewrite update_row_ids; exact N|].
  intros x Hx. rewrite update_row_objs in Hx. apply in_map_iff in Hx. destruct Hx as [y [<- Hy]].
  rewrite upd_fun_id, update_row_next. apply Hb. exact Hy.
Qed.
Lemma NoDup_snoc {A} (l : list A) a : NoDup l -> ~ In a l -> NoDup (l ++ [a]).
Proof.
  induction 1 as [|x l Hn N IH]; intros Ha; cbn; [constructor; [tauto|constructor]|].
  constructor.
  - intros H. apply in_app_or in H. destruct H as [H|[H|[]]]; [tauto|]. subst. apply Ha. left. reflexivity.
  - apply IH. intros H. apply Ha. right. exact H.
Qed.

Lemma IdsOk_insert s mk : (forall i n, o_id (mk i n) = i) -> IdsOk s -> IdsOk (snd (insert_row s mk)).
Proof.
  intros Hmk [N Hb]. unfold IdsOk. rewrite insert_row_next. split.
  - rewrite insert_row_objs, map_app. cbn [map]. rewrite Hmk. apply NoDup_snoc; [exact N|].
    intros H. apply in_map_iff in H. destruct H as [x [E Hx]]. specialize (Hb x Hx). lia.
  - intros x Hx. rewrite insert_row_objs in Hx. apply in_app_or in Hx. destruct Hx as [Hx|[<-|[]]].
    + specialize (Hb x Hx). lia.
    + rewrite Hmk. lia.
Qed.
Lemma IdsOk_delete s id : IdsOk s -> IdsOk (delete_row s id).
Proof.
  intros [N Hb]. split.
  - rewrite delete_row_objs.
    rewrite (map_filter_comm o_id (fun i => negb (N.eqb i id))). apply NoDup_filter. exact N.
  - intros x Hx. rewrite delete_row_objs in Hx. apply filter_In in Hx. rewrite delete_row_next. apply Hb. tauto.
Qed.
Lemma IdsOk_objs s s' : objs s' = objs s -> next_id s' = next_id s -> IdsOk s -> IdsOk s'.
Proof. intros E1 E2 [N Hb]. split; rewrite E1; [exact N|]. rewrite E2. exact Hb. Qed.

(* ---------- the trace relation ---------- *)
(* rows an operation may rewrite or remove, by class: pending uploads, the null version, an explicitly
   named version id *)
Definition rw_class (dv : option vid) (r0 : orow) : Prop :=
  completed r0 = false \/ o_vid r0 = Some VNull \/ (o_vid r0 = dv /\ dv <> None).

(* everything but is_latest / updated_at / lock version *)
Definition core (r : orow) : orow := with_row r false 0 0.
Lemma core_with_row r l u lk : core (with_row r l u lk) = core r. Proof. reflexivity. Qed.

Definition krows (s : mstate) (b k : bytes) : list orow := filter (on_key b k) (objs s).

Section Trace.
Variables (b k : bytes) (dv : option vid) (inplace : bool) (s0 : mstate).

(* … or, for the two in-place operations (append / delete in a non-versioned bucket), the current row *)
Definition may_rewrite (r0 : orow) : Prop :=
  rw_class dv r0 \/ (inplace = true /\ find_latest s0 b k = Some r0).

Inductive Tr : mstate -> Prop :=
| Tr_refl : Tr s0
| Tr_same s s' : Tr s -> same s s' -> Tr s'
| Tr_flags s sj r0 l : Tr s -> Tr sj -> In r0 (objs sj) -> on_key b k r0 = true -> Tr (set_latest s r0 l)
| Tr_rewrite s sj r0 r : Tr s -> Tr sj -> In r0 (objs sj) -> on_key b k r0 = true -> may_rewrite r0 ->
    o_id r = o_id r0 -> on_key b k r = true -> Tr (update_row s r)
| Tr_insert s mk : Tr s -> (forall i n, o_id (mk i n) = i /\ on_key b k (mk i n) = true) ->
    Tr (snd (insert_row s mk))
| Tr_delete s sj r0 : Tr s -> Tr sj -> In r0 (objs sj) -> on_key b k r0 = true -> may_rewrite r0 ->
    Tr (delete_row s (o_id r0))
| Tr_save s sj r0 ps seq : Tr s -> Tr sj -> In r0 (objs sj) -> on_key b k r0 = true -> may_rewrite r0 ->
    Tr (save_part_rows s (o_id r0) ps seq)
| Tr_save_new s oid ps seq : Tr s -> (next_id s0 <= oid)%N -> Tr (save_part_rows s oid ps seq)
| Tr_remparts s sj r0 sel : Tr s -> Tr sj -> In r0 (objs sj) -> on_key b k r0 = true -> may_rewrite r0 ->
    (forall p, sel p = true -> p_obj p = o_id r0) -> Tr (fst (remove_part_rows s sel)).

Lemma Tr_buckets_next s : Tr s -> buckets s = buckets s0 /\ (next_id s0 <= next_id s)%N.
Proof.
  induction 1 as [|s s' _ [IH1 IH2] [_ _ E L]|s sj r0 l _ [IH1 IH2] _ _ _ _|s sj r0 r _ [IH1 IH2] _ _ _ _ _ _ _
                  |s mk _ [IH1 IH2] _|s sj r0 _ [IH1 IH2] _ _ _ _ _|s sj r0 ps seq _ [IH1 IH2] _ _ _ _ _
                  |s oid ps seq _ [IH1 IH2] _|s sj r0 sel _ [IH1 IH2] _ _ _ _ _ _].
  - split; [reflexivity | lia].
  - split; [congruence | lia].
  - unfold set_latest. rewrite update_row_buckets, update_row_next. tauto.
  - rewrite update_row_buckets, update_row_next. tauto.
  - rewrite insert_row_buckets, insert_row_next. split; [tauto | lia].
  - rewrite delete_row_buckets, delete_row_next. tauto.
  - rewrite save_part_rows_buckets, save_part_rows_next. tauto.
  - rewrite save_part_rows_buckets, save_part_rows_next. tauto.
  - rewrite remove_part_rows_buckets, remove_part_rows_next. tauto.
Qed.

Lemma Tr_ids s : IdsOk s0 -> Tr s -> IdsOk s.
Proof.
  intros H0. induction 1.
  - exact H0.
  - eapply IdsOk_same; eassumption.
  - apply IdsOk_update. assumption.
  - apply IdsOk_update. assumption.
  - apply IdsOk_insert; [|assumption]. intros i n. apply H1.
  - apply IdsOk_delete. assumption.
  - eapply IdsOk_objs; [apply save_part_rows_objs | apply save_part_rows_next | assumption].
  - eapply IdsOk_objs; [apply save_part_rows_objs | apply save_part_rows_next | assumption].
  - eapply IdsOk_objs; [apply remove_part_rows_objs | apply remove_part_rows_next | assumption].
Qed.
End Trace.
