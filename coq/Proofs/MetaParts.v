(* Proofs/MetaParts.v — the reference-counting / dedup / part-store protocol of M-META (Model/Meta.v):
   specifications of the primitives (registry, dedup index, part store, savePartRows, removePartRows,
   dedupeFreshPart, deleteUnreferencedParts) and the generalized mid-transaction invariant [PInvG]. *)
From Verif Require Import Bytes Codec Md5 Meta.
From Coq Require Import ZifyBool ZifyN ZifyNat.

(* ---------- counting ---------- *)
Fixpoint cnt (p : N) (l : list N) : N :=
  match l with [] => 0 | x :: r => (if N.eqb x p then 1 else 0) + cnt p r end.

Lemma cnt_app p l1 l2 : cnt p (l1 ++ l2) = (cnt p l1 + cnt p l2)%N.
Proof. induction l1 as [|x l1 IH]; cbn [cnt app]; [reflexivity|]. rewrite IH. lia. Qed.

Lemma cnt_pos_In p l : (0 < cnt p l)%N -> In p l.
Proof.
  induction l as [|x l IH]; cbn [cnt]; [lia|]. intros H.
  destruct (N.eqb x p) eqn:E; [left; apply N.eqb_eq; exact E | right; apply IH; lia].
Qed.

Lemma In_cnt_pos p l : In p l -> (0 < cnt p l)%N.
Proof.
  induction l as [|x l IH]; cbn [cnt]; [intros []|]. intros [->|H].
  - rewrite N.eqb_refl. lia.
  - specialize (IH H). lia.
Qed.

Lemma cnt_zero_notin p l : cnt p l = 0%N -> ~ In p l.
Proof. intros H I. apply In_cnt_pos in I. lia. Qed.

Definition crows (p : N) (ps : list prow) : N := cnt p (map p_pid ps).

Lemma crows_app p l1 l2 : crows p (l1 ++ l2) = (crows p l1 + crows p l2)%N.
Proof. unfold crows. rewrite map_app. apply cnt_app. Qed.

Lemma crows_filter_split p (sel : prow -> bool) l :
  crows p l = (crows p (filter sel l) + crows p (filter (fun x => negb (sel x)) l))%N.
Proof.
  unfold crows. induction l as [|x l IH]; cbn [filter map cnt]; [reflexivity|].
  destruct (sel x); cbn [negb map cnt]; rewrite IH; lia.
Qed.

Lemma crows_pos_In p l : (0 < crows p l)%N -> exists row, In row l /\ p_pid row = p.
Proof.
  intros H. apply cnt_pos_In in H. apply in_map_iff in H. destruct H as [row [E I]]. exists row; auto.
Qed.

Lemma In_crows_pos row l : In row l -> (0 < crows (p_pid row) l)%N.
Proof. intros I. apply In_cnt_pos. apply in_map. exact I. Qed.

(* pending parts: references already acquired (n_pre) / fresh parts still to be registered *)
Fixpoint cpre (p : N) (l : list npart) : N :=
  match l with [] => 0 | x :: r => (if n_pre x && N.eqb (n_pid x) p then 1 else 0) + cpre p r end.
Fixpoint cnew (p : N) (l : list npart) : N :=
  match l with [] => 0 | x :: r => (if negb (n_pre x) && N.eqb (n_pid x) p then 1 else 0) + cnew p r end.

Lemma cpre_app p l1 l2 : cpre p (l1 ++ l2) = (cpre p l1 + cpre p l2)%N.
Proof. induction l1 as [|x l1 IH]; cbn [cpre app]; [reflexivity|]. rewrite IH. lia. Qed.
Lemma cnew_app p l1 l2 : cnew p (l1 ++ l2) = (cnew p l1 + cnew p l2)%N.
Proof. induction l1 as [|x l1 IH]; cbn [cnew app]; [reflexivity|]. rewrite IH. lia. Qed.

Lemma In_pend_pos np l : In np l -> (0 < (if n_pre np then cpre (n_pid np) l else cnew (n_pid np) l))%N.
Proof.
  induction l as [|x l IH]; [intros []|]. intros [->|H].
  - destruct (n_pre np) eqn:E; cbn [cpre cnew]; rewrite E, N.eqb_refl; cbn [andb negb]; lia.
  - specialize (IH H). destruct (n_pre np); cbn [cpre cnew]; lia.
Qed.

Definition shared_of (ps : list prow) : list npart :=
  map (fun p => {| n_pid := p_pid p; n_content := p_content p; n_pre := true |}) ps.

Lemma cpre_shared p ps : cpre p (shared_of ps) = crows p ps.
Proof.
  unfold shared_of, crows. induction ps as [|x ps IH]; cbn [map cpre cnt n_pre n_pid andb]; [reflexivity|].
  rewrite IH. reflexivity.
Qed.
Lemma cnew_shared p ps : cnew p (shared_of ps) = 0%N.
Proof.
  unfold shared_of. induction ps as [|x ps IH]; cbn [map cnew n_pre n_pid andb negb]; [reflexivity|].
  rewrite IH. reflexivity.
Qed.

(* ---------- registry ---------- *)
Definition rcr (r : list (N * N)) (p : N) : N := match reg_get r p with Some c => c | None => 0 end.
Definition reg_pos (r : list (N * N)) : Prop := forall p, reg_get r p <> Some 0%N.

Lemma reg_get_set_same r p c : reg_get (reg_set r p c) p = Some c.
Proof.
  induction r as [|[q c'] r IH]; cbn [reg_set reg_get]; [rewrite N.eqb_refl; reflexivity|].
  destruct (N.eqb q p) eqn:E; cbn [reg_get]; rewrite E; [reflexivity | exact IH].
Qed.
Lemma reg_get_set_other r p c q : q <> p -> reg_get (reg_set r p c) q = reg_get r q.
Proof.
  intros Hn. induction r as [|[x c'] r IH]; cbn [reg_set reg_get].
  - destruct (N.eqb p q) eqn:E; [apply N.eqb_eq in E; congruence | reflexivity].
  - destruct (N.eqb x p) eqn:E; cbn [reg_get].
    + apply N.eqb_eq in E; subst x. destruct (N.eqb p q) eqn:E2; [apply N.eqb_eq in E2; congruence | reflexivity].
    + rewrite IH. reflexivity.
Qed.
Lemma reg_get_del_same r p : reg_get (reg_del r p) p = None.
Proof.
  unfold reg_del. induction r as [|[x c] r IH]; cbn [filter reg_get fst]; [reflexivity|].
  destruct (N.eqb x p) eqn:E; cbn [negb reg_get]; [exact IH | rewrite E; exact IH].
Qed.
Lemma reg_get_del_other r p q : q <> p -> reg_get (reg_del r p) q = reg_get r q.
Proof.
  intros Hn. unfold reg_del. induction r as [|[x c] r IH]; cbn [filter reg_get fst]; [reflexivity|].
  destruct (N.eqb x p) eqn:E; cbn [negb reg_get].
  - apply N.eqb_eq in E; subst x. destruct (N.eqb p q) eqn:E2; [apply N.eqb_eq in E2; congruence | exact IH].
  - rewrite IH. reflexivity.
Qed.

Lemma rcr_set r p c q : rcr (reg_set r p c) q = if N.eqb p q then c else rcr r q.
Proof.
  unfold rcr. destruct (N.eqb p q) eqn:E.
  - apply N.eqb_eq in E; subst q. rewrite reg_get_set_same. reflexivity.
  - apply N.eqb_neq in E. rewrite reg_get_set_other by congruence. reflexivity.
Qed.
Lemma rcr_del r p q : rcr (reg_del r p) q = if N.eqb p q then 0%N else rcr r q.
Proof.
  unfold rcr. destruct (N.eqb p q) eqn:E.
  - apply N.eqb_eq in E; subst q. rewrite reg_get_del_same. reflexivity.
  - apply N.eqb_neq in E. rewrite reg_get_del_other by congruence. reflexivity.
Qed.

Lemma reg_pos_set r p c : reg_pos r -> (0 < c)%N -> reg_pos (reg_set r p c).
Proof.
  intros H Hc q. destruct (N.eq_dec q p) as [->|Hn].
  - rewrite reg_get_set_same. intros E; inversion E; lia.
  - rewrite reg_get_set_other by exact Hn. apply H.
Qed.
Lemma reg_pos_del r p : reg_pos r -> reg_pos (reg_del r p).
Proof.
  intros H q. destruct (N.eq_dec q p) as [->|Hn].
  - rewrite reg_get_del_same. discriminate.
  - rewrite reg_get_del_other by exact Hn. apply H.
Qed.

Lemma rcr_zero_None r p : reg_pos r -> (rcr r p = 0%N <-> reg_get r p = None).
Proof.
  intros H. unfold rcr. specialize (H p). destruct (reg_get r p) as [c|].
  - split; [intros ->; congruence | discriminate].
  - split; reflexivity.
Qed.

(* TryAddReferences: all-or-nothing, +1 per occurrence *)
Lemma try_add_refs_spec pids : forall r r', try_add_refs r pids = Some r' -> reg_pos r ->
  reg_pos r' /\ forall p, rcr r' p = (rcr r p + cnt p pids)%N.
Proof.
  induction pids as [|x pids IH]; intros r r' H Hp; cbn [try_add_refs] in H.
  - inversion H; subst. split; [exact Hp|]. intros p; cbn [cnt]; lia.
  - destruct (reg_get r x) as [c|] eqn:G; [|discriminate].
    destruct (0 <? c)%N eqn:Hc; [|discriminate].
    apply IH in H; [|apply reg_pos_set; [exact Hp | lia]].
    destruct H as [Hp' Hr]. split; [exact Hp'|]. intros p. rewrite Hr, rcr_set. cbn [cnt].
    destruct (N.eqb x p) eqn:E; [|lia]. apply N.eqb_eq in E; subst p. unfold rcr. rewrite G. lia.
Qed.

Lemma try_add_refs_one r p :
  try_add_refs r [p] = match reg_get r p with
                       | Some c => if (0 <? c)%N then Some (reg_set r p (c + 1)) else None
                       | None => None end.
Proof. cbn [try_add_refs]. destruct (reg_get r p) as [c|]; [|reflexivity]. destruct (0 <? c)%N; reflexivity. Qed.

(* ---------- part store ---------- *)
Lemma store_get_del_same st p : store_get (filter (fun x => negb (N.eqb (fst x) p)) st) p = None.
Proof.
  induction st as [|[x c] st IH]; cbn [filter store_get fst]; [reflexivity|].
  destruct (N.eqb x p) eqn:E; cbn [negb store_get]; [exact IH | rewrite E; exact IH].
Qed.
Lemma store_get_del_other st p q : q <> p ->
  store_get (filter (fun x => negb (N.eqb (fst x) p)) st) q = store_get st q.
Proof.
  intros Hn. induction st as [|[x c] st IH]; cbn [filter store_get fst]; [reflexivity|].
  destruct (N.eqb x p) eqn:E; cbn [negb store_get].
  - apply N.eqb_eq in E; subst x. destruct (N.eqb p q) eqn:E2; [apply N.eqb_eq in E2; congruence | exact IH].
  - rewrite IH. reflexivity.
Qed.

Lemma dedup_get_In d c p : dedup_get d c = Some p -> In (c, p) d.
Proof.
  induction d as [|[k q] d IH]; cbn [dedup_get]; [discriminate|].
  destruct (bytes_eqb k c) eqn:E.
  - intros H; inversion H; subst. apply bytes_eqb_eq in E; subst. left; reflexivity.
  - intros H. right. apply IH. exact H.
Qed.

(* ---------- states that agree on the part-related components ---------- *)
Definition same_ps (s s' : mstate) : Prop :=
  parts s' = parts s /\ registry s' = registry s /\ dedup s' = dedup s /\ store s' = store s /\
  (next_id s <= next_id s')%N.

Lemma same_ps_refl s : same_ps s s.
Proof. unfold same_ps. repeat split; lia. Qed.
Lemma same_ps_trans a b c : same_ps a b -> same_ps b c -> same_ps a c.
Proof.
  unfold same_ps. intros [P1 [R1 [D1 [S1 N1]]]] [P2 [R2 [D2 [S2 N2]]]].
  repeat split; try congruence. lia.
Qed.
Lemma same_ps_with_ids s i : same_ps s (with_ids s i).
Proof. unfold same_ps, with_ids; cbn. repeat split; lia. Qed.
Lemma same_ps_update_row s r : same_ps s (update_row s r).
Proof. unfold same_ps, update_row; cbn. repeat split; lia. Qed.
Lemma same_ps_set_latest s r l : same_ps s (set_latest s r l).
Proof. unfold set_latest. apply same_ps_update_row. Qed.
Lemma same_ps_delete_row s id : same_ps s (delete_row s id).
Proof. unfold same_ps, delete_row; cbn. repeat split; lia. Qed.
Lemma same_ps_insert_row s mk : same_ps s (snd (insert_row s mk)).
Proof. unfold same_ps, insert_row; cbn. repeat split; lia. Qed.
Lemma same_ps_set_buckets s b : same_ps s (set_buckets s b).
Proof. unfold same_ps; cbn. repeat split; lia. Qed.

Lemma store_get_In st p c : store_get st p = Some c -> In (p, c) st.
Proof.
  induction st as [|[x c'] st IH]; cbn [store_get]; [discriminate|].
  destruct (N.eqb x p) eqn:E.
  - intros H; inversion H; subst. apply N.eqb_eq in E; subst. left; reflexivity.
  - intros H; right; apply IH; exact H.
Qed.

(* ---------- the generalized invariant ----------
   [pend]: parts that the running transaction still has to attach with savePartRows
           (n_pre: reference already acquired; otherwise a fresh, still unregistered part);
   [orph]: part ids reported unreferenced whose bytes the transaction still has to delete.
   Parameters: [strict] — also require that the store holds no orphans (sequential histories);
   [D] — a set of dead ids that must stay dead; [n0] — a lower bound of next_id. *)
Definition rc (s : mstate) (p : N) : N := rcr (registry s) p.

Section Inv.
Variable strict : bool.
Variable D : N -> Prop.
Variable n0 : N.

Record PInvG (s : mstate) (pend : list npart) (orph : list N) : Prop := {
  g_pos : reg_pos (registry s);
  g_exact : forall p, rc s p = (crows p (parts s) + cpre p pend)%N;
  g_rows : forall row, In row (parts s) -> store_get (store s) (p_pid row) = Some (p_content row);
  g_pend : forall np, In np pend -> store_get (store s) (n_pid np) = Some (n_content np);
  g_new : forall p, cnew p pend = 0%N \/ (cnew p pend = 1%N /\ rc s p = 0%N);
  g_dedup : forall c p, In (c, p) (dedup s) ->
              store_get (store s) p = Some c /\ ((0 < rc s p)%N \/ (0 < cnew p pend)%N);
  g_fresh : forall p c, In (p, c) (store s) -> (p < next_id s)%N;
  g_orph : forall p, In p orph -> rc s p = 0%N /\ cnew p pend = 0%N;
  g_noorph : strict = true -> forall p c, store_get (store s) p = Some c ->
              (0 < rc s p)%N \/ (0 < cnew p pend)%N \/ In p orph;
  g_dead : forall p, D p -> rc s p = 0%N /\ cnew p pend = 0%N /\ (forall c, ~ In (c, p) (dedup s)) /\
                            (p < next_id s)%N;
  g_n0 : (n0 <= next_id s)%N
}.

Lemma pinvg_same s s' pend orph : same_ps s s' -> PInvG s pend orph -> PInvG s' pend orph.
Proof.
  intros [P [R [Dd [S Nx]]]] [H1 H2 H3 H4 H5 H6 H7 H8 H9 H10 H11].
  constructor; unfold rc in *; rewrite ?P, ?R, ?Dd, ?S; auto.
  - intros p c Hs. specialize (H7 p c Hs). lia.
  - intros p Hp. destruct (H10 p Hp) as [A [B [C E]]]. repeat split; auto. lia.
  - lia.
Qed.

(* ---------- savePartRows ---------- *)
Lemma rc_register_part s p0 p :
  rc (register_part s p0) p = (rc s p + if N.eqb p0 p then 1 else 0)%N.
Proof.
  unfold rc, register_part. cbn [registry set_registry].
  destruct (reg_get (registry s) p0) as [c|] eqn:G; rewrite rcr_set;
    (destruct (N.eqb p0 p) eqn:E; [apply N.eqb_eq in E; subst p; unfold rcr; rewrite G; lia | lia]).
Qed.
Lemma reg_pos_register_part s p0 : reg_pos (registry s) -> reg_pos (registry (register_part s p0)).
Proof.
  intros H. unfold register_part. cbn [registry set_registry].
  destruct (reg_get (registry s) p0) as [c|]; apply reg_pos_set; auto; lia.
Qed.

Definition save_one (s : mstate) (oid seq : N) (np : npart) : mstate :=
  let s := set_parts s (parts s ++ [{| p_obj := oid; p_seq := seq; p_pid := n_pid np; p_content := n_content np |}]) in
  if n_pre np then s else register_part s (n_pid np).

Lemma save_one_inv s oid seq np pend orph :
  PInvG s (np :: pend) orph -> PInvG (save_one s oid seq np) pend orph.
Proof.
  intros [H1 H2 H3 H4 H5 H6 H7 H8 H9 H10 H11].
  set (row := {| p_obj := oid; p_seq := seq; p_pid := n_pid np; p_content := n_content np |}).
  assert (Hrows : forall r, In r (parts s ++ [row]) -> store_get (store s) (p_pid r) = Some (p_content r)).
  { intros r Hr. apply in_app_or in Hr. destruct Hr as [Hr|[<-|[]]]; [apply H3; exact Hr|].
    cbn [p_pid p_content row]. apply H4. left; reflexivity. }
  assert (Hcr : forall p, crows p (parts s ++ [row]) = (crows p (parts s) + if N.eqb (n_pid np) p then 1 else 0)%N).
  { intros p. rewrite crows_app. unfold crows at 2. cbn [map cnt row p_pid]. lia. }
  unfold save_one. fold row. destruct (n_pre np) eqn:Epre.
  - constructor; unfold rc in *; cbn [registry parts store dedup next_id set_parts]; auto.
    + intros p. rewrite Hcr, H2. cbn [cpre]. rewrite Epre. cbn [andb]. lia.
    + intros n Hn. apply H4. right; exact Hn.
    + intros p. specialize (H5 p). cbn [cnew] in H5. rewrite Epre in H5. cbn [andb negb] in H5. lia.
    + intros c p Hd. destruct (H6 c p Hd) as [A B]. split; [exact A|].
      cbn [cnew] in B. rewrite Epre in B. cbn [andb negb] in B. lia.
    + intros p Hp. destruct (H8 p Hp) as [A B]. cbn [cnew] in B. rewrite Epre in B. cbn [andb negb] in B.
      split; lia.
    + intros Hs p c Hg. specialize (H9 Hs p c Hg). cbn [cnew] in H9. rewrite Epre in H9. cbn [andb negb] in H9.
      destruct H9 as [A|[A|A]]; [left; exact A | right; left; lia | right; right; exact A].
    + intros p Hp. destruct (H10 p Hp) as [A [B [C E]]]. cbn [cnew] in B. rewrite Epre in B. cbn [andb negb] in B.
      repeat split; auto; lia.
  - assert (Hrc : forall p, rc (register_part (set_parts s (parts s ++ [row])) (n_pid np)) p =
                            (rc s p + if N.eqb (n_pid np) p then 1 else 0)%N).
    { intros p. rewrite rc_register_part. reflexivity. }
    assert (Hcn : forall p, cnew p (np :: pend) = ((if N.eqb (n_pid np) p then 1 else 0) + cnew p pend)%N).
    { intros p. cbn [cnew]. rewrite Epre. cbn [andb negb]. reflexivity. }
    assert (Hcp : forall p, cpre p (np :: pend) = cpre p pend).
    { intros p. cbn [cpre]. rewrite Epre. cbn [andb]. lia. }
    constructor; fold (rc s) in *.
    + apply reg_pos_register_part. exact H1.
    + intros p. rewrite Hrc. cbn [parts register_part set_registry set_parts]. rewrite Hcr, H2, Hcp. lia.
    + exact Hrows.
    + intros n Hn. apply H4. right; exact Hn.
    + intros p. rewrite Hrc. specialize (H5 p). rewrite Hcn in H5.
      destruct (N.eqb (n_pid np) p); lia.
    + intros c p Hd. destruct (H6 c p Hd) as [A B]. split; [exact A|]. rewrite Hrc. rewrite Hcn in B.
      destruct (N.eqb (n_pid np) p); lia.
    + exact H7.
    + intros p Hp. destruct (H8 p Hp) as [A B]. rewrite Hrc. rewrite Hcn in B.
      destruct (N.eqb (n_pid np) p); lia.
    + intros Hs p c Hg. specialize (H9 Hs p c Hg). rewrite Hrc. rewrite Hcn in H9.
      destruct H9 as [A|[A|A]]; [left; lia | | right; right; exact A].
      destruct (N.eqb (n_pid np) p); [left; lia | right; left; lia].
    + intros p Hp. destruct (H10 p Hp) as [A [B [C E]]]. rewrite Hrc. rewrite Hcn in B.
      destruct (N.eqb (n_pid np) p); repeat split; auto; lia.
    + exact H11.
Qed.

Lemma save_part_rows_step s oid np rest seq :
  save_part_rows s oid (np :: rest) seq = save_part_rows (save_one s oid seq np) oid rest (seq + 1).
Proof. reflexivity. Qed.

Lemma save_part_rows_inv ps : forall s oid seq pend orph,
  PInvG s (ps ++ pend) orph -> PInvG (save_part_rows s oid ps seq) pend orph.
Proof.
  induction ps as [|np ps IH]; intros s oid seq pend orph H; [exact H|].
  rewrite save_part_rows_step. apply IH. apply save_one_inv. exact H.
Qed.

(* ---------- RemoveReferences ---------- *)
Lemma remove_ref_spec s x s1 z : remove_ref s x = (s1, z) -> reg_pos (registry s) -> (1 <= rc s x)%N ->
  parts s1 = parts s /\ store s1 = store s /\ next_id s1 = next_id s /\ reg_pos (registry s1) /\
  (forall p, rc s1 p = (rc s p - if N.eqb x p then 1 else 0)%N) /\
  (z = true <-> rc s1 x = 0%N) /\
  dedup s1 = (if z then filter (fun e => negb (N.eqb (snd e) x)) (dedup s) else dedup s).
Proof.
  intros H Hpos Hx. unfold remove_ref in H. unfold rc, rcr in Hx.
  destruct (reg_get (registry s) x) as [c|] eqn:G; [|lia].
  destruct (c <? 1)%N eqn:E1; [lia|].
  destruct (c =? 1)%N eqn:E2; inversion H; subst s1 z; clear H; unfold rc;
    cbn [parts store next_id registry dedup set_dedup set_registry].
  - repeat apply conj; auto.
    + apply reg_pos_del; exact Hpos.
    + intros p. rewrite rcr_del. destruct (N.eqb x p) eqn:E; [|lia].
      apply N.eqb_eq in E; subst p. unfold rcr; rewrite G. lia.
    + intros _. rewrite rcr_del, N.eqb_refl. reflexivity.
  - repeat apply conj; auto.
    + apply reg_pos_set; [exact Hpos | lia].
    + intros p. rewrite rcr_set. destruct (N.eqb x p) eqn:E; [|lia].
      apply N.eqb_eq in E; subst p. unfold rcr; rewrite G. lia.
    + discriminate.
    + rewrite rcr_set, N.eqb_refl. lia.
Qed.

Lemma remove_refs_spec pids : forall s s' zs, remove_refs s pids = (s', zs) ->
  reg_pos (registry s) -> (forall p, cnt p pids <= rc s p)%N ->
  parts s' = parts s /\ store s' = store s /\ next_id s' = next_id s /\ reg_pos (registry s') /\
  (forall p, rc s' p = (rc s p - cnt p pids)%N) /\
  (forall c p, In (c, p) (dedup s') -> In (c, p) (dedup s) /\ ~ In p zs) /\
  (forall p, In p zs -> In p pids /\ rc s' p = 0%N) /\
  (forall p, In p pids -> rc s' p = 0%N -> In p zs).
Proof.
  induction pids as [|x pids IH]; intros s s' zs H Hpos Hle; cbn [remove_refs] in H.
  - inversion H; subst. repeat apply conj; auto;
      try (intros p; cbn [cnt]; lia); try (intros c p A; split; [exact A | intros []]);
      try (intros p []).
  - destruct (remove_ref s x) as [s1 z] eqn:R1. destruct (remove_refs s1 pids) as [s2 zs'] eqn:R2.
    inversion H; subst s' zs; clear H.
    assert (Hx : (1 <= rc s x)%N).
    { specialize (Hle x). cbn [cnt] in Hle. rewrite N.eqb_refl in Hle. lia. }
    destruct (remove_ref_spec _ _ _ _ R1 Hpos Hx) as [P1 [S1 [N1 [Pos1 [Rc1 [Z1 D1]]]]]].
    assert (Hle1 : forall p, (cnt p pids <= rc s1 p)%N).
    { intros p. specialize (Hle p). cbn [cnt] in Hle. rewrite Rc1. destruct (N.eqb x p); lia. }
    destruct (IH _ _ _ R2 Pos1 Hle1) as [P2 [S2 [N2 [Pos2 [Rc2 [D2 [Z2 Z3]]]]]]].
    assert (Hrc : forall p, rc s2 p = (rc s p - cnt p (x :: pids))%N).
    { intros p. rewrite Rc2, Rc1. cbn [cnt]. lia. }
    repeat apply conj; try congruence; auto.
    + intros c p H. destruct (D2 c p H) as [A Bq]. split.
      * rewrite D1 in A. destruct z; [|exact A]. apply filter_In in A. apply A.
      * intros I. destruct z; [|contradiction].
        destruct I as [<-|I]; [|contradiction]. rewrite D1 in A. apply filter_In in A.
        destruct A as [_ A]. cbn [snd] in A. rewrite N.eqb_refl in A. discriminate.
    + intros p H. destruct z.
      * destruct H as [<-|H].
        -- split; [left; reflexivity|]. rewrite Rc2. assert (rc s1 x = 0%N) by (apply Z1; reflexivity). lia.
        -- split; [right|]; apply (Z2 p H).
      * split; [right|]; apply (Z2 p H).
    + intros p Hin Hz. destruct Hin as [<-|Hin].
      * destruct z eqn:Ez; [left; reflexivity|].
        assert (rc s1 x <> 0%N) as Hnz by (intros A; apply Z1 in A; discriminate).
        assert (In x pids) as Hin.
        { apply cnt_pos_In. rewrite Rc2 in Hz. specialize (Hle1 x). lia. }
        apply (Z3 x Hin Hz).
      * specialize (Z3 p Hin Hz). destruct z; [right|]; exact Z3.
Qed.

Lemma remove_part_rows_inv s sel s' zs pend orph :
  remove_part_rows s sel = (s', zs) -> PInvG s pend orph -> PInvG s' pend (zs ++ orph).
Proof.
  intros H [H1 H2 H3 H4 H5 H6 H7 H8 H9 H10 H11]. unfold remove_part_rows in H.
  set (gone := filter sel (parts s)) in *.
  set (kept := filter (fun p => negb (sel p)) (parts s)) in *.
  assert (Hsplit : forall p, crows p (parts s) = (crows p gone + crows p kept)%N).
  { intros p. apply crows_filter_split. }
  assert (Hle : forall p, (cnt p (map p_pid gone) <= rc (set_parts s kept) p)%N).
  { intros p. unfold rc. cbn [registry set_parts]. fold (rc s p). rewrite H2, Hsplit. unfold crows. lia. }
  destruct (remove_refs_spec _ _ _ _ H H1 Hle) as [P [S [Nx [Pos [Rc [Dd [Z2 Z3]]]]]]].
  cbn [parts store next_id set_parts] in P, S, Nx.
  assert (Hrc : forall p, rc s' p = (rc s p - crows p gone)%N).
  { intros p. rewrite Rc. reflexivity. }
  assert (Hz : forall p, (0 < rc s p)%N -> rc s' p = 0%N -> In p zs).
  { intros p A Bq. apply Z3; [|exact Bq]. apply cnt_pos_In. rewrite Hrc in Bq.
    fold (crows p gone). lia. }
  constructor; rewrite ?P, ?S, ?Nx; auto.
  - intros p. rewrite Hrc, H2, Hsplit. lia.
  - intros row Hr. apply H3. unfold kept in Hr. apply filter_In in Hr. apply Hr.
  - intros p. rewrite Hrc. specialize (H5 p). lia.
  - intros c p Hd. destruct (Dd c p Hd) as [A Bq]. destruct (H6 c p A) as [E F]. split; [exact E|].
    destruct F as [F|F]; [|right; exact F]. destruct (N.eq_dec (rc s' p) 0) as [G|G]; [|left; lia].
    exfalso. apply Bq. apply Hz; assumption.
  - intros p Hp. apply in_app_or in Hp. destruct Hp as [Hp|Hp].
    + destruct (Z2 p Hp) as [A Bq]. split; [exact Bq|].
      apply In_cnt_pos in A. fold (crows p gone) in A. specialize (H5 p). specialize (H2 p). specialize (Hsplit p). lia.
    + destruct (H8 p Hp) as [A Bq]. split; [rewrite Hrc; lia | exact Bq].
  - intros Hs p c Hg. destruct (H9 Hs p c Hg) as [A|[A|A]].
    + destruct (N.eq_dec (rc s' p) 0) as [G|G]; [|left; lia].
      right; right. apply in_or_app. left. apply Hz; assumption.
    + right; left; exact A.
    + right; right. apply in_or_app. right; exact A.
  - intros p Hp. destruct (H10 p Hp) as [A [Bq [C E]]]. repeat apply conj; auto.
    + rewrite Hrc; lia.
    + intros c Hc. apply (C c). apply (Dd c p Hc).
Qed.

(* ---------- deleteUnreferencedParts ---------- *)
Lemma delete_unreferenced_spec l : forall s,
  let s' := delete_unreferenced s l in
  parts s' = parts s /\ registry s' = registry s /\ dedup s' = dedup s /\ next_id s' = next_id s /\
  (forall p c, In (p, c) (store s') -> In (p, c) (store s)) /\
  (forall p, In p l -> store_get (store s') p = None) /\
  (forall p, ~ In p l -> store_get (store s') p = store_get (store s) p).
Proof.
  unfold delete_unreferenced. induction l as [|x l IH]; intros s; cbn [fold_left].
  - repeat apply conj; auto. intros p [].
  - destruct (IH (store_del s x)) as [P [R [Dd [Nx [I1 [G1 G2]]]]]].
    cbn [parts registry dedup next_id store store_del set_store] in *.
    repeat apply conj; auto.
    + intros p c Hi. specialize (I1 p c Hi). apply filter_In in I1. apply I1.
    + intros p Hp. destruct (in_dec N.eq_dec p l) as [Hl|Hl]; [apply G1; exact Hl|].
      rewrite G2 by exact Hl. destruct Hp as [<-|Hp]; [|contradiction]. apply store_get_del_same.
    + intros p Hp. assert (~ In p l) as Hl by (intros A; apply Hp; right; exact A).
      rewrite G2 by exact Hl. apply store_get_del_other. intros ->. apply Hp. left; reflexivity.
Qed.

Lemma delete_unreferenced_inv s pend orph :
  PInvG s pend orph -> PInvG (delete_unreferenced s orph) pend [].
Proof.
  intros [H1 H2 H3 H4 H5 H6 H7 H8 H9 H10 H11].
  destruct (delete_unreferenced_spec orph s) as [P [R [Dd [Nx [I1 [G1 G2]]]]]].
  assert (Hkeep : forall p, (0 < rc s p)%N \/ (0 < cnew p pend)%N -> ~ In p orph).
  { intros p A Bq. destruct (H8 p Bq). lia. }
  assert (Hrc : forall p, rc (delete_unreferenced s orph) p = rc s p).
  { intros p. unfold rc. rewrite R. reflexivity. }
  constructor; rewrite ?P, ?R, ?Dd, ?Nx; auto.
  - intros p. rewrite Hrc. apply H2.
  - intros row Hr. rewrite G2; [apply H3; exact Hr|]. apply Hkeep. left.
    rewrite H2. pose proof (In_crows_pos row _ Hr). lia.
  - intros np Hn. rewrite G2; [apply H4; exact Hn|]. apply Hkeep.
    pose proof (In_pend_pos np pend Hn) as A. rewrite H2.
    destruct (n_pre np); [left | right]; lia.
  - intros p. rewrite Hrc. apply H5.
  - intros c p Hd. destruct (H6 c p Hd) as [A Bq]. rewrite Hrc. split; [|exact Bq]. rewrite G2; [exact A|]. apply Hkeep; exact Bq.
  - intros p c Hi. apply (H7 p c). apply I1. exact Hi.
  - intros p [].
  - intros Hs p c Hg. rewrite Hrc. destruct (in_dec N.eq_dec p orph) as [Hi|Hi].
    + rewrite G1 in Hg by exact Hi. discriminate.
    + rewrite G2 in Hg by exact Hi. destruct (H9 Hs p c Hg) as [A|[A|A]]; auto. contradiction.
  - intros p Hp. rewrite Hrc. apply H10. exact Hp.
Qed.

(* ---------- TryAddReferences for the rows of an existing object ---------- *)
Lemma try_add_refs_inv s ps reg pend orph :
  try_add_refs (registry s) (map p_pid ps) = Some reg ->
  (forall row, In row ps -> In row (parts s)) ->
  PInvG s pend orph -> PInvG (set_registry s reg) (shared_of ps ++ pend) orph.
Proof.
  intros H Hsub [H1 H2 H3 H4 H5 H6 H7 H8 H9 H10 H11].
  destruct (try_add_refs_spec _ _ _ H H1) as [Pos Rc].
  assert (Hrc : forall p, rc (set_registry s reg) p = (rc s p + crows p ps)%N).
  { intros p. unfold rc. cbn [registry set_registry]. rewrite Rc. reflexivity. }
  assert (Hz : forall p, rc s p = 0%N -> crows p ps = 0%N).
  { intros p A. destruct (N.eq_dec (crows p ps) 0) as [Bq|Bq]; [exact Bq|]. exfalso.
    assert (0 < crows p ps)%N as C by lia. apply crows_pos_In in C. destruct C as [row [I E]].
    pose proof (In_crows_pos row _ (Hsub row I)) as F. rewrite E in F. specialize (H2 p). lia. }
  constructor; rewrite ?Hrc; cbn [registry parts store dedup next_id set_registry]; auto.
  - intros p. rewrite Hrc, cpre_app, cpre_shared, H2. lia.
  - intros np Hn. apply in_app_or in Hn. destruct Hn as [Hn|Hn]; [|apply H4; exact Hn].
    unfold shared_of in Hn. apply in_map_iff in Hn. destruct Hn as [row [<- I]]. cbn [n_pid n_content].
    apply H3. apply Hsub. exact I.
  - intros p. rewrite Hrc, cnew_app, cnew_shared. destruct (H5 p) as [A|[A Bq]]; [left; lia|].
    right. rewrite (Hz p Bq). lia.
  - intros c p Hd. destruct (H6 c p Hd) as [A Bq]. split; [exact A|]. rewrite Hrc, cnew_app, cnew_shared. lia.
  - intros p Hp. destruct (H8 p Hp) as [A Bq]. rewrite Hrc, cnew_app, cnew_shared, (Hz p A). lia.
  - intros Hs p c Hg. rewrite Hrc, cnew_app, cnew_shared.
    destruct (H9 Hs p c Hg) as [A|[A|A]]; [left; lia | right; left; lia | right; right; exact A].
  - intros p Hp. destruct (H10 p Hp) as [A [Bq [C E]]]. rewrite Hrc, cnew_app, cnew_shared, (Hz p A).
    repeat split; auto; lia.
Qed.

(* ---------- PutPart of fresh bytes + dedupeFreshPart ---------- *)
Ltac frc := repeat match goal with
                   | |- context [rcr (registry ?s) ?p] => change (rcr (registry s) p) with (rc s p)
                   end.
Lemma put_fresh_part_inv s c np s' :
  put_fresh_part s c = (np, s') -> PInvG s [] [] -> PInvG s' [np] [].
Proof.
  intros H [H1 H2 H3 H4 H5 H6 H7 H8 H9 H10 H11].
  set (pid := next_id s) in *.
  assert (Hnone : store_get (store s) pid = None).
  { destruct (store_get (store s) pid) as [c'|] eqn:G; [|reflexivity].
    apply store_get_In in G. apply H7 in G. unfold pid in G. lia. }
  assert (Hrc0 : rc s pid = 0%N).
  { rewrite H2. cbn [cpre]. destruct (N.eq_dec (crows pid (parts s)) 0) as [A|A]; [lia|].
    assert (0 < crows pid (parts s))%N as A' by lia. apply crows_pos_In in A'. destruct A' as [row [I E]].
    apply H3 in I. rewrite E in I. congruence. }
  assert (Hstored : forall p c', store_get (store s) p = Some c' -> N.eqb pid p = false).
  { intros p c' G. apply N.eqb_neq. intros <-. congruence. }
  unfold put_fresh_part in H. cbn [fresh] in H. fold pid in H.
  cbn [store_put dedup set_store] in H.
  destruct (dedup_get (dedup s) c) as [shared|] eqn:Dg.
  - apply dedup_get_In in Dg. destruct (H6 c shared Dg) as [Ss Rs]. cbn [cnew] in Rs.
    assert (0 < rc s shared)%N as Rs' by lia. clear Rs.
    rewrite try_add_refs_one in H. cbn [registry set_store store_put] in H.
    unfold rc, rcr in Rs'. destruct (reg_get (registry s) shared) as [k|] eqn:G; [|lia].
    destruct (0 <? k)%N eqn:Ek; [|lia].
    inversion H; subst np s'; clear H.
    assert (Hsp : shared <> pid) by (intros ->; congruence).
    assert (Hrc : forall p, rcr (reg_set (registry s) shared (k + 1)) p =
                         (rc s p + if N.eqb shared p then 1 else 0)%N).
    { intros p. rewrite rcr_set.
      destruct (N.eqb shared p) eqn:E; [|unfold rc; lia]. apply N.eqb_eq in E; subst p. unfold rc, rcr. rewrite G. lia. }
    assert (Hst : forall p, p <> pid -> store_get (filter (fun x => negb (N.eqb (fst x) pid)) ((pid, c) :: store s)) p =
                                       store_get (store s) p).
    { intros p Hp. rewrite store_get_del_other by exact Hp. cbn [store_get].
      destruct (N.eqb pid p) eqn:E; [apply N.eqb_eq in E; congruence | reflexivity]. }
    assert (Hst2 : forall p c', store_get (store s) p = Some c' -> p <> pid) by (intros p c' A ->; congruence).
    constructor; unfold rc;
      cbn [parts dedup store next_id store_del store_put set_store set_registry registry]; fold (rc s).
    + apply reg_pos_set; [exact H1 | lia].
    + intros p. rewrite Hrc, H2. cbn [cpre n_pre n_pid andb]. lia.
    + intros row Hr. specialize (H3 row Hr). rewrite Hst; [exact H3 | apply (Hst2 _ _ H3)].
    + intros n [<-|[]]. cbn [n_pid n_content]. rewrite Hst; [exact Ss | exact Hsp].
    + intros p. left. cbn [cnew n_pre negb andb]. reflexivity.
    + intros c' p Hd. destruct (H6 c' p Hd) as [A Bq]. cbn [cnew] in Bq. split.
      * rewrite Hst; [exact A | apply (Hst2 _ _ A)].
      * left. rewrite Hrc. lia.
    + intros p c' Hi. apply filter_In in Hi. destruct Hi as [Hi Hn]. destruct Hi as [Hi|Hi].
      * inversion Hi; subst. cbn [fst] in Hn. rewrite N.eqb_refl in Hn. discriminate.
      * apply H7 in Hi. lia.
    + intros p [].
    + intros Hs p c' Hg. destruct (N.eq_dec p pid) as [->|Hp].
      * rewrite store_get_del_same in Hg. discriminate.
      * rewrite Hst in Hg by exact Hp. destruct (H9 Hs p c' Hg) as [A|[A|[]]]; [|cbn [cnew] in A; lia].
        left. rewrite Hrc. lia.
    + intros p Hp. destruct (H10 p Hp) as [A [Bq [C E]]]. rewrite Hrc. cbn [cnew n_pre negb andb].
      assert (N.eqb shared p = false) as F.
      { apply N.eqb_neq. intros ->. unfold rc, rcr in A. rewrite G in A. lia. }
      rewrite F. repeat apply conj; auto; lia.
    + lia.
  - inversion H; subst np s'; clear H.
    assert (Hcn : forall p, cnew p [{| n_pid := pid; n_content := c; n_pre := false |}] =
                            (if N.eqb pid p then 1 else 0)%N).
    { intros p. cbn [cnew n_pre n_pid negb andb]. lia. }
    constructor; unfold rc; cbn [parts dedup store next_id store_put set_store set_dedup registry]; idtac.
    + exact H1.
    + intros p. frc. rewrite H2. cbn [cpre n_pre andb]. reflexivity.
    + intros row Hr. specialize (H3 row Hr). cbn [store_get]. rewrite (Hstored _ _ H3). exact H3.
    + intros n [<-|[]]. cbn [n_pid n_content store_get]. rewrite N.eqb_refl. reflexivity.
    + intros p. frc. rewrite Hcn. destruct (N.eqb pid p) eqn:E; [|left; reflexivity].
      apply N.eqb_eq in E; subst p. right. split; [reflexivity | exact Hrc0].
    + intros c' p Hd. frc. rewrite Hcn. apply in_app_or in Hd. destruct Hd as [Hd|[Hd|[]]].
      * destruct (H6 c' p Hd) as [A Bq]. cbn [cnew] in Bq. cbn [store_get]. rewrite (Hstored _ _ A).
        split; [exact A | left; lia].
      * inversion Hd; subst c' p. cbn [store_get]. rewrite N.eqb_refl. split; [reflexivity | right; lia].
    + intros p c' [Hi|Hi]; [inversion Hi; subst; lia | apply H7 in Hi; lia].
    + intros p [].
    + intros Hs p c' Hg. frc. rewrite Hcn. cbn [store_get] in Hg. destruct (N.eqb pid p) eqn:E; [right; left; lia|].
      destruct (H9 Hs p c' Hg) as [A|[A|[]]]; [left; exact A | cbn [cnew] in A; lia].
    + intros p Hp. destruct (H10 p Hp) as [A [Bq [C E]]]. frc. rewrite Hcn.
      assert (N.eqb pid p = false) as F by (apply N.eqb_neq; unfold pid; lia).
      rewrite F. repeat apply conj; auto; [|lia].
      intros c' Hd. apply in_app_or in Hd. destruct Hd as [Hd|[Hd|[]]]; [apply (C c' Hd)|].
      inversion Hd; subst. rewrite N.eqb_refl in F. discriminate.
    + lia.
Qed.

End Inv.
