(* Proofs/SigV4AuthProofs.v — characterisation of the acceptance decision (C28 soundness, C29 completeness). *)
From Verif Require Import Bytes Codec SigV4 SigV4Spec.

Ltac step H :=
  match type of H with
  | (match ?x with _ => _ end) = _ => destruct x eqn:?; try discriminate
  | (if ?x then _ else _) = _ => destruct x eqn:?; try discriminate
  end.

Definition key_of (secret date region service term : bytes) : keymat :=
  {| k_secret := secret; k_date := date; k_region := region; k_service := service; k_term := term |}.
Definition msg_of (p : sigparams) (date region service term : bytes) (r : request) (esc : bytes) : sts :=
  {| s_alg := p_alg p; s_ts := p_timestamp p; s_scope := join B"/" [date; region; service; term];
     s_cr := canonical_request r esc (signed_header_names (p_signed_headers p)) (p_presigned p) |}.

Definition all_sensitive_signed (r : request) (names : list bytes) : bool :=
  forallb (fun kv => let lk := to_lower (fst kv) in negb (must_be_signed lk) || mem_bytes lk names) (r_headers r).
Definition ecdsa_streaming (r : request) : bool :=
  has_aws_chunked (hget B"Content-Encoding" (r_headers r))
  && mem_bytes (hget sha_hdr (r_headers r))
       [B"STREAMING-AWS4-ECDSA-P256-SHA256-PAYLOAD"; B"STREAMING-AWS4-ECDSA-P256-SHA256-PAYLOAD-TRAILER"].

Lemma check_auth_accept_iff cfg facts now r esc id :
  check_authentication cfg facts now r esc = Accepted id <->
  exists p date region service term secret t,
    parse_signature_parameters r = Some p /\
    p_alg p = alg_v4 /\
    split_on "/"%byte (p_credential p) = [id; date; region; service; term] /\
    region = c_region cfg /\
    find_cred id (c_creds cfg) = Some secret /\
    service = B"s3" /\ term = B"aws4_request" /\
    parse_timestamp (p_timestamp p) = Some t /\
    date = ts_date (p_timestamp p) /\
    (t - 900 * ns <= now)%Z /\ (now <= t + p_expiry_s p * ns)%Z /\
    mem_bytes B"host" (signed_header_names (p_signed_headers p)) = true /\
    all_sensitive_signed r (signed_header_names (p_signed_headers p)) = true /\
    needs_body_hash r (p_presigned p) && r_body_err r = false /\
    verify facts (key_of secret date region service term) (msg_of p date region service term r esc) (p_signature p) = true /\
    ecdsa_streaming r = false.
Proof.
  split.
  - intros H. unfold check_authentication in H. cbv zeta in H.
    step H. rename s into p.
    step H. apply negb_false_iff, bytes_eqb_eq in Heqb.
    step H. step H. step H. step H. step H. step H.
    step H. apply negb_false_iff, bytes_eqb_eq in Heqb0.
    step H. step H. apply negb_false_iff, bytes_eqb_eq in Heqb1.
    step H. apply negb_false_iff, bytes_eqb_eq in Heqb2.
    step H. step H. apply negb_false_iff, bytes_eqb_eq in Heqb3.
    step H. apply orb_false_iff in Heqb4. destruct Heqb4 as [W1 W2].
    apply Z.ltb_ge in W1. apply Z.ltb_ge in W2.
    step H. apply negb_false_iff in Heqb4.
    step H. apply negb_false_iff in Heqb5.
    step H.
    step H. apply negb_false_iff in Heqb7.
    step H. inversion H; subst.
    do 7 eexists. repeat split; try eassumption; try reflexivity.
  - intros (p & date & region & service & term & secret & t & H1 & H2 & H3 & H4 & H5 & H6 & H7 & H8 & H9 & W1 & W2 & H10 & H11 & HB & H12 & H13).
    subst region service term date.
    unfold check_authentication. cbv zeta. rewrite H1, H2, H3. rewrite !bytes_eqb_refl. cbn [negb].
    rewrite H5, H8.
    apply Z.ltb_ge in W1. apply Z.ltb_ge in W2. rewrite W1, W2. cbn [orb].
    rewrite H10. cbn [negb].
    unfold all_sensitive_signed in H11. rewrite H11. cbn [negb]. rewrite HB.
    unfold key_of, msg_of in H12. rewrite H2 in H12. rewrite H12. cbn [negb].
    unfold ecdsa_streaming in H13. rewrite H13. reflexivity.
Qed.
