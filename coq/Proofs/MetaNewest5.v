(* Proofs/MetaNewest5.v — M-META, "latest is newest" (C02), layer 5: the remaining operations, the step theorem,
   and the history theorem: outside the defect region the current version is the most recently written one. *)
From Verif Require Import Bytes Codec Md5 Meta MetaBasics MetaWitness MetaRows1 MetaRows2 MetaRows3 MetaRows4 MetaRows5 MetaRows6.
From Verif Require Import MetaNewest1 MetaNewest2 MetaNewest3 MetaNewest4.
From Coq Require Import ZifyBool ZifyN ZifyNat.

Section Key.
Variables (b k : bytes).
Notation K := (K b k).
Notation Q := (Q b k).
Notation isK := (isK b k).

Lemma op_cmu_Q i s : unique_ok s = true -> Q i s -> Q (i + 1) (fst (op_cmu (with_ids s i) i b k)).
Proof.
  intros U HQ. apply (sub_close b k i s _ U HQ). intros r Hr Kr. revert Hr. unfold op_cmu.
  repeat dm; cbn [fst snd]; [|tauto]. rewrite insert_row_objs. intros Hr.
  apply in_app_or in Hr. destruct Hr as [Hr|[<-|[]]]; [exact Hr|].
  unfold MetaNewest1.isK, completed, mk_row in Kr. cbn [o_upload] in Kr. rewrite andb_false_r in Kr. discriminate Kr.
Qed.

Lemma op_upload_part_Q i s u pn c : unique_ok s = true -> Q i s ->
  Q (i + 1) (fst (op_upload_part (with_ids s i) b k u pn c)).
Proof.
  intros U HQ. apply (sub_close b k i s _ U HQ). intros r Hr _. revert Hr. unfold op_upload_part.
  match goal with |- context[commit ?s0 ?body] => destruct (commit_cases_u s0 body) as [E|(E & _ & _)]; rewrite E; clear E end; [tauto|].
  unfold meta_upload_part. cbv beta zeta. repeat dm; cbn [fst snd]; try tauto.
  all: rewrite ?objs_delete_unreferenced, ?save_part_rows_objs, ?remove_part_rows_objs;
       try rewrite (sm_objs _ _ (same_put_fresh_part _ _)); tauto.
Qed.

Lemma op_abort_Q i s u : unique_ok s = true -> Q i s -> Q (i + 1) (fst (op_abort (with_ids s i) b k u)).
Proof.
  intros U HQ. apply (sub_close b k i s _ U HQ). intros r Hr _. revert Hr. unfold op_abort.
  match goal with |- context[commit ?s0 ?body] => destruct (commit_cases_u s0 body) as [E|(E & _ & _)]; rewrite E; clear E end; [tauto|].
  repeat dm; cbn [fst snd]; try tauto.
  rewrite objs_delete_unreferenced, delete_row_objs, remove_parts_of_objs. intros Hr. apply filter_In in Hr. tauto.
Qed.

(* ---------- the defect region, per operation ---------- *)
Definition good_op (s : mstate) (o : op) : bool :=
  match o with
  | OPut b' k' _ _ | OCp _ _ _ b' k' =>
      negb (bytes_eqb b' b && bytes_eqb k' k) || enabled b s || null_current b k s
  | OCpl b' k' _ _ _ => negb (bytes_eqb b' b && bytes_eqb k' k)
  | _ => true
  end.

Lemma step_Q i hist s o : Inv1 s -> Q i s -> good_op s o = true -> Q (i + 1) (fst (step i hist s o)).
Proof.
  intros [I [U _]] HQ G.
  assert (Fr : op_key o <> Some (b, k) -> Q (i + 1) (fst (step i hist s o))).
  { intros N. apply (Q_frame b k i (i + 1) s); [lia | apply (step_frame i hist s o b k I N) | exact HQ]. }
  destruct o; try (apply Fr; cbn; discriminate); cbn [op_key] in Fr.
  all: match goal with |- context[step _ _ _ ?op] =>
         match op with
         | OCp _ _ _ ?b' ?k' => destruct (bytes_eq_dec b' b) as [->|Nb]; [destruct (bytes_eq_dec k' k) as [->|Nk]|]
         | _ => destruct (bytes_eq_dec b0 b) as [->|Nb]; [destruct (bytes_eq_dec k0 k) as [->|Nk]|]
         end end;
       try (apply Fr; intros E; inversion E; congruence).
  all: cbn [step good_op] in *; rewrite ?bytes_eqb_refl in G; cbn [andb negb orb] in G.
  - apply op_put_Q; assumption.
  - apply op_delete_Q; assumption.
  - apply op_cmu_Q; assumption.
  - apply op_upload_part_Q; assumption.
  - discriminate G.
  - apply op_abort_Q; assumption.
  - apply op_append_Q; assumption.
  - apply op_copy_Q; assumption.
Qed.

(* ---------- histories ---------- *)
Fixpoint good_from (i : N) (hist : list res) (s : mstate) (ops : list op) : Prop :=
  match ops with
  | [] => True
  | o :: rest => good_op s o = true /\
                 good_from (i + 1) (snd (step i hist s o) :: hist) (fst (step i hist s o)) rest
  end.

Lemma run_from_Q ops : forall i hist s, Inv1 s -> Q i s -> good_from i hist s ops ->
  Q (i + N.of_nat (length ops)) (fst (run_from i hist s ops)).
Proof.
  induction ops as [|o ops IH]; intros i hist s H HQ G; cbn [run_from length].
  - rewrite N.add_0_r. exact HQ.
  - destruct G as [G1 G2]. pose proof (step_Q i hist s o H HQ G1) as HQ'. pose proof (step_inv1 i hist s o H) as H'.
    destruct (step i hist s o) as [s1 r]. cbn [fst snd] in *.
    replace (i + N.of_nat (S (length ops)))%N with (i + 1 + N.of_nat (length ops))%N by lia.
    apply IH; assumption.
Qed.

Lemma Q_init : Q 0 init.
Proof. split; cbn; try (intros; contradiction); try (intros r H; discriminate H). Qed.

(* prefix form of the side condition *)
Lemma good_from_prefixes ops : forall i hist s,
  (forall p o rest, ops = p ++ o :: rest -> good_op (fst (run_from i hist s p)) o = true) -> good_from i hist s ops.
Proof.
  induction ops as [|o ops IH]; intros i hist s H; cbn [good_from]; [exact I|]. split.
  - apply (H [] o ops). reflexivity.
  - apply IH. intros p o' rest E. specialize (H (o :: p) o' rest). cbn [app run_from] in H.
    destruct (step i hist s o) as [s1 r]. cbn [fst snd]. apply H. rewrite E. reflexivity.
Qed.

Theorem latest_is_newest_partial ops :
  (forall p o rest, ops = p ++ o :: rest -> good_op (fst (run p)) o = true) ->
  forall r, find_latest (fst (run ops)) b k = Some r ->
  forall r', In r' (objs (fst (run ops))) -> on_key b k r' = true -> completed r' = true ->
  (o_written r' <= o_written r)%N.
Proof.
  intros G r Hr r' Hr' Kr' Cr'.
  pose proof (run_from_Q ops 0 [] init init_inv1 Q_init (good_from_prefixes ops 0 [] init G)) as HQ.
  exact (qLM b k _ _ HQ r Hr (core r') (in_K b k _ r' Hr' Kr' Cr')).
Qed.
End Key.
