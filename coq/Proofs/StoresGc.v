(* Proofs/StoresGc.v — C08 over several part stores: every interleaving of storage operations (incl. cross-store
   transitions of objects whose parts are shared) and collector steps keeps every referenced part in the store
   recorded on its part row. *)
From Coq Require Import Lia ZifyBool ZifyN ZifyNat.
From Verif Require Import Bytes Codec MetaGc MetaGcStores StoresBasics StoresBlocks StoresOps.

(* ---- fresh ids only grow ---- *)
Lemma unref_nextp s r : nextp (unref s r) = nextp s.
Proof. unfold unref. destruct (rget _ _); auto. destruct (_ <? 1)%N; auto. destruct (_ =? 1)%N; auto. Qed.
Lemma fold_unref_nextp l : forall s, nextp (fold_left unref l s) = nextp s.
Proof. induction l; cbn; intros; auto. now rewrite IHl, unref_nextp. Qed.
Lemma drop_rows_nextp s sel : nextp (drop_rows s sel) = nextp s.
Proof. unfold drop_rows. now rewrite fold_unref_nextp. Qed.
Lemma dedupe_nextp s st c id : nextp (fst (fst (dedupe s st c id))) = nextp s.
Proof.
  unfold dedupe. destruct (iget _ _) as [e0|]; [|reflexivity]. destruct (live s e0); [|reflexivity].
  cbn. now destruct (addref_blobs s e0) as (_ & _ & _ & ? & _).
Qed.
Lemma add_rows_nextp l : forall s, nextp (add_rows s l) = nextp s.
Proof.
  unfold add_rows. induction l as [|[r p] l IH]; cbn; intros; auto. rewrite IH.
  now destruct (add_row_frame s r p) as (_ & ? & _).
Qed.
Lemma addrefs_nextp ids s : nextp (addrefs s ids) = nextp s.
Proof. now destruct (addrefs_frame ids s) as (_ & _ & _ & ? & _). Qed.
Lemma move_parts_nextp dst : forall ps s s' rs sh, move_parts s dst ps = Some (s', rs, sh) -> (nextp s <= nextp s')%N.
Proof.
  induction ps as [|p ps IH]; cbn; intros s s' rs sh H.
  - inversion H. lia.
  - destruct (N.eqb (r_store p) dst).
    + destruct (move_parts s dst ps) as [[[s1 r1] h1]|] eqn:E; [|discriminate]. inversion H. subst. eauto.
    + destruct (bget _ _); [|discriminate].
      destruct (move_parts _ dst ps) as [[[s1 r1] h1]|] eqn:E; [|discriminate]. inversion H. subst.
      apply IH in E. cbn in E. lia.
Qed.
Lemma copy_parts_nextp dst : forall ps s s' rs sh, copy_parts s dst ps = Some (s', rs, sh) -> (nextp s <= nextp s')%N.
Proof.
  induction ps as [|p ps IH]; cbn; intros s s' rs sh H.
  - inversion H. lia.
  - destruct (N.eqb (r_store p) dst).
    + destruct (copy_parts s dst ps) as [[[s1 r1] h1]|] eqn:E; [|discriminate]. inversion H. subst. eauto.
    + destruct (iget _ _) as [e0|].
      * destruct (live s e0).
        -- destruct (copy_parts _ dst ps) as [[[s1 r1] h1]|] eqn:E; [|discriminate]. inversion H. subst.
           apply IH in E. now destruct (addref_blobs s e0) as (_ & _ & _ & <- & _).
        -- cbn in H. destruct (bget _ _); [|discriminate].
           destruct (copy_parts _ dst ps) as [[[s1 r1] h1]|] eqn:E; [|discriminate]. inversion H. subst.
           apply IH in E. cbn in E. lia.
      * destruct (bget _ _); [|discriminate].
        destruct (copy_parts _ dst ps) as [[[s1 r1] h1]|] eqn:E; [|discriminate]. inversion H. subst.
        apply IH in E. cbn in E. lia.
Qed.

Lemma write_nextp s st c sel h slot : (nextp s <= nextp (write_part s st c sel h slot))%N.
Proof.
  unfold write_part. change (alloc s st c) with (nextp s, snd (alloc s st c)). cbn iota beta.
  pose proof (dedupe_nextp (snd (alloc s st c)) st c (nextp s)) as Hd.
  destruct (dedupe _ st c (nextp s)) as [[s2 id'] pre]. cbn [fst] in Hd.
  match goal with |- context [add_row ?x ?r ?p] => destruct (add_row_frame x r p) as (_ & -> & _) end.
  destruct sel; [rewrite drop_rows_nextp|]; rewrite Hd; cbn; lia.
Qed.

Lemma sop_run_nextp s o : (nextp s <= nextp (fst (sop_run s o)))%N.
Proof.
  destruct o; cbn [sop_run fst].
  - unfold q_put. pose proof (write_nextp s (h_cs x) c (Some (fun r => N.eqb (r_h r) (h_id x))) (h_id x) 0) as Hw.
    unfold write_part in Hw. destruct (alloc s (h_cs x) c) as [id s1]. destruct (dedupe s1 (h_cs x) c id) as [[s2 id'] pre]. exact Hw.
  - unfold q_append_inplace. set (x := match find_hold s h with Some x => x | None => _ end).
    destruct (alloc s (h_cs x) c) as [id s1] eqn:Ea. destruct (dedupe s1 (h_cs x) c id) as [[s2 id'] pre] eqn:Ed.
    pose proof (write_nextp s (h_cs x) c None h (match rev (rows_of s2 h) with [] => 0%N | l :: _ => (r_slot l + 1)%N end)) as Hw.
    unfold write_part in Hw. rewrite Ea, Ed in Hw. exact Hw.
  - unfold q_append_version. set (st := match _ with Some x => h_cs x | None => 0%N end).
    change (alloc s st c) with (nextp s, snd (alloc s st c)). cbn iota beta.
    pose proof (dedupe_nextp (snd (alloc s st c)) st c (nextp s)) as Hd.
    destruct (dedupe _ st c (nextp s)) as [[s2 id'] pre]. cbn [fst] in Hd.
    destruct (all_live s2 _); cbn [negb fst]; [|lia].
    cbn [set_hold w_holds nextp]. rewrite add_rows_nextp, addrefs_nextp, Hd. cbn. lia.
  - unfold q_copy. destruct (find_hold s src) as [x|]; [|cbn; lia]. destruct (h_pend x); [cbn; lia|].
    destruct (copy_parts s (h_cs dst) _) as [[[s1 rs] sh]|] eqn:E; [|cbn; lia].
    destruct (all_live s1 sh); cbn [negb fst]; [|lia].
    cbn [set_hold w_holds nextp]. rewrite add_rows_nextp, drop_rows_nextp, addrefs_nextp. eapply copy_parts_nextp; eauto.
  - unfold q_transition. destruct (find_hold s h) as [x|]; [|cbn; lia]. destruct (h_pend x); [cbn; lia|].
    destruct (move_parts s dst _) as [[[s1 rs] sh]|] eqn:E; [|cbn; lia].
    destruct (all_live s1 sh); cbn [negb fst]; [|lia].
    cbn [set_hold w_holds nextp]. rewrite add_rows_nextp, drop_rows_nextp, addrefs_nextp. eapply move_parts_nextp; eauto.
  - unfold q_drop. cbn. rewrite drop_rows_nextp. lia.
  - cbn. lia.
  - unfold q_upload. destruct (find_hold s m) as [x|]; [|cbn; lia]. destruct (h_pend x); cbn [negb]; [|cbn; lia].
    pose proof (write_nextp s (h_cs x) c (Some (fun r => N.eqb (r_h r) m && N.eqb (r_slot r) pn)) m pn) as Hw.
    unfold write_part in Hw. destruct (alloc s (h_cs x) c) as [id s1]. destruct (dedupe s1 (h_cs x) c id) as [[s2 id'] pre]. exact Hw.
  - unfold q_upload_copy. destruct (find_hold s src) as [sx|]; [|cbn; lia]. destruct (find_hold s m) as [x|]; [|cbn; lia].
    destruct (h_pend sx); [cbn; lia|]. destruct (h_pend x); cbn [negb]; [|cbn; lia].
    assert (forall c0, (nextp s <= nextp (fst (let '(id, s1) := alloc s (h_cs x) c0 in
                         let '(s2, id', pre) := dedupe s1 (h_cs x) c0 id in
                         let s3 := drop_rows s2 (fun r => N.eqb (r_h r) m && N.eqb (r_slot r) pn) in
                         (add_row s3 {| r_h := m; r_slot := pn; r_id := id'; r_store := h_cs x; r_cont := c0 |} pre, @None serr))))%N) as Hc.
    { intros c0. pose proof (write_nextp s (h_cs x) c0 (Some (fun r => N.eqb (r_h r) m && N.eqb (r_slot r) pn)) m pn) as Hw.
      unfold write_part in Hw. destruct (alloc s (h_cs x) c0) as [id s1]. destruct (dedupe s1 (h_cs x) c0 id) as [[s2 id'] pre]. exact Hw. }
    destruct (rows_of s src) as [|p [|p2 ps]].
    + destruct (read_rows s []); [apply Hc|cbn; lia].
    + destruct (N.eqb (r_store p) (h_cs x)).
      * destruct (live s (r_id p)); cbn [negb fst]; [|lia].
        match goal with |- context [add_row ?x ?r ?p] => destruct (add_row_frame x r p) as (_ & -> & _) end.
        rewrite drop_rows_nextp. destruct (addref_blobs s (r_id p)) as (_ & _ & _ & -> & _). lia.
      * destruct (read_rows s [p]); [apply Hc|cbn; lia].
    + destruct (read_rows s _); [apply Hc|cbn; lia].
  - unfold q_complete. destruct (find_hold s m) as [x|]; [|cbn; lia]. destruct (h_pend x); cbn [negb]; [|cbn; lia].
    destruct (contiguous 1 _); cbn [negb fst]; [|lia]. cbn. rewrite drop_rows_nextp. lia.
Qed.

(* ---- weakening / extending the dead set ---- *)
Lemma SInv_weaken (D D' : N -> Prop) s : (forall x, D' x -> D x) -> SInv D s -> SInv D' s.
Proof.
  intros Hsub [H1 H2 H3 H4 H5 H6 H7]. constructor; auto.
  intros id []. 
Qed.
Lemma SInv_add_dead (D : N -> Prop) s id : SInv D s -> scount s id = 0%N -> rget (reg s) id = None ->
  (forall k, ~ In (k, id) (idx s)) -> (id < nextp s)%N -> SInv (fun x => D x \/ x = id) s.
Proof.
  intros [H1 H2 H3 H4 H5 H6 H7] Hc Hr Hi Hlt. constructor; auto.
  - intros x [].
  - intros x [Hx| ->]; auto.
Qed.

(* ---- collector steps ---- *)
Definition sharmless (o : sobs) : Prop := so_ref o = Some (so_actual o) /\ so_actual o <> 0%N.
Lemma sharmless_noop s o b : sharmless o -> sapply_obs s o b = s.
Proof.
  intros [Hr Hz]. unfold sapply_obs. rewrite Hr. destruct (N.eqb_spec (so_actual o) 0); [contradiction|]. now rewrite N.eqb_refl.
Qed.
Lemma In_nodup_N x l : In x (nodup_N l) -> In x l.
Proof. induction l as [|y l IH]; cbn; auto. destruct (mem_N y l); cbn; intuition. Qed.
Lemma sreconciliation_harmless D s : SInv D s -> Forall sharmless (sreconciliation s).
Proof.
  intros H. unfold sreconciliation. apply Forall_app. split; apply Forall_forall; intros o Ho.
  - apply in_map_iff in Ho. destruct Ho as [p [<- Hp]]. apply In_nodup_N in Hp.
    apply in_map_iff in Hp. destruct Hp as [r [<- Hr]].
    assert (scount s (r_id r) <> 0%N) as Hpos by (rewrite scount_cntid; eapply cntid_In_pos; eauto).
    split; cbn; auto. rewrite (pi_reg _ _ _ _ H). unfold zero_e. rewrite N.add_0_r. now apply optn_Some.
  - apply in_map_iff in Ho. destruct Ho as [[p c] [<- Hp]]. apply filter_In in Hp. cbn in Hp. destruct Hp as [Hin Hz].
    apply N.eqb_eq in Hz. exfalso. eapply (rget_None_notin (reg s) p); eauto.
    rewrite (pi_reg _ _ _ _ H), Hz. reflexivity.
Qed.

Lemma smin_id_spec s st c d :
  smin_id s st c d = d \/ exists r, In r (rows s) /\ r_store r = st /\ r_cont r = c /\ r_id r = smin_id s st c d.
Proof.
  unfold smin_id.
  assert (forall l m, (forall x, In x l -> In x (rows s)) ->
            (m = d \/ exists r, In r (rows s) /\ r_store r = st /\ r_cont r = c /\ r_id r = m) ->
            let v := fold_left (fun m p => if N.eqb (r_store p) st && bytes_eqb (r_cont p) c then N.min m (r_id p) else m) l m in
            v = d \/ exists r, In r (rows s) /\ r_store r = st /\ r_cont r = c /\ r_id r = v) as H.
  { induction l as [|x l IH]; cbn; intros m Hsub Hm; auto.
    apply IH; [intros; apply Hsub; now right|].
    destruct (N.eqb (r_store x) st && bytes_eqb (r_cont x) c) eqn:E; auto.
    apply andb_prop in E. destruct E as [E1 E2]. apply N.eqb_eq in E1. apply bytes_eqb_eq in E2.
    destruct (N.min_spec m (r_id x)) as [[_ ->]|[_ ->]]; auto.
    right. exists x. split; [apply Hsub; now left | auto]. }
  apply H; auto.
Qed.

Lemma sbackfill_idx_In s k id : In (k, id) (idx (sbackfill s)) ->
  In (k, id) (idx s) \/ exists r, In r (rows s) /\ r_store r = fst k /\ r_cont r = snd k /\ r_id r = id.
Proof.
  unfold sbackfill. cbn [w_idx idx].
  assert (forall l d0, (forall x, In x l -> In x (rows s)) ->
     (forall k id, In (k, id) d0 -> In (k, id) (idx s) \/ exists r, In r (rows s) /\ r_store r = fst k /\ r_cont r = snd k /\ r_id r = id) ->
     forall k id, In (k, id) (fold_left (fun d r => match iget d (r_store r, r_cont r) with
                                 | Some _ => d
                                 | None => d ++ [((r_store r, r_cont r), smin_id s (r_store r) (r_cont r) (r_id r))]
                                 end) l d0) ->
     In (k, id) (idx s) \/ exists r, In r (rows s) /\ r_store r = fst k /\ r_cont r = snd k /\ r_id r = id) as H.
  { induction l as [|x l IH]; cbn; intros d0 Hsub Hd0 k0 id0 Hin; [auto|].
    eapply IH; [intros; apply Hsub; now right| |exact Hin].
    intros k1 id1 H1. destruct (iget d0 (r_store x, r_cont x)); [auto|].
    apply in_app_or in H1. destruct H1 as [H1|[H1|[]]]; [auto|].
    inversion H1; subst. right. cbn.
    destruct (smin_id_spec s (r_store x) (r_cont x) (r_id x)) as [->|[r [? [? [? ?]]]]].
    - exists x. split; [apply Hsub; now left|auto].
    - exists r. auto. }
  intros Hin. eapply H; [| |exact Hin]; auto.
Qed.

Lemma sprune_backfill_SInv D s : SInv D s -> SInv D (sprune_backfill s).
Proof.
  intros H. unfold sprune_backfill.
  assert (SInv D (sprune s)) as Hp.
  { destruct H as [H1 H2 H3 H4 H5 H6 H7]. constructor; cbn [sprune w_idx reg rows blobs idx nextp]; auto.
    - intros st c id Hin. apply filter_In in Hin. destruct Hin. eauto.
    - intros id Hid. destruct (H7 _ Hid) as (a & b & Hi & d). repeat split; auto.
      intros k Hin. apply filter_In in Hin. destruct Hin. eapply Hi; eauto. }
  pose proof (sbackfill_idx_In (sprune s)) as Hin.
  destruct Hp as [H1 H2 H3 H4 H5 H6 H7]. constructor; cbn [sbackfill w_idx reg rows blobs idx nextp]; auto.
  - intros st c id Hi. destruct (Hin _ _ Hi) as [Ho|[r [Hr [Es [Ec <-]]]]]; [now apply H3|]. cbn in Es, Ec. subst.
    split; [now apply H2|]. left. rewrite H1. unfold zero_e. rewrite N.add_0_r.
    assert (scount (sprune s) (r_id r) <> 0%N) as Hpos by (rewrite scount_cntid; eapply cntid_In_pos; eauto).
    rewrite optn_Some by auto. discriminate.
  - intros id Hid. destruct (H7 _ Hid) as (a & b & Hi & d). repeat split; auto.
    intros k Hi'. destruct (Hin _ _ Hi') as [Ho|[r [Hr [_ [_ Heq]]]]]; [eapply Hi; eauto|].
    assert (scount (sprune s) id <> 0%N) by (rewrite scount_cntid; eapply cntid_In_pos; eauto). contradiction.
Qed.
Lemma sprune_backfill_nextp s : nextp (sprune_backfill s) = nextp s. Proof. reflexivity. Qed.

(* ---- the interleaving invariant ---- *)
Definition cond_ids (g : sg) : N -> Prop := fun id => In id (map snd (sg_cond g)).
Definition GS (g : sg) : Prop :=
  SInv (cond_ids g) (sm g)
  /\ Forall sharmless (sg_obs g)
  /\ Forall (fun k => (snd k < nextp (sm g))%N) (sg_cand g).

Lemma sginit_GS : GS sginit.
Proof.
  split; [|split; constructor]. constructor; cbn; try (intros; contradiction); try discriminate; auto.
Qed.

Lemma Forall_remove_nth' {A} (P : A -> Prop) k l : Forall P l -> Forall P (remove_nth k l).
Proof.
  revert k. induction l as [|x l IH]; intros [|k] H; cbn; auto; inversion H; subst; auto.
Qed.
Lemma In_remove_nth {A} (x : A) k l : In x (remove_nth k l) -> In x l.
Proof. revert k. induction l as [|y l IH]; intros [|k]; cbn; auto. intros [H|H]; eauto. Qed.

Lemma scondemn_one_GS g k : GS g -> (snd k < nextp (sm g))%N -> GS (scondemn_one g k).
Proof.
  intros (HS & HO & HC) Hlt. unfold scondemn_one, scondemn_check.
  rewrite (pi_reg _ _ _ _ HS). unfold zero_e. rewrite N.add_0_r. unfold optn.
  destruct (N.eqb_spec (scount (sm g) (snd k)) 0) as [Hz|Hnz].
  - cbn iota beta.
    split; [|split; auto].
    cbn [sg_wcond sg_sm sm sg_cond].
    assert (SInv (fun x => cond_ids g x \/ x = snd k) (w_idx (sm g) (idel_id (idx (sm g)) (snd k)))) as H'.
    { apply SInv_add_dead; cbn; auto.
      - now apply idx_shrink_PI.
      - rewrite (pi_reg _ _ _ _ HS), Hz. reflexivity.
      - intros k0 Hin. unfold idel_id in Hin. apply filter_In in Hin. cbn in Hin. rewrite N.eqb_refl in Hin. destruct Hin. discriminate. }
    eapply SInv_weaken; [|exact H']. unfold cond_ids. cbn. intros x Hx. rewrite map_app in Hx. apply in_app_or in Hx.
    destruct Hx as [Hx|[<-|[]]]; auto.
  - cbn. destruct (N.eqb_spec (scount (sm g) (snd k)) 0); [contradiction|]. cbn. exact (conj HS (conj HO HC)).
Qed.

Lemma sstep_GS g t : GS g -> GS (sstep_fn g t).
Proof.
  intros HG. pose proof HG as (HS & HO & HC). destruct t; cbn [sstep_fn].
  - split; [|split; auto]; cbn [sg_sm sm sg_cond sg_obs sg_cand].
    + now apply sop_run_SInv.
    + eapply Forall_impl; [|exact HC]. intros k Hk. pose proof (sop_run_nextp (sm g) o). cbn in *. lia.
  - split; [|split; auto]; cbn; auto. apply Forall_app. split; auto. eapply sreconciliation_harmless; eauto.
  - destruct (nth_error (sg_obs g) k) as [o|] eqn:En; auto.
    rewrite sharmless_noop by (rewrite Forall_forall in HO; apply HO; eapply nth_error_In; eauto).
    split; [|split]; cbn; auto using Forall_remove_nth'.
  - split; [|split; auto]; cbn [sg_sm sm sg_cond sg_obs sg_cand]; auto. now apply sprune_backfill_SInv.
  - split; [|split]; cbn; auto. apply Forall_app. split; auto. apply Forall_forall. intros k Hk.
    apply filter_In in Hk. destruct Hk as [Hk _]. apply in_map_iff in Hk. destruct Hk as [[k0 c] [<- Hin]].
    eapply (pi_bound _ _ _ _ HS); eauto.
  - destruct (nth_error (sg_cand g) k) as [c|] eqn:En; auto.
    apply scondemn_one_GS.
    + split; [|split]; cbn; auto using Forall_remove_nth'.
    + cbn. rewrite Forall_forall in HC. apply HC. eapply nth_error_In; eauto.
  - destruct (nth_error (sg_cond g) k) as [c|] eqn:En; auto.
    assert (cond_ids g (snd c)) as Hd by (unfold cond_ids; apply in_map; eapply nth_error_In; eauto).
    destruct (pi_dead _ _ _ _ HS _ Hd) as (Dc & Dr & Di & Dl).
    split; [|split]; cbn [sg_wcond sg_sm sm sg_cond sg_obs sg_cand]; auto.
    eapply SInv_weaken with (D := cond_ids g).
    { unfold cond_ids. cbn. intros x Hx. apply in_map_iff in Hx. destruct Hx as [y [<- Hy]]. apply in_map. eapply In_remove_nth; eauto. }
    destruct HS as [H1 H2 H3 H4 H5 H6 H7]. constructor; cbn [w_blobs reg rows blobs idx nextp]; auto.
    + intros r Hin. rewrite bget_del_other; auto. intros Heq. destruct c as [st id]. inversion Heq. cbn in Dc.
      assert (scount (sm g) id <> 0%N) by (rewrite scount_cntid; eapply cntid_In_pos; eauto). contradiction.
    + intros st c0 id Hin. destruct (H3 _ _ _ Hin) as [Ha Hb]. split; auto.
      rewrite bget_del_other; auto. intros Heq. destruct c as [st' id']. inversion Heq. subst. eapply Di; eauto.
    + intros k0 c0 Hin. apply In_bdel in Hin. eauto.
  - split; [|split]; cbn; auto.
    eapply SInv_weaken; [|exact HS]. unfold cond_ids. cbn. intros x Hx. apply in_map_iff in Hx. destruct Hx as [y [<- Hy]].
    apply in_map. eapply In_remove_nth; eauto.
  - split; [|split; auto]; cbn [sg_sm sm sg_cond sg_obs sg_cand].
    + now destruct (alloc_PI _ _ _ _ st c HS) as (Ha & _).
    + eapply Forall_impl; [|exact HC]. intros k Hk. cbn in *. lia.
Qed.

Lemma strace_GS tr : forall g, GS g -> GS (srun_trace g tr).
Proof. unfold srun_trace. induction tr as [|t tr IH]; cbn; auto. intros g H. apply IH. now apply sstep_GS. Qed.

(* reading through the part rows *)
Lemma read_rows_ok s ps :
  (forall r, In r ps -> bget (blobs s) (r_store r, r_id r) = Some (r_cont r)) ->
  read_rows s ps = Some (concat (map r_cont ps)).
Proof.
  induction ps as [|p ps IH]; cbn; intros H; auto.
  rewrite (H p) by now left. rewrite IH by (intros; apply H; now right). reflexivity.
Qed.

(* ---- statements of Properties/C08.v ---- *)
Lemma stores_safe tr : let s := sm (srun_trace sginit tr) in
  forall r, In r (rows s) -> bget (blobs s) (r_store r, r_id r) = Some (r_cont r).
Proof. cbn. destruct (strace_GS tr _ sginit_GS) as (H & _). apply (pi_present _ _ _ _ H). Qed.

Lemma stores_readable tr h : let s := sm (srun_trace sginit tr) in
  read_rows s (rows_of s h) = Some (concat (map r_cont (rows_of s h))).
Proof. cbn. apply read_rows_ok. intros r Hr. apply stores_safe. eapply rows_of_In; eauto. Qed.

Lemma stores_registry_exact tr id : let s := sm (srun_trace sginit tr) in
  rget (reg s) id = if N.eqb (scount s id) 0 then None else Some (scount s id).
Proof.
  cbn. destruct (strace_GS tr _ sginit_GS) as (H & _). rewrite (pi_reg _ _ _ _ H). unfold zero_e, optn. now rewrite N.add_0_r.
Qed.

Lemma stores_condemned_dead tr k : let g := srun_trace sginit tr in
  In k (sg_cond g) ->
  let s := sm g in
  scount s (snd k) = 0%N /\ rget (reg s) (snd k) = None /\ (forall key, ~ In (key, snd k) (idx s)).
Proof.
  cbn. intros Hin. destruct (strace_GS tr _ sginit_GS) as (H & _).
  destruct (pi_dead _ _ _ _ H (snd k)) as (a & b & c & _); [unfold cond_ids; now apply in_map|]. auto.
Qed.

Lemma stores_transition_keeps_sharers s h dst :
  SInv (fun _ => False) s ->
  let s' := fst (q_transition s h dst) in
  forall r, In r (rows s') -> bget (blobs s') (r_store r, r_id r) = Some (r_cont r).
Proof. intros H. cbn. apply (pi_present _ _ _ _ (q_transition_SInv _ s h dst H)). Qed.
