(* Proofs/CacheTxProofs.v — C19 round 3: the cache part store with a write transaction that is open while others read *)
From Verif Require Import Bytes Codec Cache CacheSpec CacheProofs CachePartProofs.
From Coq Require Import ZifyBool ZifyN ZifyNat.

(* ---------- readers never touch the transaction ---------- *)
Definition same_tx (w w' : world) : Prop := w_tx w' = w_tx w /\ w_ikind w' = w_ikind w.

Lemma same_tx_refl w : same_tx w w. Proof. split; reflexivity. Qed.
Lemma same_tx_trans a b c : same_tx a b -> same_tx b c -> same_tx a c.
Proof. intros [A1 A2] [B1 B2]. split; congruence. Qed.

Lemma fill_fail_tx sid ov w : same_tx w (fill_fail sid ov w).
Proof. unfold fill_fail. destruct (nlookup sid (w_sets w)); [destruct ov|]; split; reflexivity. Qed.
Lemma fill_ok_tx sid w w' : fill_ok sid w = Some w' -> same_tx w w'.
Proof.
  unfold fill_ok. destruct (nlookup sid (w_sets w)) as [pd|]; [|intros H; inversion H; apply same_tx_refl].
  destruct (c_end_ok _ _ _ _ _); intros H; inversion H. split; reflexivity.
Qed.
Lemma feed_tx sid c w : same_tx w (feed sid c w).
Proof.
  unfold feed. destruct (nlookup sid (w_sets w)) as [pd|]; [|apply same_tx_refl].
  destruct (c_chunk (pd_wr pd) c (w_c w)). destruct (pd_failat pd) as [j|]; [destruct (j <=? _)|]; split; reflexivity.
Qed.
Lemma h_close_tx hd w : same_tx w (h_close hd w).
Proof. destruct hd as [r|d o t|d o wr [|] sid t]; cbn; try apply same_tx_refl. apply fill_fail_tx. Qed.

Lemma h_read_tx hd n w c e hd' w' : h_read hd n w = Some (c, e, hd', w') -> same_tx w w'.
Proof.
  destruct hd as [r | data off trunc | data off written active sid trunc]; cbn [h_read].
  - destruct n as [n|]; [destruct (rd_read r n (c_p (w_c w)))|]; intros H; inversion H; apply same_tx_refl.
  - intros H; inversion H; apply same_tx_refl.
  - set (cc := match n with Some n0 => firstn n0 (skipn off data) | None => skipn off data end).
    set (written' := if active && (0 <? length cc) then written + length cc else written).
    set (over := active && (0 <? length cc) && (w_maxpart w <? written')).
    set (w1 := if active && (0 <? length cc) then if over then fill_fail sid true w else feed sid cc w else w).
    assert (same_tx w w1) as H1.
    { unfold w1. destruct (active && (0 <? length cc)); [|apply same_tx_refl]. destruct over; [apply fill_fail_tx | apply feed_tx]. }
    match goal with |- (if ?b then _ else _) = _ -> _ => destruct b end.
    + destruct trunc.
      * intros H; inversion H; subst. eapply same_tx_trans; [exact H1 | apply fill_fail_tx].
      * destruct (fill_ok sid w1) as [w2|] eqn:E; [|discriminate]. intros H; inversion H; subst.
        eapply same_tx_trans; [exact H1 | eapply fill_ok_tx; exact E].
    + intros H; inversion H; subst. exact H1.
Qed.

Lemma part_open_in_tx intx h id f w r w' : part_open_in intx h id f w = Some (r, w') -> same_tx w w'.
Proof.
  unfold part_open_in. destruct (nlookup h (w_handles w)); [intros H; inversion H; apply same_tx_refl|].
  destruct (c_get id (w_c w)) as [c [rd|]]; [intros H; inversion H; split; reflexivity|].
  destruct f as [|k| |j]; try (intros H; inversion H; split; reflexivity; fail);
    (destruct (alookup id (inner_view intx (set_c c w))) as [d|]; [|intros H; inversion H; split; reflexivity];
     cbv zeta; destruct (mem_bytes id (w_hints (set_c c w))); [intros H; inversion H; split; reflexivity|];
     destruct (c_begin id (-1) (w_c (set_c c w))) as [[c2 wr0]|]; [|discriminate]).
  - intros H; inversion H; split; reflexivity.
  - intros H; inversion H; split; reflexivity.
  - destruct j; intros H; inversion H; split; reflexivity.
Qed.

Lemma step1_reader_tx o w r w' :
  match o with ORead _ _ | OFinish _ | OClose _ => True | _ => False end ->
  step1 o w = Some (r, w') -> same_tx w w'.
Proof.
  destruct o; try contradiction; intros _; cbn [step1].
  - destruct (nlookup h (w_handles w)) as [hd|]; [|intros H; inversion H; apply same_tx_refl].
    destruct (would_hang hd (Some n) w); [intros H; inversion H; split; reflexivity|].
    destruct (h_read hd (Some n) w) as [[[[c e] hd'] w1]|] eqn:E; [|discriminate].
    intros H; inversion H; subst. destruct (h_read_tx _ _ _ _ _ _ _ E) as [A B]. split; cbn; assumption.
  - destruct (nlookup h (w_handles w)) as [hd|]; [|intros H; inversion H; apply same_tx_refl].
    destruct (would_hang hd None w); [intros H; inversion H; split; reflexivity|].
    destruct (h_read hd None w) as [[[[c e] hd'] w1]|] eqn:E; [|discriminate].
    intros H; inversion H; subst. pose proof (h_read_tx _ _ _ _ _ _ _ E) as H1. pose proof (h_close_tx hd' w1) as H2.
    destruct (same_tx_trans _ _ _ H1 H2) as [A B]. split; cbn; assumption.
  - destruct (nlookup h (w_handles w)) as [hd|]; intros H; inversion H; subst; [|apply same_tx_refl].
    destruct (h_close_tx hd w) as [A B]. split; cbn; assumption.
Qed.

(* a complete GetPart (any of the composite reader steps) leaves the transaction alone *)
Lemma get_composite_tx intx id w (k : world -> option (res * world)) r w' :
  (forall w1 r1 w2, k w1 = Some (r1, w2) -> same_tx w1 w2) ->
  match part_open_in intx tmp_handle id FNone w with
  | None => None
  | Some (ROpen _, w1) => k w1
  | Some (r0, w1) => Some (r0, w1)
  end = Some (r, w') -> same_tx w w'.
Proof.
  intros Hk H. destruct (part_open_in intx tmp_handle id FNone w) as [[r0 w1]|] eqn:E; [|discriminate].
  pose proof (part_open_in_tx _ _ _ _ _ _ _ E) as H1.
  destruct r0; try (inversion H; subst; exact H1). eapply same_tx_trans; [exact H1 | eapply Hk; exact H].
Qed.

Lemma finish_k_tx w1 r1 w2 : step1 (OFinish tmp_handle) w1 = Some (r1, w2) -> same_tx w1 w2.
Proof. apply step1_reader_tx. exact I. Qed.

Lemma readclose_k_tx n w1 r1 w2 :
  match step1 (ORead tmp_handle n) w1 with
  | None => None
  | Some (r, w2) => match step1 (OClose tmp_handle) w2 with None => None | Some (_, w3) => Some (r, w3) end
  end = Some (r1, w2) -> same_tx w1 w2.
Proof.
  destruct (step1 (ORead tmp_handle n) w1) as [[r a]|] eqn:E1; [|discriminate].
  destruct (step1 (OClose tmp_handle) a) as [[r2 b]|] eqn:E2; [|discriminate]. intros H; inversion H; subst.
  eapply same_tx_trans; [eapply step1_reader_tx; [|exact E1]; exact I | eapply step1_reader_tx; [|exact E2]; exact I].
Qed.

(* ---------- commit: the after-commit hooks bring the cache in line with the committed content ---------- *)
Definition touches (id : bytes) (o : txop) : bool := match o with TxPut i _ | TxDel i => bytes_eqb i id end.

Lemma commit_hooks_spec ops : forall w m w',
  pok (w_c w) ->
  (forall id v, clook (w_c w) id = Some v -> alookup id m = Some v \/ existsb (touches id) ops = true) ->
  commit_hooks ops w = Some w' ->
  pok (w_c w') /\ cache_sub (w_c w') (apply_txops ops m) /\
  w_inner w' = w_inner w /\ w_sets w' = w_sets w /\ w_handles w' = w_handles w /\ w_tx w' = w_tx w /\ w_ikind w' = w_ikind w.
Proof.
  induction ops as [|o ops IH]; intros w m w' Hp Hc H; cbn [commit_hooks] in H.
  - inversion H; subst. split; [exact Hp|]. split; [|repeat split].
    intros id v E. destruct (Hc id v E) as [A|A]; [exact A | discriminate A].
  - assert (forall id0 c2 (w2 : world) m2,
              w_c w2 = w_c w -> w_inner w2 = w_inner w -> w_sets w2 = w_sets w -> w_handles w2 = w_handles w ->
              w_tx w2 = w_tx w -> w_ikind w2 = w_ikind w ->
              touches id0 o = true -> (forall id, id <> id0 -> touches id o = false) ->
              pok c2 -> (forall v, clook c2 id0 = Some v -> alookup id0 m2 = Some v) ->
              (forall k', k' <> id0 -> nos (w_c w) c2 k') ->
              (forall id, id <> id0 -> alookup id m2 = alookup id m) ->
              commit_hooks ops (set_c c2 w2) = Some w' ->
              apply_txops ops m2 = apply_txops (o :: ops) m ->
              pok (w_c w') /\ cache_sub (w_c w') (apply_txops (o :: ops) m) /\
              w_inner w' = w_inner w /\ w_sets w' = w_sets w /\ w_handles w' = w_handles w /\ w_tx w' = w_tx w /\ w_ikind w' = w_ikind w) as Hstep.
    { intros id0 c2 w2 m2 E1 E2 E3 E4 E5 E6 Ht Hnt Hp2 Hv Hn Hm Hh Ha.
      destruct (IH (set_c c2 w2) m2 w' Hp2) as (R1 & R2 & R3 & R4 & R5 & R6 & R7); [|exact Hh|].
      - intros id v E. cbn [set_c w_c] in E. destruct (bytes_eq_dec id id0) as [->|N]; [left; apply Hv, E|].
        destruct (Hn id N) as [F|F]; [unfold clook in *; congruence|]. rewrite F in E.
        destruct (Hc id v E) as [A|A]; [left; rewrite Hm by exact N; exact A|].
        right. cbn [existsb] in A. rewrite (Hnt id N) in A. exact A.
      - cbn [set_c w_inner w_sets w_handles w_tx w_ikind] in *. rewrite <- Ha.
        split; [exact R1|]. split; [exact R2|]. repeat split; congruence. }
    destruct o as [id v|id].
    + destruct (length v <=? w_maxpart w).
      * destruct (c_set id v (Z.of_nat (length v)) None (w_c (clear_hint id w))) as [c|] eqn:E; [|discriminate].
        destruct (L_set _ _ _ _ _ Hp E) as (S1 & S2 & S3 & S4).
        apply (Hstep id c (clear_hint id w) (aset id v m)); auto.
        -- cbn. apply bytes_eqb_refl.
        -- intros i N. cbn. apply bytes_eqb_neq. congruence.
        -- intros v0 Hv0. rewrite alookup_aset_eq. destruct S3 as [F|F]; congruence.
        -- intros i N. apply alookup_aset_neq. congruence.
      * pose proof (L_remove id (w_c w) Hp) as (D1 & D2 & D3 & D4).
        apply (Hstep id (c_remove id (w_c (mark_hint id w))) (mark_hint id w) (aset id v m)); auto.
        -- cbn. apply bytes_eqb_refl.
        -- intros i N. cbn. apply bytes_eqb_neq. congruence.
        -- intros v0 Hv0. cbn [mark_hint set_hints w_c] in Hv0. congruence.
        -- intros i N. apply alookup_aset_neq. congruence.
    + pose proof (L_remove id (w_c w) Hp) as (D1 & D2 & D3 & D4).
      apply (Hstep id (c_remove id (w_c (clear_hint id w))) (clear_hint id w) (aremove id m)); auto.
      * cbn. apply bytes_eqb_refl.
      * intros i N. cbn. apply bytes_eqb_neq. congruence.
      * intros v0 Hv0. cbn [clear_hint set_hints w_c] in Hv0. congruence.
      * intros i N. apply alookup_aremove_neq. congruence.
Qed.

(* ---------- the invariant over transaction histories ---------- *)
Definition TJ (ik : ikind) (w : world) (g : tghost) : Prop := J w (tg_cur g) /\ w_tx w = tg_tx g /\ w_ikind w = ik.

Lemma tstep_read g o :
  match o with PGet _ | PGetF _ _ | PGetClose _ _ | PGetTx _ | PGetCloseTx _ _ => True | _ => False end -> tstep g o = g.
Proof. destruct o; try contradiction; intros _; unfold tstep; destruct (tg_tx g); reflexivity. Qed.

Lemma tstep_J intx ik o w g r w' :
  tx_seq_op intx o = true -> (intx = true -> ik <> ISql) -> TJ ik w g -> step o w = Some (r, w') ->
  tget_ok g o r /\ TJ ik w' (tstep g o).
Proof.
  intros Ho Hik (HJ & Htx & Hk) H. pose proof HJ as (Hi & Hs & Hh & Hp & Hc).
  destruct o; try discriminate Ho.
  - (* PGet *)
    destruct (step_J (PGet id) w (tg_cur g) r w' eq_refl HJ H) as [Hg HJ'].
    rewrite tstep_read by exact I. split; [exact Hg|]. split; [exact HJ'|].
    cbn [step] in H. change (step1 (POpen tmp_handle id) w) with (part_open_in false tmp_handle id FNone w) in H.
    destruct (get_composite_tx false id w (fun w1 => step1 (OFinish tmp_handle) w1) r w' finish_k_tx H) as [A B].
    split; congruence.
  - (* PGetF, no fault *)
    destruct f; try discriminate Ho.
    destruct (step_J (PGetF id FNone) w (tg_cur g) r w' eq_refl HJ H) as [Hg HJ'].
    rewrite tstep_read by exact I. split; [exact Hg|]. split; [exact HJ'|].
    cbn [step] in H. change (step1 (POpenF tmp_handle id FNone) w) with (part_open_in false tmp_handle id FNone w) in H.
    destruct (get_composite_tx false id w (fun w1 => step1 (OFinish tmp_handle) w1) r w' finish_k_tx H) as [A B].
    split; congruence.
  - (* PGetClose *)
    destruct (step_J (PGetClose id n) w (tg_cur g) r w' eq_refl HJ H) as [Hg HJ'].
    rewrite tstep_read by exact I. split; [exact Hg|]. split; [exact HJ'|].
    cbn [step] in H. change (step1 (POpen tmp_handle id) w) with (part_open_in false tmp_handle id FNone w) in H.
    destruct (get_composite_tx false id w _ r w' (readclose_k_tx n) H) as [A B]. split; congruence.
  - (* TBegin *)
    cbn [step step1] in H. pose proof Htx as Htx0. destruct (w_tx w) eqn:E; unfold tstep; rewrite <- Htx0; inversion H; subst r w'; clear H.
    + split; [exact I|]. split; [exact HJ|]. split; [cbn; congruence | exact Hk].
    + split; [exact I|]. split; [exact HJ|]. split; [cbn; congruence | exact Hk].
  - (* TPutTx *)
    cbn [step step1] in H. pose proof Htx as Htx0. destruct (w_tx w) eqn:E; unfold tstep; rewrite <- Htx0; inversion H; subst r w'; clear H.
    + split; [exact I|]. split; [exact HJ|]. split; [cbn; congruence | exact Hk].
    + split; [exact I|]. split; [exact HJ|]. split; [cbn; congruence | exact Hk].
  - (* TDelTx *)
    cbn [step step1] in H. pose proof Htx as Htx0. destruct (w_tx w) eqn:E; unfold tstep; rewrite <- Htx0; inversion H; subst r w'; clear H.
    + split; [exact I|]. split; [exact HJ|]. split; [cbn; congruence | exact Hk].
    + split; [exact I|]. split; [exact HJ|]. split; [cbn; congruence | exact Hk].
  - (* TCommit *)
    cbn [step step1] in H. pose proof Htx as Htx0. destruct (w_tx w) as [ops|] eqn:E; unfold tstep; rewrite <- Htx0.
    + destruct (commit_hooks ops (set_tx None (set_inner (apply_txops ops (w_inner w)) w))) as [w2|] eqn:Ec; [|discriminate].
      inversion H; subst r w'; clear H.
      destruct (commit_hooks_spec ops (set_tx None (set_inner (apply_txops ops (w_inner w)) w)) (tg_cur g) w2) as (R1 & R2 & R3 & R4 & R5 & R6 & R7);
        [exact Hp | | exact Ec |].
      * intros id v Ev. left. apply Hc, Ev.
      * cbn in R3, R4, R5, R6, R7. split; [exact I|]. split; [|split; [exact R6 | congruence]].
        split; [cbn; rewrite R3, Hi; reflexivity|]. split; [congruence|]. split; [congruence|]. split; assumption.
    + inversion H; subst r w'. split; [exact I|]. split; [exact HJ|]. split; [cbn; congruence | exact Hk].
  - (* TRollback *)
    cbn [step step1] in H. pose proof Htx as Htx0. destruct (w_tx w) eqn:E; unfold tstep; rewrite <- Htx0; inversion H; subst r w'; clear H.
    + split; [exact I|]. split; [exact HJ|]. split; [cbn; congruence | exact Hk].
    + split; [exact I|]. split; [exact HJ|]. split; [cbn; congruence | exact Hk].
  - (* PGetTx *)
    cbn [tx_seq_op] in Ho. subst intx. specialize (Hik eq_refl).
    rewrite tstep_read by exact I. cbn [step] in H. cbn [tget_ok]. rewrite <- Htx.
    destruct (w_tx w) as [ops|] eqn:E; [|inversion H; subst r w'; split; [reflexivity|]; split; [exact HJ|]; split; [congruence | exact Hk]].
    destruct (part_open_in true tmp_handle id FNone w) as [[r1 w1]|] eqn:Eo; [|discriminate].
    assert (opened w (tg_cur g) id FNone r1 w1) as Hop.
    { eapply part_open_in_J; [exact HJ | exact I | | exact Eo]. intros w0 Hk0 _. apply inner_view_notsql. congruence. }
    destruct (finish_opened w (tg_cur g) id FNone r1 w1 r w' HJ Hop) as [Hg HJ']; [destruct r1; exact H|].
    split; [left; exact Hg|]. split; [exact HJ'|].
    destruct (get_composite_tx true id w (fun w1 => step1 (OFinish tmp_handle) w1) r w' finish_k_tx) as [A B];
      [rewrite Eo; destruct r1; exact H | split; congruence].
  - (* PGetCloseTx *)
    cbn [tx_seq_op] in Ho. subst intx. specialize (Hik eq_refl).
    rewrite tstep_read by exact I. cbn [step] in H. cbn [tget_ok]. rewrite <- Htx.
    destruct (w_tx w) as [ops|] eqn:E; [|inversion H; subst r w'; split; [reflexivity|]; split; [exact HJ|]; split; [congruence | exact Hk]].
    destruct (part_open_in true tmp_handle id FNone w) as [[r1 w1]|] eqn:Eo; [|discriminate].
    assert (opened w (tg_cur g) id FNone r1 w1) as Hop.
    { eapply part_open_in_J; [exact HJ | exact I | | exact Eo]. intros w0 Hk0 _. apply inner_view_notsql. congruence. }
    destruct (close_opened w (tg_cur g) id n r1 w1 r w' HJ Hop) as [Hg HJ']; [destruct r1; exact H|].
    split; [left; exact Hg|]. split; [exact HJ'|].
    destruct (get_composite_tx true id w _ r w' (readclose_k_tx n)) as [A B];
      [rewrite Eo; destruct r1; exact H | split; congruence].
Qed.

Lemma trun_J intx ik ops : forall w g rs,
  forallb (tx_seq_op intx) ops = true -> (intx = true -> ik <> ISql) -> TJ ik w g -> run ops w = Some rs -> tsound g ops rs.
Proof.
  induction ops as [|o ops IH]; intros w g rs Ho Hik HJ H; cbn in H.
  - inversion H; subst. exact I.
  - cbn in Ho. apply andb_true_iff in Ho as [Ho1 Ho2].
    destruct (step o w) as [[r w']|] eqn:E; [|discriminate].
    destruct (run ops w') as [rs'|] eqn:E2; [|discriminate]. inversion H; subst rs; clear H.
    destruct (tstep_J _ _ _ _ _ _ _ Ho1 Hik HJ E) as [Hg HJ']. cbn [tsound]. split; [exact Hg | eapply IH; eassumption].
Qed.

Lemma TJ_init kd pl mp ik : TJ ik (w_init_i kd pl mp ik) tg0.
Proof. split; [apply (J_init kd pl mp)|]. split; reflexivity. Qed.

(* refutation of the statement WITH readers inside the write transaction of the SQL store: the miss fill of such a
   reader puts the transaction's uncommitted bytes into the shared cache, where they survive the rollback *)
Definition dirty_ops : list op := [TBegin; TPutTx B"a" val10; PGetTx B"a"; TRollback; PGet B"a"].
Lemma dirty_run : run dirty_ops (w_init_i PMem EvictNothing 64 ISql) = Some [ROk; ROk; RVal val10; ROk; RVal val10].
Proof. vm_compute. reflexivity. Qed.
Lemma dirty_unsound : ~ tsound tg0 dirty_ops [ROk; ROk; RVal val10; ROk; RVal val10].
Proof. cbn. intros (_ & _ & _ & _ & H & _). discriminate H. Qed.

(* the miss fill racing a commit (not a non-overlapping history): the reader opened before the commit finishes its
   fill after the committed delete, the deleted bytes are served afterwards *)
Definition race_ops : list op :=
  [TBegin; TPutTx B"a" val10; TPutTx B"b" (content 2 8); TCommit; TBegin; TDelTx B"a"; POpen 0 B"a"; ORead 0 4; TCommit; OFinish 0; PGet B"a"].
Lemma race_run : run race_ops (w_init_i PMem (LfuKeys 1) 64 IFs)
  = Some [ROk; ROk; ROk; ROk; ROk; ROk; ROpen B"s"; RVal (firstn 4 val10); ROk; RVal (skipn 4 val10); RVal val10].
Proof. vm_compute. reflexivity. Qed.
