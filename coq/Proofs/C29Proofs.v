(* Proofs/C29Proofs.v — composition lemmas for Properties/C29.v *)
From Verif Require Import Bytes Codec SigV4 SigV4Spec SigV4EncProofs SigV4HdrProofs SigV4SortProofs SigV4AuthProofs.

Lemma canonical_request_eq_spec r path names presigned :
  canonical_request r (spec_uri_encode true path) names presigned =
  canonical_request_of (r_method r) (spec_canonical_uri path) (spec_canonical_query (query_pairs (r_query r)))
    (spec_header_pairs (r_host r) (r_headers r) names) (payload_line r presigned).
Proof.
  unfold canonical_request.
  rewrite (proj2 (canon_uri_standard path)), canon_query_eq_spec, collect_eq_spec. reflexivity.
Qed.

Lemma not_anonymous r p id date region service term :
  parse_signature_parameters r = Some p ->
  split_on "/"%byte (p_credential p) = [id; date; region; service; term] ->
  is_anonymous r = false.
Proof.
  intros H S. unfold is_anonymous. unfold parse_signature_parameters in H. cbv zeta in H.
  destruct (hget B"Authorization" (r_headers r)) eqn:A; [|reflexivity].
  cbn [is_empty andb].
  repeat step H. inversion H; subst p; cbn [p_credential] in S.
  destruct (qget B"X-Amz-Credential" (go_parse_query (r_query r))); [discriminate S | reflexivity].
Qed.

Lemma standard_request_accepted cfg facts now r path p id date region service term secret t :
  r_path r = spec_uri_encode true path ->
  existsb is_ctl (r_query r) = false ->
  parse_signature_parameters r = Some p ->
  p_alg p = alg_v4 ->
  split_on "/"%byte (p_credential p) = [id; date; region; service; term] ->
  region = c_region cfg ->
  find_cred id (c_creds cfg) = Some secret ->
  service = B"s3" -> term = B"aws4_request" ->
  parse_timestamp (p_timestamp p) = Some t ->
  date = ts_date (p_timestamp p) ->
  (t - 900 * ns <= now)%Z -> (now <= t + p_expiry_s p * ns)%Z ->
  mem_bytes B"host" (signed_header_names (p_signed_headers p)) = true ->
  all_sensitive_signed r (signed_header_names (p_signed_headers p)) = true ->
  ecdsa_streaming r = false ->
  needs_body_hash r (p_presigned p) && r_body_err r = false ->
  verify facts (key_of secret date region service term)
    {| s_alg := p_alg p; s_ts := p_timestamp p; s_scope := join B"/" [date; region; service; term];
       s_cr := canonical_request_of (r_method r) (spec_canonical_uri path)
                 (spec_canonical_query (query_pairs (r_query r)))
                 (spec_header_pairs (r_host r) (r_headers r) (signed_header_names (p_signed_headers p)))
                 (payload_line r (p_presigned p)) |} (p_signature p) = true ->
  middleware cfg facts now r = Accepted id.
Proof.
  intros Hp Hq H1 H2 H3 H4 H5 H6 H7 H8 H9 W1 W2 H10 H11 H13 HB H12.
  unfold middleware. rewrite Hq, Hp, (proj1 (canon_uri_standard path)).
  rewrite (not_anonymous r p id date region service term H1 H3).
  apply check_auth_accept_iff.
  exists p, date, region, service, term, secret, t.
  repeat split; try assumption.
  unfold msg_of. rewrite canonical_request_eq_spec. exact H12.
Qed.
