(* Proofs/MetaIPProofs.v — statement-granular victims with an atomic rival at any boundary (Model/MetaIP.v):
   the optimistic-lock CAS as the guard of conditional writes and of in-place appends, for ALL boundaries p and ALL
   rivals; rejected victims leave no trace; concrete witnesses where the faithful model violates C12. *)
From Verif Require Import Bytes Codec Md5 Meta MetaBasics MetaWitness MetaConc MetaConcBase MetaIP.
From Coq Require Import ZifyBool ZifyN ZifyNat.

(* ---------- boundaries ---------- *)
(* a boundary either does nothing to the row store or runs the rival (once) *)
Lemma tickc_state p rv x :
  (ip_s (tickc p rv x) = ip_s x /\ ip_r (tickc p rv x) = ip_r x) \/
  (ip_r x = None /\ ip_s (tickc p rv x) = fst (rv (ip_s x)) /\ ip_r (tickc p rv x) = Some (snd (rv (ip_s x)))).
Proof.
  unfold tickc. destruct (ip_r x) eqn:R; [left; split; reflexivity|].
  destruct (Nat.eqb (ip_n x) p); [|left; split; reflexivity].
  right. destruct (rv (ip_s x)) as [s' r]. cbn. auto.
Qed.

Lemma tickc_twice p rv x :
  ip_s (tickc p rv (tickc p rv x)) = ip_s x \/ ip_s (tickc p rv (tickc p rv x)) = fst (rv (ip_s x)).
Proof.
  destruct (tickc_state p rv x) as [[A1 A2]|(A0 & A1 & A2)];
  destruct (tickc_state p rv (tickc p rv x)) as [[B1 B2]|(B0 & B1 & B2)].
  - left. congruence.
  - right. rewrite B1, A1. reflexivity.
  - right. congruence.
  - rewrite A2 in B0. discriminate.
Qed.

(* the rival respects the version column: a row that keeps its id and its version keeps all its fields *)
Definition lock_discipline (rv : rivalf) : Prop :=
  forall s a a', In a (objs s) -> In a' (objs (fst (rv s))) -> o_id a' = o_id a -> o_lock a' = o_lock a -> a' = a.

Lemma cas_update_some s r expected s' :
  cas_update s r expected = Some s' ->
  exists x, In x (objs s) /\ o_id x = o_id r /\ o_lock x = expected /\ s' = update_row s r.
Proof.
  unfold cas_update. destruct (find _ (objs s)) as [x|] eqn:F; [|discriminate].
  destruct (N.eqb (o_lock x) expected) eqn:E; [|discriminate]. intros H. inversion H; subst.
  apply find_some in F. destruct F as [F1 F2]. apply N.eqb_eq in F2, E. exists x. auto.
Qed.

(* ---------- C07: the conditional PutObject ---------- *)
(* acknowledged with If-Match e  ==>  the condition was checked on a row [a] of the state [s_read], and the
   compare-and-swap on a's version succeeded in the state [s_cas] the write was applied to; between the two at most
   the rival ran.  For EVERY boundary p and EVERY rival. *)
Lemma ip_put_if_match_cas p rv s0 vn b k c e s' r ro :
  ip_put p rv s0 vn b k c (CIfMatch e) = (s', r, ro) -> not_err r ->
  exists s_read s_cas a x,
    find_latest s_read b k = Some a /\ o_dm a = false /\ etag_eqb (o_etag a) e = true /\
    (s_cas = s_read \/ s_cas = fst (rv s_read)) /\
    In x (objs s_cas) /\ o_id x = o_id a /\ o_lock x = o_lock a.
Proof.
  unfold ip_put. intros H NE.
  destruct (find_bucket s0 b) as [bk|]; [|inversion H; subst; exfalso; eapply NE; reflexivity].
  destruct (ip_dedupe p rv _ c) as [np x1].
  set (x2 := tickc p rv x1) in *.
  destruct (cond_fails (CIfMatch e) (find_latest (ip_s x2) b k)) eqn:CF;
    [unfold ip_fail in H; inversion H; subst; exfalso; eapply NE; reflexivity|].
  cbn [is_inm andb] in H.
  unfold cond_fails, exists_obj in CF.
  destruct (find_latest (ip_s x2) b k) as [a|] eqn:FL; [|discriminate].
  destruct (o_dm a) eqn:DM; [discriminate|]. cbn in CF. apply negb_false_iff in CF.
  cbn [is_cond] in H.
  set (x3 := tickc p rv x2) in *.
  destruct (cas_update (ip_s x3) (with_row a (o_latest a) (o_updated a) (o_lock a)) (o_lock a)) as [s3|] eqn:CAS.
  - apply cas_update_some in CAS. destruct CAS as (x & X1 & X2 & X3 & _).
    exists (ip_s x2), (ip_s x3), a, x. split; [exact FL|]. split; [exact DM|]. split; [exact CF|].
    split; [|split; [exact X1|split; [cbn in X2; exact X2|exact X3]]].
    subst x3. destruct (tickc_state p rv x2) as [[A _]|(_ & A & _)]; [left|right]; exact A.
  - cbn [negb] in H. unfold ip_fail in H. inversion H; subst. exfalso. eapply NE. reflexivity.
Qed.

(* with a rival that respects the version column, the row the victim replaces is — in the very state its write is
   applied to, which contains everything the rival committed — still the unchanged row whose ETag is e: the condition
   holds at the linearisation point, so a conflicting writer that got in between makes the victim fail *)
Lemma ip_put_if_match_linearizes p rv s0 vn b k c e s' r ro :
  lock_discipline rv ->
  ip_put p rv s0 vn b k c (CIfMatch e) = (s', r, ro) -> not_err r ->
  exists s_cas a, In a (objs s_cas) /\ on_key b k a = true /\ completed a = true /\ o_latest a = true /\
                  o_dm a = false /\ etag_eqb (o_etag a) e = true.
Proof.
  intros LD H NE. destruct (ip_put_if_match_cas _ _ _ _ _ _ _ _ _ _ _ H NE) as (s_read & s_cas & a & x & F & D & E & S & X1 & X2 & X3).
  apply find_some in F. destruct F as [F1 F2].
  apply andb_true_iff in F2. destruct F2 as [F2 L]. apply andb_true_iff in F2. destruct F2 as [K C].
  exists s_cas, a. destruct S as [->| ->].
  - repeat split; assumption.
  - assert (x = a) as -> by (eapply LD; eassumption). repeat split; assumption.
Qed.

(* ---------- rejected victims leave no trace ---------- *)
Lemma ip_fail_state rv s0 x e : fst (fst (ip_fail rv s0 x e)) = s0 \/ fst (fst (ip_fail rv s0 x e)) = fst (rv s0).
Proof. unfold ip_fail. destruct (ip_r x); cbn; auto. Qed.

Definition rejected_ok (rv : rivalf) (s0 : mstate) (o : ipout) : Prop :=
  match snd (fst o) with RErr _ => fst (fst o) = s0 \/ fst (fst o) = fst (rv s0) | _ => True end.

Lemma ip_fail_rej rv s0 x e : rejected_ok rv s0 (ip_fail rv s0 x e).
Proof. unfold rejected_ok. cbn. apply (ip_fail_state rv s0 x e). Qed.
Lemma ip_finish_rej rv s0 x s r : (forall e, r <> RErr e) -> rejected_ok rv s0 (ip_finish rv s0 x s r).
Proof.
  intros NE. unfold ip_finish. destruct (unique_ok s && parts_unique_ok s); [|apply ip_fail_rej].
  unfold rejected_ok. cbn. destruct r; try exact I. exfalso. eapply NE. reflexivity.
Qed.

Lemma ip_append_rejected p rv s0 vn b k c off : rejected_ok rv s0 (ip_append p rv s0 vn b k c off).
Proof.
  unfold ip_append. destruct (find_bucket s0 b) as [bk|]; [|unfold rejected_ok; cbn; left; reflexivity].
  set (x1 := tickc p rv _).
  destruct (match find_latest (ip_s x1) b k with Some r => _ | None => _ end) as [x2 l1parts].
  repeat match goal with
  | |- rejected_ok _ _ (ip_fail _ _ _ _) => apply ip_fail_rej
  | |- rejected_ok _ _ (ip_finish _ _ _ _ _) => apply ip_finish_rej; intros ? ?; discriminate
  | |- rejected_ok _ _ (if ?c then _ else _) => destruct c
  | |- rejected_ok _ _ (let '(_, _) := ?e in _) => destruct e
  | |- rejected_ok _ _ (match ?e with Some _ => _ | None => _ end) => destruct e
  end.
Qed.

Lemma ip_finish_put_rej inm rv s0 x s r : (forall e, r <> RErr e) -> rejected_ok rv s0 (ip_finish_put inm rv s0 x s r).
Proof.
  intros NE. unfold ip_finish_put. destruct (unique_ok s); [destruct (parts_unique_ok s)|]; try apply ip_fail_rej.
  unfold rejected_ok. cbn. destruct r; try exact I. exfalso. eapply NE. reflexivity.
Qed.

Lemma ip_put_rejected p rv s0 vn b k c cd : rejected_ok rv s0 (ip_put p rv s0 vn b k c cd).
Proof.
  unfold ip_put. destruct (find_bucket s0 b) as [bk|]; [|unfold rejected_ok; cbn; left; reflexivity].
  destruct (ip_dedupe p rv _ c) as [np x1].
  repeat match goal with
  | |- rejected_ok _ _ (ip_fail _ _ _ _) => apply ip_fail_rej
  | |- rejected_ok _ _ (ip_finish_put _ _ _ _ _ _) => apply ip_finish_put_rej; intros ? ?; discriminate
  | |- rejected_ok _ _ (if ?c then _ else _) => destruct c
  | |- rejected_ok _ _ (let '(_, _) := ?e in _) => destruct e
  | |- rejected_ok _ _ (match ?e with Some _ => _ | None => _ end) => destruct e
  | |- rejected_ok _ _ (match b_ver ?e with VUnset => _ | VEnabled => _ | VSuspended => _ end) => destruct (b_ver e)
  end.
Qed.

(* an acknowledged victim committed under the unique indexes (one latest row per key, ...) *)
Lemma ip_finish_ack rv s0 x s r s' r' ro :
  ip_finish rv s0 x s r = (s', r', ro) -> not_err r' -> s' = s /\ r' = r /\ unique_ok s' = true /\ parts_unique_ok s' = true.
Proof.
  unfold ip_finish. destruct (unique_ok s && parts_unique_ok s) eqn:U.
  - intros H _. inversion H; subst. apply andb_true_iff in U. tauto.
  - unfold ip_fail. intros H NE. inversion H; subst. exfalso. eapply NE. reflexivity.
Qed.

(* ---------- C12: the in-place AppendObject (unversioned / suspended buckets) ---------- *)
(* acknowledged  ==>  either the key had no latest row when sqlMetadataStore.AppendObject looked (a new row was
   inserted under the unique index), or the compare-and-swap succeeded on the version of the row [old] read in
   [s_read], in the state [s_cas] the write was applied to, with at most the rival in between.  EVERY p, EVERY rival. *)
Lemma ip_append_inplace_cas p rv s0 vn b k c off bk s' r ro :
  find_bucket s0 b = Some bk -> b_ver bk <> VEnabled ->
  ip_append p rv s0 vn b k c off = (s', r, ro) -> not_err r ->
  (exists s_read, find_latest s_read b k = None /\ unique_ok s' = true) \/
  (exists s_read s_cas old x,
     find_latest s_read b k = Some old /\ (s_cas = s_read \/ s_cas = fst (rv s_read)) /\
     In x (objs s_cas) /\ o_id x = o_id old /\ o_lock x = o_lock old).
Proof.
  intros FB NEn H NE. unfold ip_append in H. rewrite FB in H.
  assert (EN : match b_ver bk with VEnabled => true | _ => false end = false) by (destruct (b_ver bk); try reflexivity; contradiction).
  rewrite EN in H.
  set (x1 := tickc p rv _) in *.
  destruct (match find_latest (ip_s x1) b k with Some r0 => _ | None => _ end) as [x2 l1parts].
  match type of H with (if ?c then _ else _) = _ => destruct c end;
    [unfold ip_fail in H; inversion H; subst; exfalso; eapply NE; reflexivity|].
  match type of H with (if ?c then _ else _) = _ => destruct c end;
    [unfold ip_fail in H; inversion H; subst; exfalso; eapply NE; reflexivity|].
  destruct (ip_dedupe p rv x2 c) as [np x3].
  set (x4 := tickc p rv x3) in *.
  destruct (find_latest (ip_s x4) b k) as [old|] eqn:FL.
  - right.
    match type of H with (if ?c then _ else _) = _ => destruct c end;
      [unfold ip_fail in H; inversion H; subst; exfalso; eapply NE; reflexivity|].
    match type of H with (if ?c then _ else _) = _ => destruct c end;
      [unfold ip_fail in H; inversion H; subst; exfalso; eapply NE; reflexivity|].
    match type of H with context [cas_update ?S ?R ?E] => destruct (cas_update S R E) as [s3|] eqn:CAS end;
      [|unfold ip_fail in H; inversion H; subst; exfalso; eapply NE; reflexivity].
    apply cas_update_some in CAS. destruct CAS as (x & X1 & X2 & X3 & _). cbn in X2.
    exists (ip_s x4), (ip_s (tickc p rv (tickc p rv x4))), old, x.
    split; [exact FL|]. split; [apply tickc_twice|]. split; [exact X1|]. split; [exact X2|exact X3].
  - left. exists (ip_s x4). split; [exact FL|].
    destruct (insert_row _ _) as [id s2].
    match type of H with (if ?c then _ else _) = _ => destruct c end;
      [unfold ip_fail in H; inversion H; subst; exfalso; eapply NE; reflexivity|].
    apply ip_finish_ack in H; [|exact NE]. tauto.
Qed.

Lemma ip_finish_put_ack inm rv s0 x s r s' r' ro :
  ip_finish_put inm rv s0 x s r = (s', r', ro) -> not_err r' -> s' = s /\ unique_ok s' = true.
Proof.
  unfold ip_finish_put. destruct (unique_ok s) eqn:U; [destruct (parts_unique_ok s)|];
    unfold ip_fail; intros H NE; inversion H; subst; try (exfalso; eapply NE; reflexivity). auto.
Qed.

(* If-None-Match:* : acknowledged ==> the key resolved to nothing when the victim (re-)read it, and its insert went
   through the unique index on (bucket, key, is_latest): a rival that created the object in between makes it fail *)
Lemma ip_put_inm_guard p rv s0 vn b k c s' r ro :
  ip_put p rv s0 vn b k c CIfNoneMatchStar = (s', r, ro) -> not_err r ->
  (exists s_read, cur_row s_read b k = None) /\ unique_ok s' = true.
Proof.
  unfold ip_put. intros H NE.
  destruct (find_bucket s0 b) as [bk|]; [|inversion H; subst; exfalso; eapply NE; reflexivity].
  destruct (ip_dedupe p rv _ c) as [np x1].
  set (x2 := tickc p rv x1) in *.
  destruct (cond_fails CIfNoneMatchStar (find_latest (ip_s x2) b k));
    [unfold ip_fail in H; inversion H; subst; exfalso; eapply NE; reflexivity|].
  cbn [is_inm] in H. set (x3 := tickc p rv x2) in *.
  destruct (true && exists_obj (find_latest (ip_s x3) b k)) eqn:EX;
    [unfold ip_fail in H; inversion H; subst; exfalso; eapply NE; reflexivity|].
  split.
  - exists (ip_s x3). unfold cur_row. cbn in EX. unfold exists_obj in EX.
    destruct (find_latest (ip_s x3) b k) as [a|]; [|reflexivity]. destruct (o_dm a); [reflexivity|discriminate].
  - revert H.
    repeat match goal with
    | |- ip_fail _ _ _ _ = _ -> _ => unfold ip_fail; intros H; inversion H; subst; exfalso; eapply NE; reflexivity
    | |- ip_finish_put _ _ _ _ _ _ = _ -> _ => intros H; apply ip_finish_put_ack in H; [tauto|exact NE]
    | |- (if ?c then _ else _) = _ -> _ => destruct c
    | |- (let '(_, _) := ?e in _) = _ -> _ => destruct e
    | |- (match ?e with Some _ => _ | None => _ end) = _ -> _ => destruct e
    | |- (match b_ver ?e with VUnset => _ | VEnabled => _ | VSuspended => _ end) = _ -> _ => destruct (b_ver e)
    end.
Qed.

(* ---------- where the faithful model violates C12 (READ COMMITTED visibility only) ---------- *)
Definition ws_one : mstate := fst (run [OMb wb; OApp wb wk cA None]).
Definition ws_one_enabled : mstate := fst (run [OMb wb; OVer wb VEnabled; OApp wb wk cA None]).
Definition w_rival (i : N) (c : bytes) : rivalf := fun s => op_append (with_ids s i) i wb wk c None.

(* victim and rival append the SAME bytes, the rival between the victim's read and its dedup lookup: both are
   acknowledged with size 16, the object has 16 bytes — one acknowledged chunk is missing *)
Lemma witness_identical_bytes :
  let '(s', r, ro) := ip_append 2 (w_rival 3 cB) (with_ids ws_one 2) 2 wb wk cB None in
  is_ack r = true /\ match ro with Some rr => is_ack rr = true | None => False end /\
  cur_size s' wb wk = 16%Z /\ cur_chunks s' wb wk = [cA; cB].
Proof. vm_compute. repeat split; reflexivity. Qed.

(* versioning enabled: the victim's new version is computed from its stale read and installed unguarded — the
   rival's acknowledged chunk is not in the current object *)
Lemma witness_enabled_lost_append :
  let '(s', r, ro) := ip_append 2 (w_rival 4 cC) (with_ids ws_one_enabled 3) 3 wb wk cB None in
  is_ack r = true /\ match ro with Some rr => is_ack rr = true | None => False end /\
  cur_chunks s' wb wk = [cA; cB].
Proof. vm_compute. repeat split; reflexivity. Qed.

Lemma witness_identical_bytes_shape : exists s' e z er zr,
  ip_append 2 (fun s => op_append (with_ids s (2 + 1)) (2 + 1) wb wk cB None) (with_ids ws_one 2) 2 wb wk cB None
    = (s', RAppend e z, Some (RAppend er zr)) /\ cur_size s' wb wk = 16%Z /\ cur_size ws_one wb wk = 8%Z.
Proof.
  remember (ip_append 2 (fun s => op_append (with_ids s (2 + 1)) (2 + 1) wb wk cB None) (with_ids ws_one 2) 2 wb wk cB None) as t eqn:E.
  vm_compute in E. subst t. do 5 eexists. split; [reflexivity|]. split; vm_compute; reflexivity.
Qed.

Lemma witness_enabled_shape : exists s' e z er zr,
  ip_append 2 (fun s => op_append (with_ids s (3 + 1)) (3 + 1) wb wk cC None) (with_ids ws_one_enabled 3) 3 wb wk cB None
    = (s', RAppend e z, Some (RAppend er zr)) /\ cur_chunks s' wb wk = [cA; cB].
Proof.
  remember (ip_append 2 (fun s => op_append (with_ids s (3 + 1)) (3 + 1) wb wk cC None) (with_ids ws_one_enabled 3) 3 wb wk cB None) as t eqn:E.
  vm_compute in E. subst t. do 5 eexists. split; [reflexivity|]. vm_compute. reflexivity.
Qed.

(* third witness: the rival REPLACES the object by a put whose bytes equal the object's first part (dedup gives it that
   part id): the stored list [p1] is a prefix of the victim's manifest [p1; p2; new], the victim re-attaches p2 — which
   the put has just condemned and deleted — and is acknowledged; the object is unreadable afterwards *)
Definition ws_two : mstate := fst (run [OMb wb; OApp wb wk cA None; OApp wb wk cB None]).
Lemma witness_dedup_prefix_put_shape : exists s' e z v ep,
  ip_append 2 (fun s => op_put (with_ids s (3 + 1)) (3 + 1) wb wk cA CNone) (with_ids ws_two 3) 3 wb wk cC None
    = (s', RAppend e z, Some (RPut v ep)) /\ op_get s' wb wk None = RErr OtherErr.
Proof.
  remember (ip_append 2 (fun s => op_put (with_ids s (3 + 1)) (3 + 1) wb wk cA CNone) (with_ids ws_two 3) 3 wb wk cC None) as t eqn:E.
  vm_compute in E. subst t. do 5 eexists. split; [reflexivity|]. vm_compute. reflexivity.
Qed.
