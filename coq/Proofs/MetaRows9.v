(* Proofs/MetaRows9.v — M-META at row level: the lemmas in the exact shape quoted by Properties/C01,C02,C13
   (invariants and exclusions written out; [core] equalities expanded into the observable fields). *)
From Verif Require Import Bytes Codec Md5 Meta MetaBasics MetaRows1 MetaRows2 MetaRows3 MetaRows4 MetaRows5 MetaRows6 MetaRows7 MetaRows8.
From Coq Require Import ZifyBool ZifyN ZifyNat.

Lemma pers_out s s' b k n r :
  (exists r', find_version s' b k (VId n) = Some r' /\ core r' = core r /\
              obj_parts s' (o_id r) = obj_parts s (o_id r)) ->
  exists r', find_version s' b k (VId n) = Some r' /\
    o_id r' = o_id r /\ o_etag r' = o_etag r /\ o_size r' = o_size r /\ o_dm r' = o_dm r /\
    o_ctype r' = o_ctype r /\ o_created r' = o_created r /\
    obj_parts s' (o_id r') = obj_parts s (o_id r).
Proof.
  intros (r' & F & C & P). exists r'. destruct (core_fields _ _ C) as (E1 & _ & _ & _ & E5 & _ & E7 & E8 & E9 & E10 & _).
  rewrite E1. tauto.
Qed.

Lemma not_err_iff x : (forall e, x <> RErr e) -> not_err x.
Proof. destruct x; cbn; try exact (fun _ => I). intros H. exact (H e eq_refl). Qed.

(* history forms of read-your-write *)
Lemma run_put_read_your_write ops b k c cr s' rs v e :
  run (ops ++ [OPut b k c cr]) = (s', rs ++ [RPut v e]) ->
  e = mk_md5 c /\ exists lm,
  op_head s' b k None = RObj v e (zlen c) lm None None /\
  op_head s' b k (Some v) = RObj v e (zlen c) lm None None.
Proof. intros H. apply run_snoc_res in H. exact (put_read_your_write _ _ _ _ _ _ _ _ _ _ H). Qed.

Lemma run_copy_read_your_write ops sb sk vr db dk s' rs v e :
  run (ops ++ [OCp sb sk vr db dk]) = (s', rs ++ [RPut v e]) ->
  exists sv sz slm ct lm,
  op_head (fst (run ops)) sb sk (resolve_vref vr) = RObj sv e sz slm ct None /\
  op_head s' db dk None = RObj v e sz lm ct None /\
  op_head s' db dk (Some v) = RObj v e sz lm ct None.
Proof. intros H. apply run_snoc_res in H. exact (copy_read_your_write _ _ _ _ _ _ _ _ _ _ _ H). Qed.

Lemma run_append_read_your_write ops b k c off s' rs e sz :
  run (ops ++ [OApp b k c off]) = (s', rs ++ [RAppend e sz]) ->
  exists v lm ct, op_head s' b k None = RObj v e sz lm ct None.
Proof. intros H. apply run_snoc_res in H. exact (append_read_your_write _ _ _ _ _ _ _ _ _ _ H). Qed.

(* version persistence, one step, observable fields *)
Lemma step_version_persists_out i hist s o b k n r :
  Inv1 s -> find_version s b k (VId n) = Some r -> may_destroy s o b k n r = false ->
  exists r', find_version (fst (step i hist s o)) b k (VId n) = Some r' /\
    o_id r' = o_id r /\ o_etag r' = o_etag r /\ o_size r' = o_size r /\ o_dm r' = o_dm r /\
    o_ctype r' = o_ctype r /\ o_created r' = o_created r /\
    obj_parts (fst (step i hist s o)) (o_id r') = obj_parts s (o_id r).
Proof. intros H F D. apply pers_out. apply step_version_persists; assumption. Qed.

Lemma run_version_keeps_out ops mid b k n r st : Forall (fun o => keeps_version o b k n) mid ->
  find_version (fst (run ops)) b k (VId n) = Some r ->
  option_map b_ver (find_bucket (fst (run ops)) b) = Some st -> st <> VUnset ->
  exists r', find_version (fst (run (ops ++ mid))) b k (VId n) = Some r' /\
    o_id r' = o_id r /\ o_etag r' = o_etag r /\ o_size r' = o_size r /\ o_dm r' = o_dm r /\
    o_ctype r' = o_ctype r /\ o_created r' = o_created r /\
    obj_parts (fst (run (ops ++ mid))) (o_id r') = obj_parts (fst (run ops)) (o_id r).
Proof. intros K F Hst Hn. apply pers_out. eapply run_version_keeps; eassumption. Qed.

Lemma delete_marker_out i hist s b k cr s' x st :
  option_map b_ver (find_bucket s b) = Some st -> st <> VUnset ->
  step i hist s (ODel b k VRNone cr) = (s', x) -> (forall e, x <> RErr e) ->
  x = RDel (Some (VId i)) true /\
  exists m, find_latest s' b k = Some m /\ o_vid m = Some (VId i) /\ o_dm m = true /\ o_id m = next_id s.
Proof. intros Hst Hn H Hx. eapply delete_marker; try eassumption. apply not_err_iff. exact Hx. Qed.

Lemma delete_keeps_versions_out i hist s b k cr st n r :
  Inv1 s -> option_map b_ver (find_bucket s b) = Some st -> st <> VUnset ->
  find_version s b k (VId n) = Some r ->
  exists r', find_version (fst (step i hist s (ODel b k VRNone cr))) b k (VId n) = Some r' /\
    o_id r' = o_id r /\ o_etag r' = o_etag r /\ o_size r' = o_size r /\ o_dm r' = o_dm r /\
    o_ctype r' = o_ctype r /\ o_created r' = o_created r /\
    obj_parts (fst (step i hist s (ODel b k VRNone cr))) (o_id r') = obj_parts s (o_id r).
Proof. intros H Hst Hn F. apply pers_out. eapply delete_keeps_versions; eassumption. Qed.

Lemma run_heads_stable_out ops mid b k v : Forall (fun o => elsewhere o b k) mid ->
  forall v' e sz lm ct bd,
  op_head (fst (run ops)) b k v = RObj v' e sz lm ct bd ->
  op_head (fst (run (ops ++ mid))) b k v = RObj v' e sz lm ct bd.
Proof. intros F. apply run_heads_stable. apply Forall_elsewhere. exact F. Qed.

(* evidence for exception (c): after Enabled -> Unset, a key-only delete destroys a non-null version *)
Definition unset_delete_history : list op :=
  [OMb B"bkt1"; OVer B"bkt1" VEnabled; OPut B"bkt1" B"k1" B"AAAAAAAA" CRNone; OVer B"bkt1" VUnset;
   ODel B"bkt1" B"k1" VRNone CRNone; OGet B"bkt1" B"k1" (VROp 2)].
Lemma unset_delete_destroys_version :
  snd (run unset_delete_history) =
  [ROk; ROk; RPut (VId 2) (mk_md5 B"AAAAAAAA"); ROk; RDel None false; RErr NoSuchKey].
Proof. vm_compute. reflexivity. Qed.
