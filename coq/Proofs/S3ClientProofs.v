(* Proofs/S3ClientProofs.v — lemmas about Model/S3Client.v *)
From Verif Require Import Bytes Codec S3Client.
From Coq Require Import Lia ZifyBool ZifyN.
Local Open Scope N_scope.

(* ---------- percent encoding ---------- *)
Lemma hex_roundtrip (b : byte) :
  hex_val (uhex_digit (byteN b / 16)) = Some (byteN b / 16) /\
  hex_val (uhex_digit (byteN b mod 16)) = Some (byteN b mod 16) /\
  Nbyte (16 * (byteN b / 16) + byteN b mod 16) = b.
Proof. destruct b; vm_compute; repeat split; reflexivity. Qed.

Lemma hex_digit_not_percent n : n < 16 -> uhex_digit n <> "%"%byte /\ uhex_digit n <> "&"%byte /\ uhex_digit n <> "="%byte.
Proof.
  intros H. assert (Hc : n = 0 \/ n = 1 \/ n = 2 \/ n = 3 \/ n = 4 \/ n = 5 \/ n = 6 \/ n = 7 \/ n = 8 \/ n = 9 \/
                         n = 10 \/ n = 11 \/ n = 12 \/ n = 13 \/ n = 14 \/ n = 15) by lia.
  repeat destruct Hc as [Hc|Hc]; subst; vm_compute; repeat split; discriminate.
Qed.

Lemma escape_roundtrip (p : byte -> bool) (plus : bool) :
  p "%"%byte = true -> (plus = true -> p "+"%byte = true) ->
  forall s, unescape plus (escape p plus s) = Some s.
Proof.
  intros Hpct Hplus. induction s as [|b r IH]; [reflexivity|].
  cbn [escape]. destruct (plus && beqb b " "%byte) eqn:Esp.
  - apply andb_prop in Esp. destruct Esp as [Hp Hb]. apply beqb_eq in Hb. subst b plus.
    cbn [unescape]. change (beqb "+"%byte "%"%byte) with false. cbn iota. rewrite IH.
    change (true && beqb "+"%byte "+"%byte) with true. reflexivity.
  - destruct (p b) eqn:Ep.
    + cbn [unescape]. change (beqb "%"%byte "%"%byte) with true. cbn iota.
      destruct (hex_roundtrip b) as [H1 [H2 H3]]. rewrite H1, H2, IH, H3. reflexivity.
    + cbn [unescape]. destruct (beqb b "%"%byte) eqn:E1.
      { apply beqb_eq in E1. subst b. congruence. }
      rewrite IH. destruct (plus && beqb b "+"%byte) eqn:E2; [|reflexivity].
      apply andb_prop in E2. destruct E2 as [Hp Hb]. apply beqb_eq in Hb. subst b. rewrite (Hplus Hp) in Ep. discriminate.
Qed.

Lemma query_escape_no_sep s : ~ In "&"%byte (query_escape s) /\ ~ In "="%byte (query_escape s).
Proof.
  unfold query_escape. induction s as [|b r [IH1 IH2]]; [split; intros []|].
  cbn [escape]. destruct (true && beqb b " "%byte) eqn:Esp.
  - split; intros [H|H]; try discriminate; auto.
  - destruct (query_should_escape b) eqn:Ep.
    + assert (Hh : byteN b / 16 < 16).
      { assert (byteN b < 256) by (destruct b; vm_compute; reflexivity). apply N.div_lt_upper_bound; lia. }
      assert (Hl : byteN b mod 16 < 16) by (apply N.mod_lt; lia).
      destruct (hex_digit_not_percent _ Hh) as [_ [A1 A2]]. destruct (hex_digit_not_percent _ Hl) as [_ [C1 C2]].
      split; intros [H|[H|[H|H]]]; try discriminate; auto.
    + split; intros [H|H]; auto; subst b; vm_compute in Ep; discriminate.
Qed.

(* ---------- operations ---------- *)
Lemma not_implemented_exact op rest :
  not_implemented (op :: rest) = true <->
  (op = B"A" \/ (op = B"C" /\ arg (op :: rest) 11 <> 0) \/ (op = B"T" /\ arg (op :: rest) 4 <> 0)).
Proof.
  unfold not_implemented.
  destruct (bytes_eqb op B"A") eqn:EA.
  { apply bytes_eqb_eq in EA. split; auto. }
  apply bytes_eqb_neq in EA.
  destruct (bytes_eqb op B"C") eqn:EC.
  { apply bytes_eqb_eq in EC. split.
    - intros H. right. left. split; auto. intros Hz. rewrite Hz in H. discriminate.
    - intros [H|[[_ H]|[H _]]]; [contradiction| |subst; discriminate].
      destruct (arg (op :: rest) 11 =? 0) eqn:E; auto. apply N.eqb_eq in E. contradiction. }
  apply bytes_eqb_neq in EC.
  destruct (bytes_eqb op B"T") eqn:ET.
  { apply bytes_eqb_eq in ET. split.
    - intros H. right. right. split; auto. intros Hz. rewrite Hz in H. discriminate.
    - intros [H|[[H _]|[_ H]]]; [contradiction|contradiction|].
      destruct (arg (op :: rest) 4 =? 0) eqn:E; auto. apply N.eqb_eq in E. contradiction. }
  apply bytes_eqb_neq in ET.
  split; [discriminate|]. intros [H|[[H _]|[H _]]]; contradiction.
Qed.

(* ---------- error translation ---------- *)
Definition relevant (f : family) (k : kind) : bool :=
  match f, k with
  | FHead, (KNoSuchBucket | KNoSuchKey | KPreconditionFailed | KNotModified) => true
  | FGetBody, (KNoSuchBucket | KNoSuchKey | KPreconditionFailed | KNotModified | KInvalidRange) => true
  | FPut, (KNoSuchBucket | KPreconditionFailed) => true
  | FCopy, (KNoSuchBucket | KNoSuchKey | KPreconditionFailed | KInvalidStorageClass) => true
  | FDelete, (KNoSuchBucket | KPreconditionFailed) => true
  | FTagging, (KNoSuchBucket | KNoSuchKey) => true
  | FDeleteBucket, (KNoSuchBucket | KBucketNotEmpty) => true
  | FCreateBucket, KBucketAlreadyExists => true
  | FGeneric, (KNoSuchBucket | KNoSuchUpload | KInvalidPart) => true
  | _, _ => false
  end.
Definition translated (f : family) (k : kind) : bool :=
  match f, k with
  | FHead, KNoSuchBucket => true
  | FPut, KPreconditionFailed => true
  | FCopy, (KNoSuchBucket | KNoSuchKey | KPreconditionFailed) => true
  | FTagging, KNoSuchKey => true
  | FDeleteBucket, (KNoSuchBucket | KBucketNotEmpty) => true
  | FCreateBucket, KBucketAlreadyExists => true
  | _, _ => false
  end.
Lemma through_client_exact f k :
  relevant f k = true -> (through_client f k = Mapped k <-> translated f k = true).
Proof. destruct f, k; vm_compute; intros Hr; try discriminate; split; intros H; try reflexivity; try discriminate. Qed.

Lemma code_of_inj k1 k2 : code_of k1 = code_of k2 -> k1 = k2.
Proof. destruct k1, k2; vm_compute; intros H; try reflexivity; discriminate. Qed.

(* ---------- CopyObject field forwarding ---------- *)
Lemma existsb_false_all {A} (f : A -> bool) l : existsb f l = false -> forall x, In x l -> f x = false.
Proof.
  induction l as [|y r IH]; cbn; intros H x Hin; [destruct Hin|].
  apply Bool.orb_false_iff in H. destruct H as [H1 H2]. destruct Hin as [<-|Hin]; auto.
Qed.
Lemma server_meta_field w i : In i meta_ids -> meta_field (co_meta (server_opts w)) i = w_hdr w i.
Proof.
  intros Hin. unfold server_opts. cbn [co_meta].
  destruct (existsb (fun i0 => negb (is_vnone (w_hdr w i0))) meta_ids) eqn:E; [reflexivity|].
  cbn [meta_field]. pose proof (existsb_false_all _ _ E i Hin) as H. cbn in H.
  destruct (w_hdr w i); cbn in H; try discriminate. reflexivity.
Qed.
Lemma canon_opt_val a i : i <> 5 -> canon (opt_val a i) = opt_val a i.
Proof.
  intros Hi. unfold opt_val. destruct (N.testbit (xa_omask a) i); [|reflexivity].
  assert (E : (i =? 5) = false) by (apply N.eqb_neq; exact Hi). rewrite E. reflexivity.
Qed.
Lemma canon_src_val a i : canon (src_val a i) = src_val a i.
Proof. unfold src_val. destruct (N.testbit (xa_smask a) i); reflexivity. Qed.

Lemma copy_field_forwarding a i : In i field_ids -> client_field a i = canon (direct_field a i).
Proof.
  intros Hin. unfold client_field, direct_field, storage_copy_field.
  change (co_rm (server_opts (client_wire a))) with (xa_rm a).
  change (co_rm (direct_opts a)) with (xa_rm a).
  destruct (xa_rm a) eqn:Erm.
  - destruct (i =? 0) eqn:E0.
    + apply N.eqb_eq in E0. subst i. unfold server_opts, client_wire. cbn [co_ct w_replace w_hdr direct_opts].
      rewrite Erm. cbn. symmetry. apply canon_opt_val. discriminate.
    + assert (Hm : In i meta_ids).
      { apply N.eqb_neq in E0. unfold field_ids in Hin. unfold meta_ids. cbn in Hin |- *. intuition congruence. }
      rewrite (server_meta_field _ _ Hm). unfold client_wire. cbn [w_hdr]. rewrite Erm, E0.
      unfold direct_opts. cbn [co_meta]. destruct (xa_metanil a); reflexivity.
  - destruct (i =? 6) eqn:E6.
    + rewrite (server_meta_field _ 6) by (cbn; tauto). unfold client_wire. cbn [w_hdr]. rewrite Erm. cbn [N.eqb Pos.eqb andb].
      unfold direct_opts. cbn [co_meta]. destruct (xa_metanil a); cbn; [reflexivity|].
      symmetry. apply canon_opt_val. discriminate.
    + symmetry. apply canon_src_val.
Qed.

Lemma direct_alt_only_expires a i :
  direct_field a i = VAltRaw ->
  i = 5 /\ xa_rm a = true /\ xa_metanil a = false /\ N.testbit (xa_omask a) 5 = true /\ N.testbit (xa_omask a) 8 = true.
Proof.
  unfold direct_field, storage_copy_field, direct_opts. cbn [co_rm co_ct co_meta].
  assert (Hopt : forall j, opt_val a j = VAltRaw -> j = 5 /\ N.testbit (xa_omask a) 5 = true /\ N.testbit (xa_omask a) 8 = true).
  { intros j. unfold opt_val. destruct (N.testbit (xa_omask a) j) eqn:Ej; [|discriminate].
    destruct (j =? 5) eqn:E5; cbn; [|discriminate]. apply N.eqb_eq in E5. subst j.
    destruct (N.testbit (xa_omask a) 8); [auto|discriminate]. }
  destruct (xa_rm a).
  - destruct (i =? 0) eqn:E0.
    + apply N.eqb_eq in E0. subst i. intros H. destruct (Hopt 0 H) as [H0 _]. discriminate.
    + destruct (xa_metanil a); cbn [meta_field]; [discriminate|]. intros H. destruct (Hopt i H) as [-> [H5 H8]]. auto.
  - destruct (i =? 6).
    + destruct (xa_metanil a); cbn [meta_field]; [discriminate|]. intros H. destruct (Hopt 6 H) as [H6 _]. discriminate.
    + unfold src_val. destruct (N.testbit (xa_smask a) i); discriminate.
Qed.

Lemma copy_tags_forwarding a :
  client_tags a = stag a /\
  direct_tags a = (if xa_rt a then (if xa_otags a then VOpt else VNone) else stag a).
Proof. split; reflexivity. Qed.

(* ---------- CompleteMultipartUpload manifests ---------- *)
Fixpoint seqN (s : N) (k : nat) : list N := match k with O => [] | S k' => s :: seqN (s + 1) k' end.

Lemma validate_ok n : forall man prev c, c <= prev -> prev <= n ->
  (validate n prev man c = MROk <->
   c = prev /\ map fst man = seqN (prev + 1) (N.to_nat (n - prev)) /\ Forall (fun pe => snd pe <> 1) man).
Proof.
  induction man as [|[p e] r IH]; intros prev c Hc Hp.
  - cbn [validate map]. destruct (c =? n) eqn:E.
    + apply N.eqb_eq in E. split; [intros _|reflexivity]. assert (prev = n) by lia. subst.
      replace (n - n) with 0 by lia. cbn. repeat split; auto.
    + apply N.eqb_neq in E. split; [discriminate|]. intros [-> [Hs _]].
      destruct (N.to_nat (n - prev)) eqn:En; cbn in Hs; [|discriminate]. exfalso. lia.
  - cbn [validate map fst]. destruct (p <=? prev) eqn:E1.
    { split; [discriminate|]. intros [_ [Hs _]]. destruct (N.to_nat (n - prev)); cbn in Hs; [discriminate|].
      inversion Hs. lia. }
    destruct ((1 <=? p) && (p <=? n)) eqn:E2; cbn [negb].
    2:{ split; [discriminate|]. intros [_ [Hs _]]. destruct (N.to_nat (n - prev)) eqn:En; cbn in Hs; [discriminate|].
        inversion Hs. lia. }
    destruct (e =? 1) eqn:E3.
    { split; [discriminate|]. intros [_ [_ Hf]]. inversion Hf. cbn in *. apply N.eqb_eq in E3. contradiction. }
    apply N.eqb_neq in E3.
    assert (Hp1 : prev < p) by lia. assert (Hp2 : p <= n) by lia.
    rewrite (IH p (c + 1)) by lia. split.
    + intros [Hcp [Hs Hf]]. assert (c = prev) by lia. subst c. assert (p = prev + 1) by lia. subst p.
      split; [reflexivity|]. split; [|constructor; auto].
      replace (N.to_nat (n - prev)) with (S (N.to_nat (n - (prev + 1)))) by lia. cbn [seqN]. now rewrite Hs.
    + intros [-> [Hs Hf]]. destruct (N.to_nat (n - prev)) eqn:En; cbn [seqN] in Hs; [discriminate|].
      inversion Hs. subst p. split; [reflexivity|]. split.
      * replace (N.to_nat (n - (prev + 1))) with n0 by lia. assumption.
      * inversion Hf. assumption.
Qed.
