(* Proofs/S3ClientProofs.v — lemmas about Model/S3Client.v *)
From Verif Require Import Bytes Codec S3Client.
From Coq Require Import Lia ZifyBool ZifyN.
Local Open Scope N_scope.

(* ---------- percent encoding ---------- *)
Lemma hex_roundtrip (b : byte) :
  hex_val (uhex_digit (byteN b / 16)) = Some (byteN b / 16) /\
  hex_val (uhex_digit (byteN b mod 16)) = Some (byteN b mod 16) /\
  Nbyte (16 * (byteN b / 16) + byteN b mod 16) = b.
Proof. destruct b; vm_compute; repeat split; reflexivity. Qed.

Lemma hex_digit_not_percent n : n < 16 -> uhex_digit n <> "%"%byte /\ uhex_digit n <> "&"%byte /\ uhex_digit n <> "="%byte.
Proof.
  intros H. assert (Hc : n = 0 \/ n = 1 \/ n = 2 \/ n = 3 \/ n = 4 \/ n = 5 \/ n = 6 \/ n = 7 \/ n = 8 \/ n = 9 \/
                         n = 10 \/ n = 11 \/ n = 12 \/ n = 13 \/ n = 14 \/ n = 15) by lia.
  repeat destruct Hc as [Hc|Hc]; subst; vm_compute; repeat split; discriminate.
Qed.

Lemma escape_roundtrip (p : byte -> bool) (plus : bool) :
  p "%"%byte = true -> (plus = true -> p "+"%byte = true) ->
  forall s, unescape plus (escape p plus s) = Some s.
Proof.
  intros Hpct Hplus. induction s as [|b r IH]; [reflexivity|].
  cbn [escape]. destruct (plus && beqb b " "%byte) eqn:Esp.
  - apply andb_prop in Esp. destruct Esp as [Hp Hb]. apply beqb_eq in Hb. subst b plus.
    cbn [unescape]. change (beqb "+"%byte "%"%byte) with false. cbn iota. rewrite IH.
    change (true && beqb "+"%byte "+"%byte) with true. reflexivity.
  - destruct (p b) eqn:Ep.
    + cbn [unescape]. change (beqb "%"%byte "%"%byte) with true. cbn iota.
      destruct (hex_roundtrip b) as [H1 [H2 H3]]. rewrite H1, H2, IH, H3. reflexivity.
    + cbn [unescape]. destruct (beqb b "%"%byte) eqn:E1.
      { apply beqb_eq in E1. subst b. congruence. }
      rewrite IH. destruct (plus && beqb b "+"%byte) eqn:E2; [|reflexivity].
      apply andb_prop in E2. destruct E2 as [Hp Hb]. apply beqb_eq in Hb. subst b. rewrite (Hplus Hp) in Ep. discriminate.
Qed.

Lemma query_escape_no_sep s : ~ In "&"%byte (query_escape s) /\ ~ In "="%byte (query_escape s).
Proof.
  unfold query_escape. induction s as [|b r [IH1 IH2]]; [split; intros []|].
  cbn [escape]. destruct (true && beqb b " "%byte) eqn:Esp.
  - split; intros [H|H]; try discriminate; auto.
  - destruct (query_should_escape b) eqn:Ep.
    + assert (Hh : byteN b / 16 < 16).
      { assert (byteN b < 256) by (destruct b; vm_compute; reflexivity). apply N.div_lt_upper_bound; lia. }
      assert (Hl : byteN b mod 16 < 16) by (apply N.mod_lt; lia).
      destruct (hex_digit_not_percent _ Hh) as [_ [A1 A2]]. destruct (hex_digit_not_percent _ Hl) as [_ [C1 C2]].
      split; intros [H|[H|[H|H]]]; try discriminate; auto.
    + split; intros [H|H]; auto; subst b; vm_compute in Ep; discriminate.
Qed.

(* ---------- operations ---------- *)
Lemma not_implemented_exact op rest :
  not_implemented (op :: rest) = true <->
  (op = B"A" \/ (op = B"C" /\ arg (op :: rest) 11 <> 0) \/ (op = B"T" /\ arg (op :: rest) 4 <> 0)).
Proof.
  unfold not_implemented.
  destruct (bytes_eqb op B"A") eqn:EA.
  { apply bytes_eqb_eq in EA. split; auto. }
  apply bytes_eqb_neq in EA.
  destruct (bytes_eqb op B"C") eqn:EC.
  { apply bytes_eqb_eq in EC. split.
    - intros H. right. left. split; auto. intros Hz. rewrite Hz in H. discriminate.
    - intros [H|[[_ H]|[H _]]]; [contradiction| |subst; discriminate].
      destruct (arg (op :: rest) 11 =? 0) eqn:E; auto. apply N.eqb_eq in E. contradiction. }
  apply bytes_eqb_neq in EC.
  destruct (bytes_eqb op B"T") eqn:ET.
  { apply bytes_eqb_eq in ET. split.
    - intros H. right. right. split; auto. intros Hz. rewrite Hz in H. discriminate.
    - intros [H|[[H _]|[_ H]]]; [contradiction|contradiction|].
      destruct (arg (op :: rest) 4 =? 0) eqn:E; auto. apply N.eqb_eq in E. contradiction. }
  apply bytes_eqb_neq in ET.
  split; [discriminate|]. intros [H|[[H _]|[H _]]]; contradiction.
Qed.

(* ---------- error translation ---------- *)
Definition relevant (f : family) (k : kind) : bool :=
  match f, k with
  | FHead, (KNoSuchBucket | KNoSuchKey | KPreconditionFailed | KNotModified) => true
  | FGetBody, (KNoSuchBucket | KNoSuchKey | KPreconditionFailed | KNotModified | KInvalidRange) => true
  | FPut, (KNoSuchBucket | KPreconditionFailed) => true
  | FCopy, (KNoSuchBucket | KNoSuchKey | KPreconditionFailed | KInvalidStorageClass) => true
  | FDelete, (KNoSuchBucket | KPreconditionFailed) => true
  | FTagging, (KNoSuchBucket | KNoSuchKey) => true
  | FDeleteBucket, (KNoSuchBucket | KBucketNotEmpty) => true
  | FCreateBucket, KBucketAlreadyExists => true
  | FGeneric, (KNoSuchBucket | KNoSuchUpload | KInvalidPart) => true
  | _, _ => false
  end.
Definition translated (f : family) (k : kind) : bool :=
  match f, k with
  | FHead, KNoSuchBucket => true
  | FPut, KPreconditionFailed => true
  | FCopy, (KNoSuchBucket | KNoSuchKey | KPreconditionFailed) => true
  | FTagging, KNoSuchKey => true
  | FDeleteBucket, (KNoSuchBucket | KBucketNotEmpty) => true
  | FCreateBucket, KBucketAlreadyExists => true
  | _, _ => false
  end.
Lemma through_client_exact f k :
  relevant f k = true -> (through_client f k = Mapped k <-> translated f k = true).
Proof. destruct f, k; vm_compute; intros Hr; try discriminate; split; intros H; try reflexivity; try discriminate. Qed.

Lemma code_of_inj k1 k2 : code_of k1 = code_of k2 -> k1 = k2.
Proof. destruct k1, k2; vm_compute; intros H; try reflexivity; discriminate. Qed.
