(* Proofs/FaultProofs.v — M-META: an operation that answers an error has not changed the state
   (every writing operation is [commit s0 (...)]; bucket operations and reads return their input state). *)
From Verif Require Import Bytes Codec Md5 Meta Tx Fault.

Lemma commit_err s0 x : is_err (snd (commit s0 x)) = true -> fst (commit s0 x) = s0.
Proof.
  unfold commit. destruct x as [s r]. cbn [fst snd].
  destruct r; cbn; try reflexivity;
    destruct (unique_ok s && parts_unique_ok s); cbn; intros H; try discriminate; reflexivity.
Qed.

Lemma step_err_no_trace i hist s o :
  is_err (snd (step i hist s o)) = true -> fst (step i hist s o) = with_ids s i.
Proof.
  destruct o; unfold step;
    try (unfold op_put, op_delete, op_upload_part, op_complete, op_abort, op_append, op_copy; apply commit_err);
    try reflexivity.
  - unfold op_mb. destruct (find_bucket _ _); cbn; [reflexivity | discriminate].
  - unfold op_rb. destruct (find_bucket _ _); [destruct (existsb _ _)|]; cbn; try reflexivity; discriminate.
  - unfold op_ver. destruct (find_bucket _ _); cbn; [discriminate | reflexivity].
  - unfold op_cmu. destruct (find_bucket _ _); [destruct (insert_row _ _)|]; cbn; [discriminate | reflexivity].
Qed.
