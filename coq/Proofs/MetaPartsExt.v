(* Proofs/MetaPartsExt.v — the part-protocol results (MetaParts*.v) extended to the machine of Model/MetaExt.v:
   ranged GetObject (read only), UploadPartCopy (shares a wholly covered source part, else a fresh slice) and
   ranged CopyObject.  PartsInv / NoOrphans / Dead / OInv are preserved by [xstep], hence hold for all [xrun ops]. *)
From Verif Require Import Bytes Codec Md5 Meta MetaExt MetaPartsDefs MetaParts MetaPartsOps MetaPartsOwned.
From Coq Require Import ZifyBool ZifyN ZifyNat.

Lemma covered_part_In ps : forall off st en p, covered_part ps off st en = Some p -> In p ps.
Proof.
  induction ps as [|q ps IH]; intros off st en p H; cbn [covered_part] in H; [discriminate|].
  destruct ((st =? off)%Z && (en =? off + zlen (p_content q))%Z).
  - inversion H; subst. left; reflexivity.
  - right. eapply IH; exact H.
Qed.

Ltac xcommit_split Hi Hne :=
  match goal with |- context [commit ?s0 ?X] =>
    destruct (commit_cases s0 X) as [->|[-> Hne]]; [exact Hi|] end.
Ltac xis_err H Hne := inversion H; subst; exfalso; eapply Hne; reflexivity.

Section ExtOps.
Variable strict : bool.
Variable D : N -> Prop.
Variable n0 : N.
Notation PI := (PInvG strict D n0).

(* sqlMetadataStore.UploadPart with any pending part (fresh or pre-acquired) *)
Lemma meta_upload_part_inv s b k u pn np s' r un :
  meta_upload_part s b k u pn np = (s', r, un) -> (forall e, r <> RErr e) -> PI s [np] [] -> PI s' [] un.
Proof.
  intros E2 Hne E1. unfold meta_upload_part in E2.
  destruct (find_bucket s b); [|xis_err E2 Hne].
  destruct (find_upload s b k u) as [r1|]; [|xis_err E2 Hne].
  match type of E2 with context [remove_part_rows ?X ?Y] => destruct (remove_part_rows X Y) as [s3 un3] eqn:E3 end.
  inversion E2; subst; clear E2.
  apply (save_part_rows_inv strict D n0 [np] s3 (o_id r1) pn [] un). cbn [app].
  apply (remove_part_rows_inv strict D n0 _ _ _ _ [np] []) in E3; [rewrite app_nil_r in E3; exact E3 | exact E1].
Qed.

Ltac x_if := match goal with |- PI (fst (if ?X then _ else _)) _ _ => destruct X end.

Lemma op_upload_part_copy_inv s0 sb sk sv db dk u pn rs re :
  PI s0 [] [] -> PI (fst (op_upload_part_copy s0 sb sk sv db dk u pn rs re)) [] [].
Proof.
  intros Hi. unfold op_upload_part_copy. xcommit_split Hi Hne. cbv zeta in *.
  destruct (lookup s0 sb sk sv) as [[src|]|e]; try exact Hi.
  x_if; [exact Hi|].
  destruct (norm_bounds (o_size src) rs re) as [[bs be]|]; [|exact Hi].
  destruct (find_bucket s0 db); [|exact Hi].
  destruct (find_upload s0 db dk u); [|exact Hi].
  destruct (covered_part (row_parts s0 src) 0 bs be) as [p|] eqn:Cp.
  - destruct (try_add_refs (registry s0) [p_pid p]) as [reg|] eqn:T; [|exact Hi].
    match goal with |- context [meta_upload_part ?a ?b ?c ?d ?e ?f] =>
      destruct (meta_upload_part a b c d e f) as [[s2 r] un] eqn:E2 end.
    cbn [fst snd] in *. apply delete_unreferenced_inv.
    eapply meta_upload_part_inv; [exact E2 | exact Hne |].
    change [{| n_pid := p_pid p; n_content := p_content p; n_pre := true |}] with (shared_of [p] ++ []).
    apply try_add_refs_inv; [exact T | | exact Hi].
    intros row [<-|[]]. eapply row_parts_sub. eapply covered_part_In. exact Cp.
  - destruct (range_of (o_size src) rs re) as [rg|]; [|exact Hi].
    destruct (row_body s0 src) as [body|]; [|exact Hi].
    destruct (put_fresh_part s0 (slice body rg)) as [np s1] eqn:E1.
    destruct (meta_upload_part s1 db dk u pn np) as [[s2 r] un] eqn:E2. cbn [fst snd] in *.
    apply delete_unreferenced_inv.
    eapply meta_upload_part_inv; [exact E2 | exact Hne |].
    eapply put_fresh_part_inv; [exact E1 | exact Hi].
Qed.

Lemma op_copy_range_inv s0 vn sb sk sv db dk rs re :
  PI s0 [] [] -> PI (fst (op_copy_range s0 vn sb sk sv db dk rs re)) [] [].
Proof.
  intros Hi. unfold op_copy_range. xcommit_split Hi Hne. cbv zeta in *.
  destruct (lookup s0 sb sk sv) as [[src|]|e]; try exact Hi.
  x_if; [exact Hi|].
  destruct (range_of (o_size src) rs re) as [rg|]; [|exact Hi].
  destruct (row_body s0 src) as [body|]; [|exact Hi].
  destruct (put_fresh_part s0 (slice body rg)) as [np s1] eqn:E1.
  match goal with |- context [meta_put ?a ?b ?c ?d ?e ?f] =>
    destruct (meta_put a b c d e f) as [[s2 r] un] eqn:E2 end.
  cbn [fst snd] in *. apply delete_unreferenced_inv.
  eapply meta_put_inv; [exact E2 | exact Hne |]. cbn [w_parts].
  eapply put_fresh_part_inv; [exact E1 | exact Hi].
Qed.

Lemma xstep_pinvg i hist s o : PI s [] [] -> PI (fst (xstep i hist s o)) [] [].
Proof.
  intros H. assert (Hw : PI (with_ids s i) [] []) by (eapply pinvg_same; [apply same_ps_with_ids | exact H]).
  destruct o as [o| | |]; cbn [xstep fst].
  - apply step_pinvg. exact H.
  - exact Hw.
  - apply op_upload_part_copy_inv. exact Hw.
  - apply op_copy_range_inv. exact Hw.
Qed.

Lemma xrun_from_pinvg ops : forall i hist s, PI s [] [] -> PI (fst (xrun_from i hist s ops)) [] [].
Proof.
  induction ops as [|o ops IH]; intros i hist s H; cbn [xrun_from]; [exact H|].
  destruct (xstep i hist s o) as [s' r] eqn:E. apply IH.
  change s' with (fst (s', r)). rewrite <- E. apply xstep_pinvg. exact H.
Qed.

End ExtOps.

Theorem xstep_parts_inv : forall i h s o, PartsInv s -> PartsInv (fst (xstep i h s o)).
Proof.
  intros i h s o H.
  apply (parts_inv_of_pinvg false no_dead 0). apply xstep_pinvg.
  apply pinvg_of_parts_inv; [exact H | intros p [] | lia | discriminate].
Qed.

Theorem xstep_no_orphans : forall i h s o, PartsInv s -> NoOrphans s -> NoOrphans (fst (xstep i h s o)).
Proof.
  intros i h s o H Ho.
  apply (parts_inv_of_pinvg true no_dead 0); [|reflexivity]. apply xstep_pinvg.
  apply pinvg_of_parts_inv; [exact H | intros p [] | lia | intros _; exact Ho].
Qed.

Theorem xstep_dead : forall i h s o pid, PartsInv s -> Dead s pid -> Dead (fst (xstep i h s o)) pid.
Proof.
  intros i h s o pid H Hd.
  apply (parts_inv_of_pinvg false (fun p => p = pid) 0); [|reflexivity]. apply xstep_pinvg.
  apply pinvg_of_parts_inv; [exact H | intros p ->; exact Hd | lia | discriminate].
Qed.

Theorem xstep_next_id_mono : forall i h s o, PartsInv s -> (next_id s <= next_id (fst (xstep i h s o)))%N.
Proof.
  intros i h s o H.
  apply (parts_inv_of_pinvg false no_dead (next_id s)). apply xstep_pinvg.
  apply pinvg_of_parts_inv; [exact H | intros p [] | lia | discriminate].
Qed.

Theorem xrun_parts_inv : forall ops, PartsInv (fst (xrun ops)) /\ NoOrphans (fst (xrun ops)).
Proof.
  intros ops. unfold xrun.
  destruct (parts_inv_of_pinvg true no_dead 0 (fst (xrun_from 0 [] init ops))) as [A [_ [_ Bq]]].
  - apply xrun_from_pinvg. destruct init_parts_inv as [I O].
    apply pinvg_of_parts_inv; [exact I | intros p [] | cbn; lia | intros _; exact O].
  - split; [exact A | apply Bq; reflexivity].
Qed.

(* ---------- parts owned ---------- *)
Lemma meta_upload_part_oinv s b k u pn np s' r un :
  meta_upload_part s b k u pn np = (s', r, un) -> (forall e, r <> RErr e) -> OInv s -> OInv s'.
Proof.
  intros E2 Hne O1. unfold meta_upload_part in E2.
  destruct (find_bucket s b); [|xis_err E2 Hne].
  destruct (find_upload s b k u) as [r1|] eqn:FU; [|xis_err E2 Hne].
  match type of E2 with context [remove_part_rows ?X ?Y] => destruct (remove_part_rows X Y) as [s3 un3] eqn:E3 end.
  inversion E2; subst; clear E2.
  assert (W : owner s (o_id r1)).
  { pose proof (find_upload_In _ _ _ _ _ FU) as I. exists r1. repeat split; auto.
    apply (o_pend s O1 r1 I). unfold find_upload in FU. apply find_some in FU. destruct FU as [_ FU].
    destruct (o_upload r1); [discriminate|]. rewrite andb_false_r in FU. discriminate. }
  apply (oinv_save s3 (o_id r1) [np] pn); [eapply oinv_remove_part_rows; [exact E3 | exact O1]|].
  eapply owner_osame; [apply (remove_part_rows_frame _ _ _ _ E3) | exact W].
Qed.

Ltac xo_if := match goal with |- OInv (fst (if ?X then _ else _)) => destruct X end.

Lemma op_upload_part_copy_oinv s0 sb sk sv db dk u pn rs re :
  OInv s0 -> OInv (fst (op_upload_part_copy s0 sb sk sv db dk u pn rs re)).
Proof.
  intros Hi. unfold op_upload_part_copy. xcommit_split Hi Hne. cbv zeta in *.
  destruct (lookup s0 sb sk sv) as [[src|]|e]; try exact Hi.
  xo_if; [exact Hi|].
  destruct (norm_bounds (o_size src) rs re) as [[bs be]|]; [|exact Hi].
  destruct (find_bucket s0 db); [|exact Hi].
  destruct (find_upload s0 db dk u); [|exact Hi].
  destruct (covered_part (row_parts s0 src) 0 bs be) as [p|] eqn:Cp.
  - destruct (try_add_refs (registry s0) [p_pid p]) as [reg|] eqn:T; [|exact Hi].
    match goal with |- context [meta_upload_part ?a ?b ?c ?d ?e ?f] =>
      destruct (meta_upload_part a b c d e f) as [[s2 r] un] eqn:E2 end.
    cbn [fst snd] in *. apply oinv_delete_unreferenced.
    eapply meta_upload_part_oinv; [exact E2 | exact Hne |].
    eapply oinv_osame; [apply set_registry_frame | exact Hi].
  - destruct (range_of (o_size src) rs re) as [rg|]; [|exact Hi].
    destruct (row_body s0 src) as [body|]; [|exact Hi].
    destruct (put_fresh_part s0 (slice body rg)) as [np s1] eqn:E1.
    destruct (meta_upload_part s1 db dk u pn np) as [[s2 r] un] eqn:E2. cbn [fst snd] in *.
    apply oinv_delete_unreferenced.
    eapply meta_upload_part_oinv; [exact E2 | exact Hne |].
    eapply oinv_osame; [eapply put_fresh_part_frame; exact E1 | exact Hi].
Qed.

Lemma op_copy_range_oinv s0 vn sb sk sv db dk rs re :
  OInv s0 -> OInv (fst (op_copy_range s0 vn sb sk sv db dk rs re)).
Proof.
  intros Hi. unfold op_copy_range. xcommit_split Hi Hne. cbv zeta in *.
  destruct (lookup s0 sb sk sv) as [[src|]|e]; try exact Hi.
  xo_if; [exact Hi|].
  destruct (range_of (o_size src) rs re) as [rg|]; [|exact Hi].
  destruct (row_body s0 src) as [body|]; [|exact Hi].
  destruct (put_fresh_part s0 (slice body rg)) as [np s1] eqn:E1.
  match goal with |- context [meta_put ?a ?b ?c ?d ?e ?f] =>
    destruct (meta_put a b c d e f) as [[s2 r] un] eqn:E2 end.
  cbn [fst snd] in *. apply oinv_delete_unreferenced.
  eapply meta_put_oinv; [exact E2 | exact Hne |].
  eapply oinv_osame; [eapply put_fresh_part_frame; exact E1 | exact Hi].
Qed.

Lemma xstep_oinv i hist s o : OInv s -> OInv (fst (xstep i hist s o)).
Proof.
  intros H. assert (Hw : OInv (with_ids s i)) by (eapply oinv_osame; [apply with_ids_frame | exact H]).
  destruct o as [o| | |]; cbn [xstep fst].
  - apply step_oinv. exact H.
  - exact Hw.
  - apply op_upload_part_copy_oinv. exact Hw.
  - apply op_copy_range_oinv. exact Hw.
Qed.

Lemma xrun_from_oinv ops : forall i hist s, OInv s -> OInv (fst (xrun_from i hist s ops)).
Proof.
  induction ops as [|o ops IH]; intros i hist s H; cbn [xrun_from]; [exact H|].
  destruct (xstep i hist s o) as [s' r] eqn:E. apply IH.
  change s' with (fst (s', r)). rewrite <- E. apply xstep_oinv. exact H.
Qed.

Theorem xrun_oinv : forall ops, OInv (fst (xrun ops)).
Proof. intros ops. apply xrun_from_oinv. exact init_oinv. Qed.

Theorem xrun_parts_owned : forall ops row, In row (parts (fst (xrun ops))) ->
  exists r, In r (objs (fst (xrun ops))) /\ o_id r = p_obj row /\ o_dm r = false.
Proof. intros ops row H. apply (o_owned _ (xrun_oinv ops) row H). Qed.

Theorem xrun_stored_is_referenced : forall ops p c, store_get (store (fst (xrun ops))) p = Some c ->
  exists row r, In row (parts (fst (xrun ops))) /\ p_pid row = p /\ p_content row = c /\
                In r (objs (fst (xrun ops))) /\ o_id r = p_obj row /\ o_dm r = false.
Proof.
  intros ops p c H. destruct (xrun_parts_inv ops) as [[_ [P _]] No].
  destruct (No p c H) as [row [I E]]. destruct (xrun_parts_owned ops row I) as [r [Ir [Er Dr]]].
  exists row, r. repeat split; auto. specialize (P row I). rewrite E in P. congruence.
Qed.

(* ---------- reads ---------- *)
Lemma row_body_recorded s r : PartsInv s -> parts_size (row_parts s r) = o_size r ->
  row_body s r = Some (concat (map p_content (row_parts s r))).
Proof.
  intros Hi Sz. unfold row_body. rewrite (get_recorded_bytes s r Hi). cbn [option_map]. f_equal.
  apply firstn_all2. pose proof (parts_size_length (row_parts s r)). lia.
Qed.

Lemma op_get_range_recorded s b k v rs re r rg : PartsInv s ->
  lookup s b k v = inl (Some r) -> parts_size (row_parts s r) = o_size r ->
  range_of (o_size r) rs re = Some rg ->
  op_get_range s b k v rs re =
    RObj (row_vid r) (o_etag r) (o_size r) (o_updated r) (o_ctype r)
         (Some (slice (concat (map p_content (row_parts s r))) rg)).
Proof.
  intros Hi L Sz Rg. unfold op_get_range. rewrite L, Rg, (row_body_recorded s r Hi Sz). reflexivity.
Qed.

(* a ranged read never fails for lack of bytes: the only outcomes are the lookup error, InvalidRange, or the slice *)
Lemma op_get_range_total s b k v rs re r : PartsInv s -> lookup s b k v = inl (Some r) ->
  op_get_range s b k v rs re <> RErr OtherErr.
Proof.
  intros Hi L. unfold op_get_range, row_body. rewrite L, (get_recorded_bytes s r Hi).
  destruct (range_of (o_size r) rs re); cbn [option_map]; discriminate.
Qed.
