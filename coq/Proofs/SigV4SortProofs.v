(* Proofs/SigV4SortProofs.v — byte-string order and insertion sort facts (C29 order independence, C28 multiset). *)
From Verif Require Import Bytes Codec SigV4.
From Coq Require Import Permutation Sorted.

Lemma byteN_inj a b : byteN a = byteN b -> a = b.
Proof.
  unfold byteN. intros H.
  assert (Some a = Some b) as E by (rewrite <- (Byte.of_to_N a), <- (Byte.of_to_N b), H; reflexivity).
  inversion E; reflexivity.
Qed.

Lemma bytes_cmp_refl a : bytes_cmp a a = Eq.
Proof. induction a as [|x a IH]; cbn; [reflexivity|]. rewrite N.compare_refl. exact IH. Qed.

Lemma bytes_cmp_eq a b : bytes_cmp a b = Eq -> a = b.
Proof.
  revert b; induction a as [|x a IH]; intros [|y b]; cbn; try discriminate; [reflexivity|].
  destruct (N.compare (byteN x) (byteN y)) eqn:E; try discriminate.
  apply N.compare_eq in E. apply byteN_inj in E. subst. intros H. f_equal. apply IH. exact H.
Qed.

Lemma bytes_cmp_antisym a b : bytes_cmp b a = CompOpp (bytes_cmp a b).
Proof.
  revert b; induction a as [|x a IH]; intros [|y b]; cbn; try reflexivity.
  rewrite (N.compare_antisym (byteN x) (byteN y)).
  destruct (N.compare (byteN x) (byteN y)); cbn; [apply IH | reflexivity | reflexivity].
Qed.

Definition ble (a b : bytes) : Prop := bytes_cmp a b <> Gt.

Lemma ble_trans a b c : ble a b -> ble b c -> ble a c.
Proof.
  unfold ble. revert b c; induction a as [|x a IH]; intros [|y b] [|z c]; cbn; try congruence.
  destruct (N.compare (byteN x) (byteN y)) eqn:E1; destruct (N.compare (byteN y) (byteN z)) eqn:E2; try congruence.
  - apply N.compare_eq in E1. apply N.compare_eq in E2. rewrite E1, E2, N.compare_refl. apply IH.
  - apply N.compare_eq in E1. rewrite E1, E2. congruence.
  - apply N.compare_eq in E2. rewrite <- E2, E1. congruence.
  - rewrite N.compare_lt_iff in E1, E2. assert (byteN x < byteN z)%N as L by lia.
    apply N.compare_lt_iff in L. rewrite L. congruence.
Qed.

Lemma cmp_lt_trans a b c : bytes_cmp a b = Lt -> bytes_cmp b c = Lt -> bytes_cmp a c = Lt.
Proof.
  intros H1 H2.
  assert (ble a c) as L by (apply (ble_trans a b c); unfold ble; congruence).
  destruct (bytes_cmp a c) eqn:E; [|reflexivity | exfalso; apply L; exact E].
  apply bytes_cmp_eq in E. subst c. rewrite (bytes_cmp_antisym a b), H1 in H2. discriminate.
Qed.

(* ---- pair_leb is a total order on pairs ---- *)
Lemma pair_leb_total p q : pair_leb p q = true \/ pair_leb q p = true.
Proof.
  unfold pair_leb. rewrite (bytes_cmp_antisym (fst p) (fst q)), (bytes_cmp_antisym (snd p) (snd q)).
  destruct (bytes_cmp (fst p) (fst q)); cbn; auto.
  destruct (bytes_cmp (snd p) (snd q)); cbn; auto.
Qed.

Lemma pair_leb_antisym p q : pair_leb p q = true -> pair_leb q p = true -> p = q.
Proof.
  unfold pair_leb. rewrite (bytes_cmp_antisym (fst p) (fst q)), (bytes_cmp_antisym (snd p) (snd q)).
  destruct (bytes_cmp (fst p) (fst q)) eqn:E1; cbn; try discriminate.
  destruct (bytes_cmp (snd p) (snd q)) eqn:E2; cbn; try discriminate.
  intros _ _. apply bytes_cmp_eq in E1. apply bytes_cmp_eq in E2. destruct p, q; cbn in *; subst; reflexivity.
Qed.

Lemma pair_leb_trans p q r : pair_leb p q = true -> pair_leb q r = true -> pair_leb p r = true.
Proof.
  unfold pair_leb.
  destruct (bytes_cmp (fst p) (fst q)) eqn:E1; try discriminate.
  - apply bytes_cmp_eq in E1. rewrite E1.
    destruct (bytes_cmp (fst q) (fst r)) eqn:E2; try discriminate; [|auto].
    destruct (bytes_cmp (snd p) (snd q)) eqn:F1; try discriminate;
    destruct (bytes_cmp (snd q) (snd r)) eqn:F2; try discriminate; intros _ _.
    + apply bytes_cmp_eq in F1. rewrite F1, F2. reflexivity.
    + apply bytes_cmp_eq in F1. rewrite F1, F2. reflexivity.
    + apply bytes_cmp_eq in F2. rewrite <- F2, F1. reflexivity.
    + rewrite (cmp_lt_trans _ _ _ F1 F2). reflexivity.
  - destruct (bytes_cmp (fst q) (fst r)) eqn:E2; try discriminate; intros _ _.
    + apply bytes_cmp_eq in E2. rewrite <- E2, E1. reflexivity.
    + rewrite (cmp_lt_trans _ _ _ E1 E2). reflexivity.
Qed.

Section SortFacts.
  Context {A : Type} (leb : A -> A -> bool).

  Lemma insert_perm x l : Permutation (insert leb x l) (x :: l).
  Proof.
    induction l as [|y l IH]; cbn; [reflexivity|].
    destruct (leb x y); [reflexivity|]. rewrite IH. apply perm_swap.
  Qed.
  Lemma isort_perm l : Permutation (isort leb l) l.
  Proof. induction l as [|x l IH]; cbn; [reflexivity|]. rewrite insert_perm, IH. reflexivity. Qed.

  Hypothesis total : forall a b, leb a b = true \/ leb b a = true.
  Hypothesis trans : forall a b c, leb a b = true -> leb b c = true -> leb a c = true.
  Hypothesis antisym : forall a b, leb a b = true -> leb b a = true -> a = b.

  Definition sorted := StronglySorted (fun a b => leb a b = true).

  Lemma insert_sorted x l : sorted l -> sorted (insert leb x l).
  Proof.
    induction l as [|y l IH]; cbn; intros S.
    - constructor; constructor.
    - destruct (leb x y) eqn:E.
      + constructor; [exact S|]. constructor; [exact E|].
        apply StronglySorted_inv in S. destruct S as [_ F].
        eapply Forall_impl; [|exact F]. intros z Hz. eapply trans; eauto.
      + apply StronglySorted_inv in S. destruct S as [S F]. constructor; [apply IH; exact S|].
        assert (leb y x = true) as Hyx by (destruct (total x y); congruence).
        apply (Permutation_Forall (Permutation_sym (insert_perm x l))).
        constructor; assumption.
  Qed.
  Lemma isort_sorted l : sorted (isort leb l).
  Proof. induction l as [|x l IH]; cbn; [constructor|]. apply insert_sorted. exact IH. Qed.

  Lemma sorted_perm_eq l : forall l', sorted l -> sorted l' -> Permutation l l' -> l = l'.
  Proof.
    induction l as [|a t IH]; intros l' S S' P.
    - apply Permutation_nil in P. subst. reflexivity.
    - destruct l' as [|b t']; [apply Permutation_sym, Permutation_nil in P; discriminate|].
      apply StronglySorted_inv in S. destruct S as [St Fa].
      apply StronglySorted_inv in S'. destruct S' as [St' Fb].
      assert (a = b) as E.
      { assert (In b (a :: t)) as Hb by (eapply Permutation_in; [symmetry; exact P | left; reflexivity]).
        assert (In a (b :: t')) as Ha by (eapply Permutation_in; [exact P | left; reflexivity]).
        destruct Hb as [Hb|Hb]; [exact Hb|]. destruct Ha as [Ha|Ha]; [symmetry; exact Ha|].
        rewrite Forall_forall in Fa, Fb. apply antisym; [apply Fa; exact Hb | apply Fb; exact Ha]. }
      subst b. f_equal. apply IH; [exact St | exact St'|]. eapply Permutation_cons_inv; exact P.
  Qed.

  Lemma isort_perm_eq l l' : Permutation l l' -> isort leb l = isort leb l'.
  Proof.
    intros P. apply sorted_perm_eq; try apply isort_sorted.
    rewrite (isort_perm l), (isort_perm l'). exact P.
  Qed.
End SortFacts.

Lemma canon_query_perm ps ps' : Permutation ps ps' -> canon_query_of_pairs ps = canon_query_of_pairs ps'.
Proof.
  intros P. unfold canon_query_of_pairs. f_equal. f_equal.
  apply (isort_perm_eq pair_leb pair_leb_total pair_leb_trans pair_leb_antisym).
  apply Permutation_map. exact P.
Qed.
