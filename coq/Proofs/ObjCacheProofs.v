(* Proofs/ObjCacheProofs.v — invariants of the object-cache middleware model. *)
From Verif Require Import Bytes Codec ObjCache.
Local Open Scope N_scope.

(* ---------- finite map facts ---------- *)
Lemma K_eqb_refl k : K_eqb k k = true.
Proof. unfold K_eqb. rewrite !N.eqb_refl. reflexivity. Qed.
Lemma K_eqb_eq a b : K_eqb a b = true <-> a = b.
Proof.
  unfold K_eqb. rewrite andb_true_iff, !N.eqb_eq. destruct a, b; cbn. split.
  - intros [-> ->]; reflexivity.
  - intros E; inversion E; auto.
Qed.
Lemma K_eqb_sym a b : K_eqb a b = K_eqb b a.
Proof. unfold K_eqb. rewrite (N.eqb_sym (fst a)), (N.eqb_sym (snd a)). reflexivity. Qed.

Lemma get_set_same {A} k (v : A) m : get k (set k v m) = Some v.
Proof. cbn. rewrite K_eqb_refl. reflexivity. Qed.
Lemma get_set_other {A} k k' (v : A) m : K_eqb k' k = false -> get k' (set k v m) = get k' m.
Proof. intros H. cbn. rewrite H. reflexivity. Qed.
Lemma get_del_same {A} k (m : list (K * A)) : get k (del k m) = None.
Proof.
  induction m as [|[k' v] m IH]; cbn; [reflexivity|].
  destruct (K_eqb k k') eqn:E; [exact IH|]. cbn. rewrite E. exact IH.
Qed.
Lemma get_del_other {A} k k' (m : list (K * A)) : K_eqb k' k = false -> get k' (del k m) = get k' m.
Proof.
  intros H. induction m as [|[k2 v] m IH]; cbn; [reflexivity|].
  destruct (K_eqb k k2) eqn:E.
  - apply K_eqb_eq in E; subst k2. rewrite H. exact IH.
  - cbn. destruct (K_eqb k' k2); [reflexivity | exact IH].
Qed.

(* ---------- the inner storage only matters through [get k (i_objs _)] ---------- *)
Definition same_at (i s : inner) (k : K) : Prop := get k (i_objs i) = get k (i_objs s).
Definition frame (i s : inner) (k : K) : Prop := forall k', K_eqb k' k = false -> same_at i s k'.

Lemma lookup_same i s k : same_at i s k -> inner_lookup i k = inner_lookup s k.
Proof. unfold same_at, inner_lookup, cur, cur_row, stack. intros ->. reflexivity. Qed.
Lemma frame_refl s k : frame s s k.
Proof. intros k' _. reflexivity. Qed.
Lemma frame_set_stack s k l : frame (set_stack s k l) s k.
Proof. intros k' H. unfold same_at, set_stack. cbn [i_objs]. apply get_set_other. exact H. Qed.
Lemma frame_objs_eq i s k : i_objs i = i_objs s -> frame i s k.
Proof. intros E k' _. unfold same_at. rewrite E. reflexivity. Qed.
Lemma frame_trans a b c k : frame a b k -> frame b c k -> frame a c k.
Proof. intros H1 H2 k' H. unfold same_at in *. rewrite (H1 k' H). apply H2. exact H. Qed.
Lemma frame_bump s0 s k : frame s0 s k -> frame (bump_vid s0) s k.
Proof. intros H. eapply frame_trans; [apply frame_objs_eq; reflexivity | exact H]. Qed.
Lemma frame_write_new s k v c ip : frame (write_new s k v c ip) s k.
Proof.
  unfold write_new. destruct (is_enabled s (fst k)); [apply frame_bump, frame_set_stack|].
  destruct (null_row s k); [destruct ip|]; apply frame_set_stack.
Qed.
Lemma frame_upd_target s k vr f : frame (upd_target s k vr f) s k.
Proof. apply frame_set_stack. Qed.
Lemma frame_push_marker s k : frame (push_marker s k) s k.
Proof. apply frame_bump, frame_set_stack. Qed.
Lemma frame_remove_version s k vr r : frame (remove_version s k vr r) s k.
Proof. apply frame_set_stack. Qed.

(* the object a successful unconditional-looking put leaves as the current one *)
Lemma find_latest_map_null v (l : list row) :
  find is_null l <> None ->
  exists c, find w_latest (map (fun r => if is_null r then mkRow None v (w_created r) true else unlatest1 r) l)
            = Some (mkRow None v c true).
Proof.
  induction l as [|r l IH]; cbn; [congruence|]. intros H.
  destruct (is_null r) eqn:E; cbn; [eexists; reflexivity|]. apply IH. exact H.
Qed.
Lemma lookup_write_new s k o c ip : inner_lookup (write_new s k (VObj o) c ip) k = RObj o.
Proof.
  unfold inner_lookup, cur, cur_row, stack, write_new.
  destruct (is_enabled s (fst k)).
  - unfold bump_vid, set_stack. cbn [i_objs]. rewrite get_set_same. reflexivity.
  - destruct (null_row s k) eqn:N; [destruct ip|]; unfold set_stack; cbn [i_objs]; rewrite get_set_same; try reflexivity.
    unfold null_row in N.
    destruct (find_latest_map_null (VObj o) (match get k (i_objs s) with Some l => l | None => [] end)) as [c1 Hc].
    { unfold stack in N. rewrite N. discriminate. }
    unfold stack. rewrite Hc. reflexivity.
Qed.

(* every mutating call of the inner storage touches at most the addressed key; a failing call nothing *)
Lemma put_frame s k cid ct me tg cl c i e :
  inner_put s k cid ct me tg cl c = (i, e) ->
  frame i s k /\ (e <> Ok -> i = s) /\
  (e = Ok -> exists st, inner_lookup i k = RObj (mkObj [cid] ct me tg cl (ES cid) st)).
Proof.
  unfold inner_put. destruct (match c with PNone => _ | _ => _ end); intros E; inversion E; subst.
  - split; [apply frame_write_new|]. split; [congruence|]. intros _. eexists. apply lookup_write_new.
  - split; [apply frame_refl|]. split; [reflexivity | discriminate].
Qed.
Lemma append_frame s k cid off i e :
  inner_append s k cid off = (i, e) -> frame i s k /\ (e <> Ok -> i = s).
Proof.
  unfold inner_append. destruct (match off with None => _ | _ => _ end).
  - destruct (is_enabled s (fst k)); [|destruct (cur_row s k)]; intros E; inversion E; subst;
      (split; [first [apply frame_write_new | apply frame_upd_target | apply frame_set_stack] | congruence]).
  - intros E; inversion E; subst. split; [apply frame_refl | reflexivity].
Qed.
Lemma copy_frame s src dst rm ct me rt tg cl i e :
  inner_copy s src dst rm ct me rt tg cl = (i, e) -> frame i s dst.
Proof.
  unfold inner_copy. destruct (inner_lookup s src); intros E; inversion E; subst;
    [apply frame_write_new | apply frame_refl].
Qed.
Lemma delete_frame s k c vr i e :
  inner_delete s k c vr = (i, e) -> frame i s k /\ (e <> Ok -> i = s).
Proof.
  unfold inner_delete. destruct vr.
  - destruct (is_unset s (fst k)).
    + destruct (cur_row s k); [destruct (cond_holds c _)|destruct c]; intros E; inversion E; subst;
        (split; [first [apply frame_set_stack | apply frame_refl] | congruence]).
    + destruct (cond_holds c (cur_obj s k)); intros E; inversion E; subst;
        (split; [first [apply frame_push_marker | apply frame_refl] | congruence]).
  - destruct (row_by s k VRNull); [destruct (match c with CTag _ => _ | _ => _ end)|destruct c]; intros E; inversion E; subst;
      (split; [first [apply frame_remove_version | apply frame_refl] | congruence]).
  - destruct (row_by s k (VRId n)); [destruct (match c with CTag _ => _ | _ => _ end)|destruct c]; intros E; inversion E; subst;
      (split; [first [apply frame_remove_version | apply frame_refl] | congruence]).
  - destruct (row_by s k VRBogus); [destruct (match c with CTag _ => _ | _ => _ end)|destruct c]; intros E; inversion E; subst;
      (split; [first [apply frame_remove_version | apply frame_refl] | congruence]).
Qed.
Lemma delete_entry_frame s k c vr i d :
  inner_delete_entry s k c vr = (i, d) -> frame i s k /\ (d = false -> i = s).
Proof.
  unfold inner_delete_entry.
  destruct (match vr with VRNone => _ | _ => _ end) as [r|].
  - destruct (match c with CNone => true | _ => _ end).
    + destruct (inner_delete s k c vr) as [s' e] eqn:D. destruct (delete_frame _ _ _ _ _ _ D) as [F Hn].
      destruct e; intros E; inversion E; subst; (split; [exact F|]); try discriminate;
        intros _; apply Hn; discriminate.
    + intros E; inversion E; subst. split; [apply frame_refl | reflexivity].
  - destruct c; [destruct vr; [destruct (is_unset s (fst k))| | |]| |]; intros E; inversion E; subst;
      (split; [first [apply frame_push_marker | apply frame_refl] | first [discriminate | reflexivity]]).
Qed.
Lemma tag_frame s k tg vr i e : inner_tag s k tg vr = (i, e) -> frame i s k.
Proof.
  unfold inner_tag. destruct (target_row s k vr) as [r|]; [destruct (w_ver r)|]; intros E; inversion E; subst;
    first [apply frame_upd_target | apply frame_refl].
Qed.
Lemma trans_frame s k cl c vr i e : inner_trans s k cl c vr = (i, e) -> frame i s k.
Proof.
  unfold inner_trans. destruct (class_ok cl); [|intros E; inversion E; subst; apply frame_refl].
  destruct (row_obj (target_row s k vr)); [destruct (cond_holds c (Some o))|]; intros E; inversion E; subst;
    first [apply frame_upd_target | apply frame_refl].
Qed.
Lemma mpart_objs s u pn cid i r : inner_mpart s u pn cid = (i, r) -> i_objs i = i_objs s.
Proof.
  unfold inner_mpart. destruct (nth_error _ _); [destruct (u_open u0)|]; intros E; inversion E; reflexivity.
Qed.
Lemma mabort_objs s u i r : inner_mabort s u = (i, r) -> i_objs i = i_objs s.
Proof.
  unfold inner_mabort. destruct (nth_error _ _); [destruct (u_open u0)|]; intros E; inversion E; reflexivity.
Qed.
Lemma mcomplete_frame s u i r ok :
  inner_mcomplete s u = (i, r, ok) ->
  (r = MDone Ok -> exists k, ok = Some k /\ frame i s k) /\ (r <> MDone Ok -> i = s).
Proof.
  unfold inner_mcomplete. destruct (nth_error _ _) as [up|].
  - destruct (u_open up).
    + destruct (negb (seq_from 1 (u_parts up))); intros E; inversion E; subst.
      * split; [discriminate | reflexivity].
      * split; [|congruence]. intros _. exists (u_k up). split; [reflexivity|].
        eapply frame_trans; [apply frame_write_new|]. apply frame_objs_eq. reflexivity.
    + intros E; inversion E; subst. split; [discriminate | reflexivity].
  - intros E; inversion E; subst. split; [discriminate | reflexivity].
Qed.

(* ---------- coherence of the caches with the inner storage ---------- *)
Definition coherent (s : st) : Prop :=
  (forall k o, get k (s_head s) = Some o -> inner_lookup (s_in s) k = RObj o) /\
  (forall k b, get k (s_body s) = Some b ->
     exists o, get k (s_head s) = Some o /\ b = body_of (o_parts o)) /\
  s_hs s = [].

Lemma coh_st0 : coherent st0.
Proof. repeat split; cbn; intros; discriminate. Qed.

Lemma coh_invalidate s i k : coherent s -> frame i (s_in s) k -> coherent (invalidate s i k).
Proof.
  intros (H & HB & N) F. unfold invalidate. repeat split; cbn [s_head s_body s_in s_hs]; [| |exact N].
  - intros k' o G. destruct (K_eqb k' k) eqn:E.
    + apply K_eqb_eq in E; subst. rewrite get_del_same in G. discriminate.
    + rewrite get_del_other in G by exact E. rewrite (lookup_same _ _ _ (F k' E)). apply H. exact G.
  - intros k' b G. destruct (K_eqb k' k) eqn:E.
    + apply K_eqb_eq in E; subst. rewrite get_del_same in G. discriminate.
    + rewrite get_del_other in G by exact E. rewrite get_del_other by exact E. apply HB. exact G.
Qed.
Lemma coh_with_inner s i : coherent s -> i_objs i = i_objs (s_in s) -> coherent (with_inner s i).
Proof.
  intros (H & HB & N) E. unfold with_inner. repeat split; cbn [s_head s_body s_in s_hs]; [|exact HB|exact N].
  intros k o G. rewrite (lookup_same i (s_in s) k); [apply H; exact G | unfold same_at; rewrite E; reflexivity].
Qed.
Lemma with_inner_id s : with_inner s (s_in s) = s.
Proof. destruct s; reflexivity. Qed.

Definition safe_op (o : op) : bool :=
  match o with
  | OGetOpen _ _ _ | OGetFinish _ | OGetAbort _ => false
  | _ => true
  end.

Lemma coh_head s k im inm : coherent s -> coherent (fst (mw_head s k im inm)).
Proof.
  intros C. unfold mw_head. destruct (get k (s_head s)) as [o|] eqn:G.
  - destruct (validate o im inm); exact C.
  - destruct (inner_lookup (s_in s) k) as [o|e] eqn:L; [|exact C].
    assert (coherent (mkSt (s_in s) (set k o (s_head s)) (s_body s) (s_hs s))) as C'.
    { destruct C as (H & HB & N). repeat split; cbn [s_head s_body s_in s_hs]; [| |exact N].
      - intros k' o' G'. destruct (K_eqb k' k) eqn:E.
        + apply K_eqb_eq in E; subst. rewrite get_set_same in G'. inversion G'; subst. exact L.
        + rewrite get_set_other in G' by exact E. apply H; exact G'.
      - intros k' b G'. destruct (HB k' b G') as (o' & G2 & R). destruct (K_eqb k' k) eqn:E.
        + apply K_eqb_eq in E; subst. congruence.
        + exists o'. rewrite get_set_other by exact E. split; assumption. }
    destruct (validate o im inm); exact C'.
Qed.

Lemma inner_get_obj i k im inm o b :
  inner_get i k im inm = GObj o b -> inner_lookup i k = RObj o /\ b = body_of (o_parts o).
Proof.
  unfold inner_get, inner_head. destruct (inner_lookup i k) as [o'|e]; [|discriminate].
  destruct (validate o' im inm); [discriminate|].
  intros E; inversion E; subst. auto.
Qed.

Lemma coh_get s k im inm : coherent s -> coherent (fst (step s (OGet k im inm))).
Proof.
  intros C. cbn [step]. destruct (bucket_ok (fst k)); [|exact C].
  assert (pending s k = false) as P.
  { destruct C as (_ & _ & N). unfold pending. rewrite N. reflexivity. }
  rewrite P. unfold mw_open.
  destruct (get k (s_head s)) as [o|] eqn:GH; [destruct (get k (s_body s)) as [b|] eqn:GB|].
  - destruct (validate o im inm); exact C.
  - destruct (inner_get (s_in s) k im inm) as [o' b'|e] eqn:IG; [|exact C].
    destruct (inner_get_obj _ _ _ _ _ _ IG) as (L & Hb).
    destruct (max_cached <? size_of o'); [exact C|]. cbn [fst s_in s_head s_body s_hs].
    destruct C as (H & HB & N). repeat split; cbn [s_head s_body s_in s_hs]; [| |exact N].
    + intros k' o2 G'. destruct (K_eqb k' k) eqn:E.
      * apply K_eqb_eq in E; subst. rewrite get_set_same in G'. inversion G'; subst. exact L.
      * rewrite get_set_other in G' by exact E. apply H; exact G'.
    + intros k' b2 G'. destruct (K_eqb k' k) eqn:E.
      * apply K_eqb_eq in E; subst. rewrite get_set_same in G'. inversion G'; subst.
        exists o'. rewrite get_set_same. auto.
      * rewrite get_set_other in G' by exact E. rewrite get_set_other by exact E. apply HB; exact G'.
  - destruct (inner_get (s_in s) k im inm) as [o' b'|e] eqn:IG; [|exact C].
    destruct (inner_get_obj _ _ _ _ _ _ IG) as (L & Hb).
    destruct (max_cached <? size_of o'); [exact C|]. cbn [fst s_in s_head s_body s_hs].
    destruct C as (H & HB & N). repeat split; cbn [s_head s_body s_in s_hs]; [| |exact N].
    + intros k' o2 G'. destruct (K_eqb k' k) eqn:E.
      * apply K_eqb_eq in E; subst. rewrite get_set_same in G'. inversion G'; subst. exact L.
      * rewrite get_set_other in G' by exact E. apply H; exact G'.
    + intros k' b2 G'. destruct (K_eqb k' k) eqn:E.
      * apply K_eqb_eq in E; subst. rewrite get_set_same in G'. inversion G'; subst.
        exists o'. rewrite get_set_same. auto.
      * rewrite get_set_other in G' by exact E. rewrite get_set_other by exact E. apply HB; exact G'.
Qed.

Lemma coh_put s k cid ct me tg cl c :
  coherent s -> coherent (fst (step s (OPut k cid ct me tg cl c))).
Proof.
  intros C. cbn [step]. destruct (bucket_ok (fst k));
    [|destruct (bucket_missing (fst k)); [apply coh_invalidate; [exact C | apply frame_refl] | exact C]].
  destruct (inner_put (s_in s) k cid ct me tg cl c) as [i e] eqn:P.
  destruct (put_frame _ _ _ _ _ _ _ _ _ _ P) as (F & Herr & Hok).
  destruct e; try (apply coh_invalidate; [exact C | exact F]).
  destruct (Hok eq_refl) as (stp & L). rewrite L. cbn [fst].
  destruct C as (H & HB & N). repeat split; cbn [s_head s_body s_in s_hs]; [| |exact N].
  - intros k' o G. destruct (K_eqb k' k) eqn:E.
    + apply K_eqb_eq in E; subst. rewrite get_set_same in G. inversion G; subst. exact L.
    + rewrite get_set_other in G by exact E. rewrite (lookup_same _ _ _ (F k' E)). apply H; exact G.
  - intros k' b G. destruct (K_eqb k' k) eqn:E.
    + apply K_eqb_eq in E; subst. rewrite get_set_same.
      destruct (len_of cid <=? max_cached).
      * rewrite get_set_same in G. inversion G; subst. eexists. split; reflexivity.
      * rewrite get_del_same in G. discriminate.
    + rewrite get_set_other by exact E.
      destruct (len_of cid <=? max_cached).
      * rewrite get_set_other in G by exact E. apply HB; exact G.
      * rewrite get_del_other in G by exact E. apply HB; exact G.
Qed.

Lemma coh_delete_many b es : forall s i r,
  coherent s -> inner_delete_many (s_in s) b es = (i, r) ->
  coherent (fold_left (fun (a : st) (kd : N * bool) => if snd kd then invalidate a (s_in a) (b, fst kd) else a) r (with_inner s i)).
Proof.
  (* generalised: the cache part may already be ahead of the inner state by a frame on deleted keys *)
  assert (forall es (s : st) (i0 i : inner) r,
    coherent (with_inner s i0) -> inner_delete_many i0 b es = (i, r) ->
    coherent (fold_left (fun (a : st) (kd : N * bool) => if snd kd then invalidate a (s_in a) (b, fst kd) else a) r (with_inner s i))) as G.
  { induction es0 as [|[[k c] vr] es0 IH]; intros s i0 i r C E.
    - cbn in E. inversion E; subst. exact C.
    - cbn [inner_delete_many] in E.
      destruct (inner_delete_entry i0 (b, k) c vr) as [s1 d] eqn:E1.
      destruct (inner_delete_many s1 b es0) as [s2 r2] eqn:E2. inversion E; subst.
      destruct (delete_entry_frame _ _ _ _ _ _ E1) as (F & Hn).
      cbn [fold_left snd fst].
      destruct d.
      + (* deleted: invalidating (b,k) now or after the rest commutes with the remaining deletes;
           we show coherence of the state in which (b,k) is invalidated first *)
        set (s' := invalidate s i (b, k)).
        assert (invalidate (with_inner s i) (s_in (with_inner s i)) (b, k) = with_inner s' i) as R by reflexivity.
        rewrite R. apply (IH s' s1 i r2); [|exact E2].
        assert (with_inner s' s1 = invalidate (with_inner s i0) s1 (b, k)) as R2 by reflexivity.
        rewrite R2. apply coh_invalidate; [exact C | exact F].
      + rewrite (Hn eq_refl) in E2. apply (IH s i0 i r2); [exact C | exact E2]. }
  intros s i r C E. apply (G es s (s_in s) i r); [rewrite with_inner_id; exact C | exact E].
Qed.

Lemma coh_step s o : safe_op o = true -> coherent s -> coherent (fst (step s o)).
Proof.
  intros S C. destruct o; try discriminate S.
  - (* put *) apply coh_put; exact C.
  - (* rejected put *) cbn [step]. destruct (bucket_ok (fst k) || bucket_missing (fst k)); [|exact C].
    apply coh_invalidate; [exact C | apply frame_refl].
  - (* append *) cbn [step]. destruct (bucket_ok (fst k)); [|exact C].
    destruct (inner_append (s_in s) k cid off) as [i e] eqn:P.
    destruct (append_frame _ _ _ _ _ _ P) as (F & Hn).
    destruct e; try (rewrite (Hn ltac:(discriminate)), with_inner_id; exact C).
    apply coh_invalidate; assumption.
  - (* rejected append *) cbn [step]. destruct (bucket_ok (fst k)); exact C.
  - (* copy *) cbn [step]. destruct (bucket_ok (fst src) && bucket_ok (fst dst)); [|exact C].
    destruct (inner_copy (s_in s) src dst rm ct meta rt tags cls) as [i e] eqn:P.
    apply coh_invalidate; [exact C | eapply copy_frame; exact P].
  - (* delete, with or without a version id *) cbn [step]. destruct (bucket_ok (fst k)); [|exact C].
    destruct (inner_delete (s_in s) k c vr) as [i e] eqn:P.
    destruct (delete_frame _ _ _ _ _ _ P) as (F & Hn).
    destruct e; try (rewrite (Hn ltac:(discriminate)), with_inner_id; exact C).
    apply coh_invalidate; assumption.
  - (* delete many *) cbn [step]. destruct (bucket_ok b); [|exact C].
    destruct (inner_delete_many (s_in s) b (map (freeze_vref (i_nextvid (s_in s))) es)) as [i r] eqn:P. cbn [fst].
    exact (coh_delete_many b _ s i r C P).
  - (* tag *) cbn [step]. destruct (bucket_ok (fst k)); [|exact C].
    destruct (inner_tag (s_in s) k tags vr) as [i e] eqn:P.
    apply coh_invalidate; [exact C | eapply tag_frame; exact P].
  - (* untag *) cbn [step]. destruct (bucket_ok (fst k)); [|exact C].
    destruct (inner_tag (s_in s) k 0 vr) as [i e] eqn:P.
    apply coh_invalidate; [exact C | eapply tag_frame; exact P].
  - (* transition *) cbn [step]. destruct (bucket_ok (fst k)); [|exact C].
    destruct (inner_trans (s_in s) k cls c vr) as [i e] eqn:P.
    apply coh_invalidate; [exact C | eapply trans_frame; exact P].
  - (* versioning configuration *) cbn [step]. destruct (bucket_ok b); [|exact C].
    apply coh_with_inner; [exact C | reflexivity].
  - (* mcreate *) cbn [step]. destruct (bucket_ok (fst k)); [|exact C].
    apply coh_with_inner; [exact C | reflexivity].
  - (* mpart *) cbn [step]. destruct (inner_mpart (s_in s) u pn cid) as [i r] eqn:P.
    destruct r; [|exact C]. apply coh_with_inner; [exact C | eapply mpart_objs; exact P].
  - (* mcomplete *) cbn [step]. destruct (inner_mcomplete (s_in s) u) as [[i r] ok] eqn:P.
    destruct (mcomplete_frame _ _ _ _ _ P) as (Hok & Hn).
    destruct r as [e|]; [|exact C].
    destruct e; try (rewrite (Hn ltac:(discriminate)); destruct ok; rewrite with_inner_id; exact C).
    destruct (Hok eq_refl) as (k & -> & F). apply coh_invalidate; assumption.
  - (* mabort *) cbn [step]. destruct (inner_mabort (s_in s) u) as [i r] eqn:P.
    destruct r; [|exact C]. apply coh_with_inner; [exact C | eapply mabort_objs; exact P].
  - (* head *) cbn [step]. destruct (bucket_ok (fst k)); [apply coh_head; exact C | exact C].
  - (* get *) apply coh_get; exact C.
  - (* head by version id *) cbn [step]. destruct (bucket_ok (fst k)); exact C.
  - (* get by version id *) cbn [step]. destruct (bucket_ok (fst k)); exact C.
  - (* ranged get *) cbn [step]. destruct (bucket_ok (fst k)); exact C.
  - exact C.
Qed.

Lemma run_app s a b : run s (a ++ b) = let (s1, r1) := run s a in let (s2, r2) := run s1 b in (s2, r1 ++ r2).
Proof.
  revert s; induction a as [|o a IH]; intros s; cbn [run app].
  - destruct (run s b); reflexivity.
  - destruct (step s o) as [s1 r]. rewrite IH. destruct (run s1 a) as [s2 r2]. destruct (run s2 b). reflexivity.
Qed.

Lemma coh_run ops : forall s, forallb safe_op ops = true -> coherent s -> coherent (fst (run s ops)).
Proof.
  induction ops as [|o ops IH]; intros s S C; cbn [run]; [exact C|].
  cbn in S. apply andb_true_iff in S as [S1 S2].
  pose proof (coh_step s o S1 C) as C1. destruct (step s o) as [s1 r]. cbn [fst] in C1.
  specialize (IH s1 S2 C1). destruct (run s1 ops). exact IH.
Qed.

Definition head_res (r : rres) : res := match r with RObj o => RHead o | RErr e => RStatus e end.
Definition get_res (g : gres) : res := match g with GObj o b => RGet o b | GErr e => RStatus e end.

Lemma coherent_transparent s k im inm :
  coherent s -> bucket_ok (fst k) = true ->
  snd (step s (OHead k im inm)) = head_res (inner_head (s_in s) k im inm) /\
  snd (step s (OGet k im inm)) = get_res (inner_get (s_in s) k im inm).
Proof.
  intros (H & HB & N) Bk. cbn [step]. rewrite Bk. split.
  - unfold mw_head, inner_head. destruct (get k (s_head s)) as [o|] eqn:G.
    + rewrite (H k o G). destruct (validate o im inm); reflexivity.
    + destruct (inner_lookup (s_in s) k) as [o|e]; [|reflexivity]. destruct (validate o im inm); reflexivity.
  - assert (pending s k = false) as P by (unfold pending; rewrite N; reflexivity). rewrite P.
    unfold mw_open.
    destruct (get k (s_head s)) as [o|] eqn:GH; [destruct (get k (s_body s)) as [b|] eqn:GB|].
    + destruct (HB k b GB) as (o' & G2 & ->). assert (o' = o) by congruence. subst o'.
      unfold inner_get, inner_head. rewrite (H k o GH).
      destruct (validate o im inm); reflexivity.
    + destruct (inner_get (s_in s) k im inm) as [o' b'|e]; [|reflexivity].
      destruct (max_cached <? size_of o'); reflexivity.
    + destruct (inner_get (s_in s) k im inm) as [o' b'|e]; [|reflexivity].
      destruct (max_cached <? size_of o'); reflexivity.
Qed.

Theorem transparent_partial : forall ops,
  forallb safe_op ops = true ->
  forall k im inm, bucket_ok (fst k) = true ->
  let s := fst (run st0 ops) in
  snd (step s (OHead k im inm)) = head_res (inner_head (s_in s) k im inm) /\
  snd (step s (OGet k im inm)) = get_res (inner_get (s_in s) k im inm).
Proof.
  intros ops S k im inm Bk. apply coherent_transparent; [|exact Bk].
  apply coh_run; [exact S | apply coh_st0].
Qed.

(* ---------- body <-> object consistency (the concurrent clause) ---------- *)
(* cache-internal consistency: holds without any coherence with the inner storage *)
Definition consistent (s : st) : Prop :=
  (forall k b, get k (s_body s) = Some b -> exists o, get k (s_head s) = Some o /\ b = body_of (o_parts o)) /\
  s_hs s = [].

Definition no_handles (o : op) : bool :=
  match o with OGetOpen _ _ _ | OGetFinish _ | OGetAbort _ => false | _ => true end.

Definition body_ok (r : res) : Prop := match r with RGet o b => b = body_of (o_parts o) | _ => True end.

Lemma cons_invalidate s i k : consistent s -> consistent (invalidate s i k).
Proof.
  intros (HB & N). split; [|exact N]. cbn [invalidate s_head s_body]. intros k' b G.
  destruct (K_eqb k' k) eqn:E.
  - apply K_eqb_eq in E; subst. rewrite get_del_same in G. discriminate.
  - rewrite get_del_other in G by exact E. rewrite get_del_other by exact E. apply HB; exact G.
Qed.
Lemma cons_with_inner s i : consistent s -> consistent (with_inner s i).
Proof. intros C; exact C. Qed.

Lemma cons_set_head s k o :
  consistent s -> get k (s_body s) = None \/ (forall b, get k (s_body s) = Some b -> b = body_of (o_parts o)) ->
  consistent (mkSt (s_in s) (set k o (s_head s)) (s_body s) (s_hs s)).
Proof.
  intros (HB & N) Hk. split; [|exact N]. cbn [s_head s_body]. intros k' b G.
  destruct (K_eqb k' k) eqn:E.
  - apply K_eqb_eq in E; subst. rewrite get_set_same. exists o. split; [reflexivity|].
    destruct Hk as [Hk|Hk]; [congruence | apply Hk; exact G].
  - rewrite get_set_other by exact E. apply HB; exact G.
Qed.

Lemma cons_step s o : no_handles o = true -> consistent s ->
  consistent (fst (step s o)) /\ body_ok (snd (step s o)).
Proof.
  intros S C. destruct o; try discriminate S; cbn [step].
  - (* put *) destruct (bucket_ok (fst k));
      [|destruct (bucket_missing (fst k)); (split; [first [apply cons_invalidate; exact C | exact C] | exact I])].
    destruct (inner_put (s_in s) k cid ct meta tags cls c) as [i e] eqn:P.
    destruct (put_frame _ _ _ _ _ _ _ _ _ _ P) as (F & Herr & Hok).
    destruct e; try (split; [apply cons_invalidate; exact C | exact I]).
    destruct (Hok eq_refl) as (stp & L). rewrite L. split; [|exact I]. cbn [fst].
    destruct C as (HB & N). split; [|exact N]. cbn [s_head s_body]. intros k' b G.
    destruct (K_eqb k' k) eqn:E.
    + apply K_eqb_eq in E; subst. rewrite get_set_same. eexists; split; [reflexivity|]. cbn [o_parts].
      destruct (len_of cid <=? max_cached).
      * rewrite get_set_same in G. congruence.
      * rewrite get_del_same in G. discriminate.
    + rewrite get_set_other by exact E. destruct (len_of cid <=? max_cached).
      * rewrite get_set_other in G by exact E. apply HB; exact G.
      * rewrite get_del_other in G by exact E. apply HB; exact G.
  - (* rejected put *) destruct (bucket_ok (fst k) || bucket_missing (fst k)); (split; [first [apply cons_invalidate; exact C | exact C] | exact I]).
  - destruct (bucket_ok (fst k)); [|split; [exact C | exact I]].
    destruct (inner_append (s_in s) k cid off) as [i e]. destruct e; (split; [first [apply cons_invalidate; exact C | exact C] | exact I]).
  - (* rejected append *) destruct (bucket_ok (fst k)); (split; [exact C | exact I]).
  - destruct (bucket_ok (fst src) && bucket_ok (fst dst)); [|split; [exact C | exact I]].
    destruct (inner_copy (s_in s) src dst rm ct meta rt tags cls) as [i e]. split; [apply cons_invalidate; exact C | exact I].
  - destruct (bucket_ok (fst k)); [|split; [exact C | exact I]].
    destruct (inner_delete (s_in s) k c vr) as [i e]. destruct e; (split; [first [apply cons_invalidate; exact C | exact C] | exact I]).
  - destruct (bucket_ok b); [|split; [exact C | exact I]].
    destruct (inner_delete_many (s_in s) b (map (freeze_vref (i_nextvid (s_in s))) es)) as [i r]. split; [|exact I]. cbn [fst].
    assert (forall r (a : st), consistent a ->
      consistent (fold_left (fun (a : st) (kd : N * bool) => if snd kd then invalidate a (s_in a) (b, fst kd) else a) r a)) as G.
    { induction r0 as [|[k d] r0 IH]; intros a Ca; cbn [fold_left]; [exact Ca|].
      apply IH. cbn [snd fst]. destruct d; [apply cons_invalidate; exact Ca | exact Ca]. }
    apply G. exact C.
  - destruct (bucket_ok (fst k)); [|split; [exact C | exact I]].
    destruct (inner_tag (s_in s) k tags vr) as [i e]. split; [apply cons_invalidate; exact C | exact I].
  - destruct (bucket_ok (fst k)); [|split; [exact C | exact I]].
    destruct (inner_tag (s_in s) k 0 vr) as [i e]. split; [apply cons_invalidate; exact C | exact I].
  - destruct (bucket_ok (fst k)); [|split; [exact C | exact I]].
    destruct (inner_trans (s_in s) k cls c vr) as [i e]. split; [apply cons_invalidate; exact C | exact I].
  - destruct (bucket_ok b); split; first [exact C | exact I].
  - destruct (bucket_ok (fst k)); split; first [exact C | exact I].
  - destruct (inner_mpart (s_in s) u pn cid) as [i r]. destruct r; split; first [exact C | exact I].
  - destruct (inner_mcomplete (s_in s) u) as [[i r] ok]. destruct r as [e|]; [|split; [exact C | exact I]].
    destruct e; destruct ok; (split; [first [apply cons_invalidate; exact C | exact C] | exact I]).
  - destruct (inner_mabort (s_in s) u) as [i r]. destruct r; split; first [exact C | exact I].
  - (* head *) destruct (bucket_ok (fst k)); [|split; [exact C | exact I]]. unfold mw_head.
    destruct (get k (s_head s)) as [o|] eqn:G.
    + destruct (validate o im inm); split; first [exact C | exact I].
    + destruct (inner_lookup (s_in s) k) as [o|e]; [|split; [exact C | exact I]].
      assert (consistent (mkSt (s_in s) (set k o (s_head s)) (s_body s) (s_hs s))) as C'.
      { apply cons_set_head; [exact C|]. left. destruct (get k (s_body s)) as [b|] eqn:GB; [|reflexivity].
        destruct C as (HB & _). destruct (HB k b GB) as (o' & G2 & _). congruence. }
      destruct (validate o im inm); split; first [exact C' | exact I].
  - (* get *) destruct (bucket_ok (fst k)); [|split; [exact C | exact I]].
    assert (pending s k = false) as P by (destruct C as (_ & N); unfold pending; rewrite N; reflexivity).
    rewrite P. unfold mw_open.
    assert (forall o' b', inner_get (s_in s) k im inm = GObj o' b' -> b' = body_of (o_parts o')) as IGB.
    { intros o' b' IG. apply inner_get_obj in IG. tauto. }
    assert (forall o' b', b' = body_of (o_parts o') ->
            consistent (mkSt (s_in s) (set k o' (s_head s)) (set k b' (s_body s)) (s_hs s))) as FILL.
    { intros o' b' Hb. destruct C as (HB & N). split; [|exact N]. cbn [s_head s_body]. intros k' b G.
      destruct (K_eqb k' k) eqn:E.
      - apply K_eqb_eq in E; subst. rewrite get_set_same in G. rewrite get_set_same. exists o'. split; congruence.
      - rewrite get_set_other in G by exact E. rewrite get_set_other by exact E. apply HB; exact G. }
    destruct (get k (s_head s)) as [o|] eqn:GH; [destruct (get k (s_body s)) as [b|] eqn:GB|].
    + destruct (validate o im inm); [split; [exact C | exact I]|]. split; [exact C|]. cbn [snd body_ok].
      destruct C as (HB & _). destruct (HB k b GB) as (o' & G2 & Hb). congruence.
    + destruct (inner_get (s_in s) k im inm) as [o' b'|e] eqn:IG; [|split; [exact C | exact I]].
      pose proof (IGB o' b' eq_refl) as Hb.
      destruct (max_cached <? size_of o'); (split; [|exact Hb]); [exact C|]. cbn [fst s_in s_head s_body s_hs].
      apply FILL; exact Hb.
    + destruct (inner_get (s_in s) k im inm) as [o' b'|e] eqn:IG; [|split; [exact C | exact I]].
      pose proof (IGB o' b' eq_refl) as Hb.
      destruct (max_cached <? size_of o'); (split; [|exact Hb]); [exact C|]. cbn [fst s_in s_head s_body s_hs].
      apply FILL; exact Hb.
  - (* head by version id *) destruct (bucket_ok (fst k)); [|split; [exact C | exact I]].
    split; [exact C|]. cbn [snd]. destruct (inner_head_v (s_in s) k vr im inm); exact I.
  - (* get by version id: answered by the inner storage *) destruct (bucket_ok (fst k)); [|split; [exact C | exact I]].
    split; [exact C|]. cbn [snd]. unfold inner_get_v. destruct (inner_head_v (s_in s) k vr im inm); [reflexivity | exact I].
  - (* ranged get *) destruct (bucket_ok (fst k)); [|split; [exact C | exact I]].
    split; [exact C|]. cbn [snd]. destruct (inner_get_range (s_in s) k vr rs re); exact I.
  - split; [exact C | exact I].
Qed.

Lemma cons_st0 : consistent st0.
Proof. split; [intros; discriminate | reflexivity]. Qed.

Lemma cons_run ops : forall s, forallb no_handles ops = true -> consistent s ->
  Forall body_ok (snd (run s ops)).
Proof.
  induction ops as [|o ops IH]; intros s S C; cbn [run]; [constructor|].
  cbn in S. apply andb_true_iff in S as [S1 S2].
  destruct (cons_step s o S1 C) as (C1 & R1). destruct (step s o) as [s1 r]. cbn [fst snd] in *.
  specialize (IH s1 S2 C1). destruct (run s1 ops) as [s2 rs]. cbn [snd] in *. constructor; assumption.
Qed.

Theorem body_matches_partial : forall ops,
  forallb no_handles ops = true -> Forall body_ok (snd (run st0 ops)).
Proof. intros ops S. apply cons_run; [exact S | apply cons_st0]. Qed.

(* ---------- rejected writes ---------- *)
Definition is_write (o : op) : bool :=
  match o with
  | OPut _ _ _ _ _ _ _ | OPutBad _ _ _ | OAppend _ _ _ | OAppendBad _ _ _
  | OCopy _ _ _ _ _ _ _ _ | OMComplete _ => true
  | _ => false
  end.

Lemma copy_fail s src dst rm ct me rt tg cl i e :
  inner_copy s src dst rm ct me rt tg cl = (i, e) -> e <> Ok -> i = s.
Proof. unfold inner_copy. destruct (inner_lookup s src); intros E; inversion E; congruence. Qed.

Theorem rejected_write_store_unchanged s o e :
  is_write o = true -> snd (step s o) = RStatus e -> e <> Ok -> s_in (fst (step s o)) = s_in s.
Proof.
  intros W R Hne. destruct o; try discriminate W; cbn [step] in *.
  - destruct (bucket_ok (fst k)); [|destruct (bucket_missing (fst k)); reflexivity].
    destruct (inner_put (s_in s) k cid ct meta tags cls c) as [i e'] eqn:P.
    destruct (put_frame _ _ _ _ _ _ _ _ _ _ P) as (_ & Herr & _).
    destruct e'; cbn [fst snd] in *; try (inversion R; subst; cbn; apply Herr; discriminate).
    inversion R; congruence.
  - destruct (bucket_ok (fst k) || bucket_missing (fst k)); reflexivity.
  - destruct (bucket_ok (fst k)); [|reflexivity].
    destruct (inner_append (s_in s) k cid off) as [i e'] eqn:P.
    destruct (append_frame _ _ _ _ _ _ P) as (_ & Herr).
    destruct e'; cbn [fst snd] in *; try (cbn; apply Herr; discriminate).
    inversion R; congruence.
  - destruct (bucket_ok (fst k)); reflexivity.
  - destruct (bucket_ok (fst src) && bucket_ok (fst dst)); [|reflexivity].
    destruct (inner_copy (s_in s) src dst rm ct meta rt tags cls) as [i e'] eqn:P.
    cbn [fst snd] in *. inversion R; subst. cbn. eapply copy_fail; eassumption.
  - destruct (inner_mcomplete (s_in s) u) as [[i r] ok] eqn:P.
    destruct (mcomplete_frame _ _ _ _ _ P) as (_ & Hn).
    destruct r as [e'|]; [|reflexivity].
    destruct e'; try (destruct ok; cbn; apply Hn; discriminate).
    destruct ok; cbn [fst snd] in *; inversion R; congruence.
Qed.

Lemma write_in_scope o : is_write o = true -> safe_op o = true.
Proof. destruct o; cbn; congruence. Qed.

Theorem rejected_write_shows_stored ops o e :
  forallb safe_op ops = true -> is_write o = true ->
  let s := fst (run st0 ops) in
  snd (step s o) = RStatus e -> e <> Ok ->
  let s' := fst (step s o) in
  forall k im inm, bucket_ok (fst k) = true ->
  snd (step s' (OHead k im inm)) = head_res (inner_head (s_in s) k im inm) /\
  snd (step s' (OGet k im inm)) = get_res (inner_get (s_in s) k im inm).
Proof.
  intros S W s R Hne s' k im inm Bk.
  assert (coherent s) as C by (apply coh_run; [exact S | apply coh_st0]).
  assert (coherent s') as C' by (apply coh_step; [apply write_in_scope; exact W | exact C]).
  rewrite <- (rejected_write_store_unchanged s o e W R Hne).
  apply coherent_transparent; assumption.
Qed.
