(* Proofs/MetaPartsDefs.v — shared definitions for the part-protocol proofs (C08/C09):
   the transaction-boundary invariant [PartsInv], the stronger sequential [NoOrphans], and [Dead].
   Definitions only (imported by MetaParts*.v and by the GC proofs). *)
From Verif Require Import Bytes Codec Md5 Meta.

Definition count_rows (s : mstate) (pid : N) : N :=
  N.of_nat (length (filter (fun p => N.eqb (p_pid p) pid) (parts s))).

Definition PartsInv (s : mstate) : Prop :=
  (* registry exact: ref_count = number of part rows with that id, row absent iff 0 *)
  (forall pid, reg_get (registry s) pid =
               if N.eqb (count_rows s pid) 0 then None else Some (count_rows s pid))
  (* referenced parts are present in the store with the recorded content *)
  /\ (forall row, In row (parts s) -> store_get (store s) (p_pid row) = Some (p_content row))
  (* dedup index sound *)
  /\ (forall c pid, In (c, pid) (dedup s) ->
        reg_get (registry s) pid <> None /\ store_get (store s) pid = Some c)
  (* store ids are old ids *)
  /\ (forall p c, In (p, c) (store s) -> (p < next_id s)%N).

(* sequential histories leave nothing for the GC: every store entry is referenced by a part row *)
Definition NoOrphans (s : mstate) : Prop :=
  forall p c, store_get (store s) p = Some c -> exists row, In row (parts s) /\ p_pid row = p.

(* an old id that nothing references or indexes any more *)
Definition Dead (s : mstate) (pid : N) : Prop :=
  count_rows s pid = 0%N /\ reg_get (registry s) pid = None
  /\ (forall c, ~ In (c, pid) (dedup s)) /\ (pid < next_id s)%N.
