(* Proofs/MetaRows5.v — M-META at row level, layer 5: persistence of non-null versions (C02/C13). *)
From Verif Require Import Bytes Codec Md5 Meta MetaBasics MetaRows1 MetaRows2 MetaRows3 MetaRows4.
From Coq Require Import ZifyBool ZifyN ZifyNat.

Lemma count_pos {A} (f : A -> bool) l x : In x l -> f x = true -> 1 <= count_occ_f f l.
Proof.
  induction l as [|a l IH]; intros H F; [contradiction|]. cbn. destruct H as [->|H].
  - rewrite F. lia.
  - specialize (IH H F). lia.
Qed.
Lemma count_le1_eq {A} (f : A -> bool) l x y :
  count_occ_f f l <= 1 -> In x l -> In y l -> f x = true -> f y = true -> x = y.
Proof.
  induction l as [|a l IH]; intros C Hx Hy Fx Fy; [contradiction|]. cbn in C.
  destruct Hx as [->|Hx], Hy as [->|Hy]; try reflexivity.
  - rewrite Fx in C. pose proof (count_pos f l y Hy Fy). lia.
  - rewrite Fy in C. pose proof (count_pos f l x Hx Fx). lia.
  - apply IH; try assumption. destruct (f a); lia.
Qed.

Lemma on_key_same_key b k r : on_key b k r = true -> forall x, on_key (o_bucket r) (o_key r) x = on_key b k x.
Proof. intros H x. apply on_key_eq in H. destruct H as [-> ->]. reflexivity. Qed.

Lemma find_version_unique s b k v r :
  unique_ok s = true -> In r (objs s) -> on_key b k r = true -> completed r = true -> o_vid r = Some v ->
  find_version s b k v = Some r.
Proof.
  intros U Hr Kr Cr Vr.
  set (P := fun x => on_key b k x && completed x && match o_vid x with Some v' => vid_eqb v v' | None => false end).
  assert (Pr : P r = true) by (unfold P; rewrite Kr, Cr, Vr, vid_eqb_refl; reflexivity).
  unfold find_version. fold P. destruct (find P (objs s)) as [r1|] eqn:F.
  - apply find_some in F. destruct F as [H1 P1]. f_equal.
    unfold unique_ok in U. rewrite forallb_forall in U. specialize (U r Hr). rewrite Cr, Vr in U.
    apply andb_true_iff in U. destruct U as [_ U]. apply Nat.leb_le in U.
    refine (count_le1_eq _ _ r1 r U H1 Hr _ _); rewrite (on_key_same_key b k r Kr); [exact P1 | exact Pr].
  - exfalso. pose proof (find_none _ _ F r Hr). congruence.
Qed.
Lemma find_latest_unique s b k r :
  unique_ok s = true -> In r (objs s) -> on_key b k r = true -> completed r = true -> o_latest r = true ->
  find_latest s b k = Some r.
Proof.
  intros U Hr Kr Cr Lr.
  set (P := fun x => on_key b k x && completed x && o_latest x).
  assert (Pr : P r = true) by (unfold P; rewrite Kr, Cr, Lr; reflexivity).
  unfold find_latest. fold P. destruct (find P (objs s)) as [r1|] eqn:F.
  - apply find_some in F. destruct F as [H1 P1]. f_equal.
    unfold unique_ok in U. rewrite forallb_forall in U. specialize (U r Hr). rewrite Cr, Lr in U.
    apply andb_true_iff in U. destruct U as [U _]. cbn [negb orb] in U. apply Nat.leb_le in U.
    refine (count_le1_eq _ _ r1 r U H1 Hr _ _); rewrite (on_key_same_key b k r Kr); [exact P1 | exact Pr].
  - exfalso. pose proof (find_none _ _ F r Hr). congruence.
Qed.

(* the operations that can destroy or rewrite the non-null version VId n of (b,k) whose row is r:
   (a) delete by exactly that version id; (b) append in a bucket that is not Enabled while r is current
   (known finding C13-append-in-place); (c) key-only delete in a bucket whose versioning is Unset while r is
   current (possible after Enabled -> Unset) *)
Definition may_destroy (s : mstate) (o : op) (b k : bytes) (n : N) (r : orow) : bool :=
  match o with
  | ODel b' k' v _ =>
      bytes_eqb b' b && bytes_eqb k' k &&
      match resolve_vref v with
      | Some v' => vid_eqb v' (VId n)
      | None => o_latest r && match bucket_ver s b with Some VUnset => true | _ => false end
      end
  | OApp b' k' _ _ =>
      bytes_eqb b' b && bytes_eqb k' k && o_latest r &&
      match bucket_ver s b with Some VEnabled | None => false | Some _ => true end
  | _ => false
  end.

Lemma core_fields r r' : core r' = core r ->
  o_id r' = o_id r /\ o_bucket r' = o_bucket r /\ o_key r' = o_key r /\ o_vid r' = o_vid r /\ o_dm r' = o_dm r /\
  o_upload r' = o_upload r /\ o_created r' = o_created r /\ o_etag r' = o_etag r /\ o_size r' = o_size r /\
  o_ctype r' = o_ctype r /\ o_class r' = o_class r /\ o_tags r' = o_tags r /\ o_umeta r' = o_umeta r /\
  o_written r' = o_written r.
Proof.
  intros E.
  pose proof (f_equal o_id E). pose proof (f_equal o_bucket E). pose proof (f_equal o_key E).
  pose proof (f_equal o_vid E). pose proof (f_equal o_dm E). pose proof (f_equal o_upload E).
  pose proof (f_equal o_created E). pose proof (f_equal o_etag E). pose proof (f_equal o_size E).
  pose proof (f_equal o_ctype E). pose proof (f_equal o_class E). pose proof (f_equal o_tags E).
  pose proof (f_equal o_umeta E). pose proof (f_equal o_written E). cbn in *. repeat split; assumption.
Qed.

Lemma step_version_persists i hist s o b k n r :
  Inv1 s -> find_version s b k (VId n) = Some r -> may_destroy s o b k n r = false ->
  exists r', find_version (fst (step i hist s o)) b k (VId n) = Some r' /\ core r' = core r /\
             obj_parts (fst (step i hist s o)) (o_id r) = obj_parts s (o_id r).
Proof.
  intros [I U] F D. pose proof (step_uniq i hist s o U) as [U' _].
  destruct (find_version_some _ _ _ _ _ F) as (Hr & Kr & Cr & Vr).
  destruct (step_cases i hist s o) as [(b' & k' & Ek & T)|(_ & E1 & E2 & _)].
  - destruct (Tr_pers b' k' (op_dv o) (op_inplace s o) s I (o_id r) (core r)) with (s := fst (step i hist s o))
      as [[x (Hx & Ex & Cx)] P].
    + apply (proj2 I). exact Hr.
    + intros r0 K0 M E0 C0. destruct (core_fields _ _ C0) as (_ & Eb & Ekk & Ev & _ & Eu & _).
      assert (K0' : on_key b k r0 = true).
      { apply on_key_eq. apply on_key_eq in Kr. destruct Kr. split; congruence. }
      assert (b' = b /\ k' = k) as [-> ->].
      { apply on_key_eq in K0. apply on_key_eq in K0'. destruct K0, K0'. split; congruence. }
      destruct M as [[M|[M|[M Mn]]]|[Mi Ml]].
      * unfold completed in *. rewrite Eu in M. congruence.
      * congruence.
      * destruct o; cbn [op_dv] in *; try congruence. cbn [op_key] in Ek. inversion Ek; subst.
        cbn [may_destroy] in D. rewrite !bytes_eqb_refl in D. rewrite <- M, Ev, Vr in D.
        rewrite vid_eqb_refl in D. discriminate.
      * assert (r0 = r) as ->.
        { destruct (find_latest_some _ _ _ _ Ml) as (H0 & _).
          eapply NoDup_map_inj; [exact (proj1 I) | exact H0 | exact Hr | exact E0]. }
        destruct (find_latest_some _ _ _ _ Ml) as (_ & _ & _ & Ll).
        destruct o; cbn [op_inplace] in Mi; try discriminate; cbn [op_key] in Ek; inversion Ek; subst;
          cbn [may_destroy] in D; rewrite !bytes_eqb_refl, Ll in D; cbn [andb] in D.
        -- destruct (resolve_vref v); [destruct (bucket_ver s b) as [[]|]; discriminate|].
           destruct (bucket_ver s b) as [[]|]; discriminate.
        -- destruct (bucket_ver s b) as [[]|]; discriminate.
    + exact T.
    + exists r. repeat split; assumption.
    + destruct (core_fields _ _ Cx) as (_ & Eb & Ekk & Ev & _ & Eu & _).
      exists x. split; [|split; [exact Cx | exact P]].
      apply find_version_unique; try assumption.
      * apply on_key_eq. apply on_key_eq in Kr. destruct Kr. split; congruence.
      * unfold completed in *. rewrite Eu. exact Cr.
      * congruence.
  - exists r. split; [|split; [reflexivity | unfold obj_parts; rewrite E2; reflexivity]].
    rewrite (proj1 (proj2 (find_ext_objs E1))). exact F.
Qed.
