(* Spec/AwsChunkedSpec.v — the aws-chunked wire format as a client produces it (AWS SigV4 streaming
   upload documentation), independent of the decoder model: chunks with hexadecimal size fields,
   optional ";chunk-signature=" extension, CRLF framing, terminating zero-size chunk, trailer section.
   Signatures and checksum values are opaque tokens. *)
From Verif Require Import Bytes Codec AwsChunked.

Definition CRLF : bytes := [x0d; x0a].

Definition is_hex (b : byte) : bool := match hex_val b with Some _ => true | None => false end.
Definition hexstr (hs : bytes) : bool := negb (is_empty hs) && forallb is_hex hs.          (* 1*HEXDIG *)
Definition hexv (hs : bytes) : N :=
  fold_left (fun acc b => 16 * acc + match hex_val b with Some d => d | None => 0 end)%N hs 0%N.

(* a token (signature) may be any byte string without CR / LF *)
Definition tok_ok (t : bytes) : bool := forallb (fun b => negb (is_crlf b)) t.

Record chunk := { c_hs : bytes; c_sig : bytes; c_data : bytes }.

Definition wf_chunk (ch : chunk) : Prop :=
  hexstr (c_hs ch) = true /\ hexv (c_hs ch) = lenN (c_data ch) /\ (0 < hexv (c_hs ch) < 18446744073709551616)%N /\
  tok_ok (c_sig ch) = true.

(* the chunk-signature extension is sent in the signed modes only *)
Definition ext (signed : bool) (sg : bytes) : bytes := if signed then sig_ext ++ sg else [].

Definition enc_chunk (signed : bool) (ch : chunk) : bytes :=
  c_hs ch ++ ext signed (c_sig ch) ++ CRLF ++ c_data ch ++ CRLF.

Definition enc_chunks (signed : bool) (chs : list chunk) : bytes := concat (map (enc_chunk signed) chs).

(* [hs0] is the size field of the terminating chunk (value 0), [sgf] its signature, [tr] the trailer
   section (for the modes without trailer: the final CRLF, or anything else) *)
Definition enc (signed : bool) (chs : list chunk) (hs0 sgf tr : bytes) : bytes :=
  enc_chunks signed chs ++ hs0 ++ ext signed sgf ++ CRLF ++ tr.

Definition payload_of (chs : list chunk) : bytes := concat (map c_data chs).
