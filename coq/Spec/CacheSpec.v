(* Spec/CacheSpec.v — the reference the C19 theorems talk about: a cache is a partial map from keys to the
   value of the latest COMPLETED Set (a streaming Set completes when its reader reports EOF; its value is
   what the reader delivered), emptied per key by Remove and by a failed Set.  The reference never evicts;
   an implementation may additionally answer "miss". *)
From Verif Require Import Bytes Codec Cache.

Record ghost := {
  g_cur : list (bytes * bytes);                       (* key -> completed value *)
  g_pend : list (nat * (bytes * bytes * bytes))       (* running Set -> (key, delivered so far, still to deliver) *)
}.
Definition g0 : ghost := {| g_cur := []; g_pend := [] |}.

Definition gstep (g : ghost) (o : op) : ghost :=
  match o with
  | OSet k v _ => {| g_cur := aset k v (g_cur g); g_pend := g_pend g |}
  | OSetFail k _ _ _ => {| g_cur := aremove k (g_cur g); g_pend := g_pend g |}
  | ORemove k => {| g_cur := aremove k (g_cur g); g_pend := g_pend g |}
  | OBegin s k v _ =>
      match nlookup s (g_pend g) with
      | Some _ => g
      | None => {| g_cur := g_cur g; g_pend := nset s (k, [], v) (g_pend g) |}
      end
  | OFeed s n =>
      match nlookup s (g_pend g) with
      | Some (k, fed, src) => {| g_cur := g_cur g; g_pend := nset s (k, fed ++ firstn n src, skipn n src) (g_pend g) |}
      | None => g
      end
  | OEof s =>
      match nlookup s (g_pend g) with
      | Some (k, fed, _) => {| g_cur := aset k fed (g_cur g); g_pend := nremove s (g_pend g) |}
      | None => g
      end
  | OErr s =>
      match nlookup s (g_pend g) with
      | Some (k, _, _) => {| g_cur := aremove k (g_cur g); g_pend := nremove s (g_pend g) |}
      | None => g
      end
  | _ => g
  end.

(* operations of the generic cache and of its readers (no part-store operations) *)
Definition cache_op (o : op) : bool :=
  match o with
  | PPut _ _ | PInner _ _ | PDelete _ | POpen _ _ | PGet _
  | POpenF _ _ _ | PGetF _ _ | PGetClose _ _ | PPutFail _ _ | PDeleteFail _ | PPutStoreFail _ _ _ => false
  | TBegin | TPutTx _ _ | TDelTx _ | TCommit | TRollback | PGetTx _ | PGetCloseTx _ _ => false
  | _ => true
  end.

(* the results of a history are sound when every complete Get answers "miss" or the reference value *)
Fixpoint get_sound (g : ghost) (ops : list op) (rs : list res) : Prop :=
  match ops, rs with
  | [], [] => True
  | o :: ops', r :: rs' =>
      match o with
      | OGet k => r = RMiss \/ exists v, alookup k (g_cur g) = Some v /\ r = RVal v
      | _ => True
      end /\ get_sound (gstep g o) ops' rs'
  | _, _ => False
  end.

(* sequential histories: complete Sets, failing Sets, complete Gets, Removes *)
Definition seq_op (o : op) : bool :=
  match o with OSet _ _ _ | OSetFail _ _ _ _ | OGet _ | ORemove _ => true | _ => false end.

(* ---- the cache part store: the reference is the inner part store itself ---- *)
Definition pstep (cur : list (bytes * bytes)) (o : op) : list (bytes * bytes) :=
  match o with
  | PPut id v => aset id v cur
  | PPutStoreFail id v _ => aset id v cur          (* the inner put succeeded; only the cache write failed *)
  | PInner id v => match alookup id cur with Some _ => cur | None => aset id v cur end
  | PDelete id => aremove id cur
  | _ => cur                                        (* PPutFail / PDeleteFail: the inner store refused, nothing changes *)
  end.

(* what one complete GetPart may answer when the inner store holds [cur]:
   - without fault: exactly the stored bytes, or not-found when there are none;
   - inner reader failing after k bytes: the stored bytes (served from the cache, or the part is not longer than k),
     or the k-byte prefix TOGETHER WITH the error — never a prefix without the error;
   - inner GetPart failing: the stored bytes (cache hit) or the error;
   - reader closed after n bytes: the first n stored bytes *)
Definition get_ok (cur : list (bytes * bytes)) (o : op) (r : res) : Prop :=
  match o with
  | PGet id | PGetF id FNone =>
      match alookup id cur with Some v => r = RVal v | None => r = RNotFound end
  | PGetF id (FReadFail k) =>
      match alookup id cur with
      | Some v => r = RVal v \/ (k < length v /\ r = RValErr (firstn k v))
      | None => r = RNotFound
      end
  | PGetF id FOpenErr =>
      match alookup id cur with Some v => r = RVal v \/ r = RErr | None => r = RErr end
  | PGetClose id n =>
      match alookup id cur with Some v => r = RVal (firstn n v) | None => r = RNotFound end
  | PPutFail _ _ | PDeleteFail _ => r = RErr
  | _ => True
  end.

Fixpoint part_sound (cur : list (bytes * bytes)) (ops : list op) (rs : list res) : Prop :=
  match ops, rs with
  | [], [] => True
  | o :: ops', r :: rs' => get_ok cur o r /\ part_sound (pstep cur o) ops' rs'
  | _, _ => False
  end.

(* part-store histories in which every GetPart runs to its end (or to its early Close) before the next operation
   starts, with any of the faults except a persistor failure during the miss fill (that one makes the reader hang:
   finding C19-fill-store-error-hangs-reader).  Overlapping readers/fills are the regions of the open findings
   C19-fs-inplace-partial and C19-stale-fill-after-delete. *)
Definition part_seq_op (o : op) : bool :=
  match o with
  | PPut _ _ | PInner _ _ | PDelete _ | PGet _ | PGetClose _ _ | PPutFail _ _ | PDeleteFail _ | PPutStoreFail _ _ _ => true
  | PGetF _ (FStoreFail _) => false
  | PGetF _ _ => true
  | _ => false
  end.

(* ---- the cache part store over a real inner store, with one write transaction that stays open while others read ----
   reference state: the committed content and what the open transaction has done so far *)
Record tghost := { tg_cur : list (bytes * bytes); tg_tx : option (list txop) }.
Definition tg0 : tghost := {| tg_cur := []; tg_tx := None |}.

Definition tstep (g : tghost) (o : op) : tghost :=
  match o, tg_tx g with
  | TBegin, None => {| tg_cur := tg_cur g; tg_tx := Some [] |}
  | TPutTx id v, Some ops => {| tg_cur := tg_cur g; tg_tx := Some (ops ++ [TxPut id v]) |}
  | TDelTx id, Some ops => {| tg_cur := tg_cur g; tg_tx := Some (ops ++ [TxDel id]) |}
  | TCommit, Some ops => {| tg_cur := apply_txops ops (tg_cur g); tg_tx := None |}
  | TRollback, Some _ => {| tg_cur := tg_cur g; tg_tx := None |}
  | _, _ => g
  end.

Definition answers (m : list (bytes * bytes)) (id : bytes) (r : res) : Prop :=
  match alookup id m with Some v => r = RVal v | None => r = RNotFound end.
Definition answers_prefix (m : list (bytes * bytes)) (id : bytes) (n : nat) (r : res) : Prop :=
  match alookup id m with Some v => r = RVal (firstn n v) | None => r = RNotFound end.

(* every reader outside the transaction gets exactly the COMMITTED content of that moment: the deleted bytes never
   again after a committed DeletePart, never the older bytes after a committed PutPart, the pre-transaction bytes
   after a rollback and while the transaction is open, never anything that was not committed under that id.
   A reader inside the transaction gets the committed content or that transaction's own view. *)
Definition tget_ok (g : tghost) (o : op) (r : res) : Prop :=
  match o with
  | PGet id | PGetF id FNone => answers (tg_cur g) id r
  | PGetClose id n => answers_prefix (tg_cur g) id n r
  | PGetTx id =>
      match tg_tx g with
      | None => r = RBad
      | Some ops => answers (tg_cur g) id r \/ answers (apply_txops ops (tg_cur g)) id r
      end
  | PGetCloseTx id n =>
      match tg_tx g with
      | None => r = RBad
      | Some ops => answers_prefix (tg_cur g) id n r \/ answers_prefix (apply_txops ops (tg_cur g)) id n r
      end
  | _ => True
  end.

Fixpoint tsound (g : tghost) (ops : list op) (rs : list res) : Prop :=
  match ops, rs with
  | [], [] => True
  | o :: ops', r :: rs' => tget_ok g o r /\ tsound (tstep g o) ops' rs'
  | _, _ => False
  end.

(* histories over a real inner store in which every GetPart runs to its end / early Close before the next step:
   transaction steps and readers outside the transaction; [intx]: also readers inside the transaction *)
Definition tx_seq_op (intx : bool) (o : op) : bool :=
  match o with
  | TBegin | TPutTx _ _ | TDelTx _ | TCommit | TRollback | PGet _ | PGetClose _ _ | PGetF _ FNone => true
  | PGetTx _ | PGetCloseTx _ _ => intx
  | _ => false
  end.
