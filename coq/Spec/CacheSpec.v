(* Spec/CacheSpec.v — the reference the C19 theorems talk about: a cache is a partial map from keys to the
   value of the latest COMPLETED Set (a streaming Set completes when its reader reports EOF; its value is
   what the reader delivered), emptied per key by Remove and by a failed Set.  The reference never evicts;
   an implementation may additionally answer "miss". *)
From Verif Require Import Bytes Codec Cache.

Record ghost := {
  g_cur : list (bytes * bytes);                       (* key -> completed value *)
  g_pend : list (nat * (bytes * bytes * bytes))       (* running Set -> (key, delivered so far, still to deliver) *)
}.
Definition g0 : ghost := {| g_cur := []; g_pend := [] |}.

Definition gstep (g : ghost) (o : op) : ghost :=
  match o with
  | OSet k v _ => {| g_cur := aset k v (g_cur g); g_pend := g_pend g |}
  | OSetFail k _ _ _ => {| g_cur := aremove k (g_cur g); g_pend := g_pend g |}
  | ORemove k => {| g_cur := aremove k (g_cur g); g_pend := g_pend g |}
  | OBegin s k v _ =>
      match nlookup s (g_pend g) with
      | Some _ => g
      | None => {| g_cur := g_cur g; g_pend := nset s (k, [], v) (g_pend g) |}
      end
  | OFeed s n =>
      match nlookup s (g_pend g) with
      | Some (k, fed, src) => {| g_cur := g_cur g; g_pend := nset s (k, fed ++ firstn n src, skipn n src) (g_pend g) |}
      | None => g
      end
  | OEof s =>
      match nlookup s (g_pend g) with
      | Some (k, fed, _) => {| g_cur := aset k fed (g_cur g); g_pend := nremove s (g_pend g) |}
      | None => g
      end
  | OErr s =>
      match nlookup s (g_pend g) with
      | Some (k, _, _) => {| g_cur := aremove k (g_cur g); g_pend := nremove s (g_pend g) |}
      | None => g
      end
  | _ => g
  end.

(* operations of the generic cache and of its readers (no part-store operations) *)
Definition cache_op (o : op) : bool :=
  match o with
  | PPut _ _ | PInner _ _ | PDelete _ | POpen _ _ | PGet _ => false
  | _ => true
  end.

(* the results of a history are sound when every complete Get answers "miss" or the reference value *)
Fixpoint get_sound (g : ghost) (ops : list op) (rs : list res) : Prop :=
  match ops, rs with
  | [], [] => True
  | o :: ops', r :: rs' =>
      match o with
      | OGet k => r = RMiss \/ exists v, alookup k (g_cur g) = Some v /\ r = RVal v
      | _ => True
      end /\ get_sound (gstep g o) ops' rs'
  | _, _ => False
  end.

(* sequential histories: complete Sets, failing Sets, complete Gets, Removes *)
Definition seq_op (o : op) : bool :=
  match o with OSet _ _ _ | OSetFail _ _ _ _ | OGet _ | ORemove _ => true | _ => false end.

(* ---- the cache part store: the reference is the inner part store itself ---- *)
Definition pstep (cur : list (bytes * bytes)) (o : op) : list (bytes * bytes) :=
  match o with
  | PPut id v => aset id v cur
  | PInner id v => match alookup id cur with Some _ => cur | None => aset id v cur end
  | PDelete id => aremove id cur
  | _ => cur
  end.

(* every complete GetPart answers exactly what the inner store holds at that moment *)
Fixpoint part_sound (cur : list (bytes * bytes)) (ops : list op) (rs : list res) : Prop :=
  match ops, rs with
  | [], [] => True
  | o :: ops', r :: rs' =>
      match o with
      | PGet id => match alookup id cur with
                   | Some v => r = RVal v
                   | None => r = RNotFound
                   end
      | _ => True
      end /\ part_sound (pstep cur o) ops' rs'
  | _, _ => False
  end.

Definition part_seq_op (o : op) : bool :=
  match o with PPut _ _ | PInner _ _ | PDelete _ | PGet _ => true | _ => false end.
