(* Spec/EtagSpec.v — what property C04 demands of the model of Model/Etag.v: definitions only. *)
From Verif Require Import Bytes Codec Crc Etag.

Definition mkpart (has : bool) (c : bytes) : part := {| p_content := c; p_has := has |}.


(* what CalculateMultipartChecksums returns on the parts of an upload equals the specification value
   on every slot it computes *)
Definition computed_multi (cs : list bytes) (ty : ctype) (s : slot) : bool :=
  match s with
  | SEtag => true
  | SCrc32 | SCrc32c => match ty with FullObject => negb (is_nil cs) | Composite => true end
  | SCrc64 => match ty with FullObject => negb (is_nil cs) | Composite => false end
  | SSha1 | SSha256 => match ty with FullObject => false | Composite => true end
  end.


(* ---- the invariant: every stored object's ETag and checksums are the functions of its bytes ---- *)
Definition etag_ok (ps : list bytes) (v : val) : Prop :=
  (v = VH (HOne (concat ps)) /\ length ps = 1) \/ v = VH (HCat ps).
Definition cks_ok (ps : list bytes) (ty : ctype) (k : cks) : Prop :=
  (exists v, k SEtag = Some v /\ etag_ok ps v) /\
  forall s v, s <> SEtag -> k s = Some v -> v = spec_multi ps ty s.
Definition obj_ok (o : obj) : Prop := cks_ok (o_parts o) (o_type o) (o_cks o).
Definition state_ok (st : state) : Prop := forall k o, lookup k (st_objs st) = Some o -> obj_ok o.


(* what an operation reports back *)
Definition res_ok (r : res) : Prop :=
  match r with
  | RPut c k => forall s, k s = Some (spec_single c s)
  | RComplete ps k ty => cks_ok ps ty k
  | RAppend ps e n => e = Some (VH (HCat ps)) /\ n = lenN (concat ps)
  | RCopy ps e => exists v, e = Some v /\ etag_ok ps v
  | RHead o => obj_ok o
  | _ => True
  end.


(* ---- a supplied checksum that disagrees is rejected — where the code has a value to compare with ---- *)
Definition op_sup (o : op) : option cks :=
  match o with OPut _ _ s | OPart _ _ _ s | OComplete _ s | OAppend _ _ s => Some s | _ => None end.
(* the value the property prescribes for the data this write is about *)
Definition op_spec (st : state) (o : op) : slot -> val :=
  match o with
  | OPut _ c _ | OPart _ _ c _ | OAppend _ c _ => spec_single c
  | OComplete u _ => match nth_error (st_ups st) u with
                     | Some up => spec_multi (map snd (u_parts up)) (u_type up)
                     | None => spec_single []
                     end
  | _ => spec_single []
  end.
(* the write would be carried out if no checksum were supplied *)
Definition op_ready (st : state) (o : op) : Prop :=
  match o with
  | OPut _ _ _ | OAppend _ _ _ => True
  | OPart u _ _ _ => open_upload st u <> None
  | OComplete u _ => exists up, open_upload st u = Some up /\ seq_ok 1 (u_parts up) = true
  | _ => False
  end.
(* slots for which the code computes a value to compare a supplied one with *)
Definition op_computed (st : state) (o : op) (s : slot) : bool :=
  match o with
  | OComplete u _ => match nth_error (st_ups st) u with
                     | Some up => computed_multi (map snd (u_parts up)) (u_type up) s
                     | None => false
                     end
  | _ => true
  end.

Definition wrong_at (sup : cks) (spec : slot -> val) (s : slot) : Prop :=
  exists v, sup s = Some v /\ v <> spec s.

