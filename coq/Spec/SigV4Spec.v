(* Spec/SigV4Spec.v — Gallina transcription of the documented AWS Signature Version 4 canonicalisation
   ("Create a canonical request", S3 flavour: path encoded once, '/' preserved; query sorted after encoding;
   header names lower-cased and sorted, values trimmed with runs of spaces collapsed).  Independent of the
   model's definitions except for byte classes and the sort function. *)
From Verif Require Import Bytes Codec SigV4.

(* UriEncode(): every byte except A-Z a-z 0-9 - . _ ~ becomes %XY with upper-case hex; '/' is kept in paths *)
Definition spec_uri_encode (keep_slash : bool) (s : bytes) : bytes :=
  flat_map (fun c => if is_unreserved c || (keep_slash && beqb c "/"%byte) then [c] else pct c) s.

(* CanonicalURI for S3: the URI-encoded absolute path, "/" when empty *)
Definition spec_canonical_uri (path : bytes) : bytes :=
  match path with [] => B"/" | _ => spec_uri_encode true path end.

(* CanonicalQueryString: encode names and values, sort by encoded name then encoded value, name=value joined by & *)
Definition spec_canonical_query (params : list (bytes * bytes)) : bytes :=
  join B"&" (map (fun p => fst p ++ B"=" ++ snd p)
                 (isort pair_leb (map (fun p => (spec_uri_encode false (fst p), spec_uri_encode false (snd p))) params))).

(* Trimall(): strip leading/trailing white space, convert sequential spaces to a single space *)
Fixpoint collapse_spaces (s : bytes) : bytes :=
  match s with
  | [] => []
  | a :: t => match t with
              | b :: _ => if beqb a " "%byte && beqb b " "%byte then collapse_spaces t else a :: collapse_spaces t
              | [] => [a]
              end
  end.
Definition spec_trimall (v : bytes) : bytes := trim_space (collapse_spaces v).

(* CanonicalHeaders entries: host plus every request header whose lower-cased name is signed, values
   trimmed individually and joined by ',', sorted by name *)
Fixpoint spec_signed_pairs (h : header_map) (signed : list bytes) : list (bytes * bytes) :=
  match h with
  | [] => []
  | (k, vs) :: h' =>
      if mem_bytes (to_lower k) signed
      then (to_lower k, join B"," (map spec_trimall vs)) :: spec_signed_pairs h' signed
      else spec_signed_pairs h' signed
  end.
Definition spec_header_pairs (host : bytes) (h : header_map) (signed : list bytes) : list (bytes * bytes) :=
  isort key_leb ((B"host", spec_trimall host) :: spec_signed_pairs h signed).

(* percent-decoding that never fails: a '%' not followed by two hex digits stands for itself *)
Fixpoint pct_decode (s : bytes) : bytes :=
  match s with
  | [] => []
  | c :: t =>
      if beqb c "%"%byte then
        match t with
        | a :: b :: t' => if is_hex a && is_hex b then Nbyte (16 * unhex a + unhex b) :: pct_decode t'
                          else c :: pct_decode t
        | _ => c :: pct_decode t
        end
      else c :: pct_decode t
  end.
