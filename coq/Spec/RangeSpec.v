(* Spec/RangeSpec.v — RFC 7233 byte ranges, written independently of the implementation model:
   abstract syntax of a syntactically valid Range header (sender grammar of RFC 7233 §2.1 with the
   list rule of RFC 7230 §7), its rendering, and the response an origin server that honours the header
   gives for a representation [content].  Only the response vocabulary ([response], the
   multipart/byteranges framing [multipart_body]) is shared with Model/Range.v. *)
From Verif Require Import Bytes Codec Range.

Inductive rspec := FromTo (first last : N) | From (first : N) | Suffix (n : N).

(* §2.1: a byte-range-spec is satisfiable iff first-byte-pos < current length; a suffix-byte-range-spec
   iff its suffix-length is non-zero (and, here, the representation non-empty: an empty selection has no
   Content-Range) *)
Definition satisfiable (size : N) (r : rspec) : bool :=
  match r with
  | FromTo f _ | From f => (f <? size)%N
  | Suffix n => (0 <? n)%N && (0 <? size)%N
  end.

(* first and last byte position selected (inclusive); last-byte-pos beyond the end is clamped, a suffix
   longer than the representation selects all of it *)
Definition resolve (size : N) (r : rspec) : N * N :=
  match r with
  | FromTo f l => (f, N.min l (size - 1))
  | From f => (f, size - 1)
  | Suffix n => (size - N.min n size, size - 1)
  end%N.

Definition cr_value (size : N) (fl : N * N) : bytes :=
  B"bytes " ++ show_N (fst fl) ++ B"-" ++ show_N (snd fl) ++ B"/" ++ show_N size.

Definition selected (content : bytes) (fl : N * N) : bytes :=
  firstn (N.to_nat (snd fl + 1 - fst fl)) (skipn (N.to_nat (fst fl)) content).

Definition rfc7233 (sep : bytes) (content : bytes) (req : option (list rspec)) : response :=
  let size := lenN content in
  match req with
  | None => R200 (Z.of_N size) content
  | Some [r] =>
      if satisfiable size r
      then let fl := resolve size r in
           R206 (Z.of_N (snd fl + 1 - fst fl)) (cr_value size fl) (selected content fl)
      else R416
  | Some rs =>
      match filter (satisfiable size) rs with
      | [] => R416
      | sat =>
          let ps := map (fun r => let fl := resolve size r in (cr_value size fl, selected content fl)) sat in
          R206M (lenZ (multipart_body sep ps)) ps
      end
  end.

(* ---- concrete syntax ---- *)
Inductive item := IRange (f l : bytes) | IFrom (f : bytes) | ISuffix (n : bytes).
Record pitem := { p_l : bytes; p_it : item; p_r : bytes }.       (* OWS item OWS *)

Definition render_item (it : item) : bytes :=
  match it with
  | IRange f l => f ++ B"-" ++ l
  | IFrom f => f ++ B"-"
  | ISuffix n => B"-" ++ n
  end.
Definition render_pitem (p : pitem) : bytes := p_l p ++ render_item (p_it p) ++ p_r p.
Definition render (unit : bytes) (its : list pitem) : bytes :=
  unit ++ B"=" ++ join B"," (map render_pitem its).

Definition is_digit (b : byte) : bool := let n := byteN b in (48 <=? n)%N && (n <=? 57)%N.
Definition dec_val (ds : bytes) : N := fold_left (fun acc b => 10 * acc + (byteN b - 48))%N ds 0%N.
Definition digits (ds : bytes) : bool := negb (is_empty ds) && forallb is_digit ds.      (* 1*DIGIT *)
Definition ows (l : bytes) : bool := forallb (fun b => beqb b " "%byte || beqb b x09) l.  (* *( SP / HTAB ) *)

Definition item_wf (it : item) : bool :=
  match it with
  | IRange f l => digits f && digits l && (dec_val f <=? dec_val l)%N
  | IFrom f => digits f
  | ISuffix n => digits n
  end.
Definition pitem_wf (p : pitem) : bool := ows (p_l p) && item_wf (p_it p) && ows (p_r p).

(* range units are case-insensitive (§2) *)
Definition syntactically_valid (unit : bytes) (its : list pitem) : bool :=
  bytes_eqb (to_lower unit) B"bytes" && negb (is_nil its) && forallb pitem_wf its.

Definition spec_of (it : item) : rspec :=
  match it with
  | IRange f l => FromTo (dec_val f) (dec_val l)
  | IFrom f => From (dec_val f)
  | ISuffix n => Suffix (dec_val n)
  end.
Definition specs_of (its : list pitem) : list rspec := map (fun p => spec_of (p_it p)) its.

(* every number of the item is below 2^63 - 1 (so neither ParseInt nor the "+1" can leave int64) *)
Definition item_comfort (it : item) : bool :=
  match it with
  | IRange f l => (dec_val f <? 9223372036854775807)%N && (dec_val l <? 9223372036854775807)%N
  | IFrom f => (dec_val f <? 9223372036854775807)%N
  | ISuffix n => (dec_val n <? 9223372036854775807)%N
  end.
