(* Model/S3Client.v — the pure parts of the S3 client backend (internal/storage/s3client/s3client.go):
   (1) which storage operations the client forwards and which it answers with ErrNotImplemented,
   (2) the percent-encodings it relies on (copySourceValue: url.PathEscape of the source key;
       CreateMultipartUpload tagging: url.Values.Encode = url.QueryEscape of keys and values) together
       with the decoding done by the server (url.PathUnescape / url.ParseQuery),
   (3) the error translation: the error code the pithos server puts on the wire for an error kind, what
       the SDK sees (HEAD responses carry no body: 404 becomes "NotFound") and which storage error kind
       each family of client methods maps it to.
   The end-to-end behaviour (SDK, HTTP, server, storage) is NOT modelled; it is exercised by the harness.
   No proofs in this file. *)
From Verif Require Import Bytes Codec.
Local Open Scope N_scope.

(* ---------- (1) operations ---------- *)
(* opcode and comma separated numeric arguments as in the harness line protocol *)
Definition arg (f : list bytes) (i : nat) : N :=
  match parse_N (nth i f []) with Some n => n | None => 0 end.
Definition known_ops : list bytes :=
  [B"P"; B"H"; B"G"; B"D"; B"X"; B"C"; B"A"; B"T"; B"L"; B"V"; B"t+"; B"t?"; B"t-"; B"MC"; B"MP"; B"MF"; B"MA";
   B"MQ"; B"MY"; B"ML"; B"LW"; B"VW"; B"MLW"; B"MQW"; B"BL"; B"BH"; B"BV"; B"BC"; B"BD"; B"OP"; B"OG"; B"OD"; B"YP"; B"YG"; B"YD"; B"WP"; B"WG"; B"WD"].
(* AppendObject always; CopyObject with a byte range (argument 11); TransitionObjectStorageClass of an
   explicit version (argument 4) *)
Definition not_implemented (f : list bytes) : bool :=
  match f with
  | op :: _ =>
      if bytes_eqb op B"A" then true
      else if bytes_eqb op B"C" then negb (arg f 11 =? 0)
      else if bytes_eqb op B"T" then negb (arg f 4 =? 0)
      else false
  | [] => false
  end.
Definition op_token (o : bytes) : bytes :=
  let f := split_on ","%byte o in
  match f with
  | op :: _ => if mem_bytes op known_ops then (if not_implemented f then B"NI" else B"I") else B"BadOp"
  | [] => B"BadOp"
  end.
Definition run_line (line : bytes) : bytes :=
  match tokens line with
  | h :: ops =>
      if bytes_eqb h B"H" then match ops with [] => B"-" | _ => unwords (map op_token ops) end
      else parse_error
  | [] => parse_error
  end.

(* ---------- (2) percent encodings ---------- *)
Definition uhex_digit (n : N) : byte := if n <? 10 then Nbyte (48 + n) else Nbyte (55 + n).
Definition is_alnum (b : byte) : bool :=
  let n := byteN b in
  ((48 <=? n) && (n <=? 57)) || ((65 <=? n) && (n <=? 90)) || ((97 <=? n) && (n <=? 122)).
Definition is_unreserved (b : byte) : bool :=
  is_alnum b || beqb b "-"%byte || beqb b "_"%byte || beqb b "."%byte || beqb b "~"%byte.
(* net/url shouldEscape, mode encodePathSegment: of the reserved characters only / ; , ? are escaped *)
Definition path_should_escape (b : byte) : bool :=
  if is_unreserved b then false
  else if beqb b "$"%byte || beqb b "&"%byte || beqb b "+"%byte || beqb b ":"%byte || beqb b "="%byte || beqb b "@"%byte then false
  else true.
(* mode encodeQueryComponent: every reserved character is escaped *)
Definition query_should_escape (b : byte) : bool := negb (is_unreserved b).

Fixpoint escape (p : byte -> bool) (plus : bool) (s : bytes) : bytes :=
  match s with
  | [] => []
  | b :: r =>
      if plus && beqb b " "%byte then "+"%byte :: escape p plus r
      else if p b then "%"%byte :: uhex_digit (byteN b / 16) :: uhex_digit (byteN b mod 16) :: escape p plus r
      else b :: escape p plus r
  end.
Fixpoint unescape (plus : bool) (s : bytes) : option bytes :=
  match s with
  | [] => Some []
  | b :: r =>
      if beqb b "%"%byte then
        match r with
        | h :: l :: r' =>
            match hex_val h, hex_val l, unescape plus r' with
            | Some a, Some c, Some t => Some (Nbyte (16 * a + c) :: t)
            | _, _, _ => None
            end
        | _ => None
        end
      else match unescape plus r with
           | Some t => Some ((if plus && beqb b "+"%byte then " "%byte else b) :: t)
           | None => None
           end
  end.
Definition path_escape (s : bytes) : bytes := escape path_should_escape false s.
Definition query_escape (s : bytes) : bytes := escape query_should_escape true s.
(* copySourceValue without version: bucket "/" PathEscape(key); the server splits at the first "/" and
   path-unescapes the rest *)
Definition copy_source (bucket key : bytes) : bytes := bucket ++ "/"%byte :: path_escape key.

(* ---------- (3) error translation ---------- *)
Inductive kind := KNoSuchBucket | KNoSuchKey | KPreconditionFailed | KNotModified | KInvalidRange
                | KBucketAlreadyExists | KBucketNotEmpty | KInvalidStorageClass | KInvalidPart | KNoSuchUpload.
Definition all_kinds : list kind :=
  [KNoSuchBucket; KNoSuchKey; KPreconditionFailed; KNotModified; KInvalidRange; KBucketAlreadyExists;
   KBucketNotEmpty; KInvalidStorageClass; KInvalidPart; KNoSuchUpload].
(* the error code the server writes into the XML error body *)
Definition code_of (k : kind) : bytes :=
  match k with
  | KNoSuchBucket => B"NoSuchBucket" | KNoSuchKey => B"NoSuchKey" | KPreconditionFailed => B"PreconditionFailed"
  | KNotModified => B"NotModified" | KInvalidRange => B"InvalidRange" | KBucketAlreadyExists => B"BucketAlreadyExists"
  | KBucketNotEmpty => B"BucketNotEmpty" | KInvalidStorageClass => B"InvalidStorageClass" | KInvalidPart => B"InvalidPart"
  | KNoSuchUpload => B"NoSuchUpload"
  end.
Definition status_of (k : kind) : N :=
  match k with
  | KNoSuchBucket | KNoSuchKey | KNoSuchUpload => 404
  | KPreconditionFailed => 412 | KNotModified => 304 | KInvalidRange => 416
  | KBucketAlreadyExists | KBucketNotEmpty => 409
  | KInvalidStorageClass | KInvalidPart => 400
  end.
(* what the SDK reports as ErrorCode(): the body's code, or for a body-less (HEAD) response a code
   derived from the status alone *)
Definition wire_code (head : bool) (k : kind) : bytes :=
  if head then (if status_of k =? 404 then B"NotFound" else B"UnknownError") else code_of k.
(* families of client methods by the error translation they apply *)
Inductive family := FHead | FGetBody | FPut | FCopy | FDelete | FTagging | FDeleteBucket | FCreateBucket | FGeneric.
Inductive outcome := Mapped (k : kind) | Unmapped.   (* Unmapped: the raw SDK error is returned *)
Definition is_head (f : family) : bool := match f with FHead => true | _ => false end.
Definition client_map (f : family) (code : bytes) : outcome :=
  let nf := bytes_eqb code B"NotFound" in
  match f with
  | FHead | FGetBody | FDelete | FGeneric => if nf then Mapped KNoSuchBucket else Unmapped
  | FPut => if nf then Mapped KNoSuchBucket else if bytes_eqb code B"PreconditionFailed" then Mapped KPreconditionFailed else Unmapped
  | FCopy => if bytes_eqb code B"NoSuchBucket" then Mapped KNoSuchBucket
             else if bytes_eqb code B"NoSuchKey" then Mapped KNoSuchKey
             else if bytes_eqb code B"PreconditionFailed" then Mapped KPreconditionFailed
             else if nf then Mapped KNoSuchBucket else Unmapped
  | FTagging => if bytes_eqb code B"NoSuchKey" then Mapped KNoSuchKey else Unmapped
  | FDeleteBucket => if bytes_eqb code B"NoSuchBucket" then Mapped KNoSuchBucket
                     else if bytes_eqb code B"BucketNotEmpty" then Mapped KBucketNotEmpty else Unmapped
  | FCreateBucket => if bytes_eqb code B"BucketAlreadyExists" then Mapped KBucketAlreadyExists else Unmapped
  end.
(* the error kind the caller of the client sees when the storage behind the server fails with k *)
Definition through_client (f : family) (k : kind) : outcome := client_map f (wire_code (is_head f) k).
