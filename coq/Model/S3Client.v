(* Model/S3Client.v — the pure parts of the S3 client backend (internal/storage/s3client/s3client.go):
   (1) which storage operations the client forwards and which it answers with ErrNotImplemented,
   (2) the percent-encodings it relies on (copySourceValue: url.PathEscape of the source key;
       CreateMultipartUpload tagging: url.Values.Encode = url.QueryEscape of keys and values) together
       with the decoding done by the server (url.PathUnescape / url.ParseQuery),
   (3) the error translation: the error code the pithos server puts on the wire for an error kind, what
       the SDK sees (HEAD responses carry no body: 404 becomes "NotFound") and which storage error kind
       each family of client methods maps it to.
   The end-to-end behaviour (SDK, HTTP, server, storage) is NOT modelled; it is exercised by the harness.
   No proofs in this file. *)
From Verif Require Import Bytes Codec.
Local Open Scope N_scope.

(* ---------- (1) operations ---------- *)
(* opcode and comma separated numeric arguments as in the harness line protocol *)
Definition arg (f : list bytes) (i : nat) : N :=
  match parse_N (nth i f []) with Some n => n | None => 0 end.
Definition known_ops : list bytes :=
  [B"P"; B"H"; B"G"; B"D"; B"X"; B"C"; B"A"; B"T"; B"L"; B"V"; B"t+"; B"t?"; B"t-"; B"MC"; B"MP"; B"MF"; B"MA";
   B"MQ"; B"MY"; B"ML"; B"LW"; B"VW"; B"MLW"; B"MQW"; B"BL"; B"BH"; B"BV"; B"BC"; B"BD"; B"OP"; B"OG"; B"OD"; B"YP"; B"YG"; B"YD"; B"WP"; B"WG"; B"WD"].
(* AppendObject always; CopyObject with a byte range (argument 11); TransitionObjectStorageClass of an
   explicit version (argument 4) *)
Definition not_implemented (f : list bytes) : bool :=
  match f with
  | op :: _ =>
      if bytes_eqb op B"A" then true
      else if bytes_eqb op B"C" then negb (arg f 11 =? 0)
      else if bytes_eqb op B"T" then negb (arg f 4 =? 0)
      else false
  | [] => false
  end.

(* ---------- (1b) CopyObject: which option reaches the destination (composite operation CX) ---------- *)
(* provenance of a destination field: absent, the source object's value, the value given in the copy
   options, the options' Expires in a non-canonical (RFC 850) spelling stored verbatim, or that
   spelling re-printed canonically *)
Inductive prov := VNone | VSrc | VOpt | VAltRaw | VAltCanon.
(* fields: 0 content type, 1 Cache-Control, 2 Content-Disposition, 3 Content-Encoding, 4 Content-Language,
   5 Expires, 6 website redirect location, 7 user metadata *)
Record cxargs := mkCXA {
  xa_self : bool;      (* source and destination are the same bucket and key *)
  xa_smask : N;        (* bit i: the source object has field i *)
  xa_stags : bool;     (* the source object is tagged *)
  xa_rm : bool;        (* opts.ReplaceMetadata *)
  xa_omask : N;        (* bit i: the options carry field i (bit 0: opts.ContentType); bit 8: Expires in RFC 850 spelling *)
  xa_metanil : bool;   (* opts.Metadata == nil *)
  xa_rt : bool;        (* opts.ReplaceTags *)
  xa_otags : bool;     (* opts.Tags non-empty *)
  xa_ocls : N }.       (* opts.StorageClass (0 = nil) *)
Definition src_val (a : cxargs) (i : N) : prov := if N.testbit (xa_smask a) i then VSrc else VNone.
Definition opt_val (a : cxargs) (i : N) : prov :=
  if N.testbit (xa_omask a) i then (if (i =? 5) && N.testbit (xa_omask a) 8 then VAltRaw else VOpt) else VNone.

(* storage.CopyObjectOptions as the storage sees them *)
Record copts := mkCO { co_rm : bool; co_ct : prov; co_meta : option (N -> prov); co_rt : bool; co_tags : prov; co_cls : N }.
Definition meta_field (m : option (N -> prov)) (i : N) : prov := match m with Some f => f i | None => VNone end.
(* metadatapart/copy.go: REPLACE takes content type and the whole metadata from the options; COPY takes
   them from the source, except the redirect location, which always comes from the options *)
Definition storage_copy_field (o : copts) (srcf : N -> prov) (i : N) : prov :=
  if co_rm o then (if i =? 0 then co_ct o else meta_field (co_meta o) i)
  else if i =? 6 then meta_field (co_meta o) 6
  else srcf i.
Definition storage_copy_tags (o : copts) (srctags : prov) : prov := if co_rt o then co_tags o else srctags.

(* a direct call *)
Definition direct_opts (a : cxargs) : copts :=
  mkCO (xa_rm a) (opt_val a 0) (if xa_metanil a then None else Some (opt_val a)) (xa_rt a)
       (if xa_otags a then VOpt else VNone) (xa_ocls a).
(* s3client.CopyObject: the request headers (header i present with a value); Expires goes through
   parseExpires and is re-printed by the SDK; there is no tagging directive and no tagging header *)
Definition canon (v : prov) : prov := match v with VAltRaw => VAltCanon | _ => v end.
Record wire := mkW { w_replace : bool; w_hdr : N -> prov; w_cls : N }.
Definition client_wire (a : cxargs) : wire :=
  mkW (xa_rm a)
      (fun i => if xa_rm a then (if i =? 0 then opt_val a 0 else if xa_metanil a then VNone else canon (opt_val a i))
                else if (i =? 6) && negb (xa_metanil a) then opt_val a 6 else VNone)
      (xa_ocls a).
(* server copyObjectHandler: options rebuilt from the headers (parseObjectMetadataHeaders returns nil when
   no metadata header is present; the content type is read only under REPLACE) *)
Definition is_vnone (v : prov) : bool := match v with VNone => true | _ => false end.
Definition meta_ids : list N := [1; 2; 3; 4; 5; 6; 7].
Definition server_opts (w : wire) : copts :=
  mkCO (w_replace w) (if w_replace w then w_hdr w 0 else VNone)
       (if existsb (fun i => negb (is_vnone (w_hdr w i))) meta_ids then Some (w_hdr w) else None)
       false VNone (w_cls w).
(* the server refuses a self copy with the COPY directive and without a storage class header *)
Definition self_copy_rejected (a : cxargs) : bool := xa_self a && negb (xa_rm a) && (xa_ocls a =? 0).

Definition direct_field (a : cxargs) (i : N) : prov := storage_copy_field (direct_opts a) (src_val a) i.
Definition client_field (a : cxargs) (i : N) : prov := storage_copy_field (server_opts (client_wire a)) (src_val a) i.
Definition stag (a : cxargs) : prov := if xa_stags a then VSrc else VNone.
Definition direct_tags (a : cxargs) : prov := storage_copy_tags (direct_opts a) (stag a).
Definition client_tags (a : cxargs) : prov := storage_copy_tags (server_opts (client_wire a)) (stag a).
Definition direct_cls (a : cxargs) : N := co_cls (direct_opts a).
Definition client_cls (a : cxargs) : N := co_cls (server_opts (client_wire a)).

Definition show_prov (v : prov) : byte :=
  match v with VNone => "-"%byte | VSrc => "S"%byte | VOpt => "O"%byte | VAltRaw => "R"%byte | VAltCanon => "A"%byte end.
Definition field_ids : list N := [0; 1; 2; 3; 4; 5; 6; 7].
Definition cx_token (a : cxargs) : bytes :=
  if self_copy_rejected a then B"I:E"
  else B"I:" ++ map (fun i => show_prov (client_field a i)) field_ids ++ [show_prov (client_tags a)] ++ show_N (client_cls a).
(* CX,sb,sk,db,dk,smask,stags,scls,rm,omask,metanil,rt,otags,ocls *)
Definition cx_args (f : list bytes) : cxargs :=
  mkCXA ((arg f 1 mod 2 =? arg f 3 mod 2) && (arg f 2 mod 4 =? arg f 4 mod 4))
        (arg f 5) (arg f 6 =? 1) (arg f 8 =? 1) (arg f 9) (arg f 10 =? 1) (arg f 11 =? 1) (arg f 12 =? 1) (arg f 13).

(* ---------- (1c) CompleteMultipartUpload manifests (composite operation MFX) ---------- *)
Inductive mres := MROk | MRSeq | MROrder | MRPart.
(* parts 1..4 uploaded as a bit mask; the storage completes only uploads whose part numbers are 1..n *)
Definition nparts (up : N) : option N :=
  if up =? 0 then Some 0 else if up =? 1 then Some 1 else if up =? 3 then Some 2
  else if up =? 7 then Some 3 else if up =? 15 then Some 4 else None.
(* validateCompleteMultipartUploadParts: manifest entries (part number, etag selector: 1 = wrong ETag) *)
Fixpoint validate (n prev : N) (man : list (N * N)) (count : N) : mres :=
  match man with
  | [] => if count =? n then MROk else MRPart
  | (p, e) :: r =>
      if p <=? prev then MROrder
      else if negb ((1 <=? p) && (p <=? n)) then MRPart
      else if e =? 1 then MRPart
      else validate n p r (count + 1)
  end.
Definition storage_complete (up : N) (man : list (N * N)) : mres :=
  match nparts up with
  | None => MRSeq
  | Some n => match man with [] => MROk | _ => validate n 0 man 0 end
  end.
(* s3client.CompleteMultipartUpload / mapCompleteMultipartUploadParts and the server's
   mapCompleteMultipartUploadParts: the manifest is passed on entry by entry in the given order (an empty
   manifest = no manifest); the completion conditions (If-Match / If-None-Match) are NOT forwarded *)
Definition client_manifest (man : list (N * N)) : list (N * N) := man.
Definition server_manifest (man : list (N * N)) : list (N * N) := man.
Definition through_client_complete (up : N) (man : list (N * N)) : mres :=
  storage_complete up (server_manifest (client_manifest man)).
Definition show_mres (r : mres) : bytes :=
  match r with MROk => B"ok" | MRSeq => B"InternalError" | MROrder => B"InvalidPartOrder" | MRPart => B"InvalidPart" end.
Definition parse_manifest (t : bytes) : list (N * N) :=
  if bytes_eqb t B"-" then [] else
  map (fun e => match split_on ":"%byte e with
                | [p; x] => (match parse_N p with Some n => n | None => 0 end, match parse_N x with Some n => n | None => 0 end)
                | _ => (0, 0)
                end) (split_on "/"%byte t).
(* MFX,b,k,upmask,manifest,cond,pre: error kind : visible object : upload still open *)
Definition mfx_token (f : list bytes) : bytes :=
  let r := through_client_complete (arg f 3) (parse_manifest (nth 4 f [])) in
  B"I:" ++ show_mres r ++ B":" ++
  (match r with MROk => B"new:closed" | _ => (if arg f 6 =? 1 then B"old" else B"none") ++ B":open" end).

Definition op_token (o : bytes) : bytes :=
  let f := split_on ","%byte o in
  match f with
  | op :: _ =>
      if bytes_eqb op B"CX" then cx_token (cx_args f)
      else if bytes_eqb op B"MFX" then mfx_token f
      else if mem_bytes op known_ops then (if not_implemented f then B"NI" else B"I") else B"BadOp"
  | [] => B"BadOp"
  end.
Definition run_line (line : bytes) : bytes :=
  match tokens line with
  | h :: ops =>
      if bytes_eqb h B"H" then match ops with [] => B"-" | _ => unwords (map op_token ops) end
      else parse_error
  | [] => parse_error
  end.

(* ---------- (2) percent encodings ---------- *)
Definition uhex_digit (n : N) : byte := if n <? 10 then Nbyte (48 + n) else Nbyte (55 + n).
Definition is_alnum (b : byte) : bool :=
  let n := byteN b in
  ((48 <=? n) && (n <=? 57)) || ((65 <=? n) && (n <=? 90)) || ((97 <=? n) && (n <=? 122)).
Definition is_unreserved (b : byte) : bool :=
  is_alnum b || beqb b "-"%byte || beqb b "_"%byte || beqb b "."%byte || beqb b "~"%byte.
(* net/url shouldEscape, mode encodePathSegment: of the reserved characters only / ; , ? are escaped *)
Definition path_should_escape (b : byte) : bool :=
  if is_unreserved b then false
  else if beqb b "$"%byte || beqb b "&"%byte || beqb b "+"%byte || beqb b ":"%byte || beqb b "="%byte || beqb b "@"%byte then false
  else true.
(* mode encodeQueryComponent: every reserved character is escaped *)
Definition query_should_escape (b : byte) : bool := negb (is_unreserved b).

Fixpoint escape (p : byte -> bool) (plus : bool) (s : bytes) : bytes :=
  match s with
  | [] => []
  | b :: r =>
      if plus && beqb b " "%byte then "+"%byte :: escape p plus r
      else if p b then "%"%byte :: uhex_digit (byteN b / 16) :: uhex_digit (byteN b mod 16) :: escape p plus r
      else b :: escape p plus r
  end.
Fixpoint unescape (plus : bool) (s : bytes) : option bytes :=
  match s with
  | [] => Some []
  | b :: r =>
      if beqb b "%"%byte then
        match r with
        | h :: l :: r' =>
            match hex_val h, hex_val l, unescape plus r' with
            | Some a, Some c, Some t => Some (Nbyte (16 * a + c) :: t)
            | _, _, _ => None
            end
        | _ => None
        end
      else match unescape plus r with
           | Some t => Some ((if plus && beqb b "+"%byte then " "%byte else b) :: t)
           | None => None
           end
  end.
Definition path_escape (s : bytes) : bytes := escape path_should_escape false s.
Definition query_escape (s : bytes) : bytes := escape query_should_escape true s.
(* copySourceValue without version: bucket "/" PathEscape(key); the server splits at the first "/" and
   path-unescapes the rest *)
Definition copy_source (bucket key : bytes) : bytes := bucket ++ "/"%byte :: path_escape key.

(* ---------- (3) error translation ---------- *)
Inductive kind := KNoSuchBucket | KNoSuchKey | KPreconditionFailed | KNotModified | KInvalidRange
                | KBucketAlreadyExists | KBucketNotEmpty | KInvalidStorageClass | KInvalidPart | KNoSuchUpload.
Definition all_kinds : list kind :=
  [KNoSuchBucket; KNoSuchKey; KPreconditionFailed; KNotModified; KInvalidRange; KBucketAlreadyExists;
   KBucketNotEmpty; KInvalidStorageClass; KInvalidPart; KNoSuchUpload].
(* the error code the server writes into the XML error body *)
Definition code_of (k : kind) : bytes :=
  match k with
  | KNoSuchBucket => B"NoSuchBucket" | KNoSuchKey => B"NoSuchKey" | KPreconditionFailed => B"PreconditionFailed"
  | KNotModified => B"NotModified" | KInvalidRange => B"InvalidRange" | KBucketAlreadyExists => B"BucketAlreadyExists"
  | KBucketNotEmpty => B"BucketNotEmpty" | KInvalidStorageClass => B"InvalidStorageClass" | KInvalidPart => B"InvalidPart"
  | KNoSuchUpload => B"NoSuchUpload"
  end.
Definition status_of (k : kind) : N :=
  match k with
  | KNoSuchBucket | KNoSuchKey | KNoSuchUpload => 404
  | KPreconditionFailed => 412 | KNotModified => 304 | KInvalidRange => 416
  | KBucketAlreadyExists | KBucketNotEmpty => 409
  | KInvalidStorageClass | KInvalidPart => 400
  end.
(* what the SDK reports as ErrorCode(): the body's code, or for a body-less (HEAD) response a code
   derived from the status alone *)
Definition wire_code (head : bool) (k : kind) : bytes :=
  if head then (if status_of k =? 404 then B"NotFound" else B"UnknownError") else code_of k.
(* families of client methods by the error translation they apply *)
Inductive family := FHead | FGetBody | FPut | FCopy | FDelete | FTagging | FDeleteBucket | FCreateBucket | FGeneric.
Inductive outcome := Mapped (k : kind) | Unmapped.   (* Unmapped: the raw SDK error is returned *)
Definition is_head (f : family) : bool := match f with FHead => true | _ => false end.
Definition client_map (f : family) (code : bytes) : outcome :=
  let nf := bytes_eqb code B"NotFound" in
  match f with
  | FHead | FGetBody | FDelete | FGeneric => if nf then Mapped KNoSuchBucket else Unmapped
  | FPut => if nf then Mapped KNoSuchBucket else if bytes_eqb code B"PreconditionFailed" then Mapped KPreconditionFailed else Unmapped
  | FCopy => if bytes_eqb code B"NoSuchBucket" then Mapped KNoSuchBucket
             else if bytes_eqb code B"NoSuchKey" then Mapped KNoSuchKey
             else if bytes_eqb code B"PreconditionFailed" then Mapped KPreconditionFailed
             else if nf then Mapped KNoSuchBucket else Unmapped
  | FTagging => if bytes_eqb code B"NoSuchKey" then Mapped KNoSuchKey else Unmapped
  | FDeleteBucket => if bytes_eqb code B"NoSuchBucket" then Mapped KNoSuchBucket
                     else if bytes_eqb code B"BucketNotEmpty" then Mapped KBucketNotEmpty else Unmapped
  | FCreateBucket => if bytes_eqb code B"BucketAlreadyExists" then Mapped KBucketAlreadyExists else Unmapped
  end.
(* the error kind the caller of the client sees when the storage behind the server fails with k *)
Definition through_client (f : family) (k : kind) : outcome := client_map f (wire_code (is_head f) k).
