(* Model/ClientIP.v — executable model of the trusted-proxy decision of the Lua authorizer
   (internal/http/server/authorization/lua/luaauthorizer.go): parseTrustedProxyCIDRs, isTrustedProxy,
   IPNet.Contains as used there, getHeaderIgnoreCase (canonical keys), parseForwardedClientIP,
   parseForwardedScheme, resolveClientIPAndScheme.
   Text -> address parsing (net.ParseIP / net.ParseCIDR) is NOT modelled: it is a parameter [pip] (for IPs)
   and the configuration arrives as already parsed entries ([None] = the entry failed to parse).
   Addresses are 128-bit numbers (net.IP's 16-byte form: IPv4 a.b.c.d = ::ffff:a.b.c.d).  ASCII only.
   No proofs here. *)
From Verif Require Import Bytes Codec.
Local Open Scope N_scope.

Definition is_v4 (a : N) : bool := N.shiftr a 32 =? 65535.      (* ip.To4() != nil *)
Definition low32 (a : N) : N := a mod 4294967296.
(* keep the leading [n] of [bits] bits (ip.Mask(CIDRMask(n, bits))) *)
Definition mask_to (bits n a : N) : N := N.shiftl (N.shiftr a (bits - n)) (bits - n).

Record cidr := mkCidr {
  c_v4 : bool;     (* written in dotted-quad syntax: BitLen 32, 4-byte IPNet *)
  c_addr : N;      (* the address as 16 bytes *)
  c_len : N        (* prefix length, <= 32 resp. 128 (checked by ParseCIDR) *)
}.

(* IPNet.Contains for the IPNet built by net.ParseCIDR *)
Definition contains (c : cidr) (p : N) : bool :=
  if c_v4 c then
    is_v4 p && (mask_to 32 (c_len c) (low32 p) =? mask_to 32 (c_len c) (low32 (c_addr c)))
  else
    let m := mask_to 128 (c_len c) (c_addr c) in
    if is_v4 m then
      (* the masked network address is still v4-in-v6: networkNumberAndMask reduces it to 4 bytes and
         uses the last 4 bytes of the 16-byte mask *)
      is_v4 p && (mask_to 32 (c_len c - 96) (low32 p) =? mask_to 32 (c_len c - 96) (low32 m))
    else
      negb (is_v4 p) && (mask_to 128 (c_len c) p =? m).

(* parseTrustedProxyCIDRs: entries that fail to parse are dropped (with a warning) *)
Fixpoint parse_cidrs (cfg : list (option cidr)) : list cidr :=
  match cfg with
  | [] => []
  | Some c :: t => c :: parse_cidrs t
  | None :: t => parse_cidrs t
  end.

Section WithParser.
Variable pip : bytes -> option N.     (* net.ParseIP *)

(* [nolist]: the test `len(trustedProxyCIDRs) == 0` *)
Definition is_trusted_proxy_gen (nolist : bool) (remote : option bytes) (cidrs : list cidr) : bool :=
  match remote with
  | None => false
  | Some t =>
      match pip t with
      | None => false
      | Some p => if nolist then true else existsb (fun c => contains c p) cidrs
      end
  end.
Definition is_trusted_proxy (remote : option bytes) (cidrs : list cidr) : bool :=
  is_trusted_proxy_gen (is_nil cidrs) remote cidrs.

(* getHeaderIgnoreCase: the first value, absent when the header is missing or has no values *)
Definition header_value (h : option (list bytes)) : option bytes :=
  match h with Some (v :: _) => Some v | _ => None end.

Definition first_part (v : bytes) : bytes := hd [] (split_on ","%byte v).

Definition parse_forwarded_client_ip (v : bytes) : option N := pip (trim_space (first_part v)).
Definition parse_forwarded_scheme (v : bytes) : option bytes :=
  let f := to_lower (trim_space (first_part v)) in
  if bytes_eqb f B"http" || bytes_eqb f B"https" then Some f else None.

Record request := mkReq {
  q_remote : option bytes;             (* HTTPRequest.RemoteIP *)
  q_scheme : bytes;                    (* HTTPRequest.Scheme *)
  q_cf : option (list bytes);          (* CF-Connecting-IP *)
  q_xff : option (list bytes);         (* X-Forwarded-For *)
  q_proto : option (list bytes)        (* X-Forwarded-Proto *)
}.

Inductive client := Peer | Fwd (p : N).   (* the peer's RemoteIP pointer unchanged | ip.String() of a header value *)

Definition default_scheme (q : request) : bytes := if is_empty (q_scheme q) then B"http" else q_scheme q.

(* [fixed = false]: the code as it is (an empty slice of parsed networks = trust every peer);
   [fixed = true]: after fixes/C32-unusable-list-fails-closed.patch (only a nil slice, i.e. no configured
   entry at all, means trust every peer) *)
Definition resolve_gen (fixed : bool) (trust : bool) (cfg : list (option cidr)) (q : request) : client * bytes :=
  let scheme := default_scheme q in
  let nolist := if fixed then is_nil cfg else is_nil (parse_cidrs cfg) in
  if negb trust || negb (is_trusted_proxy_gen nolist (q_remote q) (parse_cidrs cfg)) then (Peer, scheme)
  else
    let ip :=
      match header_value (q_cf q) with
      | Some v => match pip (trim_space v) with Some p => Fwd p | None => Peer end
      | None =>
          match header_value (q_xff q) with
          | Some v => match parse_forwarded_client_ip v with Some p => Fwd p | None => Peer end
          | None => Peer
          end
      end in
    let sch :=
      match header_value (q_proto q) with
      | Some v => match parse_forwarded_scheme v with Some s => s | None => scheme end
      | None => scheme
      end in
    (ip, sch).
Definition resolve := resolve_gen false.

(* the texts whose parse the decision may consult *)
Definition consulted (q : request) : list bytes :=
  (match q_remote q with Some t => [t] | None => [] end) ++
  (match header_value (q_cf q) with Some v => [trim_space v] | None => [] end) ++
  (match header_value (q_xff q) with Some v => [trim_space (first_part v)] | None => [] end).
End WithParser.

(* ---- the settings layer (internal/settings: args.go, env.go, settings.go) in front of the authorizer ------
   Sources: command line flags (-trustForwardedHeaders[=b], -trustedProxyCIDRs=raw; [None] = flag not given) and
   environment (PITHOS_TRUST_FORWARDED_HEADERS, PITHOS_TRUSTED_PROXY_CIDRS; "" = unset).  LoadSettings merges
   command line first, environment second.  cmd/pithos.go passes TrustForwardedHeaders() and TrustedProxyCIDRs() to
   NewLuaAuthorizerWithOptions. *)
Record sources := mkSources {
  cli_trust : option bool;
  cli_cidrs : option bytes;
  env_trust : bytes;
  env_cidrs : bytes
}.

(* strings.Split(raw, ","), TrimSpace, drop empty parts (args.go and getStringSliceFromEnv) *)
Definition split_list (raw : bytes) : list bytes :=
  filter (fun e => negb (is_empty e)) (map trim_space (split_on ","%byte raw)).

(* getBoolFromEnv *)
Definition env_bool (v : bytes) : option bool :=
  if is_empty v then None
  else let l := to_lower v in Some (bytes_eqb l B"1" || bytes_eqb l B"t" || bytes_eqb l B"true").

Definition cli_list (s : sources) : option (list bytes) := option_map split_list (cli_cidrs s).
Definition env_list (s : sources) : option (list bytes) :=
  if is_empty (env_cidrs s) then None else Some (split_list (env_cidrs s)).
Definition cli_entries (s : sources) : list bytes := match cli_list s with Some l => l | None => [] end.
Definition env_entries (s : sources) : list bytes := match env_list s with Some l => l | None => [] end.

(* Settings.merge for a pointer field: a later non-nil value wins; default false *)
Definition merged_trust (s : sources) : bool :=
  match env_bool (env_trust s) with
  | Some b => b
  | None => match cli_trust s with Some b => b | None => false end
  end.

(* Settings.merge for the slice field, then TrustedProxyCIDRs() (nil -> empty).
   [mfix = false]: the code as it is — non-pointer fields are overwritten unconditionally, so the environment's
   value (nil when the variable is unset) always replaces the command line's list.
   [mfix = true]: after fixes/C32-settings-merge-slices.patch — a slice is merged only when it is non-empty. *)
Definition merged_cidrs (mfix : bool) (s : sources) : list bytes :=
  if mfix then
    match env_list s with
    | Some (e :: l) => e :: l
    | _ => cli_entries s
    end
  else env_entries s.

Section EndToEnd.
Variable pip : bytes -> option N.           (* net.ParseIP *)
Variable pcidr : bytes -> option cidr.      (* net.ParseCIDR *)
Definition e2e_resolve (mfix : bool) (s : sources) (q : request) : client * bytes :=
  resolve_gen pip true (merged_trust s) (map pcidr (merged_cidrs mfix s)) q.
End EndToEnd.

(* ---- line protocol ------------------------------------------------------------------------------
   <trust 0|1 (code as it is) | F0|F1 (after the fix)> <cfg> <peer> <scheme> <cf> <xff> <proto> <keycase> <iptable>
   cfg     : "_" | comma separated  <hex text>=<X | 4/<addr128>/<len> | 6/<addr128>/<len>>
   peer    : N | S<hex>            scheme : hex          cf/xff/proto : N | tok_list of the header's values
   keycase : ignored by the model (how the harness spells the header names)
   iptable : "_" | comma separated <hex text>=<X | <addr128>/<canonical 0|1>>   (independent parser's answers)
   output  : <client> <scheme hex>   client : N | R<hex> | I<addr128>/<canonical> *)
Definition split2 (c : byte) (t : bytes) : option (bytes * bytes) := split_first c t.

Definition parse_cidr_claim (t : bytes) : option (option cidr) :=
  if bytes_eqb t B"X" then Some None else
  match split_on "/"%byte t with
  | [f; a; l] =>
      match parse_N a, parse_N l with
      | Some a, Some l =>
          if bytes_eqb f B"4" then Some (Some (mkCidr true a l))
          else if bytes_eqb f B"6" then Some (Some (mkCidr false a l)) else None
      | _, _ => None
      end
  | _ => None
  end.
Definition parse_cfg_entry (t : bytes) : option (option cidr) :=
  match split2 "="%byte t with
  | Some (txt, claim) => match untok_bytes txt with Some _ => parse_cidr_claim claim | None => None end
  | None => None
  end.
Definition parse_cfg (t : bytes) : option (list (option cidr)) :=
  if bytes_eqb t B"_" then Some [] else mapM parse_cfg_entry (split_on ","%byte t).

Definition parse_ip_claim (t : bytes) : option (option (N * bool)) :=
  if bytes_eqb t B"X" then Some None else
  match split_on "/"%byte t with
  | [a; c] => match parse_N a, parse_bool c with Some a, Some c => Some (Some (a, c)) | _, _ => None end
  | _ => None
  end.
Definition parse_table_entry (t : bytes) : option (bytes * option (N * bool)) :=
  match split2 "="%byte t with
  | Some (txt, claim) =>
      match untok_bytes txt, parse_ip_claim claim with Some x, Some c => Some (x, c) | _, _ => None end
  | None => None
  end.
Definition parse_table (t : bytes) : option (list (bytes * option (N * bool))) :=
  if bytes_eqb t B"_" then Some [] else mapM parse_table_entry (split_on ","%byte t).

Fixpoint lookup {A} (k : bytes) (l : list (bytes * A)) : option A :=
  match l with
  | [] => None
  | (k', v) :: t => if bytes_eqb k k' then Some v else lookup k t
  end.
Definition table_pip (tbl : list (bytes * option (N * bool))) (t : bytes) : option N :=
  match lookup t tbl with Some (Some (a, _)) => Some a | _ => None end.

Definition parse_optS (t : bytes) : option (option bytes) :=
  match t with
  | b :: rest => if beqb b "S"%byte then option_map Some (untok_bytes rest)
                 else if bytes_eqb t B"N" then Some None else None
  | [] => None
  end.
Definition parse_hdr (t : bytes) : option (option (list bytes)) :=
  if bytes_eqb t B"N" then Some None else option_map Some (untok_list t).

Definition show_client (tbl : list (bytes * option (N * bool))) (remote : option bytes) (c : client) : bytes :=
  match c with
  | Fwd p => B"I" ++ show_N p ++ B"/1"
  | Peer =>
      match remote with
      | None => B"N"
      | Some t =>
          match lookup t tbl with
          | Some (Some (a, canon)) => B"I" ++ show_N a ++ B"/" ++ show_bool canon
          | _ => "R"%byte :: tok_bytes t
          end
      end
  end.

Definition parse_trust (t : bytes) : option (bool * bool) :=   (* (fixed?, trust) *)
  match t with
  | b :: rest => if beqb b "F"%byte then option_map (fun x => (true, x)) (parse_bool rest)
                 else option_map (fun x => (false, x)) (parse_bool t)
  | [] => None
  end.

(* settings-level lines:
   S0|S1 <cli trust N|0|1> <cli cidrs N|S<hex raw>> <env trust hex> <env cidrs hex> <peer> <scheme> <cf> <xff> <proto>
         <keycase> <iptable> <cidrtable>          (S0 = merge as it is, S1 = merge after the proposed fix)
   cidrtable : "_" | comma separated <hex text>=<X | 4/<addr128>/<len> | 6/<addr128>/<len>> for every entry text *)
Definition parse_cidr_table_entry (t : bytes) : option (bytes * option cidr) :=
  match split2 "="%byte t with
  | Some (txt, claim) =>
      match untok_bytes txt, parse_cidr_claim claim with Some x, Some c => Some (x, c) | _, _ => None end
  | None => None
  end.
Definition parse_cidr_table (t : bytes) : option (list (bytes * option cidr)) :=
  if bytes_eqb t B"_" then Some [] else mapM parse_cidr_table_entry (split_on ","%byte t).
Definition table_pcidr (tbl : list (bytes * option cidr)) (t : bytes) : option cidr :=
  match lookup t tbl with Some (Some c) => Some c | _ => None end.
Definition parse_optbool (t : bytes) : option (option bool) :=
  if bytes_eqb t B"N" then Some None else option_map Some (parse_bool t).

Definition run_settings_line (mfix : bool) (toks : list bytes) : bytes :=
  match toks with
  | [ct; cc; et; ec; peer; sch; cf; fwdfor; proto; _kc; tbl; ctbl] =>
      do ct <- parse_optbool ct; do cc <- parse_optS cc; do et <- untok_bytes et; do ec <- untok_bytes ec;
      do peer <- parse_optS peer; do sch <- untok_bytes sch;
      do cf <- parse_hdr cf; do fwdfor <- parse_hdr fwdfor; do proto <- parse_hdr proto;
      do tbl <- parse_table tbl; do ctbl <- parse_cidr_table ctbl;
      let s := mkSources ct cc et ec in
      let q := mkReq peer sch cf fwdfor proto in
      if negb (forallb (fun t => match lookup t tbl with Some _ => true | None => false end) (consulted q))
         || negb (forallb (fun t => match lookup t ctbl with Some _ => true | None => false end) (merged_cidrs mfix s))
      then B"MISSING-PARSE"
      else let '(c, sc) := e2e_resolve (table_pip tbl) (table_pcidr ctbl) mfix s q in
           show_client tbl peer c ++ B" " ++ tok_bytes sc
  | _ => parse_error
  end.

Definition run_authorizer_line (toks : list bytes) : bytes :=
  match toks with
  | [tr; cfg; peer; sch; cf; fwdfor; proto; _kc; tbl] =>
      do trf <- parse_trust tr; do cfg <- parse_cfg cfg; do peer <- parse_optS peer; do sch <- untok_bytes sch;
      do cf <- parse_hdr cf; do fwdfor <- parse_hdr fwdfor; do proto <- parse_hdr proto; do tbl <- parse_table tbl;
      let q := mkReq peer sch cf fwdfor proto in
      if negb (forallb (fun t => match lookup t tbl with Some _ => true | None => false end) (consulted q))
      then B"MISSING-PARSE"
      else let '(c, s) := resolve_gen (table_pip tbl) (fst trf) (snd trf) cfg q in
           show_client tbl peer c ++ B" " ++ tok_bytes s
  | _ => parse_error
  end.

Definition run_line (l : bytes) : bytes :=
  match tokens l with
  | first :: rest =>
      if bytes_eqb first B"S0" then run_settings_line false rest
      else if bytes_eqb first B"S1" then run_settings_line true rest
      else run_authorizer_line (first :: rest)
  | [] => parse_error
  end.

