(* Model/Listing.v — C06.  Executable model of the object/part listing path of pithos and the
   S3 listing specification it is compared with.  No proofs here.

   Anchors (read line by line):
     internal/storage/database/sqlite/repository/object/sqlite.go
        `key LIKE $2 || '%' AND key > $3 ... ORDER BY key ASC [LIMIT $5]`          -> sql_rows
     internal/storage/metadatapart/metadatastore/sql/object_read.go
        determineCommonPrefix                                                        -> common_prefix
        listObjects                                                                  -> storage_list
     internal/http/server/bucket.go  listAndFilterObjects (+ V1/V2 handlers)         -> http_loop
     internal/storage/metadatapart/metadatastore/sql/multipart.go  ListParts         -> parts_storage
     internal/http/server/object_read.go  listAndFilterParts                         -> parts_http
   A client that follows NextMarker / NextContinuationToken / NextPartNumberMarker   -> client_follow

   ASCII keys: SQLite's LIKE folds case for ASCII letters only and `_` consumes one character,
   which is one byte for ASCII. *)
From Verif Require Import Bytes Codec.

(* ---------------------------------------------------------------- byte-string order ------ *)
(* Go's string `<`, SQLite's BINARY collation (memcmp, shorter first) *)
Fixpoint bcmp (a b : bytes) : comparison :=
  match a, b with
  | [], [] => Eq
  | [], _ :: _ => Lt
  | _ :: _, [] => Gt
  | x :: a', y :: b' =>
      match N.compare (byteN x) (byteN y) with
      | Eq => bcmp a' b'
      | c => c
      end
  end.
Definition bltb (a b : bytes) : bool := match bcmp a b with Lt => true | _ => false end.

(* insertion into a strictly increasing list; an equal element is dropped *)
Fixpoint insert_key (k : bytes) (l : list bytes) : list bytes :=
  match l with
  | [] => [k]
  | x :: l' =>
      match bcmp k x with
      | Lt => k :: l
      | Eq => l
      | Gt => x :: insert_key k l'
      end
  end.
Definition sort_keys (l : list bytes) : list bytes := fold_right insert_key [] l.

Fixpoint last_opt {A} (l : list A) : option A :=
  match l with
  | [] => None
  | [x] => Some x
  | _ :: l' => last_opt l'
  end.

(* first occurrence of [d] in [s]: the bytes before it *)
Fixpoint find_sub (d s : bytes) : option bytes :=
  match s with
  | [] => if is_nil d then Some [] else None
  | x :: s' => if is_prefix d s then Some [] else option_map (cons x) (find_sub d s')
  end.

(* ================================================================ S3 specification ====== *)
Inductive entry := EKey (k : bytes) | ECP (p : bytes).
Definition name (e : entry) : bytes := match e with EKey k => k | ECP p => p end.

(* a key that starts with the prefix is rolled up into a CommonPrefix iff the delimiter occurs
   after the prefix; the CommonPrefix runs up to and including the FIRST such occurrence *)
Definition classify (prefix delim k : bytes) : entry :=
  match delim with
  | [] => EKey k
  | _ => match find_sub delim (skipn (length prefix) k) with
         | Some x => ECP (prefix ++ x ++ delim)
         | None => EKey k
         end
  end.

Fixpoint insert_entry (e : entry) (l : list entry) : list entry :=
  match l with
  | [] => [e]
  | x :: l' =>
      match bcmp (name e) (name x) with
      | Lt => e :: l
      | Eq => l
      | Gt => x :: insert_entry e l'
      end
  end.
Definition sort_entries (l : list entry) : list entry := fold_right insert_entry [] l.

(* all entries of a listing: byte-exact, case-sensitive prefix; ordered by name; no duplicates *)
Definition spec_entries (keys : list bytes) (prefix delim : bytes) : list entry :=
  sort_entries (map (classify prefix delim) (filter (is_prefix prefix) keys)).

Definition after_marker (marker : option bytes) (l : list entry) : list entry :=
  match marker with
  | None => l
  | Some m => filter (fun e => bltb m (name e)) l
  end.

(* one page: the first [max] entries after the marker; truncated iff more remain *)
Definition spec_page (keys : list bytes) (prefix delim : bytes) (marker : option bytes) (max : nat)
  : list entry * bool :=
  let a := after_marker marker (spec_entries keys prefix delim) in
  (firstn max a, max <? length a).

(* follow the next-markers (name of the last entry of a truncated page) *)
Fixpoint spec_follow (fuel : nat) (keys : list bytes) (prefix delim : bytes) (marker : option bytes)
  (max : nat) : list entry :=
  match fuel with
  | O => []
  | S f =>
      let '(pg, tr) := spec_page keys prefix delim marker max in
      if tr then
        match last_opt pg with
        | Some e => pg ++ spec_follow f keys prefix delim (Some (name e)) max
        | None => pg
        end
      else pg
  end.

Definition entry_keys (l : list entry) : list bytes :=
  flat_map (fun e => match e with EKey k => [k] | ECP _ => [] end) l.
Definition entry_cps (l : list entry) : list bytes :=
  flat_map (fun e => match e with EKey _ => [] | ECP p => [p] end) l.

(* ================================================================ faithful model ======== *)
(* ---- SQLite LIKE (no ESCAPE): '%' any sequence, '_' exactly one character, other characters
        compared after ASCII lower-casing ---- *)
Definition pct : byte := "%"%byte.
Definition usc : byte := "_"%byte.
Definition eq_nocase (a b : byte) : bool := beqb (lower_byte a) (lower_byte b).

Fixpoint like (p s : bytes) : bool :=
  match p with
  | [] => is_nil s
  | c :: p' =>
      if beqb c pct then
        (fix any (s : bytes) : bool :=
           like p' s || match s with [] => false | _ :: s' => any s' end) s
      else
        match s with
        | [] => false
        | x :: s' => (beqb c usc || eq_nocase c x) && like p' s'
        end
  end.
(* key LIKE $2 || '%' *)
Definition like_prefix (prefix k : bytes) : bool := like (prefix ++ [pct]) k.

(* WHERE key LIKE prefix||'%' AND key > start ORDER BY key ASC  (keys of one bucket are distinct) *)
Definition sql_rows (keys : list bytes) (prefix start : bytes) : list bytes :=
  sort_keys (filter (fun k => like_prefix prefix k && bltb start k) keys).

(* ---- strings.Split(s, sep) for a non-empty separator: greedy, non-overlapping, left to right.
        [skip] counts the bytes of an already matched separator still to be consumed ---- *)
Fixpoint split_go (sep : bytes) (skip : nat) (cur : bytes) (s : bytes) : list bytes :=
  match s with
  | [] => [rev cur]
  | x :: s' =>
      match skip with
      | S n => split_go sep n cur s'
      | O => if is_prefix sep s then rev cur :: split_go sep (length sep - 1) [] s'
             else split_go sep 0 (x :: cur) s'
      end
  end.
Definition split_sep (sep s : bytes) : list bytes := split_go sep 0 [] s.

(* determineCommonPrefix(prefix, key, delimiter) *)
Definition common_prefix (prefix key delim : bytes) : option bytes :=
  let ps := split_sep delim prefix in
  let ks := split_sep delim key in
  if length ks <=? length ps then None
  else Some (concat (map (fun seg => seg ++ delim) (firstn (length ps) ks))).

(* strings.TrimPrefix / strings.Contains *)
Definition trim_prefix (p k : bytes) : bytes := if is_prefix p k then skipn (length p) k else k.
Definition contains (d s : bytes) : bool := match find_sub d s with Some _ => true | None => false end.

Definition add_cp (cps : list bytes) (c : bytes) : list bytes :=
  if mem_bytes c cps then cps else cps ++ [c].

Record sres := { s_objs : list bytes; s_cps : list bytes; s_trunc : bool }.

(* the row loop of listObjects when a delimiter is given: EVERY row contributes its common
   prefix; a row becomes an object only while fewer than max objects were taken *)
Fixpoint scan_rows (prefix delim : bytes) (max : nat) (rows objs cps : list bytes)
  : list bytes * list bytes :=
  match rows with
  | [] => (objs, cps)
  | k :: rest =>
      let cps' := match common_prefix prefix k delim with
                  | Some c => add_cp cps c
                  | None => cps
                  end in
      let objs' := if (length objs <? max) && negb (contains delim (trim_prefix prefix k))
                   then objs ++ [k] else objs in
      scan_rows prefix delim max rest objs' cps'
  end.

(* sqlMetadataStore.listObjects (SkipPartFetch) *)
Definition storage_list (keys : list bytes) (prefix delim start : bytes) (max : nat) : sres :=
  let rows := sql_rows keys prefix start in
  match delim with
  | [] => {| s_objs := firstn max rows; s_cps := []; s_trunc := max <? length rows |}
  | _ => let '(o, c) := scan_rows prefix delim max rows [] [] in
         {| s_objs := o; s_cps := c; s_trunc := max <? length rows |}
  end.

(* ---- Server.listAndFilterObjects (every object authorised) ---- *)
Record hres := { h_objs : list bytes; h_cps : list bytes; h_trunc : bool; h_next : option bytes }.

(* the loop over result.Objects: Some (last key, objects not looked at) when the page filled up *)
Fixpoint feed (max : nat) (collected objs : list bytes) : list bytes * option (bytes * list bytes) :=
  match objs with
  | [] => (collected, None)
  | k :: rest =>
      let c := collected ++ [k] in
      if max <=? length c then (c, Some (k, rest)) else feed max c rest
  end.

Definition opt_default (o : option bytes) : bytes := match o with Some s => s | None => [] end.

Fixpoint http_loop (fuel : nat) (keys : list bytes) (prefix delim : bytes) (max : nat)
  (start : option bytes) (collected cps : list bytes) : option hres :=
  match fuel with
  | O => None
  | S f =>
      let r := storage_list keys prefix delim (opt_default start) max in
      match feed max collected (s_objs r) with
      | (c, Some (k, rest)) =>
          let more := negb (is_nil rest) || negb (is_nil (s_cps r)) || s_trunc r in
          if more then Some {| h_objs := c; h_cps := cps; h_trunc := true; h_next := Some k |}
          else Some {| h_objs := c; h_cps := cps; h_trunc := false; h_next := None |}
      | (c, None) =>
          let cps' := fold_left add_cp (s_cps r) cps in
          let last_scanned :=
            match last_opt (s_cps r) with
            | Some p => Some p
            | None => match last_opt (s_objs r) with Some k => Some k | None => start end
            end in
          let done := Some {| h_objs := c; h_cps := cps'; h_trunc := false; h_next := None |} in
          if negb (s_trunc r) then done
          else match last_scanned with
               | None => done
               | Some ls =>
                   if match start with Some s => bytes_eqb s ls | None => false end then done
                   else http_loop f keys prefix delim max (Some ls) c cps'
               end
      end
  end.

(* max-keys: the handler keeps 0..maxListLimit, listAndFilterObjects turns 0 into 1000 *)
Definition eff_max (m : nat) : nat := match m with O => 1000 | _ => m end.

Definition loop_fuel (keys : list bytes) : nat := 2 * length keys + 5.

Definition http_list (keys : list bytes) (prefix delim : bytes) (marker : option bytes) (max : nat)
  : option hres :=
  http_loop (loop_fuel keys) keys prefix delim (eff_max max) marker [] [].

(* a client following NextMarker (V1) / NextContinuationToken (V2) until IsTruncated=false *)
Fixpoint client_follow (fuel : nat) (keys : list bytes) (prefix delim : bytes)
  (marker : option bytes) (max : nat) : list hres :=
  match fuel with
  | O => []
  | S f =>
      match http_list keys prefix delim marker max with
      | None => []
      | Some r =>
          r :: (if h_trunc r then
                  match h_next r with
                  | Some m => client_follow f keys prefix delim (Some m) max
                  | None => []
                  end
                else [])
      end
  end.
Definition page_cap (keys : list bytes) : nat := 2 * length keys + 3.

Definition all_objs (pages : list hres) : list bytes := flat_map h_objs pages.
Definition all_cps (pages : list hres) : list bytes := flat_map h_cps pages.

(* ---- ListParts: parts sorted by number; marker; max ---- *)
Fixpoint insert_N (n : N) (l : list N) : list N :=
  match l with
  | [] => [n]
  | x :: l' => if (n <? x)%N then n :: l else if (n =? x)%N then l else x :: insert_N n l'
  end.
Definition sort_N (l : list N) : list N := fold_right insert_N [] l.

(* sqlMetadataStore.ListParts: skip sequence numbers <= marker, stop after max parts;
   truncated iff parts remain after the last returned one *)
Definition parts_storage (parts : list N) (marker : N) (max : nat) : list N * bool :=
  let a := filter (fun p => (marker <? p)%N) (sort_N parts) in
  match max with
  | O => (firstn 1 a, 1 <? length a)      (* len(parts) >= 0 holds after the first append *)
  | _ => (firstn max a, max <? length a)
  end.

Record pres := { p_parts : list N; p_trunc : bool; p_next : option N }.

(* Server.listAndFilterParts: the page fills exactly when the storage returned max parts *)
Definition parts_http (parts : list N) (marker : option N) (max : nat) : pres :=
  let m := eff_max max in
  let '(ps, tr) := parts_storage parts (match marker with Some x => x | None => 0%N end) m in
  if m <=? length ps then
    (if tr then {| p_parts := ps; p_trunc := true; p_next := last_opt ps |}
     else {| p_parts := ps; p_trunc := false; p_next := None |})
  else {| p_parts := ps; p_trunc := false; p_next := None |}.

Fixpoint parts_follow (fuel : nat) (parts : list N) (marker : option N) (max : nat) : list pres :=
  match fuel with
  | O => []
  | S f =>
      let r := parts_http parts marker max in
      r :: (if p_trunc r then
              match p_next r with
              | Some m => parts_follow f parts (Some m) max
              | None => []
              end
            else [])
  end.

Definition parts_spec_page (parts : list N) (marker : option N) (max : nat) : list N * bool :=
  let a := match marker with
           | None => sort_N parts
           | Some m => filter (fun p => (m <? p)%N) (sort_N parts)
           end in
  (firstn max a, max <? length a).

(* ================================================================ region predicates ===== *)
(* decidable descriptions of the inputs on which SQLite's LIKE coincides with a byte-exact prefix
   test: no LIKE metacharacter in the prefix, and no key that differs from the prefix at some
   position only by ASCII case *)
Definition no_like_special (p : bytes) : bool :=
  forallb (fun c => negb (beqb c pct) && negb (beqb c usc)) p.
Fixpoint case_safe (p k : bytes) : bool :=
  match p, k with
  | c :: p', x :: k' => (negb (eq_nocase c x) || beqb c x) && case_safe p' k'
  | _, _ => true
  end.

(* ================================================================ line protocol ========= *)
(* input :  S  <keys> <prefix> <delim> <start>  <max>      one storage.ListObjects call
            H1 <keys> <prefix> <delim> <marker> <max>      GET /bucket (V1) followed to the end
            H2 <keys> <prefix> <delim> <marker> <max>      GET /bucket?list-type=2 followed to the end
            P  <parts> <marker> <max>                      GET /bucket/key?uploadId= followed to the end
            keys: tok_list; prefix/delim: tok_bytes ("-" = not sent); start/marker: N | S<hex>;
            parts: comma separated decimals ("_" = none); part marker: N | decimal
   output:  S : <objs> <cps> <trunc>
            H : pages separated by '|', a page is objs/cps/trunc/next     (LOOP if the model's loop fuel ran out)
            P : pages separated by '|', a page is nums/trunc/next *)
Definition tok_opt (o : option bytes) : bytes :=
  match o with None => B"N" | Some v => "S"%byte :: tok_bytes v end.
Definition untok_opt (t : bytes) : option (option bytes) :=
  match t with
  | b :: rest => if beqb b "S"%byte then option_map Some (untok_bytes rest)
                 else if bytes_eqb t B"N" then Some None else None
  | [] => None
  end.

Definition show_hres (r : hres) : bytes :=
  join B"/" [tok_list (h_objs r); tok_list (h_cps r); show_bool (h_trunc r); tok_opt (h_next r)].
Definition show_pages (l : list hres) : bytes :=
  match l with [] => B"LOOP" | _ => join B"|" (map show_hres l) end.

Definition show_nums (l : list N) : bytes :=
  match l with [] => B"_" | _ => join B"," (map show_N l) end.
Definition parse_nums (t : bytes) : option (list N) :=
  if bytes_eqb t B"_" then Some [] else mapM parse_N (split_on ","%byte t).
Definition show_optN (o : option N) : bytes := match o with None => B"N" | Some n => show_N n end.
Definition parse_optN (t : bytes) : option (option N) :=
  if bytes_eqb t B"N" then Some None else option_map Some (parse_N t).
Definition show_pres (r : pres) : bytes :=
  join B"/" [show_nums (p_parts r); show_bool (p_trunc r); show_optN (p_next r)].

Definition run_line (l : bytes) : bytes :=
  match tokens l with
  | [op; ks; p; d; m; mx] =>
      do keys <- untok_list ks; do prefix <- untok_bytes p; do delim <- untok_bytes d;
      do marker <- untok_opt m; do max <- parse_nat mx;
      if bytes_eqb op B"S" then
        let r := storage_list keys prefix delim (opt_default marker) max in
        unwords [tok_list (s_objs r); tok_list (s_cps r); show_bool (s_trunc r)]
      else if bytes_eqb op B"H1" || bytes_eqb op B"H2" then
        show_pages (client_follow (page_cap keys) keys prefix delim marker max)
      else parse_error
  | [op; ps; m; mx] =>
      do parts <- parse_nums ps; do marker <- parse_optN m; do max <- parse_nat mx;
      if bytes_eqb op B"P" then
        join B"|" (map show_pres (parts_follow (length parts + 2) parts marker max))
      else parse_error
  | _ => parse_error
  end.
