(* Model/Listing.v — C06.  Executable model of the object/part listing path of pithos and the
   S3 listing specification it is compared with.  No proofs here.

   Anchors (read line by line):
     internal/storage/database/sqlite/repository/object/sqlite.go
        `key LIKE $2 || '%' AND key > $3 ... ORDER BY key ASC [LIMIT $5]`          -> sql_rows
     internal/storage/metadatapart/metadatastore/sql/object_read.go
        determineCommonPrefix                                                        -> common_prefix
        listObjects                                                                  -> storage_list
     internal/http/server/bucket.go  listAndFilterObjects (+ V1/V2 handlers)         -> http_loop
     internal/storage/metadatapart/metadatastore/sql/multipart.go  ListParts         -> parts_storage
     internal/http/server/object_read.go  listAndFilterParts                         -> parts_http
   A client that follows NextMarker / NextContinuationToken / NextPartNumberMarker   -> client_follow

   Keys are valid UTF-8: SQLite's LIKE folds case for ASCII letters only and `_` consumes one
   character (lead byte plus continuation bytes).
   Second part: ListObjectVersions and ListMultipartUploads (storage + HTTP), see below. *)
From Verif Require Import Bytes Codec.

(* ---------------------------------------------------------------- byte-string order ------ *)
(* Go's string `<`, SQLite's BINARY collation (memcmp, shorter first) *)
Fixpoint bcmp (a b : bytes) : comparison :=
  match a, b with
  | [], [] => Eq
  | [], _ :: _ => Lt
  | _ :: _, [] => Gt
  | x :: a', y :: b' =>
      match N.compare (byteN x) (byteN y) with
      | Eq => bcmp a' b'
      | c => c
      end
  end.
Definition bltb (a b : bytes) : bool := match bcmp a b with Lt => true | _ => false end.

(* insertion into a strictly increasing list; an equal element is dropped *)
Fixpoint insert_key (k : bytes) (l : list bytes) : list bytes :=
  match l with
  | [] => [k]
  | x :: l' =>
      match bcmp k x with
      | Lt => k :: l
      | Eq => l
      | Gt => x :: insert_key k l'
      end
  end.
Definition sort_keys (l : list bytes) : list bytes := fold_right insert_key [] l.

Fixpoint last_opt {A} (l : list A) : option A :=
  match l with
  | [] => None
  | [x] => Some x
  | _ :: l' => last_opt l'
  end.

(* first occurrence of [d] in [s]: the bytes before it *)
Fixpoint find_sub (d s : bytes) : option bytes :=
  match s with
  | [] => if is_nil d then Some [] else None
  | x :: s' => if is_prefix d s then Some [] else option_map (cons x) (find_sub d s')
  end.

(* ================================================================ S3 specification ====== *)
Inductive entry := EKey (k : bytes) | ECP (p : bytes).
Definition name (e : entry) : bytes := match e with EKey k => k | ECP p => p end.

(* a key that starts with the prefix is rolled up into a CommonPrefix iff the delimiter occurs
   after the prefix; the CommonPrefix runs up to and including the FIRST such occurrence *)
Definition classify (prefix delim k : bytes) : entry :=
  match delim with
  | [] => EKey k
  | _ => match find_sub delim (skipn (length prefix) k) with
         | Some x => ECP (prefix ++ x ++ delim)
         | None => EKey k
         end
  end.

Fixpoint insert_entry (e : entry) (l : list entry) : list entry :=
  match l with
  | [] => [e]
  | x :: l' =>
      match bcmp (name e) (name x) with
      | Lt => e :: l
      | Eq => l
      | Gt => x :: insert_entry e l'
      end
  end.
Definition sort_entries (l : list entry) : list entry := fold_right insert_entry [] l.

(* all entries of a listing: byte-exact, case-sensitive prefix; ordered by name; no duplicates *)
Definition spec_entries (keys : list bytes) (prefix delim : bytes) : list entry :=
  sort_entries (map (classify prefix delim) (filter (is_prefix prefix) keys)).

Definition after_marker (marker : option bytes) (l : list entry) : list entry :=
  match marker with
  | None => l
  | Some m => filter (fun e => bltb m (name e)) l
  end.

(* one page: the first [max] entries after the marker; truncated iff more remain *)
Definition spec_page (keys : list bytes) (prefix delim : bytes) (marker : option bytes) (max : nat)
  : list entry * bool :=
  let a := after_marker marker (spec_entries keys prefix delim) in
  (firstn max a, max <? length a).

(* follow the next-markers (name of the last entry of a truncated page) *)
Fixpoint spec_follow (fuel : nat) (keys : list bytes) (prefix delim : bytes) (marker : option bytes)
  (max : nat) : list entry :=
  match fuel with
  | O => []
  | S f =>
      let '(pg, tr) := spec_page keys prefix delim marker max in
      if tr then
        match last_opt pg with
        | Some e => pg ++ spec_follow f keys prefix delim (Some (name e)) max
        | None => pg
        end
      else pg
  end.

Definition entry_keys (l : list entry) : list bytes :=
  flat_map (fun e => match e with EKey k => [k] | ECP _ => [] end) l.
Definition entry_cps (l : list entry) : list bytes :=
  flat_map (fun e => match e with EKey _ => [] | ECP p => [p] end) l.

(* ================================================================ faithful model ======== *)
(* ---- SQLite LIKE (no ESCAPE): '%' any sequence, '_' exactly one character, other characters
        compared after ASCII lower-casing ---- *)
Definition pct : byte := "%"%byte.
Definition usc : byte := "_"%byte.
Definition eq_nocase (a b : byte) : bool := beqb (lower_byte a) (lower_byte b).

(* continuation bytes 10xxxxxx of a multi-byte UTF-8 character *)
Definition is_cont (b : byte) : bool := let n := byteN b in (128 <=? n)%N && (n <? 192)%N.
Fixpoint drop_cont (s : bytes) : bytes :=
  match s with
  | x :: s' => if is_cont x then drop_cont s' else s
  | [] => []
  end.
Definition at_char_boundary (s : bytes) : bool :=
  match s with [] => true | x :: _ => negb (is_cont x) end.

(* '_' consumes one CHARACTER (lead byte and its continuation bytes); '%' tries every character
   boundary *)
Fixpoint like (p s : bytes) : bool :=
  match p with
  | [] => is_nil s
  | c :: p' =>
      if beqb c pct then
        (fix any (s : bytes) : bool :=
           (at_char_boundary s && like p' s) || match s with [] => false | _ :: s' => any s' end) s
      else if beqb c usc then
        match s with
        | [] => false
        | _ :: s' => like p' (drop_cont s')
        end
      else
        match s with
        | [] => false
        | x :: s' => eq_nocase c x && like p' s'
        end
  end.
(* key LIKE $2 || '%' *)
Definition like_prefix (prefix k : bytes) : bool := like (prefix ++ [pct]) k.

(* WHERE key LIKE prefix||'%' AND key > start ORDER BY key ASC  (keys of one bucket are distinct) *)
Definition sql_rows (keys : list bytes) (prefix start : bytes) : list bytes :=
  sort_keys (filter (fun k => like_prefix prefix k && bltb start k) keys).

(* ---- strings.Split(s, sep) for a non-empty separator: greedy, non-overlapping, left to right.
        [skip] counts the bytes of an already matched separator still to be consumed ---- *)
Fixpoint split_go (sep : bytes) (skip : nat) (cur : bytes) (s : bytes) : list bytes :=
  match s with
  | [] => [rev cur]
  | x :: s' =>
      match skip with
      | S n => split_go sep n cur s'
      | O => if is_prefix sep s then rev cur :: split_go sep (length sep - 1) [] s'
             else split_go sep 0 (x :: cur) s'
      end
  end.
Definition split_sep (sep s : bytes) : list bytes := split_go sep 0 [] s.

(* determineCommonPrefix(prefix, key, delimiter) *)
Definition common_prefix (prefix key delim : bytes) : option bytes :=
  let ps := split_sep delim prefix in
  let ks := split_sep delim key in
  if length ks <=? length ps then None
  else Some (concat (map (fun seg => seg ++ delim) (firstn (length ps) ks))).

(* strings.TrimPrefix / strings.Contains *)
Definition trim_prefix (p k : bytes) : bytes := if is_prefix p k then skipn (length p) k else k.
Definition contains (d s : bytes) : bool := match find_sub d s with Some _ => true | None => false end.

Definition add_cp (cps : list bytes) (c : bytes) : list bytes :=
  if mem_bytes c cps then cps else cps ++ [c].

Record sres := { s_objs : list bytes; s_cps : list bytes; s_trunc : bool }.

(* the row loop of listObjects when a delimiter is given: EVERY row contributes its common
   prefix; a row becomes an object only while fewer than max objects were taken *)
Fixpoint scan_rows (prefix delim : bytes) (max : nat) (rows objs cps : list bytes)
  : list bytes * list bytes :=
  match rows with
  | [] => (objs, cps)
  | k :: rest =>
      let cps' := match common_prefix prefix k delim with
                  | Some c => add_cp cps c
                  | None => cps
                  end in
      let objs' := if (length objs <? max) && negb (contains delim (trim_prefix prefix k))
                   then objs ++ [k] else objs in
      scan_rows prefix delim max rest objs' cps'
  end.

(* sqlMetadataStore.listObjects (SkipPartFetch) *)
Definition storage_list (keys : list bytes) (prefix delim start : bytes) (max : nat) : sres :=
  let rows := sql_rows keys prefix start in
  match delim with
  | [] => {| s_objs := firstn max rows; s_cps := []; s_trunc := max <? length rows |}
  | _ => let '(o, c) := scan_rows prefix delim max rows [] [] in
         {| s_objs := o; s_cps := c; s_trunc := max <? length rows |}
  end.

(* ---- Server.listAndFilterObjects (every object authorised) ---- *)
Record hres := { h_objs : list bytes; h_cps : list bytes; h_trunc : bool; h_next : option bytes }.

(* the loop over result.Objects: Some (last key, objects not looked at) when the page filled up *)
Fixpoint feed (max : nat) (collected objs : list bytes) : list bytes * option (bytes * list bytes) :=
  match objs with
  | [] => (collected, None)
  | k :: rest =>
      let c := collected ++ [k] in
      if max <=? length c then (c, Some (k, rest)) else feed max c rest
  end.

Definition opt_default (o : option bytes) : bytes := match o with Some s => s | None => [] end.

Fixpoint http_loop (fuel : nat) (keys : list bytes) (prefix delim : bytes) (max : nat)
  (start : option bytes) (collected cps : list bytes) : option hres :=
  match fuel with
  | O => None
  | S f =>
      let r := storage_list keys prefix delim (opt_default start) max in
      match feed max collected (s_objs r) with
      | (c, Some (k, rest)) =>
          let more := negb (is_nil rest) || negb (is_nil (s_cps r)) || s_trunc r in
          if more then Some {| h_objs := c; h_cps := cps; h_trunc := true; h_next := Some k |}
          else Some {| h_objs := c; h_cps := cps; h_trunc := false; h_next := None |}
      | (c, None) =>
          let cps' := fold_left add_cp (s_cps r) cps in
          let last_scanned :=
            match last_opt (s_cps r) with
            | Some p => Some p
            | None => match last_opt (s_objs r) with Some k => Some k | None => start end
            end in
          let done := Some {| h_objs := c; h_cps := cps'; h_trunc := false; h_next := None |} in
          if negb (s_trunc r) then done
          else match last_scanned with
               | None => done
               | Some ls =>
                   if match start with Some s => bytes_eqb s ls | None => false end then done
                   else http_loop f keys prefix delim max (Some ls) c cps'
               end
      end
  end.

(* max-keys: the handler keeps 0..maxListLimit, listAndFilterObjects turns 0 into 1000 *)
Definition eff_max (m : nat) : nat := match m with O => 1000 | _ => m end.

Definition loop_fuel (keys : list bytes) : nat := 2 * length keys + 5.

Definition http_list (keys : list bytes) (prefix delim : bytes) (marker : option bytes) (max : nat)
  : option hres :=
  http_loop (loop_fuel keys) keys prefix delim (eff_max max) marker [] [].

(* a client following NextMarker (V1) / NextContinuationToken (V2) until IsTruncated=false *)
Fixpoint client_follow (fuel : nat) (keys : list bytes) (prefix delim : bytes)
  (marker : option bytes) (max : nat) : list hres :=
  match fuel with
  | O => []
  | S f =>
      match http_list keys prefix delim marker max with
      | None => []
      | Some r =>
          r :: (if h_trunc r then
                  match h_next r with
                  | Some m => client_follow f keys prefix delim (Some m) max
                  | None => []
                  end
                else [])
      end
  end.
Definition page_cap (keys : list bytes) : nat := 2 * length keys + 3.

Definition all_objs (pages : list hres) : list bytes := flat_map h_objs pages.
Definition all_cps (pages : list hres) : list bytes := flat_map h_cps pages.

(* ---- ListParts: parts sorted by number; marker; max ---- *)
Fixpoint insert_N (n : N) (l : list N) : list N :=
  match l with
  | [] => [n]
  | x :: l' => if (n <? x)%N then n :: l else if (n =? x)%N then l else x :: insert_N n l'
  end.
Definition sort_N (l : list N) : list N := fold_right insert_N [] l.

(* sqlMetadataStore.ListParts: skip sequence numbers <= marker, stop after max parts;
   truncated iff parts remain after the last returned one *)
Definition parts_storage (parts : list N) (marker : N) (max : nat) : list N * bool :=
  let a := filter (fun p => (marker <? p)%N) (sort_N parts) in
  match max with
  | O => (firstn 1 a, 1 <? length a)      (* len(parts) >= 0 holds after the first append *)
  | _ => (firstn max a, max <? length a)
  end.

Record pres := { p_parts : list N; p_trunc : bool; p_next : option N }.

(* Server.listAndFilterParts: the page fills exactly when the storage returned max parts *)
Definition parts_http (parts : list N) (marker : option N) (max : nat) : pres :=
  let m := eff_max max in
  let '(ps, tr) := parts_storage parts (match marker with Some x => x | None => 0%N end) m in
  if m <=? length ps then
    (if tr then {| p_parts := ps; p_trunc := true; p_next := last_opt ps |}
     else {| p_parts := ps; p_trunc := false; p_next := None |})
  else {| p_parts := ps; p_trunc := false; p_next := None |}.

Fixpoint parts_follow (fuel : nat) (parts : list N) (marker : option N) (max : nat) : list pres :=
  match fuel with
  | O => []
  | S f =>
      let r := parts_http parts marker max in
      r :: (if p_trunc r then
              match p_next r with
              | Some m => parts_follow f parts (Some m) max
              | None => []
              end
            else [])
  end.

Definition parts_spec_page (parts : list N) (marker : option N) (max : nat) : list N * bool :=
  let a := match marker with
           | None => sort_N parts
           | Some m => filter (fun p => (m <? p)%N) (sort_N parts)
           end in
  (firstn max a, max <? length a).

(* ================================================================ versions & uploads ==== *)
(* anchors: sqlite.go findObjectVersions...Stmt / findObjects...KeyMarkerAndUploadIdMarker...Stmt,
   object_read.go ListObjectVersions, multipart.go ListMultipartUploads,
   versioning.go listObjectVersionsHandler, bucket.go listAndFilterMultipartUploads *)
Record vrow := { vr_key : bytes; vr_vid : bytes; vr_dm : bool; vr_seq : nat }.
Definition null_vid : bytes := B"null".
(* COALESCE(NULLIF(version_id,'null'),'') *)
Definition nv (vid : bytes) : bytes := if bytes_eqb vid null_vid then [] else vid.

(* canonical ids: the harness replaces the i-th generated ULID by this token (ULIDs of one process
   increase monotonically, so byte order = creation order on both sides) *)
Definition digit (n : nat) : byte := Nbyte (48 + N.of_nat (n mod 10)).
Definition pad3 (i : nat) : bytes := [digit (i / 100); digit (i / 10); digit i].
Definition vid_of_index (i : nat) : bytes := "v"%byte :: pad3 i.
Definition uid_of_index (i : nat) : bytes := "u"%byte :: pad3 i.

(* write history that builds the bucket: HU put while unversioned, HP/HD put/delete while
   versioning is Enabled, HS put while Suspended (null version overwritten in place), HM
   CreateMultipartUpload *)
Inductive hop := HU (k : bytes) | HP (k : bytes) | HD (k : bytes) | HS (k : bytes) | HM (k : bytes).
Definition put_null (k : bytes) (i : nat) (rows : list vrow) : list vrow :=
  filter (fun r => negb (bytes_eqb (vr_key r) k && bytes_eqb (vr_vid r) null_vid)) rows
  ++ [{| vr_key := k; vr_vid := null_vid; vr_dm := false; vr_seq := i |}].
Fixpoint run_history (i : nat) (ops : list hop) (rows : list vrow) (ups : list (bytes * bytes))
  : list vrow * list (bytes * bytes) :=
  match ops with
  | [] => (rows, ups)
  | op :: rest =>
      match op with
      | HU k | HS k => run_history (S i) rest (put_null k i rows) ups
      | HP k => run_history (S i) rest (rows ++ [{| vr_key := k; vr_vid := vid_of_index i; vr_dm := false; vr_seq := i |}]) ups
      | HD k => run_history (S i) rest (rows ++ [{| vr_key := k; vr_vid := vid_of_index i; vr_dm := true; vr_seq := i |}]) ups
      | HM k => run_history (S i) rest rows (ups ++ [(k, uid_of_index i)])
      end
  end.

Fixpoint insert_by {A} (cmp : A -> A -> comparison) (x : A) (l : list A) : list A :=
  match l with
  | [] => [x]
  | y :: l' => match cmp x y with Gt => y :: insert_by cmp x l' | _ => x :: l end
  end.
Definition sort_by {A} (cmp : A -> A -> comparison) (l : list A) : list A := fold_right (insert_by cmp) [] l.

(* ---------------- specification ---------------- *)
(* S3: versions of all keys with the prefix, by key ascending and, within a key, most recent first;
   keys containing the delimiter after the prefix are rolled up (all their versions) into one
   CommonPrefix; a page = first max entries after the entry named by the markers *)
Inductive ventry := VEnt (k vid : bytes) (dm : bool) | VCP (p : bytes).
Definition spec_vcmp (a b : vrow) : comparison :=
  match bcmp (vr_key a) (vr_key b) with
  | Eq => Nat.compare (vr_seq b) (vr_seq a)
  | c => c
  end.
Definition ventry_eqb (a b : ventry) : bool :=
  match a, b with
  | VEnt k v d, VEnt k' v' d' => bytes_eqb k k' && bytes_eqb v v' && Bool.eqb d d'
  | VCP p, VCP p' => bytes_eqb p p'
  | _, _ => false
  end.
Fixpoint dedup_ventries (l : list ventry) (seen : list ventry) : list ventry :=
  match l with
  | [] => []
  | e :: l' => if existsb (ventry_eqb e) seen then dedup_ventries l' seen
               else e :: dedup_ventries l' (e :: seen)
  end.
Definition vclassify (prefix delim : bytes) (r : vrow) : ventry :=
  match classify prefix delim (vr_key r) with
  | ECP p => VCP p
  | EKey _ => VEnt (vr_key r) (vr_vid r) (vr_dm r)
  end.
Definition spec_ventries (rows : list vrow) (prefix delim : bytes) : list ventry :=
  dedup_ventries (map (vclassify prefix delim)
                      (sort_by spec_vcmp (filter (fun r => is_prefix prefix (vr_key r)) rows))) [].

(* the part of a list after the first element satisfying [p] (everything if there is none) *)
Fixpoint after_first {A} (p : A -> bool) (l : list A) : list A :=
  match l with
  | [] => []
  | x :: l' => if p x then l' else after_first p l'
  end.
Definition has {A} (p : A -> bool) (l : list A) : bool := existsb p l.

(* the entry a (key-marker, version-id-marker) pair names *)
Definition vmarks (km vm : bytes) (e : ventry) : bool :=
  match e with
  | VEnt k v _ => bytes_eqb k km && bytes_eqb v vm
  | VCP p => bytes_eqb p km
  end.
Definition vafter (marker : option (bytes * bytes)) (l : list ventry) : list ventry :=
  match marker with
  | None => l
  | Some (km, vm) => after_first (vmarks km vm) l
  end.
Definition vnext (e : ventry) : bytes * bytes :=
  match e with VEnt k v _ => (k, v) | VCP p => (p, []) end.

Section FollowByIdentity.
  Context {A : Type} (mark : A -> A -> bool).
  (* follow "the marker of a page is its last entry" until a page is not truncated *)
  Fixpoint follow_ident (fuel : nat) (l : list A) (marker : option A) (max : nat) : list A :=
    match fuel with
    | O => []
    | S f =>
        let a := match marker with None => l | Some m => after_first (mark m) l end in
        let pg := firstn max a in
        if max <? length a then
          match last_opt pg with
          | Some e => pg ++ follow_ident f l (Some e) max
          | None => pg
          end
        else pg
    end.
End FollowByIdentity.

(* ---------------- ListObjectVersions, faithful ---------------- *)
Definition sql_vcmp (a b : vrow) : comparison :=
  match bcmp (vr_key a) (vr_key b) with
  | Eq => bcmp (nv (vr_vid b)) (nv (vr_vid a))
  | c => c
  end.
(* key > $4 OR (key = $4 AND nv(version_id) < nv($5)) *)
Definition sql_vafter (km vm : bytes) (r : vrow) : bool :=
  bltb km (vr_key r) || (bytes_eqb (vr_key r) km && bltb (nv (vr_vid r)) (nv vm)).
Definition sql_vrows (rows : list vrow) (prefix km vm : bytes) : list vrow :=
  sort_by sql_vcmp (filter (fun r => like_prefix prefix (vr_key r) && sql_vafter km vm r) rows).

Record vres := { v_out : list vrow; v_cps : list bytes; v_trunc : bool; v_next : option (bytes * bytes) }.

(* the entity loop of sqlMetadataStore.ListObjectVersions *)
Fixpoint vloop (prefix delim : bytes) (max : nat) (ents : list vrow) (out : list vrow)
  (cps : list bytes) (emitted : nat) (last : option (bytes * bytes)) : vres :=
  match ents with
  | [] => {| v_out := out; v_cps := cps; v_trunc := false; v_next := None |}
  | e :: rest =>
      let here := Some (vr_key e, vr_vid e) in
      match (if is_nil delim then None else common_prefix prefix (vr_key e) delim) with
      | Some c =>
          if mem_bytes c cps then vloop prefix delim max rest out cps emitted here
          else if max <=? emitted then {| v_out := out; v_cps := cps; v_trunc := true; v_next := last |}
          else vloop prefix delim max rest out (cps ++ [c]) (S emitted) here
      | None =>
          if max <=? emitted then {| v_out := out; v_cps := cps; v_trunc := true; v_next := last |}
          else if is_nil delim || negb (contains delim (trim_prefix prefix (vr_key e)))
               then vloop prefix delim max rest (out ++ [e]) cps (S emitted) here
               else vloop prefix delim max rest out cps emitted last
      end
  end.

Definition versions_list (rows : list vrow) (prefix delim : bytes) (marker : option (bytes * bytes))
  (vmarker_only : option bytes) (max : nat) : vres :=
  let m := eff_max max in
  let km := match marker with Some (k, _) => k | None => [] end in
  let vm := match marker with Some (_, v) => v | None => opt_default vmarker_only end in
  let sorted := sql_vrows rows prefix km vm in
  let ents := if is_nil delim then firstn (S m) sorted else sorted in
  vloop prefix delim m ents [] [] 0 None.

Fixpoint versions_follow (fuel : nat) (rows : list vrow) (prefix delim : bytes)
  (marker : option (bytes * bytes)) (max : nat) : list vres :=
  match fuel with
  | O => []
  | S f =>
      let r := versions_list rows prefix delim marker None max in
      r :: (if v_trunc r then
              match v_next r with
              | Some m => versions_follow f rows prefix delim (Some m) max
              | None => []
              end
            else [])
  end.

Definition vres_entries (r : vres) : list ventry :=
  map (fun x => VEnt (vr_key x) (vr_vid x) (vr_dm x)) (v_out r).

(* ---------------- ListMultipartUploads, faithful ---------------- *)
Definition urow := (bytes * bytes)%type.
Definition ucmp (a b : urow) : comparison :=
  match bcmp (fst a) (fst b) with Eq => bcmp (snd a) (snd b) | c => c end.
(* key > $3 OR ($4 <> '' AND key = $3 AND upload_id > $4) *)
Definition sql_uafter (km um : bytes) (r : urow) : bool :=
  bltb km (fst r) || (negb (is_nil um) && bytes_eqb (fst r) km && bltb um (snd r)).
Definition sql_urows (ups : list urow) (prefix km um : bytes) : list urow :=
  sort_by ucmp (filter (fun r => like_prefix prefix (fst r) && sql_uafter km um r) ups).

Record ures := { u_ups : list urow; u_cps : list bytes; u_trunc : bool; u_nextk : bytes; u_nextu : bytes }.

Fixpoint uscan (prefix delim : bytes) (max : nat) (rows : list urow) (ups : list urow)
  (cps : list bytes) (nk nu : bytes) : list urow * list bytes * bytes * bytes :=
  match rows with
  | [] => (ups, cps, nk, nu)
  | r :: rest =>
      let cps' := if is_nil delim then cps
                  else match common_prefix prefix (fst r) delim with
                       | Some c => add_cp cps c
                       | None => cps
                       end in
      if length ups <? max then
        let ups' := if is_nil delim || negb (contains delim (trim_prefix prefix (fst r)))
                    then ups ++ [r] else ups in
        uscan prefix delim max rest ups' cps' (fst r) (snd r)
      else uscan prefix delim max rest ups cps' nk nu
  end.

(* sqlMetadataStore.ListMultipartUploads *)
Definition uploads_storage (ups : list urow) (prefix delim km um : bytes) (max : nat) : ures :=
  let rows := sql_urows ups prefix km um in
  let ents := if is_nil delim then firstn max rows else rows in
  let '(u, c, nk, nu) := uscan prefix delim max ents [] [] [] [] in
  {| u_ups := u; u_cps := c; u_trunc := max <? length rows; u_nextk := nk; u_nextu := nu |}.

Record uhres := { uh_ups : list urow; uh_cps : list bytes; uh_trunc : bool;
                  uh_next : option (bytes * bytes) }.

Fixpoint ufeed (max : nat) (collected ups : list urow) : list urow * option (urow * list urow) :=
  match ups with
  | [] => (collected, None)
  | r :: rest =>
      let c := collected ++ [r] in
      if max <=? length c then (c, Some (r, rest)) else ufeed max c rest
  end.

(* Server.listAndFilterMultipartUploads (every upload authorised) *)
Fixpoint uploads_loop (fuel : nat) (ups : list urow) (prefix delim : bytes) (max : nat)
  (km um : option bytes) (collected : list urow) (cps : list bytes) : option uhres :=
  match fuel with
  | O => None
  | S f =>
      let r := uploads_storage ups prefix delim (opt_default km) (opt_default um) max in
      match ufeed max collected (u_ups r) with
      | (c, Some (lastr, rest)) =>
          let more := negb (is_nil rest) || negb (is_nil (u_cps r)) || u_trunc r in
          if more then Some {| uh_ups := c; uh_cps := cps; uh_trunc := true; uh_next := Some lastr |}
          else Some {| uh_ups := c; uh_cps := cps; uh_trunc := false; uh_next := None |}
      | (c, None) =>
          let cps' := fold_left add_cp (u_cps r) cps in
          let lastk := match last_opt (u_cps r) with
                       | Some p => Some p
                       | None => match last_opt (u_ups r) with Some x => Some (fst x) | None => km end
                       end in
          let lastu := match last_opt (u_cps r) with
                       | Some _ => Some []
                       | None => match last_opt (u_ups r) with Some x => Some (snd x) | None => um end
                       end in
          let done := Some {| uh_ups := c; uh_cps := cps'; uh_trunc := false; uh_next := None |} in
          if negb (u_trunc r) then done
          else match lastk, lastu with
               | Some lk, Some lu =>
                   if match km, um with
                      | Some k0, Some u0 => bytes_eqb k0 lk && bytes_eqb u0 lu
                      | _, _ => false
                      end then done
                   else uploads_loop f ups prefix delim max (Some lk) (Some lu) c cps'
               | _, _ => done
               end
      end
  end.

Definition uploads_http (ups : list urow) (prefix delim : bytes) (km um : option bytes)
  (max : nat) : option uhres :=
  uploads_loop (2 * length ups + 5) ups prefix delim (eff_max max) km um [] [].

Fixpoint uploads_follow (fuel : nat) (ups : list urow) (prefix delim : bytes)
  (km um : option bytes) (max : nat) : list uhres :=
  match fuel with
  | O => []
  | S f =>
      match uploads_http ups prefix delim km um max with
      | None => []
      | Some r =>
          r :: (if uh_trunc r then
                  match uh_next r with
                  | Some m => uploads_follow f ups prefix delim (Some (fst m)) (Some (snd m)) max
                  | None => []
                  end
                else [])
      end
  end.

(* the uploads specification: (key, upload id) ascending, rolled up at the delimiter *)
Definition uclassify (prefix delim : bytes) (r : urow) : ventry :=
  match classify prefix delim (fst r) with
  | ECP p => VCP p
  | EKey _ => VEnt (fst r) (snd r) false
  end.
Definition spec_uentries (ups : list urow) (prefix delim : bytes) : list ventry :=
  dedup_ventries (map (uclassify prefix delim)
                      (sort_by ucmp (filter (fun r => is_prefix prefix (fst r)) ups))) [].

(* ================================================================ region predicates ===== *)
(* decidable descriptions of the inputs on which SQLite's LIKE coincides with a byte-exact prefix
   test: no LIKE metacharacter in the prefix, and no key that differs from the prefix at some
   position only by ASCII case *)
Definition no_like_special (p : bytes) : bool :=
  forallb (fun c => negb (beqb c pct) && negb (beqb c usc)) p.
Fixpoint case_safe (p k : bytes) : bool :=
  match p, k with
  | c :: p', x :: k' => (negb (eq_nocase c x) || beqb c x) && case_safe p' k'
  | _, _ => true
  end.

(* ================================================================ line protocol ========= *)
(* input :  S  <keys> <prefix> <delim> <start>  <max>      one storage.ListObjects call
            H1 <keys> <prefix> <delim> <marker> <max>      GET /bucket (V1) followed to the end
            H2 <keys> <prefix> <delim> <marker> <max>      GET /bucket?list-type=2 followed to the end
            P  <parts> <marker> <max>                      GET /bucket/key?uploadId= followed to the end
            keys: tok_list; prefix/delim: tok_bytes ("-" = not sent); start/marker: N | S<hex>;
            parts: comma separated decimals ("_" = none); part marker: N | decimal
   output:  S : <objs> <cps> <trunc>
            H : pages separated by '|', a page is objs/cps/trunc/next     (LOOP if the model's loop fuel ran out)
            P : pages separated by '|', a page is nums/trunc/next *)
Definition tok_opt (o : option bytes) : bytes :=
  match o with None => B"N" | Some v => "S"%byte :: tok_bytes v end.
Definition untok_opt (t : bytes) : option (option bytes) :=
  match t with
  | b :: rest => if beqb b "S"%byte then option_map Some (untok_bytes rest)
                 else if bytes_eqb t B"N" then Some None else None
  | [] => None
  end.

Definition show_hres (r : hres) : bytes :=
  join B"/" [tok_list (h_objs r); tok_list (h_cps r); show_bool (h_trunc r); tok_opt (h_next r)].
Definition show_pages (l : list hres) : bytes :=
  match l with [] => B"LOOP" | _ => join B"|" (map show_hres l) end.

Definition show_nums (l : list N) : bytes :=
  match l with [] => B"_" | _ => join B"," (map show_N l) end.
Definition parse_nums (t : bytes) : option (list N) :=
  if bytes_eqb t B"_" then Some [] else mapM parse_N (split_on ","%byte t).
Definition show_optN (o : option N) : bytes := match o with None => B"N" | Some n => show_N n end.
Definition parse_optN (t : bytes) : option (option N) :=
  if bytes_eqb t B"N" then Some None else option_map Some (parse_N t).
Definition show_pres (r : pres) : bytes :=
  join B"/" [show_nums (p_parts r); show_bool (p_trunc r); show_optN (p_next r)].

(* versions / uploads:
     VS|VH <history> <prefix> <delim> <keymarker> <vidmarker> <max>   ListObjectVersions followed to the end
                                                                      (VS storage calls, VH HTTP)
     US|UH <history> <prefix> <delim> <keymarker> <uidmarker> <max>   ListMultipartUploads (US one storage
                                                                      call, UH HTTP followed to the end)
     history: ops separated by ',' : u|p|d|s|m followed by the hex key ("_" = empty history)
     markers: N | S<hex>; a version-id marker without key marker is sent as given
   output (pages separated by '|'):
     VS : entries/cps/trunc/nextkey/nextvid       entries = key:vid:dm,... in response order
     VH : versions/deletemarkers/cps/trunc/nextkey/nextvid
     US : uploads cps trunc nextkey nextuid        UH : uploads/cps/trunc/nextkey/nextuid *)
Definition parse_hop (t : bytes) : option hop :=
  match t with
  | c :: k =>
      match untok_bytes k with
      | Some k =>
          if beqb c "u"%byte then Some (HU k) else if beqb c "p"%byte then Some (HP k)
          else if beqb c "d"%byte then Some (HD k) else if beqb c "s"%byte then Some (HS k)
          else if beqb c "m"%byte then Some (HM k) else None
      | None => None
      end
  | [] => None
  end.
Definition parse_history (t : bytes) : option (list hop) :=
  if bytes_eqb t B"_" then Some [] else mapM parse_hop (split_on ","%byte t).

Definition show_vrow (r : vrow) : bytes :=
  join B":" [tok_bytes (vr_key r); vr_vid r; show_bool (vr_dm r)].
Definition show_list (l : list bytes) : bytes := match l with [] => B"_" | _ => join B"," l end.
Definition show_vres_s (r : vres) : bytes :=
  join B"/" [show_list (map show_vrow (v_out r)); tok_list (v_cps r); show_bool (v_trunc r);
             tok_opt (option_map fst (v_next r)); tok_opt (option_map snd (v_next r))].
Definition show_vres_h (r : vres) : bytes :=
  join B"/" [show_list (map show_vrow (filter (fun x => negb (vr_dm x)) (v_out r)));
             show_list (map show_vrow (filter vr_dm (v_out r))); tok_list (v_cps r);
             show_bool (v_trunc r);
             tok_opt (option_map fst (v_next r)); tok_opt (option_map snd (v_next r))].
Definition show_urow (r : urow) : bytes := tok_bytes (fst r) ++ B":" ++ snd r.
Definition show_uhres (r : uhres) : bytes :=
  join B"/" [show_list (map show_urow (uh_ups r)); tok_list (uh_cps r); show_bool (uh_trunc r);
             tok_opt (option_map fst (uh_next r)); tok_opt (option_map snd (uh_next r))].
Definition pair_marker (km vm : option bytes) : option (bytes * bytes) :=
  match km with Some k => Some (k, opt_default vm) | None => None end.
Definition hist_cap (ops : list hop) : nat := 2 * length ops + 3.

Definition run_line (l : bytes) : bytes :=
  match tokens l with
  | [op; ks; p; d; m; mx] =>
      do keys <- untok_list ks; do prefix <- untok_bytes p; do delim <- untok_bytes d;
      do marker <- untok_opt m; do max <- parse_nat mx;
      if bytes_eqb op B"S" then
        let r := storage_list keys prefix delim (opt_default marker) max in
        unwords [tok_list (s_objs r); tok_list (s_cps r); show_bool (s_trunc r)]
      else if bytes_eqb op B"H1" || bytes_eqb op B"H2" || bytes_eqb op B"H2b" || bytes_eqb op B"H2t" then
        show_pages (client_follow (page_cap keys) keys prefix delim marker max)
      else parse_error
  | [op; ps; m; mx] =>
      do parts <- parse_nums ps; do marker <- parse_optN m; do max <- parse_nat mx;
      if bytes_eqb op B"P" then
        join B"|" (map show_pres (parts_follow (length parts + 2) parts marker max))
      else parse_error
  | [op; hs; p; d; km; vm; mx] =>
      do ops <- parse_history hs; do prefix <- untok_bytes p; do delim <- untok_bytes d;
      do km <- untok_opt km; do vm <- untok_opt vm; do max <- parse_nat mx;
      let '(rows, ups) := run_history 0 ops [] [] in
      if bytes_eqb op B"VS" || bytes_eqb op B"VH" then
        let first := versions_list rows prefix delim (pair_marker km vm)
                                   (match km with None => vm | Some _ => None end) max in
        let pages := first :: (if v_trunc first then
                                 match v_next first with
                                 | Some mk => versions_follow (hist_cap ops) rows prefix delim (Some mk) max
                                 | None => []
                                 end
                               else []) in
        join B"|" (map (if bytes_eqb op B"VS" then show_vres_s else show_vres_h) pages)
      else if bytes_eqb op B"US" then
        let r := uploads_storage ups prefix delim (opt_default km) (opt_default vm) max in
        unwords [show_list (map show_urow (u_ups r)); tok_list (u_cps r); show_bool (u_trunc r);
                 tok_bytes (u_nextk r); tok_bytes (u_nextu r)]
      else if bytes_eqb op B"UH" then
        match uploads_follow (hist_cap ops) ups prefix delim km vm max with
        | [] => B"LOOP"
        | pages => join B"|" (map show_uhres pages)
        end
      else parse_error
  | _ => parse_error
  end.
