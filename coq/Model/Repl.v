(* Model/Repl.v — the replication storage (internal/storage/replication/replication.go): every
   mutating call goes to the primary first and, if it succeeded there, to each secondary in order
   (stopping at the first secondary error), with the option filtering of the real code (conditions
   are evaluated on the primary only) and the primary->secondary upload id map for multipart calls.
   The storages are instances of one abstract S3 machine WITHOUT clocks (LastModified is not part of
   it) whose upload ids are storage specific (offset + position).  No proofs in this file. *)
From Verif Require Import Bytes Codec ObjCache.
Local Open Scope N_scope.

(* ---------- the abstract S3 machine ---------- *)
Record robj := mkR { r_parts : list N; r_ct : N; r_meta : N; r_tags : N; r_cls : N; r_etag : etag }.
Inductive rver := RV (o : robj) | RDM.
Definition objs := list (K * list rver).

Definition ostack (m : objs) (k : K) : list rver := match get k m with Some l => l | None => [] end.
Definition ocur (m : objs) (k : K) : option rver := hd_error (ostack m k).
Definition ocur_obj (m : objs) (k : K) : option robj := match ocur m k with Some (RV o) => Some o | _ => None end.
Definition owrite (m : objs) (k : K) (v : rver) : objs :=
  set k (if versioned k then v :: ostack m k else [v]) m.
Definition oreplace_top (m : objs) (k : K) (v : rver) : objs := set k (v :: tl (ostack m k)) m.

Definition rcond_holds (c : cond) (cu : option robj) : bool :=
  match c, cu with
  | CNone, _ => true
  | CStar, Some _ => true
  | CTag e, Some o => etag_eqb (r_etag o) e
  | _, None => false
  end.
Definition rsize (o : robj) : N := size_parts (r_parts o).

Definition m_put (m : objs) (k : K) (cid ct meta tags cls : N) (c : pcond) : objs * err :=
  let ex := ocur_obj m k in
  let pass := match c with
              | PNone => true
              | PIfNoneStar => match ex with None => true | Some _ => false end
              | PIfMatch c' => rcond_holds c' ex
              end in
  if pass then (owrite m k (RV (mkR [cid] ct meta tags cls (ES cid))), Ok) else (m, PreconditionFailed).

Definition m_append (m : objs) (k : K) (cid : N) (off : option N) : objs * err :=
  let ex := ocur_obj m k in
  let off_ok := match off, ex with
                | None, _ => true
                | Some n, None => n =? 0
                | Some n, Some o => n =? rsize o
                end in
  if off_ok then
    let o' := match ex with
              | None => mkR [cid] 0 0 0 0 (EM [cid])
              | Some o => let ps := r_parts o ++ [cid] in
                          if versioned k then mkR ps (r_ct o) 0 0 0 (EM ps)
                          else mkR ps (r_ct o) (r_meta o) (r_tags o) (r_cls o) (EM ps)
              end in
    (owrite m k (RV o'), Ok)
  else (m, InvalidWriteOffset).

Definition m_copy (m : objs) (src dst : K) (rm : bool) (ct meta : N) (rt : bool) (tags cls : N) : objs * err :=
  match ocur m src with
  | None => (m, NoSuchKey)
  | Some RDM => (m, DeleteMarker)
  | Some (RV o) =>
      (owrite m dst (RV (mkR (r_parts o) (if rm then ct else r_ct o) (if rm then meta else r_meta o)
                             (if rt then tags else r_tags o) cls (r_etag o))), Ok)
  end.

Definition m_delete (m : objs) (k : K) (c : cond) : objs * err :=
  if versioned k then
    if rcond_holds c (ocur_obj m k) then (owrite m k RDM, Ok) else (m, PreconditionFailed)
  else
    match ocur_obj m k with
    | None => match c with CNone => (m, Ok) | _ => (m, PreconditionFailed) end
    | Some o => if rcond_holds c (Some o) then (set k [] m, Ok) else (m, PreconditionFailed)
    end.

Definition m_delete_entry (m : objs) (k : K) (c : cond) : objs * bool :=
  let pass := match c with
              | CNone => true
              | CStar => false
              | CTag e => match ocur_obj m k with Some o => etag_eqb (r_etag o) e | None => false end
              end in
  if pass then
    if versioned k then (owrite m k RDM, true)
    else match ocur m k with None => (m, true) | Some _ => (set k [] m, true) end
  else (m, false).
Fixpoint m_delete_many (m : objs) (b : N) (es : list (N * cond)) : objs * list bool :=
  match es with
  | [] => (m, [])
  | (k, c) :: es' =>
      let (m1, d) := m_delete_entry m (b, k) c in
      let (m2, r) := m_delete_many m1 b es' in (m2, d :: r)
  end.

Definition m_tag (m : objs) (k : K) (tags : N) : objs * err :=
  match ocur m k with
  | None => (m, NoSuchKey)
  | Some RDM => (m, DeleteMarker)
  | Some (RV o) => (oreplace_top m k (RV (mkR (r_parts o) (r_ct o) (r_meta o) tags (r_cls o) (r_etag o))), Ok)
  end.

Definition m_trans (m : objs) (k : K) (cls : N) (c : cond) : objs * err :=
  if class_ok cls then
    match ocur_obj m k with
    | None => (m, NoSuchKey)
    | Some o =>
        if rcond_holds c (Some o) then
          (oreplace_top m k (RV (mkR (r_parts o) (r_ct o) (r_meta o) (r_tags o) cls (r_etag o))), Ok)
        else (m, PreconditionFailed)
    end
  else (m, InvalidStorageClass).

(* one storage: objects, uploads by position, and the offset that turns a position into this
   storage's upload id *)
Record rup := mkRU { ru_k : K; ru_ct : N; ru_meta : N; ru_tags : N; ru_cls : N; ru_parts : list (N * N); ru_open : bool }.
Record store := mkStore { t_objs : objs; t_ups : list rup; t_off : N }.

Definition with_objs (t : store) (m : objs) : store := mkStore m (t_ups t) (t_off t).
Definition with_ups (t : store) (u : list rup) : store := mkStore (t_objs t) u (t_off t).
(* upload id -> position *)
Definition pos_of (t : store) (id : N) : option nat :=
  if id <? t_off t then None else Some (N.to_nat (id - t_off t)).
Definition find_up (t : store) (id : N) : option rup :=
  match pos_of t id with Some j => nth_error (t_ups t) j | None => None end.

Definition t_mcreate (t : store) (k : K) (ct meta tags cls : N) : store * N :=
  (with_ups t (t_ups t ++ [mkRU k ct meta tags cls [] true]), t_off t + N.of_nat (length (t_ups t))).
Definition ru_set_parts (u : rup) (p : list (N * N)) : rup := mkRU (ru_k u) (ru_ct u) (ru_meta u) (ru_tags u) (ru_cls u) p true.
Definition ru_close (u : rup) : rup := mkRU (ru_k u) (ru_ct u) (ru_meta u) (ru_tags u) (ru_cls u) (ru_parts u) false.
Definition t_upd (t : store) (id : N) (f : rup -> rup) : store :=
  match pos_of t id with Some j => with_ups t (upd_nth j f (t_ups t)) | None => t end.

Definition t_mpart (t : store) (id pn cid : N) : store * err :=
  match find_up t id with
  | Some u => if ru_open u then (t_upd t id (fun x => ru_set_parts x (insert_part (pn, cid) (ru_parts x))), Ok)
              else (t, NoSuchKey)
  | None => (t, NoSuchKey)
  end.
Definition t_mcomplete (t : store) (id : N) : store * err :=
  match find_up t id with
  | Some u =>
      if ru_open u then
        if negb (seq_from 1 (ru_parts u)) then (t, InvalidSequence)
        else
          let ps := map snd (ru_parts u) in
          let t1 := t_upd t id ru_close in
          (with_objs t1 (owrite (t_objs t1) (ru_k u) (RV (mkR ps (ru_ct u) (ru_meta u) (ru_tags u) (ru_cls u) (EM ps)))), Ok)
      else (t, NoSuchKey)
  | None => (t, NoSuchKey)
  end.
Definition t_mabort (t : store) (id : N) : store * err :=
  match find_up t id with
  | Some u => if ru_open u then (t_upd t id ru_close, Ok) else (t, NoSuchKey)
  | None => (t, NoSuchKey)
  end.

(* ---------- the replication wrapper ---------- *)
Record rst := mkRst { p_prim : store; p_secs : list store; p_map : list (N * list N); p_ids : list N }.

Inductive rop :=
| QPut (k : K) (cid ct meta tags cls : N) (c : pcond)
| QAppend (k : K) (cid : N) (off : option N)
| QCopy (src dst : K) (rm : bool) (ct meta : N) (rt : bool) (tags cls : N)
| QDelete (k : K) (c : cond)
| QDeleteMany (b : N) (es : list (N * cond))
| QTag (k : K) (tags : N)
| QTrans (k : K) (cls : N) (c : cond)
| QMCreate (k : K) (ct meta tags cls : N)
| QMPart (u pn cid : N)
| QMComplete (u : N)
| QMAbort (u : N)
| QRestart
| QView (k : K)
| QBad.

Inductive rres := QS (e : err) | QDel (l : list bool) | QPanic | QNoUpload | QV (v : option rver) | QBadOp.

(* forward a call to the secondaries in order; stop at the first error *)
Fixpoint fwd (f : store -> store * err) (l : list store) : list store * err :=
  match l with
  | [] => ([], Ok)
  | s :: l' =>
      let (s', e) := f s in
      match e with
      | Ok => let (l2, e2) := fwd f l' in (s' :: l2, e2)
      | _ => (s' :: l', e)
      end
  end.
(* the same with a per-secondary upload id *)
Fixpoint fwd_ids (f : store -> N -> store * err) (l : list store) (ids : list N) : option (list store * err) :=
  match l, ids with
  | [], _ => Some ([], Ok)
  | _ :: _, [] => None                          (* secondaryUploadIds[i]: index out of range *)
  | s :: l', id :: ids' =>
      let (s', e) := f s id in
      match e with
      | Ok => match fwd_ids f l' ids' with Some (l2, e2) => Some (s' :: l2, e2) | None => None end
      | _ => Some (s' :: l', e)
      end
  end.

Fixpoint mlookup (id : N) (m : list (N * list N)) : option (list N) :=
  match m with [] => None | (i, v) :: m' => if i =? id then Some v else mlookup id m' end.
Fixpoint mdel (id : N) (m : list (N * list N)) : list (N * list N) :=
  match m with [] => [] | (i, v) :: m' => if i =? id then mdel id m' else (i, v) :: mdel id m' end.

Definition on_objs (f : objs -> objs * err) (t : store) : store * err :=
  let (m, e) := f (t_objs t) in (with_objs t m, e).

(* an object call: [fp] on the primary, [fs] (the filtered call) on the secondaries *)
Definition obj_call (s : rst) (fp fs : objs -> objs * err) : rst * rres :=
  let (p', e) := on_objs fp (p_prim s) in
  match e with
  | Ok => let (secs', e2) := fwd (on_objs fs) (p_secs s) in
          (mkRst p' secs' (p_map s) (p_ids s), QS e2)
  | _ => (mkRst p' (p_secs s) (p_map s) (p_ids s), QS e)
  end.

Definition mp_call (s : rst) (u : N) (f : store -> N -> store * err) (drop : bool) : rst * rres :=
  match nth_error (p_ids s) (N.to_nat u) with
  | None => (s, QNoUpload)
  | Some pid =>
      let (p', e) := f (p_prim s) pid in
      match e with
      | Ok =>
          let ids := match mlookup pid (p_map s) with Some l => l | None => [] end in
          match fwd_ids f (p_secs s) ids with
          | None => (mkRst p' (p_secs s) (p_map s) (p_ids s), QPanic)
          | Some (secs', e2) =>
              (mkRst p' secs' (match e2 with Ok => if drop then mdel pid (p_map s) else p_map s | _ => p_map s end) (p_ids s), QS e2)
          end
      | _ => (mkRst p' (p_secs s) (p_map s) (p_ids s), QS e)
      end
  end.

Definition rstep (s : rst) (o : rop) : rst * rres :=
  match o with
  | QPut k cid ct meta tags cls c =>
      (* secondaries: same tags/metadata/class, no precondition *)
      obj_call s (fun m => m_put m k cid ct meta tags cls c) (fun m => m_put m k cid ct meta tags cls PNone)
  | QAppend k cid off =>
      obj_call s (fun m => m_append m k cid off) (fun m => m_append m k cid None)
  | QCopy src dst rm ct meta rt tags cls =>
      obj_call s (fun m => m_copy m src dst rm ct meta rt tags cls) (fun m => m_copy m src dst rm ct meta rt tags cls)
  | QDelete k c => obj_call s (fun m => m_delete m k c) (fun m => m_delete m k c)
  | QDeleteMany b es =>
      let (mp, r) := m_delete_many (t_objs (p_prim s)) b es in
      let (secs', e2) := fwd (on_objs (fun m => (fst (m_delete_many m b es), Ok))) (p_secs s) in
      (mkRst (with_objs (p_prim s) mp) secs' (p_map s) (p_ids s), QDel r)
  | QTag k tags => obj_call s (fun m => m_tag m k tags) (fun m => m_tag m k tags)
  | QTrans k cls c => obj_call s (fun m => m_trans m k cls c) (fun m => m_trans m k cls c)
  | QMCreate k ct meta tags cls =>
      let (p', pid) := t_mcreate (p_prim s) k ct meta tags cls in
      let cs := map (fun t => t_mcreate t k ct meta tags cls) (p_secs s) in
      (mkRst p' (map fst cs) ((pid, map snd cs) :: p_map s) (p_ids s ++ [pid]), QS Ok)
  | QMPart u pn cid => mp_call s u (fun t id => t_mpart t id pn cid) false
  | QMComplete u => mp_call s u (fun t id => t_mcomplete t id) true
  | QMAbort u => mp_call s u (fun t id => t_mabort t id) true
  | QRestart => (mkRst (p_prim s) (p_secs s) [] (p_ids s), QS Ok)   (* a new wrapper process: the map is in memory only *)
  | QView k => (s, QV (ocur (t_objs (p_prim s)) k))
  | QBad => (s, QBadOp)
  end.

(* ---------- observation: do the replicas expose the primary's state? ---------- *)
Definition robj_eqb (a b : robj) : bool :=
  listN_eqb (r_parts a) (r_parts b) && (r_ct a =? r_ct b) && (r_meta a =? r_meta b) && (r_tags a =? r_tags b) &&
  (r_cls a =? r_cls b) && etag_eqb (r_etag a) (r_etag b).
Definition rver_eqb (a b : rver) : bool :=
  match a, b with RV x, RV y => robj_eqb x y | RDM, RDM => true | _, _ => false end.
Fixpoint stack_eqb (a b : list rver) : bool :=
  match a, b with
  | [], [] => true
  | x :: a', y :: b' => rver_eqb x y && stack_eqb a' b'
  | _, _ => false
  end.
Definition keys6 : list K := [(0,0); (0,1); (0,2); (1,0); (1,1); (1,2)].
(* pending uploads as a client sees them (ListMultipartUploads + ListParts): key, class, parts *)
Fixpoint parts_eqb (a b : list (N * N)) : bool :=
  match a, b with
  | [], [] => true
  | x :: a', y :: b' => (fst x =? fst y) && (snd x =? snd y) && parts_eqb a' b'
  | _, _ => false
  end.
Definition open_ups (t : store) : list rup := filter ru_open (t_ups t).
Fixpoint ups_eqb (a b : list rup) : bool :=
  match a, b with
  | [], [] => true
  | x :: a', y :: b' => K_eqb (ru_k x) (ru_k y) && (ru_cls x =? ru_cls y) && parts_eqb (ru_parts x) (ru_parts y) && ups_eqb a' b'
  | _, _ => false
  end.
Definition same_view (a b : store) : bool :=
  forallb (fun k => stack_eqb (ostack (t_objs a) k) (ostack (t_objs b) k)) keys6 && ups_eqb (open_ups a) (open_ups b).
Definition converged (s : rst) : bool := forallb (same_view (p_prim s)) (p_secs s).

Fixpoint rrun (s : rst) (ops : list rop) : list (rres * bool) :=
  match ops with
  | [] => []
  | o :: ops' => let (s1, r) := rstep s o in (r, converged s1) :: rrun s1 ops'
  end.

(* the harness starts with empty storages whose upload ids are unrelated *)
Definition rst0 : rst := mkRst (mkStore [] [] 1000) [mkStore [] [] 2000; mkStore [] [] 3000] [] [].

(* ---------- line protocol ---------- *)
Definition parse_rop (t : bytes) : rop :=
  match parse_op t with
  | OPut k cid ct me tg cl c => if bucket_ok (fst k) then QPut k cid ct me tg cl c else QBad
  | OAppend k cid off => if bucket_ok (fst k) then QAppend k cid off else QBad
  | OCopy s d rm ct me rt tg cl => if bucket_ok (fst s) && bucket_ok (fst d) then QCopy s d rm ct me rt tg cl else QBad
  (* calls naming a version id are outside C23 *)
  | ODelete k c VRNone => if bucket_ok (fst k) then QDelete k c else QBad
  | ODeleteMany b es =>
      if bucket_ok b && forallb (fun e : N * cond * vref => match snd e with VRNone => true | _ => false end) es
      then QDeleteMany b (map fst es) else QBad
  | OTag k tg VRNone => if bucket_ok (fst k) then QTag k tg else QBad
  | OUntag k VRNone => if bucket_ok (fst k) then QTag k 0 else QBad
  | OTrans k cl c VRNone => if bucket_ok (fst k) then QTrans k cl c else QBad
  | OMCreate k ct me tg cl => if bucket_ok (fst k) then QMCreate k ct me tg cl else QBad
  | OMPart u pn cid => QMPart u pn cid
  | OMComplete u => QMComplete u
  | OMAbort u => QMAbort u
  | _ => if bytes_eqb t B"RS" then QRestart
         else match split_on ","%byte t with
              | [v; b; k] => if bytes_eqb v B"V" then
                               match parse_N b, parse_N k with
                               | Some b, Some k => if bucket_ok b then QView (b, k) else QBad
                               | _, _ => QBad
                               end
                             else QBad
              | _ => QBad
              end
  end.

Definition show_robj (o : robj) : bytes :=
  let body := body_of (r_parts o) in
  show_N (r_ct o) ++ B":" ++ show_N (r_meta o) ++ B":" ++ show_N (r_tags o) ++ B":" ++ show_N (r_cls o) ++ B":" ++
  show_style (r_etag o) (Some body) ++ B":" ++ show_body body.
Definition show_rres (r : rres * bool) : bytes :=
  match fst r with
  | QV None => B"NoSuchKey"
  | QV (Some RDM) => B"DeleteMarker"
  | QV (Some (RV o)) => B"ok=" ++ show_robj o
  | _ =>
  (match fst r with
   | QS e => show_err e
   | QDel l => B"ok=" ++ map (fun d : bool => if d then "d"%byte else "p"%byte) l
   | QPanic => B"PANIC"
   | QNoUpload => B"NoUpload"
   | QV _ => []
   | QBadOp => B"BadOp"
   end) ++ (if snd r then B"/E" else B"/D")
  end.

Definition run_line (l : bytes) : bytes :=
  match split_first " "%byte l with
  | Some (m, rest) =>
      if bytes_eqb m B"r2" then unwords (map show_rres (rrun rst0 (map parse_rop (split_on ";"%byte rest))))
      else parse_error
  | None => parse_error
  end.
