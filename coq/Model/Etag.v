(* Model/Etag.v — executable model of how pithos assigns and validates ETags and checksums:
   checksumutils.CalculateMultipartChecksums (COMPOSITE and FULL_OBJECT), metadatastore.ValidateChecksums,
   and the ETag/checksum assignments of PutObject / AppendObject / CopyObject (full and ranged) /
   UploadPart / UploadPartCopy / CompleteMultipartUpload / HeadObject / ListParts in
   internal/storage/metadatapart (+ metadatastore/sql).  MD5, SHA-1 and SHA-256 values are symbolic
   terms; the three CRCs are the Gallina CRCs of Model/Crc.v.  No proofs here. *)
From Verif Require Import Bytes Codec Crc.

Inductive ctype := FullObject | Composite.

(* symbolic value of MD5 / SHA-1 / SHA-256 (which one is fixed by the slot it sits in) *)
Inductive hterm :=
| HOne (c : bytes)            (* H(c) *)
| HCat (cs : list bytes)      (* H(H(c1) ++ ... ++ H(cn)) with the suffix "-n", n = length cs *)
| HBad (t : hterm).           (* some value different from t (a wrong supplied digest) *)

(* a CRC value: digest bytes and the optional "-n" suffix of composite checksums *)
Inductive cval := CV (d : bytes) (suffix : option nat).

Inductive val := VH (t : hterm) | VC (c : cval).

Inductive slot := SEtag | SCrc32 | SCrc32c | SCrc64 | SSha1 | SSha256.
Definition all_slots : list slot := [SEtag; SCrc32; SCrc32c; SCrc64; SSha1; SSha256].
Definition slot_eqb (a b : slot) : bool :=
  match a, b with
  | SEtag, SEtag | SCrc32, SCrc32 | SCrc32c, SCrc32c | SCrc64, SCrc64 | SSha1, SSha1 | SSha256, SSha256 => true
  | _, _ => false
  end.

(* ChecksumValues / ChecksumInput: one optional value per slot *)
Definition cks := slot -> option val.
Definition no_cks : cks := fun _ => None.

Fixpoint list_bytes_eqb (a b : list bytes) : bool :=
  match a, b with
  | [], [] => true
  | x :: a', y :: b' => bytes_eqb x y && list_bytes_eqb a' b'
  | _, _ => false
  end.
Fixpoint hterm_eqb (a b : hterm) : bool :=
  match a, b with
  | HOne x, HOne y => bytes_eqb x y
  | HCat x, HCat y => list_bytes_eqb x y
  | HBad x, HBad y => hterm_eqb x y
  | _, _ => false
  end.
Definition optnat_eqb (a b : option nat) : bool :=
  match a, b with Some x, Some y => Nat.eqb x y | None, None => true | _, _ => false end.
Definition cval_eqb (a b : cval) : bool :=
  match a, b with CV d s, CV d' s' => bytes_eqb d d' && optnat_eqb s s' end.
Definition val_eqb (a b : val) : bool :=
  match a, b with VH x, VH y => hterm_eqb x y | VC x, VC y => cval_eqb x y | _, _ => false end.

(* ValidateChecksums: a slot is compared only when both the supplied and the calculated value exist *)
Definition slot_agrees (sup calc : cks) (s : slot) : bool :=
  match sup s, calc s with Some a, Some b => val_eqb a b | _, _ => true end.
Definition validate (sup calc : cks) : bool := forallb (slot_agrees sup calc) all_slots.

Definition crc_params_of (s : slot) : crc_params :=
  match s with SCrc32c => crc32c_params | SCrc64 => crc64nvme_params | _ => crc32_params end.
Definition combine_of_slot (s : slot) : bytes -> bytes -> N -> bytes :=
  match s with SCrc32c => combine_crc32c | SCrc64 => combine_crc64nvme | _ => combine_crc32 end.
Definition is_crc_slot (s : slot) : bool :=
  match s with SCrc32 | SCrc32c | SCrc64 => true | _ => false end.

(* CalculateChecksumsStreaming over content c: all six values *)
Definition single_cks (c : bytes) : cks := fun s =>
  if is_crc_slot s then Some (VC (CV (crc_digest (crc_params_of s) c) None)) else Some (VH (HOne c)).

(* PartChecksums as CalculateMultipartChecksums receives them: the part's bytes stand for its ETag
   (always the MD5 of the part), [p_has] says whether the five checksum columns are passed along
   (CompleteMultipartUpload passes them, AppendObject passes ETag and Size only) *)
Record part := { p_content : bytes; p_has : bool }.

(* FULL_OBJECT: crcCombined = first digest, then Combine(crcCombined, digest, part.Size) *)
Fixpoint combine_parts (s : slot) (acc : option bytes) (skip : bool) (ps : list part) : option bytes * bool :=
  match ps with
  | [] => (acc, skip)
  | p :: ps' =>
      if p_has p then
        let d := crc_digest (crc_params_of s) (p_content p) in
        let acc' := match acc with
                    | None => Some d
                    | Some a => Some (combine_of_slot s a d (lenN (p_content p)))
                    end in
        combine_parts s acc' skip ps'
      else combine_parts s acc true ps'
  end.

Definition multipart_cks (ps : list part) (ty : ctype) : cks := fun s =>
  let contents := map p_content ps in
  let all_have := forallb p_has ps in
  match s with
  | SEtag => Some (VH (HCat contents))
  | SCrc32 | SCrc32c | SCrc64 =>
      match ty with
      | FullObject =>
          match combine_parts s None false ps with
          | (Some d, false) => Some (VC (CV d None))
          | _ => None
          end
      | Composite =>
          match s with
          | SCrc64 => None      (* not supported for checksumType Composite *)
          | _ => if all_have
                 then Some (VC (CV (crc_digest (crc_params_of s)
                                      (concat (map (fun p => crc_digest (crc_params_of s) (p_content p)) ps)))
                                   (Some (length ps))))
                 else None
          end
      end
  | SSha1 | SSha256 =>
      match ty with
      | FullObject => None
      | Composite => if all_have then Some (VH (HCat contents)) else None
      end
  end.

(* ---- storage state ---- *)
Record obj := { o_parts : list bytes; o_cks : cks; o_type : ctype }.
Record upload := { u_key : bytes; u_type : ctype; u_parts : list (N * bytes); u_open : bool }.
Record state := { st_objs : list (bytes * obj); st_ups : list upload }.
Definition init_state : state := {| st_objs := []; st_ups := [] |}.

Fixpoint lookup (k : bytes) (l : list (bytes * obj)) : option obj :=
  match l with [] => None | (k', o) :: l' => if bytes_eqb k k' then Some o else lookup k l' end.
Fixpoint store (k : bytes) (o : obj) (l : list (bytes * obj)) : list (bytes * obj) :=
  match l with
  | [] => [(k, o)]
  | (k', o') :: l' => if bytes_eqb k k' then (k, o) :: l' else (k', o') :: store k o l'
  end.
Definition set_obj (st : state) (k : bytes) (o : obj) : state :=
  {| st_objs := store k o (st_objs st); st_ups := st_ups st |}.

Fixpoint update_nth {A} (n : nat) (f : A -> A) (l : list A) : list A :=
  match l, n with
  | [], _ => []
  | x :: l', O => f x :: l'
  | x :: l', S n' => x :: update_nth n' f l'
  end.

(* parts of an upload are kept ordered by part number; a re-upload replaces *)
Fixpoint insert_part (n : N) (c : bytes) (l : list (N * bytes)) : list (N * bytes) :=
  match l with
  | [] => [(n, c)]
  | (m, d) :: l' => if (n =? m)%N then (n, c) :: l'
                    else if (n <? m)%N then (n, c) :: (m, d) :: l'
                    else (m, d) :: insert_part n c l'
  end.
(* "if i+1 != partEntity.SequenceNumber" *)
Fixpoint seq_ok (i : N) (l : list (N * bytes)) : bool :=
  match l with [] => true | (m, _) :: l' => (m =? i)%N && seq_ok (i + 1) l' end.

Inductive err := BadDigest | NoSuchKey | InvalidSeq.
Inductive res :=
| RErr (e : err)
| RSkip
| RCreated
| RPut (c : bytes) (k : cks)                 (* PutObjectResult / UploadPartResult, content they are about *)
| RComplete (ps : list bytes) (k : cks) (ty : ctype)
| RAppend (ps : list bytes) (etag : option val) (size : N)
| RCopy (ps : list bytes) (etag : option val)
| RHead (o : obj)
| RList (ps : list (N * bytes)).

Inductive op :=
| OPut (k c : bytes) (sup : cks)
| OCreate (k : bytes) (ty : ctype)
| OPart (u : nat) (n : N) (c : bytes) (sup : cks)
| OPartCopy (u : nat) (n : N) (src : bytes)
| OComplete (u : nat) (sup : cks)
| OAppend (k c : bytes) (sup : cks)
| OCopy (src dst : bytes)
| OCopyRange (src dst : bytes) (a b : N)
| OHead (k : bytes)
| OList (u : nat).

Definition slice (c : bytes) (s e : nat) : bytes := firstn (e - s) (skipn s c).

Definition single_obj (c : bytes) : obj := {| o_parts := [c]; o_cks := single_cks c; o_type := FullObject |}.

Definition open_upload (st : state) (u : nat) : option upload :=
  match nth_error (st_ups st) u with
  | Some up => if u_open up then Some up else None
  | None => None
  end.

Definition step (st : state) (o : op) : state * res :=
  match o with
  | OPut k c sup =>
      if validate sup (single_cks c) then (set_obj st k (single_obj c), RPut c (single_cks c))
      else (st, RErr BadDigest)
  | OCreate k ty =>
      ({| st_objs := st_objs st; st_ups := st_ups st ++ [{| u_key := k; u_type := ty; u_parts := []; u_open := true |}] |},
       RCreated)
  | OPart u n c sup =>
      match open_upload st u with
      | None => (st, RErr NoSuchKey)
      | Some up =>
          if validate sup (single_cks c)
          then ({| st_objs := st_objs st;
                   st_ups := update_nth u (fun up => {| u_key := u_key up; u_type := u_type up;
                                                        u_parts := insert_part n c (u_parts up); u_open := true |})
                                        (st_ups st) |},
                RPut c (single_cks c))
          else (st, RErr BadDigest)
      end
  | OPartCopy u n src =>
      match lookup src (st_objs st) with
      | None => (st, RErr NoSuchKey)
      | Some so =>
          let c := concat (o_parts so) in
          match c with
          | [] => (st, RSkip)            (* empty source: not exercised (range normalisation is C05's subject) *)
          | _ =>
            match open_upload st u with
            | None => (st, RErr NoSuchKey)
            | Some up =>
                ({| st_objs := st_objs st;
                    st_ups := update_nth u (fun up => {| u_key := u_key up; u_type := u_type up;
                                                         u_parts := insert_part n c (u_parts up); u_open := true |})
                                         (st_ups st) |},
                 RCopy [c] (single_cks c SEtag))
            end
          end
      end
  | OComplete u sup =>
      match open_upload st u with
      | None => (st, RErr NoSuchKey)
      | Some up =>
          if seq_ok 1 (u_parts up) then
            let contents := map snd (u_parts up) in
            let calc := multipart_cks (map (fun c => {| p_content := c; p_has := true |}) contents) (u_type up) in
            if validate sup calc then
              ({| st_objs := store (u_key up) {| o_parts := contents; o_cks := calc; o_type := u_type up |} (st_objs st);
                  st_ups := update_nth u (fun up => {| u_key := u_key up; u_type := u_type up;
                                                       u_parts := u_parts up; u_open := false |}) (st_ups st) |},
               RComplete contents calc (u_type up))
            else (st, RErr BadDigest)
          else (st, RErr InvalidSeq)
      end
  | OAppend k c sup =>
      if validate sup (single_cks c) then
        let old := match lookup k (st_objs st) with Some o => o_parts o | None => [] end in
        let all := old ++ [c] in
        let calc := multipart_cks (map (fun c => {| p_content := c; p_has := false |}) all) FullObject in
        let etag_only : cks := fun s => match s with SEtag => calc SEtag | _ => None end in
        (set_obj st k {| o_parts := all; o_cks := etag_only; o_type := FullObject |},
         RAppend all (calc SEtag) (lenN (concat all)))
      else (st, RErr BadDigest)
  | OCopy src dst =>
      match lookup src (st_objs st) with
      | None => (st, RErr NoSuchKey)
      | Some so => (set_obj st dst so, RCopy (o_parts so) (o_cks so SEtag))
      end
  | OCopyRange src dst a b =>
      match lookup src (st_objs st) with
      | None => (st, RErr NoSuchKey)
      | Some so =>
          let c := concat (o_parts so) in
          match c with
          | [] => (st, RSkip)
          | _ =>
            let n := lenN c in
            let s := (a mod n)%N in
            let e := (s + 1 + b mod (n - s))%N in
            let d := slice c (N.to_nat s) (N.to_nat e) in
            (set_obj st dst (single_obj d), RCopy [d] (single_cks d SEtag))
          end
      end
  | OHead k =>
      match lookup k (st_objs st) with
      | None => (st, RErr NoSuchKey)
      | Some o => (st, RHead o)
      end
  | OList u =>
      match open_upload st u with
      | None => (st, RErr NoSuchKey)
      | Some up => (st, RList (u_parts up))
      end
  end.

Fixpoint run (st : state) (ops : list op) : state * list res :=
  match ops with
  | [] => (st, [])
  | o :: ops' => let '(st1, r) := step st o in
                 let '(st2, rs) := run st1 ops' in (st2, r :: rs)
  end.

(* ---- specification values: what the property says each slot must be, as a function of the bytes ---- *)
(* single-part object / a part / an appended chunk with content c *)
Definition spec_single (c : bytes) : slot -> val := fun s =>
  if is_crc_slot s then VC (CV (crc_digest (crc_params_of s) c) None) else VH (HOne c).
(* multipart object with part contents ps: ETag = MD5-of-MD5s-n; FULL_OBJECT: digest of the whole;
   COMPOSITE: digest of the part digests with "-n" *)
Definition spec_multi (ps : list bytes) (ty : ctype) : slot -> val := fun s =>
  match s with
  | SEtag => VH (HCat ps)
  | _ =>
    match ty with
    | FullObject => if is_crc_slot s then VC (CV (crc_digest (crc_params_of s) (concat ps)) None)
                    else VH (HOne (concat ps))
    | Composite => if is_crc_slot s
                   then VC (CV (crc_digest (crc_params_of s) (concat (map (crc_digest (crc_params_of s)) ps)))
                               (Some (length ps)))
                   else VH (HCat ps)
    end
  end.

Definition bad (v : val) : val :=
  match v with VH t => VH (HBad t) | VC (CV d sfx) => VC (CV (d ++ [x00]) sfx) end.

(* ---- line protocol ----
   input : <versioning flag, ignored by the model> <op;op;...>     op = fields joined by ','
     put,<key>,<content>,<sup>   create,<key>,<F|C>   part,<u>,<n>,<content>,<sup>   partcopy,<u>,<n>,<src>
     complete,<u>,<sup>   append,<key>,<content>,<sup>   copy,<src>,<dst>   copyr,<src>,<dst>,<a>,<b>
     head,<key>   list,<u>
     <sup> = six characters for Content-MD5/ETag, crc32, crc32c, crc64nvme, sha1, sha256:
             '-' absent, '=' the value the property prescribes for this write, 'x' a different value
   output: one result per op joined by ';'.  MD5/SHA values are printed as the NAME of the function of the
           object's bytes they equal (MD5, MD5CAT-n, SHA1, SHA1CAT-n, ...) or WRONG; CRCs as hex. *)
Definition show_h (name : bytes) (ps : list bytes) (t : hterm) : bytes :=
  if hterm_eqb t (HOne (concat ps)) then name
  else if hterm_eqb t (HCat ps) then name ++ B"CAT-" ++ show_nat (length ps)
  else B"WRONG".
Definition slot_name (s : slot) : bytes :=
  match s with SEtag => B"MD5" | SSha1 => B"SHA1" | SSha256 => B"SHA256" | _ => B"CRC" end.
Definition show_val (s : slot) (ps : list bytes) (v : option val) : bytes :=
  match v with
  | None => B"-"
  | Some (VH t) => show_h (slot_name s) ps t
  | Some (VC (CV d None)) => tok_bytes d
  | Some (VC (CV d (Some n))) => tok_bytes d ++ B"-" ++ show_nat n
  end.
Definition show_cks (ps : list bytes) (k : cks) : bytes :=
  join B"," (map (fun s => show_val s ps (k s)) all_slots).
Definition show_type (t : ctype) : bytes := match t with FullObject => B"FULL_OBJECT" | Composite => B"COMPOSITE" end.
Definition show_err (e : err) : bytes :=
  match e with BadDigest => B"BadDigest" | NoSuchKey => B"NoSuchKey" | InvalidSeq => B"InvalidSeq" end.
Definition show_part (p : N * bytes) : bytes :=
  show_N (fst p) ++ B"/" ++ join B"/" (map (fun s => show_val s [snd p] (single_cks (snd p) s)) all_slots)
  ++ B"/" ++ show_N (lenN (snd p)).
Definition show_res (r : res) : bytes :=
  match r with
  | RErr e => show_err e
  | RSkip => B"SKIP"
  | RCreated => B"OK"
  | RPut c k => B"OK," ++ show_cks [c] k
  | RComplete ps k ty => B"OK," ++ show_cks ps k ++ B"," ++ show_type ty
  | RAppend ps e n => B"OK," ++ show_val SEtag ps e ++ B"," ++ show_N n
  | RCopy ps e => B"OK," ++ show_val SEtag ps e
  | RHead o => B"OK," ++ show_cks (o_parts o) (o_cks o) ++ B"," ++ show_type (o_type o) ++ B","
               ++ show_N (lenN (concat (o_parts o)))
  | RList ps => B"OK" ++ concat (map (fun p => B"," ++ show_part p) ps)
  end.

Definition parse_sup (t : bytes) (spec : slot -> val) : option cks :=
  match t with
  | [c0; c1; c2; c3; c4; c5] =>
      let f (c : byte) (s : slot) : option (option val) :=
        if beqb c "-"%byte then Some None
        else if beqb c "="%byte then Some (Some (spec s))
        else if beqb c "x"%byte then Some (Some (bad (spec s))) else None in
      match f c0 SEtag, f c1 SCrc32, f c2 SCrc32c, f c3 SCrc64, f c4 SSha1, f c5 SSha256 with
      | Some v0, Some v1, Some v2, Some v3, Some v4, Some v5 =>
          Some (fun s => match s with SEtag => v0 | SCrc32 => v1 | SCrc32c => v2 | SCrc64 => v3
                                 | SSha1 => v4 | SSha256 => v5 end)
      | _, _, _, _, _, _ => None
      end
  | _ => None
  end.

Definition parse_type (t : bytes) : option ctype :=
  if bytes_eqb t B"F" then Some FullObject else if bytes_eqb t B"C" then Some Composite else None.

(* the spec values a complete refers to depend on the upload's parts at that moment, so ops are parsed
   and executed one at a time *)
Definition parse_op (st : state) (t : bytes) : option op :=
  match split_on ","%byte t with
  | [cmd; a; b; c] =>
      if bytes_eqb cmd B"put" then
        match untok_bytes a, untok_bytes b with
        | Some k, Some body => option_map (OPut k body) (parse_sup c (spec_single body))
        | _, _ => None end
      else if bytes_eqb cmd B"append" then
        match untok_bytes a, untok_bytes b with
        | Some k, Some body => option_map (OAppend k body) (parse_sup c (spec_single body))
        | _, _ => None end
      else if bytes_eqb cmd B"partcopy" then
        match parse_nat a, parse_N b, untok_bytes c with
        | Some u, Some n, Some src => Some (OPartCopy u n src)
        | _, _, _ => None end
      else None
  | [cmd; a; b] =>
      if bytes_eqb cmd B"create" then
        match untok_bytes a, parse_type b with Some k, Some ty => Some (OCreate k ty) | _, _ => None end
      else if bytes_eqb cmd B"complete" then
        match parse_nat a with
        | Some u =>
            let '(ps, ty) := match nth_error (st_ups st) u with
                             | Some up => (map snd (u_parts up), u_type up)
                             | None => ([], FullObject) end in
            option_map (OComplete u) (parse_sup b (spec_multi ps ty))
        | None => None end
      else if bytes_eqb cmd B"copy" then
        match untok_bytes a, untok_bytes b with Some s, Some d => Some (OCopy s d) | _, _ => None end
      else None
  | [cmd; a; b; c; d] =>
      if bytes_eqb cmd B"part" then
        match parse_nat a, parse_N b, untok_bytes c with
        | Some u, Some n, Some body => option_map (OPart u n body) (parse_sup d (spec_single body))
        | _, _, _ => None end
      else if bytes_eqb cmd B"copyr" then
        match untok_bytes a, untok_bytes b, parse_N c, parse_N d with
        | Some s, Some dst, Some x, Some y => Some (OCopyRange s dst x y)
        | _, _, _, _ => None end
      else None
  | [cmd; a] =>
      if bytes_eqb cmd B"head" then option_map OHead (untok_bytes a)
      else if bytes_eqb cmd B"list" then option_map OList (parse_nat a)
      else None
  | _ => None
  end.

Fixpoint run_tokens (st : state) (ts : list bytes) : option (list bytes) :=
  match ts with
  | [] => Some []
  | t :: ts' =>
      match parse_op st t with
      | None => None
      | Some o => let '(st', r) := step st o in
                  match run_tokens st' ts' with
                  | Some rs => Some (show_res r :: rs)
                  | None => None
                  end
      end
  end.

Definition run_line (l : bytes) : bytes :=
  match tokens l with
  | [_; ops] =>
      match run_tokens init_state (split_on ";"%byte ops) with
      | Some rs => join B";" rs
      | None => parse_error
      end
  | _ => parse_error
  end.
