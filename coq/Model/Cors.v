(* Model/Cors.v — executable model of internal/http/middleware/cors.go
   (NormalizeAndValidateCORSRules + MakeCORSMiddleware), ASCII inputs.  No proofs here. *)
From Verif Require Import Bytes Codec.

Record rule := {
  r_id : option bytes;
  r_origins : list bytes;
  r_methods : list bytes;
  r_headers : list bytes;
  r_expose : list bytes;
  r_maxage : option Z
}.

Record request := {
  q_method : bytes;      (* r.Method *)
  q_origin : bytes;      (* Origin header, "" when absent *)
  q_acrm : bytes;        (* Access-Control-Request-Method *)
  q_acrh : bytes         (* Access-Control-Request-Headers *)
}.

Inductive outcome := Next | Forbidden | PreflightOK.

Record response := {
  out : outcome;
  acao : option bytes;
  allow_methods : option bytes;
  allow_headers : option bytes;
  expose : option bytes;
  max_age : option Z;
  vary : list bytes
}.

(* ---- wildcardMatch ---- *)
Definition star : byte := "*"%byte.

Definition wildcard_match (p v : bytes) : bool :=
  match split_first star p with
  | None => bytes_eqb p v
  | Some (pre, suf) =>
      if length v <? length pre + length suf then false
      else is_prefix pre v && is_suffix suf v
  end.

(* ---- normalisation / validation ---- *)
Definition normalize_values (l : list bytes) : list bytes :=
  filter (fun v => negb (is_empty v)) (map trim_space l).
Definition normalize_methods (l : list bytes) : list bytes := map to_upper (normalize_values l).

Definition valid_methods : list bytes :=
  [B"GET"; B"PUT"; B"POST"; B"DELETE"; B"HEAD"; B"PATCH"; B"OPTIONS"].

Definition at_most_one_star (l : list bytes) : bool :=
  forallb (fun v => count_byte star v <=? 1) l.

Fixpoint normalize_rules (seen : list bytes) (rules : list rule) : option (list rule) :=
  match rules with
  | [] => Some []
  | r :: rest =>
      let id_ok := match r_id r with
                   | None => true
                   | Some id => (length id <=? 255) && negb (mem_bytes id seen)
                   end in
      let seen' := match r_id r with None => seen | Some id => id :: seen end in
      let origins := normalize_values (r_origins r) in
      let methods := normalize_methods (r_methods r) in
      let headers := normalize_values (r_headers r) in
      if id_ok && negb (is_nil origins) && at_most_one_star origins
         && negb (is_nil methods) && forallb (fun m => mem_bytes m valid_methods) methods
         && at_most_one_star headers
      then match normalize_rules seen' rest with
           | Some rs => Some ({| r_id := r_id r; r_origins := origins; r_methods := methods;
                                 r_headers := headers; r_expose := normalize_values (r_expose r);
                                 r_maxage := r_maxage r |} :: rs)
           | None => None
           end
      else None
  end.

(* ---- matching ---- *)
Fixpoint match_origin (allowed : list bytes) (origin : bytes) : option bytes :=
  match allowed with
  | [] => None
  | a :: rest => if wildcard_match (to_lower a) (to_lower origin) then Some a else match_origin rest origin
  end.

Definition match_method (allowed : list bytes) (method : bytes) : bool :=
  mem_bytes (to_upper (trim_space method)) allowed.

Definition match_requested_headers (allowed requested : list bytes) : bool :=
  match requested with
  | [] => true
  | _ => mem_bytes [star] allowed
         || forallb (fun h => existsb (fun a => wildcard_match (to_lower a) (to_lower h)) allowed) requested
  end.

Definition parse_header_list (v : bytes) : list bytes :=
  match trim_space v with
  | [] => []
  | _ => filter (fun p => negb (is_empty p)) (map (fun p => trim_space (to_lower p)) (split_on ","%byte v))
  end.

Definition is_preflight (q : request) : bool :=
  bytes_eqb (q_method q) B"OPTIONS" && negb (is_empty (trim_space (q_acrm q))).

Definition requested_method (q : request) : bytes :=
  if is_preflight q then trim_space (to_upper (q_acrm q)) else q_method q.

Definition rule_matchb (q : request) (r : rule) : option bytes :=
  match match_origin (r_origins r) (trim_space (q_origin q)) with
  | None => None
  | Some pat =>
      if match_method (r_methods r) (requested_method q)
         && (negb (is_preflight q) || match_requested_headers (r_headers r) (parse_header_list (q_acrh q)))
      then Some pat else None
  end.

Fixpoint find_matching_rule (rules : list rule) (q : request) : option (rule * bytes) :=
  match rules with
  | [] => None
  | r :: rest => match rule_matchb q r with
                 | Some pat => Some (r, pat)
                 | None => find_matching_rule rest q
                 end
  end.

Definition preflight_allow_headers (allowed requested : list bytes) : bytes :=
  match allowed with
  | [] => []
  | _ => if mem_bytes [star] allowed
         then match requested with [] => [star] | _ => join B", " requested end
         else join B", " allowed
  end.

Definition plain (o : outcome) (v : list bytes) : response :=
  {| out := o; acao := None; allow_methods := None; allow_headers := None; expose := None;
     max_age := None; vary := v |}.

Definition h_origin := B"Origin".
Definition h_acrm := B"Access-Control-Request-Method".
Definition h_acrh := B"Access-Control-Request-Headers".

Definition cors (rules : list rule) (q : request) : response :=
  let origin := trim_space (q_origin q) in
  match origin with
  | [] => plain Next []
  | _ =>
    if is_nil rules then (if is_preflight q then plain Forbidden [] else plain Next [])
    else
      let v := if is_preflight q then [h_origin; h_acrm; h_acrh] else [h_origin] in
      match find_matching_rule rules q with
      | None => if is_preflight q then plain Forbidden v else plain Next v
      | Some (r, pat) =>
          let allow_origin := if bytes_eqb pat [star] then [star] else origin in
          if is_preflight q then
            let ah := preflight_allow_headers (r_headers r) (parse_header_list (q_acrh q)) in
            {| out := PreflightOK; acao := Some allow_origin;
               allow_methods := Some (join B", " (r_methods r));
               allow_headers := match ah with [] => None | _ => Some ah end;
               expose := None; max_age := r_maxage r; vary := v |}
          else
            {| out := Next; acao := Some allow_origin; allow_methods := None; allow_headers := None;
               expose := match r_expose r with [] => None | e => Some (join B", " e) end;
               max_age := None; vary := v |}
      end
  end.

(* ---- line protocol -------------------------------------------------------------------------
   input : <rules> <method> <origin> <acrm> <acrh>      (the four request fields as hex tokens)
   rules : rules separated by '|' ("~" = no rules); a rule is  id/origins/methods/headers/expose/maxage
           id = "N" or hex token; the lists are tok_list; maxage = "N" or decimal
   output: INVALID | <out> <acao> <allow_methods> <allow_headers> <expose> <maxage> <vary>
           (optional fields "N" or "S"++hex) *)
Definition tok_opt (o : option bytes) : bytes :=
  match o with None => B"N" | Some v => "S"%byte :: tok_bytes v end.
Definition untok_opt (t : bytes) : option (option bytes) :=
  match t with
  | b :: rest => if beqb b "S"%byte then option_map Some (untok_bytes rest)
                 else if bytes_eqb t B"N" then Some None else None
  | [] => None
  end.
Definition tok_optZ (o : option Z) : bytes := match o with None => B"N" | Some z => show_Z z end.
Definition untok_optZ (t : bytes) : option (option Z) :=
  if bytes_eqb t B"N" then Some None else option_map Some (parse_Z t).

Definition parse_rule (t : bytes) : option rule :=
  match split_on "/"%byte t with
  | [id; o; m; h; e; a] =>
      match untok_opt id, untok_list o, untok_list m, untok_list h, untok_list e, untok_optZ a with
      | Some id, Some o, Some m, Some h, Some e, Some a =>
          Some {| r_id := id; r_origins := o; r_methods := m; r_headers := h; r_expose := e; r_maxage := a |}
      | _, _, _, _, _, _ => None
      end
  | _ => None
  end.
Definition parse_rules (t : bytes) : option (list rule) :=
  if bytes_eqb t B"~" then Some [] else mapM parse_rule (split_on "|"%byte t).

Definition show_outcome (o : outcome) : bytes :=
  match o with Next => B"NEXT" | Forbidden => B"403" | PreflightOK => B"200" end.

Definition show_response (r : response) : bytes :=
  unwords [show_outcome (out r); tok_opt (acao r); tok_opt (allow_methods r); tok_opt (allow_headers r);
           tok_opt (expose r); tok_optZ (max_age r); tok_list (vary r)].

(* ---- server leg: internal/http/server/cors.go (resolveCORSRulesForRequest, bucketFromPath) over
   internal/storage/middlewares/corscache (single instance, within the TTL) and the bucket's stored
   configuration.  Buckets are kept empty by the harness, so DeleteBucket always succeeds. -------- *)
Definition slash : byte := "/"%byte.

Definition bucket_from_path (p : bytes) : option bytes :=
  let t := match p with b :: rest => if beqb b slash then rest else p | [] => [] end in
  match t with
  | [] => None
  | _ => let seg := match split_first slash t with None => t | Some (pre, _) => pre end in
         match trim_space seg with [] => None | b => Some b end
  end.

(* assoc lists keyed by bucket name *)
Fixpoint alookup {A} (k : bytes) (l : list (bytes * A)) : option A :=
  match l with
  | [] => None
  | (k', v) :: rest => if bytes_eqb k k' then Some v else alookup k rest
  end.
Fixpoint aremove {A} (k : bytes) (l : list (bytes * A)) : list (bytes * A) :=
  match l with
  | [] => []
  | (k', v) :: rest => if bytes_eqb k k' then aremove k rest else (k', v) :: aremove k rest
  end.

Record sstate := {
  s_store : list (bytes * option (list rule));   (* existing buckets, each with its CORS configuration *)
  s_cache : list (bytes * option (list rule))    (* corscache entries: the resolved configuration / "none" *)
}.
Definition sinit : sstate := {| s_store := []; s_cache := [] |}.

Inductive sop :=
| SCreate (b : bytes)
| SDeleteBucket (b : bytes)
| SPut (b : bytes) (raw : list rule)
| SDel (b : bytes)
| SReq (path : bytes) (q : request).

Inductive sout := OAck | OInvalid | OResp (r : response).

(* the configuration the storage below the cache reports: None = an error that is not cached
   (no such bucket), Some c = the bucket's configuration (Some rules) or "no configuration" (None) *)
Definition store_get (s : sstate) (b : bytes) : option (option (list rule)) := alookup b (s_store s).

Definition cached_get (s : sstate) (b : bytes) : sstate * option (option (list rule)) :=
  match alookup b (s_cache s) with
  | Some c => (s, Some c)
  | None => match store_get s b with
            | Some c => ({| s_store := s_store s; s_cache := (b, c) :: s_cache s |}, Some c)
            | None => (s, None)
            end
  end.

Definition rules_of (c : option (option (list rule))) : list rule :=
  match c with Some (Some rs) => rs | _ => [] end.

Definition invalidate (s : sstate) (b : bytes) : sstate :=
  {| s_store := s_store s; s_cache := aremove b (s_cache s) |}.

Definition set_config (s : sstate) (b : bytes) (c : option (list rule)) : sstate :=
  match alookup b (s_store s) with
  | Some _ => {| s_store := (b, c) :: aremove b (s_store s); s_cache := s_cache s |}
  | None => s
  end.

Definition sstep (s : sstate) (o : sop) : sstate * sout :=
  match o with
  | SCreate b =>
      (match alookup b (s_store s) with
       | Some _ => s
       | None => {| s_store := (b, None) :: s_store s; s_cache := s_cache s |}
       end, OAck)
  | SDeleteBucket b =>
      (invalidate {| s_store := aremove b (s_store s); s_cache := s_cache s |} b, OAck)
  | SPut b raw =>
      match normalize_rules [] raw with
      | None => (s, OInvalid)
      | Some rs => (invalidate (set_config s b (Some rs)) b, OAck)
      end
  | SDel b => (invalidate (set_config s b None) b, OAck)
  | SReq path q =>
      match trim_space (q_origin q) with
      | [] => (s, OResp (cors [] q))
      | _ => match bucket_from_path path with
             | None => (s, OResp (cors [] q))
             | Some b => let (s', c) := cached_get s b in (s', OResp (cors (rules_of c) q))
             end
      end
  end.

Fixpoint srun (s : sstate) (ops : list sop) : list sout :=
  match ops with
  | [] => []
  | o :: rest => let (s', r) := sstep s o in r :: srun s' rest
  end.

Definition show_sout (o : sout) : bytes :=
  match o with OAck => B"ok" | OInvalid => B"INVALID" | OResp r => show_response r end.

(* a virtual-hosted request (Host = <bucket>.<api endpoint>) reaches the CORS middleware with the path
   MakeVirtualHostBucketAddressingMiddleware has rewritten (SetupServer wraps CORS inside it) *)
Definition vhost_path (bucket path : bytes) : bytes :=
  match path with
  | [] => slash :: bucket
  | [c] => if beqb c slash then slash :: bucket else slash :: bucket ++ path
  | _ => slash :: bucket ++ path
  end.

(* op tokens: C<name> X<name> D<name> P<name>:<rules> R<path>:<method>:<origin>:<acrm>:<acrh>
              V<bucket>:<path>:<method>:<origin>:<acrm>:<acrh>   (virtual-hosted request) *)
Definition parse_sop (t : bytes) : option sop :=
  match t with
  | [] => None
  | k :: rest =>
      let f := split_on ":"%byte rest in
      if beqb k "C"%byte then match f with [b] => option_map SCreate (untok_bytes b) | _ => None end
      else if beqb k "X"%byte then match f with [b] => option_map SDeleteBucket (untok_bytes b) | _ => None end
      else if beqb k "D"%byte then match f with [b] => option_map SDel (untok_bytes b) | _ => None end
      else if beqb k "P"%byte then
        match f with
        | [b; rs] => match untok_bytes b, parse_rules rs with
                     | Some b, Some rs => Some (SPut b rs) | _, _ => None end
        | _ => None
        end
      else if beqb k "R"%byte then
        match f with
        | [p; m; o; am; ah] =>
            match untok_bytes p, untok_bytes m, untok_bytes o, untok_bytes am, untok_bytes ah with
            | Some p, Some m, Some o, Some am, Some ah =>
                Some (SReq p {| q_method := m; q_origin := o; q_acrm := am; q_acrh := ah |})
            | _, _, _, _, _ => None
            end
        | _ => None
        end
      else if beqb k "V"%byte then
        match f with
        | [b; p; m; o; am; ah] =>
            match untok_bytes b, untok_bytes p, untok_bytes m, untok_bytes o, untok_bytes am, untok_bytes ah with
            | Some b, Some p, Some m, Some o, Some am, Some ah =>
                Some (SReq (vhost_path b p) {| q_method := m; q_origin := o; q_acrm := am; q_acrh := ah |})
            | _, _, _, _, _, _ => None
            end
        | _ => None
        end
      else None
  end.

Definition run_line (l : bytes) : bytes :=
  match tokens l with
  | [rs; m; o; am; ah] =>
      do rules <- parse_rules rs;
      do m <- untok_bytes m; do o <- untok_bytes o; do am <- untok_bytes am; do ah <- untok_bytes ah;
      match normalize_rules [] rules with
      | None => B"INVALID"
      | Some rules' =>
          show_response (cors rules' {| q_method := m; q_origin := o; q_acrm := am; q_acrh := ah |})
      end
  | srv :: ops =>
      if bytes_eqb srv B"SRV" then
        do ops <- mapM parse_sop ops;
        join B" ; " (map show_sout (srun sinit ops))
      else parse_error
  | _ => parse_error
  end.
