(* Model/Cache.v — executable model of
     internal/cache/genericcache.go            (GenericCache.Set/Get/Remove; lock scope = step granularity)
     internal/cache/persistor/inmemory         (map written at the END of Store, after io.ReadAll)
     internal/cache/persistor/filesystem       (O_CREATE|O_TRUNC|O_WRONLY in place, writes at the writer's offset;
                                                Get = open(2): a handle on the inode; Remove = unlink(2))
     internal/cache/evictionpolicy/lfu         (container/heap array algorithms, duplicate entries on re-Set)
     internal/cache/evictionpolicy/evictnothing, evictionchecker/fixedkeylimit, fixedsizelimit
     internal/storage/metadatapart/partstore/cache/cache.go (cachePartStore over an inner part store)
   A history is a list of ATOMIC steps: a streaming Set is split into begin / chunk* / end, a reader into
   open / read* / close, so a history is one interleaving of concurrent operations.  No proofs here. *)
From Verif Require Import Bytes Codec.

(* ---------- association lists keyed by byte strings ---------- *)
Fixpoint alookup {A} (k : bytes) (l : list (bytes * A)) : option A :=
  match l with
  | [] => None
  | (k', v) :: l' => if bytes_eqb k k' then Some v else alookup k l'
  end.
Fixpoint aremove {A} (k : bytes) (l : list (bytes * A)) : list (bytes * A) :=
  match l with
  | [] => []
  | (k', v) :: l' => if bytes_eqb k k' then aremove k l' else (k', v) :: aremove k l'
  end.
Definition aset {A} (k : bytes) (v : A) (l : list (bytes * A)) : list (bytes * A) := (k, v) :: aremove k l.

Fixpoint nlookup {A} (k : nat) (l : list (nat * A)) : option A :=
  match l with
  | [] => None
  | (k', v) :: l' => if Nat.eqb k k' then Some v else nlookup k l'
  end.
Fixpoint nremove {A} (k : nat) (l : list (nat * A)) : list (nat * A) :=
  match l with
  | [] => []
  | (k', v) :: l' => if Nat.eqb k k' then nremove k l' else (k', v) :: nremove k l'
  end.
Definition nset {A} (k : nat) (v : A) (l : list (nat * A)) : list (nat * A) := (k, v) :: nremove k l.

Fixpoint upd {A} (i : nat) (x : A) (l : list A) : list A :=
  match l, i with
  | [], _ => []
  | _ :: l', O => x :: l'
  | y :: l', S i' => y :: upd i' x l'
  end.

(* ---------- configuration ---------- *)
Inductive pkind := PMem | PFs.
Inductive policy := EvictNothing | LfuKeys (max : Z) | LfuSize (max : Z).

(* ---------- LFU policy: eviction checker + container/heap over an array ---------- *)
Record entry := { e_key : bytes; e_freq : N; e_ts : N }.
Definition dflt_entry : entry := {| e_key := []; e_freq := 0; e_ts := 0 |}.

(* MinLFUCacheHeap.Less *)
Definition less (a b : entry) : bool :=
  (e_freq a <? e_freq b)%N || ((e_freq a =? e_freq b)%N && (e_ts a <? e_ts b)%N).

Definition hget (i : nat) (h : list entry) : entry := nth i h dflt_entry.
Definition hswap (i j : nat) (h : list entry) : list entry := upd i (hget j h) (upd j (hget i h) h).

(* heap.up *)
Fixpoint heap_up (fuel j : nat) (h : list entry) : list entry :=
  match fuel with
  | O => h
  | S f =>
      let i := (j - 1) / 2 in
      if Nat.eqb i j || negb (less (hget j h) (hget i h)) then h
      else heap_up f i (hswap i j h)
  end.

(* heap.down; returns the array and the final index *)
Fixpoint heap_down (fuel i n : nat) (h : list entry) : list entry * nat :=
  match fuel with
  | O => (h, i)
  | S f =>
      let j1 := 2 * i + 1 in
      if n <=? j1 then (h, i)
      else
        let j := if (j1 + 1 <? n) && less (hget (j1 + 1) h) (hget j1 h) then j1 + 1 else j1 in
        if negb (less (hget j h) (hget i h)) then (h, i)
        else heap_down f j n (hswap i j h)
  end.

Definition heap_push (x : entry) (h : list entry) : list entry :=
  let h' := h ++ [x] in heap_up (length h') (length h) h'.

(* heap.Pop; None = the heap is empty (the caller checks Len() > 0 first) *)
Definition heap_pop (h : list entry) : option (entry * list entry) :=
  match h with
  | [] => None
  | _ =>
      let n := length h - 1 in
      let h1 := hswap 0 n h in
      let h2 := fst (heap_down (length h) 0 n h1) in
      Some (hget n h2, firstn n h2)
  end.

(* heap.Fix *)
Definition heap_fix (i : nat) (h : list entry) : list entry :=
  let (h1, i') := heap_down (length h) i (length h) h in
  if i <? i' then h1 else heap_up (length h) i h1.

(* heap.Remove (i is a valid index) *)
Definition heap_remove (i : nat) (h : list entry) : list entry :=
  let n := length h - 1 in
  if Nat.eqb n i then firstn n h
  else
    let h1 := hswap i n h in
    let (h2, i') := heap_down (length h) i n h1 in
    let h3 := if i <? i' then h2 else heap_up (length h) i h2 in
    firstn n h3.

Fixpoint find_key (k : bytes) (h : list entry) (i : nat) : option nat :=
  match h with
  | [] => None
  | e :: h' => if bytes_eqb (e_key e) k then Some i else find_key k h' (S i)
  end.

Record lfu := {
  l_bysize : bool;               (* fixedsizelimit (true) or fixedkeylimit (false) *)
  l_max : Z;
  l_keys : list (bytes * Z);     (* the checker's keySet (sizes only meaningful for fixedsizelimit) *)
  l_cur : Z;                     (* fixedsizelimit.currentSize *)
  l_heap : list entry
}.

Definition should_evict (s : lfu) : bool :=
  if l_bysize s then (l_max s <? l_cur s)%Z else (l_max s <? Z.of_nat (length (l_keys s)))%Z.

Definition ck_track_set (k : bytes) (sz : Z) (s : lfu) : lfu :=
  if l_bysize s then
    let cur := match alookup k (l_keys s) with Some old => (l_cur s - old)%Z | None => l_cur s end in
    {| l_bysize := true; l_max := l_max s; l_keys := aset k sz (l_keys s); l_cur := (cur + sz)%Z; l_heap := l_heap s |}
  else
    match alookup k (l_keys s) with
    | Some _ => s
    | None => {| l_bysize := false; l_max := l_max s; l_keys := aset k 0%Z (l_keys s); l_cur := l_cur s; l_heap := l_heap s |}
    end.

Definition ck_track_remove (k : bytes) (s : lfu) : lfu :=
  let cur := if l_bysize s then match alookup k (l_keys s) with Some old => (l_cur s - old)%Z | None => l_cur s end
             else l_cur s in
  {| l_bysize := l_bysize s; l_max := l_max s; l_keys := aremove k (l_keys s); l_cur := cur; l_heap := l_heap s |}.

Definition with_heap (h : list entry) (s : lfu) : lfu :=
  {| l_bysize := l_bysize s; l_max := l_max s; l_keys := l_keys s; l_cur := l_cur s; l_heap := h |}.

(* the eviction loop of TrackSetAndReturnEvictedKeys (after /repo 47ce3e3):
     for ShouldEvict() && heap.Len() > 0 { pop; checker.TrackRemove; append }
   [heap_pop] answers None exactly on the empty heap, which now ends the loop.  None (= panic) remains only for
   exhausted fuel, which C19_no_panic shows unreachable (every iteration shortens the heap by one). *)
Fixpoint evict_loop (fuel : nat) (s : lfu) (acc : list bytes) : option (list bytes * lfu) :=
  if should_evict s then
    match heap_pop (l_heap s) with
    | None => Some (acc, s)
    | Some (e, h') =>
        match fuel with
        | O => None
        | S f => evict_loop f (ck_track_remove (e_key e) (with_heap h' s)) (acc ++ [e_key e])
        end
    end
  else Some (acc, s).

Definition lfu_track_set (now : N) (k : bytes) (sz : Z) (s : lfu) : option (list bytes * lfu) :=
  let s1 := ck_track_set k sz s in
  match evict_loop (S (length (l_heap s1))) s1 [] with
  | None => None
  | Some (ev, s2) =>
      Some (ev, with_heap (heap_push {| e_key := k; e_freq := 0; e_ts := now |} (l_heap s2)) s2)
  end.

Definition lfu_track_get (now : N) (k : bytes) (s : lfu) : lfu :=
  match find_key k (l_heap s) 0 with
  | None => s
  | Some i =>
      let e := hget i (l_heap s) in
      with_heap (heap_fix i (upd i {| e_key := k; e_freq := e_freq e + 1; e_ts := now |} (l_heap s))) s
  end.

Definition lfu_track_remove (k : bytes) (s : lfu) : lfu :=
  let s1 := ck_track_remove k s in
  match find_key k (l_heap s1) 0 with
  | None => s1
  | Some i => with_heap (heap_remove i (l_heap s1)) s1
  end.

Inductive polst := PolNone | PolLfu (s : lfu).

Definition pol_init (p : policy) : polst :=
  match p with
  | EvictNothing => PolNone
  | LfuKeys m => PolLfu {| l_bysize := false; l_max := m; l_keys := []; l_cur := 0; l_heap := [] |}
  | LfuSize m => PolLfu {| l_bysize := true; l_max := m; l_keys := []; l_cur := 0; l_heap := [] |}
  end.

Definition pol_track_set (now : N) (k : bytes) (sz : Z) (p : polst) : option (list bytes * polst) :=
  match p with
  | PolNone => Some ([], PolNone)
  | PolLfu s => match lfu_track_set now k sz s with
                | Some (ev, s') => Some (ev, PolLfu s')
                | None => None
                end
  end.
Definition pol_track_get (now : N) (k : bytes) (p : polst) : polst :=
  match p with PolNone => PolNone | PolLfu s => PolLfu (lfu_track_get now k s) end.
Definition pol_track_remove (k : bytes) (p : polst) : polst :=
  match p with PolNone => PolNone | PolLfu s => PolLfu (lfu_track_remove k s) end.

(* ---------- persistors ---------- *)
Record pst := {
  p_map : list (bytes * bytes);      (* inmemory: keyToCacheEntryMap *)
  p_dir : list (bytes * nat);        (* filesystem: file name -> inode *)
  p_inodes : list bytes              (* filesystem: inode -> content (inodes are never reused) *)
}.
Definition pst_init : pst := {| p_map := []; p_dir := []; p_inodes := [] |}.

Inductive rd := RdMem (data : bytes) (off : nat) | RdFs (ino off : nat).
Inductive wr := WrMem (buf : bytes) | WrFs (ino off : nat).

Definition p_get (kd : pkind) (k : bytes) (p : pst) : option rd :=
  match kd with
  | PMem => option_map (fun v => RdMem v 0) (alookup k (p_map p))
  | PFs => option_map (fun i => RdFs i 0) (alookup k (p_dir p))
  end.

Definition p_remove (kd : pkind) (k : bytes) (p : pst) : pst :=
  match kd with
  | PMem => {| p_map := aremove k (p_map p); p_dir := p_dir p; p_inodes := p_inodes p |}
  | PFs => {| p_map := p_map p; p_dir := aremove k (p_dir p); p_inodes := p_inodes p |}
  end.

(* Store, first half: OpenFile(O_CREATE|O_TRUNC|O_WRONLY) / nothing for the in-memory persistor *)
Definition p_open (kd : pkind) (k : bytes) (p : pst) : pst * wr :=
  match kd with
  | PMem => (p, WrMem [])
  | PFs =>
      match alookup k (p_dir p) with
      | Some i => ({| p_map := p_map p; p_dir := p_dir p; p_inodes := upd i [] (p_inodes p) |}, WrFs i 0)
      | None => let i := length (p_inodes p) in
                ({| p_map := p_map p; p_dir := aset k i (p_dir p); p_inodes := p_inodes p ++ [[]] |}, WrFs i 0)
      end
  end.

(* pwrite(2) at the writer's own offset: a hole left by a foreign truncation reads as zero bytes *)
Definition write_at (content : bytes) (off : nat) (chunk : bytes) : bytes :=
  firstn off (content ++ repeat x00 (off - length content)) ++ chunk ++ skipn (off + length chunk) content.

Definition p_write (w : wr) (chunk : bytes) (p : pst) : pst * wr :=
  match w with
  | WrMem buf => (p, WrMem (buf ++ chunk))
  | WrFs i off =>
      ({| p_map := p_map p; p_dir := p_dir p;
          p_inodes := upd i (write_at (nth i (p_inodes p) []) off chunk) (p_inodes p) |},
       WrFs i (off + length chunk))
  end.

(* Store, successful end: the in-memory persistor publishes the buffer now *)
Definition p_commit (k : bytes) (w : wr) (p : pst) : pst :=
  match w with
  | WrMem buf => {| p_map := aset k buf (p_map p); p_dir := p_dir p; p_inodes := p_inodes p |}
  | WrFs _ _ => p
  end.

Definition rd_read (r : rd) (n : nat) (p : pst) : bytes * rd :=
  match r with
  | RdMem data off => let c := firstn n (skipn off data) in (c, RdMem data (off + length c))
  | RdFs i off => let c := firstn n (skipn off (nth i (p_inodes p) [])) in (c, RdFs i (off + length c))
  end.
Definition rd_rest (r : rd) (p : pst) : bytes :=
  match r with
  | RdMem data off => skipn off data
  | RdFs i off => skipn off (nth i (p_inodes p) [])
  end.

(* ---------- GenericCache ---------- *)
Record cst := { c_kind : pkind; c_pol : polst; c_p : pst; c_now : N }.

Definition c_init (kd : pkind) (pl : policy) : cst :=
  {| c_kind := kd; c_pol := pol_init pl; c_p := pst_init; c_now := 1 |}.

Definition remove_all (kd : pkind) (ks : list bytes) (p : pst) : pst :=
  fold_left (fun p k => p_remove kd k p) ks p.

(* TrackSetAndReturnEvictedKeys + persistor.Remove of every evicted key; None = panic *)
Definition c_track_set (k : bytes) (sz : Z) (c : cst) : option cst :=
  match pol_track_set (c_now c) k sz (c_pol c) with
  | None => None
  | Some (ev, pol') =>
      Some {| c_kind := c_kind c; c_pol := pol'; c_p := remove_all (c_kind c) ev (c_p c); c_now := c_now c + 1 |}
  end.

(* Set up to the point where Store has opened its target *)
Definition c_begin (k : bytes) (hint : Z) (c : cst) : option (cst * wr) :=
  let oc := if (0 <=? hint)%Z then c_track_set k hint c else Some c in
  match oc with
  | None => None
  | Some c1 =>
      let (p', w) := p_open (c_kind c1) k (c_p c1) in
      Some ({| c_kind := c_kind c1; c_pol := c_pol c1; c_p := p'; c_now := c_now c1 |}, w)
  end.

Definition c_chunk (w : wr) (chunk : bytes) (c : cst) : cst * wr :=
  let (p', w') := p_write w chunk (c_p c) in
  ({| c_kind := c_kind c; c_pol := c_pol c; c_p := p'; c_now := c_now c |}, w').

(* Store returned nil: (in-memory) publish; size<0 => track with the actual size now *)
Definition c_end_ok (k : bytes) (hint : Z) (w : wr) (total : nat) (c : cst) : option cst :=
  let c1 := {| c_kind := c_kind c; c_pol := c_pol c; c_p := p_commit k w (c_p c); c_now := c_now c |} in
  if (0 <=? hint)%Z then Some c1 else c_track_set k (Z.of_nat total) c1.

(* Store returned an error: persistor.Remove(key); TrackRemove(key) *)
Definition c_end_err (k : bytes) (c : cst) : cst :=
  {| c_kind := c_kind c; c_pol := pol_track_remove k (c_pol c); c_p := p_remove (c_kind c) k (c_p c); c_now := c_now c |}.

Definition c_get (k : bytes) (c : cst) : cst * option rd :=
  ({| c_kind := c_kind c; c_pol := pol_track_get (c_now c) k (c_pol c); c_p := c_p c; c_now := c_now c + 1 |},
   p_get (c_kind c) k (c_p c)).

Definition c_remove (k : bytes) (c : cst) : cst := c_end_err k c.

(* a complete Set from an in-memory reader; [fail = Some n]: the reader fails after n bytes *)
Definition c_set (k v : bytes) (hint : Z) (fail : option nat) (c : cst) : option cst :=
  match c_begin k hint c with
  | None => None
  | Some (c1, w) =>
      match fail with
      | None => let (c2, w2) := c_chunk w v c1 in c_end_ok k hint w2 (length v) c2
      | Some n => let (c2, _) := c_chunk w (firstn n v) c1 in Some (c_end_err k c2)
      end
  end.

(* ---------- the world of a history: cache + reader handles + pending streaming Sets
              + (part-store mode) the inner store and the oversize hints ---------- *)
Inductive handle :=
| HCache (r : rd)                                               (* reader returned by Cache.Get *)
| HInner (data : bytes) (off : nat) (trunc : bool)              (* inner part store reader, no fill *)
| HStream (data : bytes) (off written : nat) (active : bool) (sid : nat) (trunc : bool).   (* streamingCacheOnReadCloser *)
(* [trunc]: the inner reader fails (non-EOF error) where [data] ends; [data] is then what it delivers before *)

(* [pd_failat = Some j]: the persistor's Store fails as soon as it has consumed >= j bytes (checked when it asks
   for more) *)
Record pending := { pd_key : bytes; pd_hint : Z; pd_wr : wr; pd_total : nat; pd_src : bytes; pd_failat : option nat }.

(* faults injected into one GetPart *)
Inductive fault :=
| FNone
| FReadFail (k : nat)      (* the inner reader delivers k bytes, then a non-EOF error (no fault if the part is shorter) *)
| FOpenErr                 (* inner GetPart returns an error *)
| FStoreFail (j : nat).    (* the cache persistor's Store of the miss fill fails after >= j bytes *)

(* the inner part store: the harness's in-memory double (no transactions), the real filesystem part store (a
   transaction's writes become visible to everybody at its commit: temp file + rename in the pre-commit hook) or the
   real SQL part store (a transaction's writes are visible inside that transaction at once, to others at commit) *)
Inductive ikind := IDouble | IFs | ISql.
(* what an open write transaction has done so far, in order *)
Inductive txop := TxPut (id v : bytes) | TxDel (id : bytes).

Record world := {
  w_c : cst;
  w_handles : list (nat * handle);
  w_sets : list (nat * pending);
  w_inner : list (bytes * bytes);
  w_hints : list bytes;
  w_maxpart : nat;
  w_nextsid : nat;
  w_ikind : ikind;
  w_tx : option (list txop)       (* the open write transaction (SQLite admits one at a time) *)
}.

Definition w_init_i (kd : pkind) (pl : policy) (maxpart : nat) (ik : ikind) : world :=
  {| w_c := c_init kd pl; w_handles := []; w_sets := []; w_inner := []; w_hints := [];
     w_maxpart := maxpart; w_nextsid := 1000; w_ikind := ik; w_tx := None |}.
Definition w_init (kd : pkind) (pl : policy) (maxpart : nat) : world := w_init_i kd pl maxpart IDouble.

Definition set_c (c : cst) (w : world) : world :=
  {| w_c := c; w_handles := w_handles w; w_sets := w_sets w; w_inner := w_inner w; w_hints := w_hints w;
     w_maxpart := w_maxpart w; w_nextsid := w_nextsid w; w_ikind := w_ikind w; w_tx := w_tx w |}.
Definition set_handles (h : list (nat * handle)) (w : world) : world :=
  {| w_c := w_c w; w_handles := h; w_sets := w_sets w; w_inner := w_inner w; w_hints := w_hints w;
     w_maxpart := w_maxpart w; w_nextsid := w_nextsid w; w_ikind := w_ikind w; w_tx := w_tx w |}.
Definition set_sets (s : list (nat * pending)) (w : world) : world :=
  {| w_c := w_c w; w_handles := w_handles w; w_sets := s; w_inner := w_inner w; w_hints := w_hints w;
     w_maxpart := w_maxpart w; w_nextsid := w_nextsid w; w_ikind := w_ikind w; w_tx := w_tx w |}.
Definition set_inner (i : list (bytes * bytes)) (w : world) : world :=
  {| w_c := w_c w; w_handles := w_handles w; w_sets := w_sets w; w_inner := i; w_hints := w_hints w;
     w_maxpart := w_maxpart w; w_nextsid := w_nextsid w; w_ikind := w_ikind w; w_tx := w_tx w |}.
Definition set_hints (h : list bytes) (w : world) : world :=
  {| w_c := w_c w; w_handles := w_handles w; w_sets := w_sets w; w_inner := w_inner w; w_hints := h;
     w_maxpart := w_maxpart w; w_nextsid := w_nextsid w; w_ikind := w_ikind w; w_tx := w_tx w |}.
Definition bump_sid (w : world) : world :=
  {| w_c := w_c w; w_handles := w_handles w; w_sets := w_sets w; w_inner := w_inner w; w_hints := w_hints w;
     w_maxpart := w_maxpart w; w_nextsid := S (w_nextsid w); w_ikind := w_ikind w; w_tx := w_tx w |}.

Definition set_tx (t : option (list txop)) (w : world) : world :=
  {| w_c := w_c w; w_handles := w_handles w; w_sets := w_sets w; w_inner := w_inner w; w_hints := w_hints w;
     w_maxpart := w_maxpart w; w_nextsid := w_nextsid w; w_ikind := w_ikind w; w_tx := t |}.

(* the inner store's content after a transaction's operations *)
Fixpoint apply_txops (ops : list txop) (m : list (bytes * bytes)) : list (bytes * bytes) :=
  match ops with
  | [] => m
  | TxPut id v :: rest => apply_txops rest (aset id v m)
  | TxDel id :: rest => apply_txops rest (aremove id m)
  end.
(* what a reader sees: a reader inside the open write transaction of the SQL store sees that transaction's writes;
   everybody else (and every reader of the filesystem store) sees the committed content *)
Definition inner_view (intx : bool) (w : world) : list (bytes * bytes) :=
  match w_ikind w, w_tx w with
  | ISql, Some ops => if intx then apply_txops ops (w_inner w) else w_inner w
  | _, _ => w_inner w
  end.

Definition mark_hint (k : bytes) (w : world) : world :=
  set_hints (if mem_bytes k (w_hints w) then w_hints w else k :: w_hints w) w.
Definition clear_hint (k : bytes) (w : world) : world :=
  set_hints (filter (fun x => negb (bytes_eqb x k)) (w_hints w)) w.

(* results of one step *)
Inductive res :=
| ROk | RBad | RMiss | RNotFound
| RVal (v : bytes)             (* bytes delivered by this step *)
| RValErr (v : bytes)          (* bytes delivered, then the read reported the injected error *)
| RErr                         (* the operation returned an (injected) error *)
| RHang                        (* the read never returns *)
| ROpen (kind : bytes).        (* "h" cache hit, "s" streaming fill, "i" inner pass-through *)

Inductive op :=
(* generic cache *)
| OSet (k v : bytes) (hint : Z)
| OSetFail (k v : bytes) (n : nat) (hint : Z)
| OGet (k : bytes)                       (* Get + ReadAll + Close *)
| ORemove (k : bytes)
| OOpen (h : nat) (k : bytes)            (* Get, keep the reader *)
| OBegin (s : nat) (k v : bytes) (hint : Z)   (* Set from a reader that delivers on demand: up to the first Read *)
| OFeed (s n : nat)                      (* the reader delivers the next n bytes *)
| OEof (s : nat)                         (* the reader returns io.EOF *)
| OErr (s : nat)                         (* the reader returns an error *)
(* readers (both modes) *)
| ORead (h n : nat)                      (* io.ReadFull of n bytes *)
| OFinish (h : nat)                      (* io.ReadAll + Close *)
| OClose (h : nat)
(* cache part store *)
| PPut (id v : bytes)
| PInner (id v : bytes)                 (* a part the inner store already holds (written before a restart); only for absent ids *)
| PDelete (id : bytes)
| POpen (h : nat) (id : bytes)
| PGet (id : bytes)                      (* GetPart + ReadAll + Close *)
(* faults *)
| POpenF (h : nat) (id : bytes) (f : fault)
| PGetF (id : bytes) (f : fault)         (* GetPart under a fault + ReadAll + Close *)
| PGetClose (id : bytes) (n : nat)       (* GetPart, read n bytes, Close early *)
| PPutFail (id v : bytes)                (* the inner store's PutPart fails *)
| PDeleteFail (id : bytes)               (* the inner store's DeletePart fails *)
| PPutStoreFail (id v : bytes) (j : nat)  (* PutPart whose cache Set fails in the persistor after >= j bytes *)
(* real inner stores: mutations inside a write transaction *)
| TBegin
| TPutTx (id v : bytes)                  (* PutPart(tx) *)
| TDelTx (id : bytes)                    (* DeletePart(tx) *)
| TCommit                                (* pre-commit hooks, database commit, after-commit hooks in registration order *)
| TRollback
| PGetTx (id : bytes)                    (* GetPart inside the open write transaction + ReadAll + Close *)
| PGetCloseTx (id : bytes) (n : nat).    (* ... read n bytes, Close early *)

(* ---- streaming fill of the part store: what the goroutine does when Set returns ---- *)
Definition fill_fail (sid : nat) (oversize : bool) (w : world) : world :=
  match nlookup sid (w_sets w) with
  | None => w
  | Some pd =>
      let k := pd_key pd in
      (* Set: Store error -> Remove + TrackRemove; goroutine: (mark hint;) cache.Remove *)
      let c1 := c_remove k (c_end_err k (w_c w)) in
      let w1 := set_sets (nremove sid (w_sets w)) (set_c c1 w) in
      if oversize then mark_hint k w1 else w1
  end.

Definition fill_ok (sid : nat) (w : world) : option world :=
  match nlookup sid (w_sets w) with
  | None => Some w
  | Some pd =>
      match c_end_ok (pd_key pd) (pd_hint pd) (pd_wr pd) (pd_total pd) (w_c w) with
      | None => None
      | Some c1 => Some (clear_hint (pd_key pd) (set_sets (nremove sid (w_sets w)) (set_c c1 w)))
      end
  end.

Definition feed (sid : nat) (chunk : bytes) (w : world) : world :=
  match nlookup sid (w_sets w) with
  | None => w
  | Some pd =>
      let (c1, wr') := c_chunk (pd_wr pd) chunk (w_c w) in
      let total' := pd_total pd + length chunk in
      match pd_failat pd with
      | Some j =>
          if j <=? total'
          then (* Store returns the error: Set removes the key, the fill goroutine removes it again and ends;
                  nobody closes the pipe's read end *)
               set_sets (nremove sid (w_sets w)) (set_c (c_remove (pd_key pd) (c_end_err (pd_key pd) c1)) w)
          else set_sets (nset sid {| pd_key := pd_key pd; pd_hint := pd_hint pd; pd_wr := wr'; pd_total := total';
                                     pd_src := skipn (length chunk) (pd_src pd); pd_failat := pd_failat pd |}
                              (w_sets w)) (set_c c1 w)
      | None =>
          set_sets (nset sid {| pd_key := pd_key pd; pd_hint := pd_hint pd; pd_wr := wr'; pd_total := total';
                                pd_src := skipn (length chunk) (pd_src pd); pd_failat := None |}
                         (w_sets w)) (set_c c1 w)
      end
  end.

(* Read on a handle for up to n bytes with io.ReadFull semantics ([n = None]: until EOF / error).
   Returns the bytes, whether the read reported the injected inner error, the new handle and the new world;
   None = panic (in the fill) *)
Definition h_read (hd : handle) (n : option nat) (w : world) : option (bytes * bool * handle * world) :=
  match hd with
  | HCache r =>
      match n with
      | Some n => let (c, r') := rd_read r n (c_p (w_c w)) in Some (c, false, HCache r', w)
      | None => let c := rd_rest r (c_p (w_c w)) in Some (c, false, HCache (snd (rd_read r (length c) (c_p (w_c w)))), w)
      end
  | HInner data off trunc =>
      let rest := skipn off data in
      let c := match n with Some n => firstn n rest | None => rest end in
      let eof := match n with Some n => length c <? n | None => true end in
      Some (c, eof && trunc, HInner data (off + length c) trunc, w)
  | HStream data off written active sid trunc =>
      let rest := skipn off data in
      let c := match n with Some n => firstn n rest | None => rest end in
      let eof := match n with Some n => length c <? n | None => true end in
      let written' := if active && (0 <? length c) then written + length c else written in
      let over := active && (0 <? length c) && (w_maxpart w <? written') in
      let w1 := if active && (0 <? length c)
                then (if over then fill_fail sid true w else feed sid c w) else w in
      let active1 := active && negb over in
      if eof && active1 then
        if trunc then (* non-EOF error from the inner reader: pipe closed with the error, nothing is cached *)
          Some (c, true, HStream data (off + length c) written' false sid trunc, fill_fail sid false w1)
        else
          match fill_ok sid w1 with
          | None => None
          | Some w2 => Some (c, false, HStream data (off + length c) written' false sid trunc, w2)
          end
      else Some (c, eof && trunc, HStream data (off + length c) written' active1 sid trunc, w1)
  end.

(* the fill's Set has already returned (persistor failure) but the reader side still writes into the pipe: the
   write of a non-empty chunk below the size threshold blocks for ever *)
Definition would_hang (hd : handle) (n : option nat) (w : world) : bool :=
  match hd with
  | HStream data off written true sid _ =>
      match nlookup sid (w_sets w) with
      | Some _ => false
      | None =>
          let c := match n with Some n => firstn n (skipn off data) | None => skipn off data end in
          (0 <? length c) && negb (w_maxpart w <? written + length c)
      end
  | _ => false
  end.

Definition h_close (hd : handle) (w : world) : world :=
  match hd with
  | HStream _ _ _ true sid _ => fill_fail sid false w
  | _ => w
  end.

(* GetPart: the common part of POpen / POpenF *)
Definition part_open_in (intx : bool) (h : nat) (id : bytes) (f : fault) (w : world) : option (res * world) :=
  match nlookup h (w_handles w) with
  | Some _ => Some (RBad, w)
  | None =>
      let (c, r) := c_get id (w_c w) in
      let w1 := set_c c w in
      match r with
      | Some r => Some (ROpen B"h", set_handles (nset h (HCache r) (w_handles w1)) w1)
      | None =>
          match f with
          | FOpenErr => Some (RErr, w1)
          | _ =>
          match alookup id (inner_view intx w1) with
          | None => Some (RNotFound, w1)
          | Some data0 =>
              let trunc := match f with FReadFail k => k <? length data0 | _ => false end in
              let data := match f with FReadFail k => firstn k data0 | _ => data0 end in
              if mem_bytes id (w_hints w1)
              then Some (ROpen B"i", set_handles (nset h (HInner data 0 trunc) (w_handles w1)) w1)
              else
                match c_begin id (-1) (w_c w1) with
                | None => None
                | Some (c2, wr0) =>
                    let sid := w_nextsid w1 in
                    let failat := match f with FStoreFail j => Some j | _ => None end in
                    let w2 := bump_sid (set_c c2 w1) in
                    let w3 := match failat with
                              | Some 0 => (* Store fails on its first Read *)
                                  set_c (c_remove id (c_end_err id c2)) w2
                              | _ => set_sets (nset sid {| pd_key := id; pd_hint := (-1)%Z; pd_wr := wr0; pd_total := 0;
                                                          pd_src := []; pd_failat := failat |} (w_sets w2)) w2
                              end in
                    Some (ROpen B"s", set_handles (nset h (HStream data 0 0 true sid trunc) (w_handles w3)) w3)
                end
          end
          end
      end
  end.

Definition part_open (h : nat) (id : bytes) (f : fault) (w : world) : option (res * world) := part_open_in false h id f w.

(* the cache part store's OnAfterCommit hooks of one transaction, in registration order *)
Fixpoint commit_hooks (ops : list txop) (w : world) : option world :=
  match ops with
  | [] => Some w
  | TxPut id v :: rest =>
      if length v <=? w_maxpart w then
        let w2 := clear_hint id w in
        match c_set id v (Z.of_nat (length v)) None (w_c w2) with
        | None => None
        | Some c => commit_hooks rest (set_c c w2)
        end
      else
        let w2 := mark_hint id w in
        commit_hooks rest (set_c (c_remove id (w_c w2)) w2)
  | TxDel id :: rest =>
      let w2 := clear_hint id w in
      commit_hooks rest (set_c (c_remove id (w_c w2)) w2)
  end.

(* one step; None = panic *)
Definition step1 (o : op) (w : world) : option (res * world) :=
  match o with
  | OSet k v hint =>
      match c_set k v hint None (w_c w) with None => None | Some c => Some (ROk, set_c c w) end
  | OSetFail k v n hint =>
      match c_set k v hint (Some n) (w_c w) with None => None | Some c => Some (ROk, set_c c w) end
  | OGet k =>
      let (c, r) := c_get k (w_c w) in
      match r with
      | None => Some (RMiss, set_c c w)
      | Some r => Some (RVal (rd_rest r (c_p c)), set_c c w)
      end
  | ORemove k => Some (ROk, set_c (c_remove k (w_c w)) w)
  | OOpen h k =>
      match nlookup h (w_handles w) with
      | Some _ => Some (RBad, w)
      | None =>
          let (c, r) := c_get k (w_c w) in
          match r with
          | None => Some (RMiss, set_c c w)
          | Some r => Some (ROpen B"h", set_handles (nset h (HCache r) (w_handles w)) (set_c c w))
          end
      end
  | OBegin s k v hint =>
      match nlookup s (w_sets w) with
      | Some _ => Some (RBad, w)
      | None =>
          match c_begin k hint (w_c w) with
          | None => None
          | Some (c, wr0) =>
              Some (ROk, set_sets (nset s {| pd_key := k; pd_hint := hint; pd_wr := wr0; pd_total := 0; pd_src := v; pd_failat := None |}
                                        (w_sets w)) (set_c c w))
          end
      end
  | OFeed s n =>
      match nlookup s (w_sets w) with
      | None => Some (RBad, w)
      | Some pd => let chunk := firstn n (pd_src pd) in
                   Some (ROk, match chunk with [] => w | _ => feed s chunk w end)
      end
  | OEof s =>
      match nlookup s (w_sets w) with
      | None => Some (RBad, w)
      | Some pd =>
          match c_end_ok (pd_key pd) (pd_hint pd) (pd_wr pd) (pd_total pd) (w_c w) with
          | None => None
          | Some c => Some (ROk, set_sets (nremove s (w_sets w)) (set_c c w))
          end
      end
  | OErr s =>
      match nlookup s (w_sets w) with
      | None => Some (RBad, w)
      | Some pd => Some (ROk, set_sets (nremove s (w_sets w)) (set_c (c_end_err (pd_key pd) (w_c w)) w))
      end
  | ORead h n =>
      match nlookup h (w_handles w) with
      | None => Some (RBad, w)
      | Some hd =>
          if would_hang hd (Some n) w then Some (RHang, set_handles (nremove h (w_handles w)) w)
          else
          match h_read hd (Some n) w with
          | None => None
          | Some (c, err, hd', w') =>
              Some ((if err then RValErr c else RVal c), set_handles (nset h hd' (w_handles w')) w')
          end
      end
  | OFinish h =>
      match nlookup h (w_handles w) with
      | None => Some (RBad, w)
      | Some hd =>
          if would_hang hd None w then Some (RHang, set_handles (nremove h (w_handles w)) w)
          else
          match h_read hd None w with
          | None => None
          | Some (c, err, hd', w') =>
              Some ((if err then RValErr c else RVal c), set_handles (nremove h (w_handles w')) (h_close hd' w'))
          end
      end
  | OClose h =>
      match nlookup h (w_handles w) with
      | None => Some (RBad, w)
      | Some hd => Some (ROk, set_handles (nremove h (w_handles w)) (h_close hd w))
      end
  | PPut id v =>
      let w1 := set_inner (aset id v (w_inner w)) w in
      if length v <=? w_maxpart w then
        let w2 := clear_hint id w1 in
        match c_set id v (Z.of_nat (length v)) None (w_c w2) with
        | None => None
        | Some c => Some (ROk, set_c c w2)
        end
      else
        let w2 := mark_hint id w1 in
        Some (ROk, set_c (c_remove id (w_c w2)) w2)
  | PInner id v =>
      match alookup id (w_inner w) with
      | Some _ => Some (RBad, w)
      | None => Some (ROk, set_inner (aset id v (w_inner w)) w)
      end
  | PDelete id =>
      match alookup id (w_inner w) with
      | None => Some (RNotFound, w)
      | Some _ =>
          let w1 := clear_hint id (set_inner (aremove id (w_inner w)) w) in
          Some (ROk, set_c (c_remove id (w_c w1)) w1)
      end
  | POpen h id => part_open h id FNone w
  | POpenF h id f => part_open h id f w
  | PPutFail id v => Some (RErr, w)
  | PDeleteFail id => Some (RErr, w)
  | PPutStoreFail id v j =>
      let w1 := set_inner (aset id v (w_inner w)) w in
      if length v <=? w_maxpart w then
        let w2 := clear_hint id w1 in
        (* effective iff j <= length v: nothing (j = 0) or everything has been written when Store fails *)
        let fail := if j <=? length v then Some (if j =? 0 then 0 else length v) else None in
        match c_set id v (Z.of_nat (length v)) fail (w_c w2) with
        | None => None
        | Some c => Some (ROk, set_c (match fail with Some _ => c_remove id c | None => c end) w2)
        end
      else
        let w2 := mark_hint id w1 in
        Some (ROk, set_c (c_remove id (w_c w2)) w2)
  | PGetF _ _ => Some (RBad, w)   (* handled by [step] *)
  | PGetClose _ _ => Some (RBad, w)
  | PGetTx _ => Some (RBad, w)
  | PGetCloseTx _ _ => Some (RBad, w)
  | TBegin =>
      match w_tx w with
      | Some _ => Some (RBad, w)
      | None => Some (ROk, set_tx (Some []) w)
      end
  | TPutTx id v =>
      match w_tx w with
      | None => Some (RBad, w)
      | Some ops => Some (ROk, set_tx (Some (ops ++ [TxPut id v])) w)
      end
  | TDelTx id =>
      match w_tx w with
      | None => Some (RBad, w)
      | Some ops => Some (ROk, set_tx (Some (ops ++ [TxDel id])) w)
      end
  | TCommit =>
      match w_tx w with
      | None => Some (RBad, w)
      | Some ops =>
          match commit_hooks ops (set_tx None (set_inner (apply_txops ops (w_inner w)) w)) with
          | None => None
          | Some w' => Some (ROk, w')
          end
      end
  | TRollback =>
      match w_tx w with
      | None => Some (RBad, w)
      | Some _ => Some (ROk, set_tx None w)
      end
  | PGet id => Some (RBad, w)   (* handled by [step] *)
  end.

(* T,id = GetPart + ReadAll + Close in one step, on a reserved handle number *)
Definition tmp_handle : nat := 99.
Definition step (o : op) (w : world) : option (res * world) :=
  match o with
  | PGet id =>
      match step1 (POpen tmp_handle id) w with
      | None => None
      | Some (ROpen _, w1) => step1 (OFinish tmp_handle) w1
      | Some (r, w1) => Some (r, w1)
      end
  | PGetF id f =>
      match step1 (POpenF tmp_handle id f) w with
      | None => None
      | Some (ROpen _, w1) => step1 (OFinish tmp_handle) w1
      | Some (r, w1) => Some (r, w1)
      end
  | PGetClose id n =>
      match step1 (POpen tmp_handle id) w with
      | None => None
      | Some (ROpen _, w1) =>
          match step1 (ORead tmp_handle n) w1 with
          | None => None
          | Some (r, w2) =>
              match step1 (OClose tmp_handle) w2 with
              | None => None
              | Some (_, w3) => Some (r, w3)
              end
          end
      | Some (r, w1) => Some (r, w1)
      end
  | PGetTx id =>
      match w_tx w with
      | None => Some (RBad, w)
      | Some _ =>
          match part_open_in true tmp_handle id FNone w with
          | None => None
          | Some (ROpen _, w1) => step1 (OFinish tmp_handle) w1
          | Some (r, w1) => Some (r, w1)
          end
      end
  | PGetCloseTx id n =>
      match w_tx w with
      | None => Some (RBad, w)
      | Some _ =>
          match part_open_in true tmp_handle id FNone w with
          | None => None
          | Some (ROpen _, w1) =>
              match step1 (ORead tmp_handle n) w1 with
              | None => None
              | Some (r, w2) =>
                  match step1 (OClose tmp_handle) w2 with
                  | None => None
                  | Some (_, w3) => Some (r, w3)
                  end
              end
          | Some (r, w1) => Some (r, w1)
          end
      end
  | _ => step1 o w
  end.

Fixpoint run (ops : list op) (w : world) : option (list res) :=
  match ops with
  | [] => Some []
  | o :: rest =>
      match step o w with
      | None => None
      | Some (r, w') => match run rest w' with None => None | Some rs => Some (r :: rs) end
      end
  end.

(* ---------- line protocol ----------
   input : <persistor m|f> <policy n|k<max>|s<max>> <maxpart> <op>;<op>;...
   op    : comma separated fields, first = letter. Values travel as (vid,len): byte i = (37*vid+11*i+1) mod 251.
           S,k,vid,len,hint  E,k,vid,len,n,hint  G,k  X,k  O,h,k  B,s,k,vid,len,hint  W,s,n  Z,s  Y,s
           R,h,n  F,h  C,h   P,id,vid,len  I,id,vid,len  D,id  Q,h,id  T,id
           real inner stores (first token mF|mS|fF|fS): TB  TP,id,vid,len  TD,id  TC  TR  Tt,id  Ttc,id,n  (+ the readers Q R F C T Tc)
           faults: Q,h,id,<n|e|r<k>|s<j>>  Tr,id,k  Ts,id,j  Te,id  Tc,id,n  Pf,id,vid,len  Df,id  Ps,id,vid,len,j
           hint = decimal or "m" for -1
   output: PANIC | results joined by ';' : ok bad miss nf  V<hex>  o<kind> ; T prints like F *)
Definition content (vid len : N) : bytes :=
  map (fun i => Nbyte ((37 * vid + 11 * N.of_nat i + 1) mod 251)) (seq 0 (N.to_nat len)).

Definition parse_hint (t : bytes) : option Z :=
  if bytes_eqb t B"m" then Some (-1)%Z else option_map Z.of_N (parse_N t).

Definition opt_bind {A C} (o : option A) (f : A -> option C) : option C :=
  match o with Some x => f x | None => None end.
Notation "'let?' x := e 'in' k" := (opt_bind e (fun x => k)) (at level 200, x pattern, e at level 100, k at level 200).

(* fault token: n | e | r<k> | s<j> *)
Definition parse_fault (t : bytes) : option fault :=
  match t with
  | c :: rest =>
      if beqb c "n"%byte then (match rest with [] => Some FNone | _ => None end)
      else if beqb c "e"%byte then (match rest with [] => Some FOpenErr | _ => None end)
      else if beqb c "r"%byte then option_map FReadFail (parse_nat rest)
      else if beqb c "s"%byte then option_map FStoreFail (parse_nat rest)
      else None
  | [] => None
  end.

Definition parse_op (t : bytes) : option op :=
  match split_on ","%byte t with
  | [c] =>
      if bytes_eqb c B"TB" then Some TBegin else if bytes_eqb c B"TC" then Some TCommit
      else if bytes_eqb c B"TR" then Some TRollback else None
  | [c; a1] =>
      if bytes_eqb c B"G" then Some (OGet a1)
      else if bytes_eqb c B"X" then Some (ORemove a1)
      else if bytes_eqb c B"Z" then let? s := parse_nat a1 in Some (OEof s)
      else if bytes_eqb c B"Y" then let? s := parse_nat a1 in Some (OErr s)
      else if bytes_eqb c B"F" then let? h := parse_nat a1 in Some (OFinish h)
      else if bytes_eqb c B"C" then let? h := parse_nat a1 in Some (OClose h)
      else if bytes_eqb c B"D" then Some (PDelete a1)
      else if bytes_eqb c B"T" then Some (PGet a1)
      else if bytes_eqb c B"Te" then Some (PGetF a1 FOpenErr)
      else if bytes_eqb c B"TD" then Some (TDelTx a1)
      else if bytes_eqb c B"Tt" then Some (PGetTx a1)
      else if bytes_eqb c B"Df" then Some (PDeleteFail a1)
      else None
  | [c; a1; a2] =>
      if bytes_eqb c B"O" then let? h := parse_nat a1 in Some (OOpen h a2)
      else if bytes_eqb c B"W" then let? s := parse_nat a1 in let? n := parse_nat a2 in Some (OFeed s n)
      else if bytes_eqb c B"R" then let? h := parse_nat a1 in let? n := parse_nat a2 in Some (ORead h n)
      else if bytes_eqb c B"Q" then let? h := parse_nat a1 in Some (POpen h a2)
      else if bytes_eqb c B"Tr" then let? k := parse_nat a2 in Some (PGetF a1 (FReadFail k))
      else if bytes_eqb c B"Ts" then let? j := parse_nat a2 in Some (PGetF a1 (FStoreFail j))
      else if bytes_eqb c B"Tc" then let? n := parse_nat a2 in Some (PGetClose a1 n)
      else if bytes_eqb c B"Ttc" then let? n := parse_nat a2 in Some (PGetCloseTx a1 n)
      else None
  | [c; a1; a2; a3] =>
      if bytes_eqb c B"P" then let? vid := parse_N a2 in let? len := parse_N a3 in Some (PPut a1 (content vid len))
      else if bytes_eqb c B"TP" then let? vid := parse_N a2 in let? len := parse_N a3 in Some (TPutTx a1 (content vid len))
      else if bytes_eqb c B"Pf" then let? vid := parse_N a2 in let? len := parse_N a3 in Some (PPutFail a1 (content vid len))
      else if bytes_eqb c B"Q" then let? h := parse_nat a1 in let? f := parse_fault a3 in Some (POpenF h a2 f)
      else if bytes_eqb c B"I" then let? vid := parse_N a2 in let? len := parse_N a3 in Some (PInner a1 (content vid len))
      else None
  | [c; a1; a2; a3; a4] =>
      if bytes_eqb c B"S" then
        let? vid := parse_N a2 in let? len := parse_N a3 in let? hint := parse_hint a4 in
        Some (OSet a1 (content vid len) hint)
      else if bytes_eqb c B"Ps" then
        let? vid := parse_N a2 in let? len := parse_N a3 in let? j := parse_nat a4 in
        Some (PPutStoreFail a1 (content vid len) j)
      else None
  | [c; a1; a2; a3; a4; a5] =>
      if bytes_eqb c B"E" then
        let? vid := parse_N a2 in let? len := parse_N a3 in let? n := parse_nat a4 in let? hint := parse_hint a5 in
        Some (OSetFail a1 (content vid len) n hint)
      else if bytes_eqb c B"B" then
        let? s := parse_nat a1 in let? vid := parse_N a3 in let? len := parse_N a4 in let? hint := parse_hint a5 in
        Some (OBegin s a2 (content vid len) hint)
      else None
  | _ => None
  end.

Definition parse_policy (t : bytes) : option policy :=
  match t with
  | c :: rest =>
      if beqb c "n"%byte then (match rest with [] => Some EvictNothing | _ => None end)
      else if beqb c "k"%byte then option_map (fun n => LfuKeys (Z.of_N n)) (parse_N rest)
      else if beqb c "s"%byte then option_map (fun n => LfuSize (Z.of_N n)) (parse_N rest)
      else None
  | [] => None
  end.
(* persistor letter, optionally followed by the real inner store: F(ilesystem) | S(ql) *)
Definition parse_kind (t : bytes) : option (pkind * ikind) :=
  match t with
  | [c] => if beqb c "m"%byte then Some (PMem, IDouble) else if beqb c "f"%byte then Some (PFs, IDouble) else None
  | [c; i] =>
      match (if beqb c "m"%byte then Some PMem else if beqb c "f"%byte then Some PFs else None),
            (if beqb i "F"%byte then Some IFs else if beqb i "S"%byte then Some ISql else None) with
      | Some k, Some ik => Some (k, ik)
      | _, _ => None
      end
  | _ => None
  end.

(* operations that exist only with the double / only with a real inner store *)
Definition double_only (o : op) : bool :=
  match o with
  | PPut _ _ | PInner _ _ | PDelete _ | PPutFail _ _ | PDeleteFail _ | PPutStoreFail _ _ _ => true
  | POpenF _ _ FNone | PGetF _ FNone => false
  | POpenF _ _ _ | PGetF _ _ => true
  | _ => false
  end.
Definition real_only (o : op) : bool :=
  match o with
  | TBegin | TPutTx _ _ | TDelTx _ | TCommit | TRollback | PGetTx _ | PGetCloseTx _ _ => true
  | _ => false
  end.

Definition show_res (r : res) : bytes :=
  match r with
  | ROk => B"ok" | RBad => B"bad" | RMiss => B"miss" | RNotFound => B"nf"
  | RVal v => "V"%byte :: tok_bytes v
  | RValErr v => "V"%byte :: tok_bytes v ++ B"!"
  | RErr => B"err" | RHang => B"HANG"
  | ROpen k => "o"%byte :: k
  end.

Definition run_line (l : bytes) : bytes :=
  match tokens l with
  | [kd; pl; mp; ops] =>
      do kdi <- parse_kind kd; do pl <- parse_policy pl; do mp <- parse_nat mp;
      do ops <- mapM parse_op (split_on ";"%byte ops);
      if match snd kdi with IDouble => existsb real_only ops | _ => existsb double_only ops end then parse_error else
      match run ops (w_init_i (fst kdi) pl mp (snd kdi)) with
      | None => B"PANIC"
      | Some rs => join B";" (map show_res rs)
      end
  | _ => parse_error
  end.
