(* Model/Fault.v — C03 case lines: M-META histories in which operations carry fault prefixes, and M-TX micro
   programs.  The prediction for a faulted operation is what Meta.v's [commit] wrapper says: an operation that
   reports an error has changed nothing.
     h <stack> op op ...      stack (fs|sql) selects the real part store; the model is the same for both
        A!op     op run with an injected error at every crossing up to and including the DB commit (each such
                 run answers an error and changes nothing), then normally: result and state are those of op
        P<j>!op  op run with an injected error in its j-th after-commit hook: the database has committed, so the
                 STATE is that of the successful op although the caller is told an error; only ok / the op's own
                 error is printed (whether a hook exists to fail is a property of the part store, not of M-META)
     tx ...                   see Model/Tx.v
   No proofs here. *)
From Verif Require Import Bytes Codec Md5 Meta Tx.

Inductive fop := FPlain (o : op) | FAll (o : op) | FPost (o : op).

Definition is_digit (b : byte) : bool := let n := byteN b in (48 <=? n)%N && (n <=? 57)%N.
Definition parse_fop (t : bytes) : option fop :=
  match split_first "!"%byte t with
  | Some (pre, rest) =>
      match pre with
      | c :: ds =>
          if beqb c "A"%byte && is_nil ds then option_map FAll (parse_op rest)
          else if beqb c "P"%byte && forallb is_digit ds then option_map FPost (parse_op rest)
          else None
      | [] => None
      end
  | None => option_map FPlain (parse_op t)
  end.

Definition is_err (r : res) : bool := match r with RErr _ => true | _ => false end.

Fixpoint frun_from (i : N) (hist : list res) (s : mstate) (ops : list fop) (out : list bytes) : mstate * list bytes :=
  match ops with
  | [] => (s, rev out)
  | FPlain o :: rest => let '(s', r) := step i hist s o in frun_from (i + 1) (r :: hist) s' rest (show_res r :: out)
  | FAll o :: rest => let '(s', r) := step i hist s o in
                      frun_from (i + 1) (r :: hist) s' rest ((B"A!" ++ show_res r) :: out)
  | FPost o :: rest => let '(s', r) := step i hist s o in
                       let r' := if is_err r then r else RErr OtherErr in
                       frun_from (i + 1) (r' :: hist) s' rest
                                 ((if is_err r then B"P!" ++ show_res r else B"P!ok") :: out)
  end.

Definition run_line (l : bytes) : bytes :=
  match tokens l with
  | kind :: rest =>
      if bytes_eqb kind B"tx" then run_tx_line rest
      else if bytes_eqb kind B"h" then
        match rest with
        | _stack :: ops =>
            match mapM parse_fop ops with
            | None => parse_error
            | Some fops => unwords (snd (frun_from 0 [] init fops []))
            end
        | [] => parse_error
        end
      else parse_error
  | [] => parse_error
  end.
