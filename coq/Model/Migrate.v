(* Model/Migrate.v — the storage migrator (internal/storage/migrator/migrator.go): MigrateStorage,
   determineMissingBuckets / createMissingBuckets, the per-bucket emptiness check and
   migrateSingleObject through the s3 manager uploader adapter, over an abstract S3 state:
   buckets (creation order) -> versioning flag + keys -> version stack (newest first) of objects and
   delete markers.  Field values are pool coordinates (numbers); 0 = absent.  No proofs here. *)
From Verif Require Import Bytes Codec.
Local Open Scope N_scope.

(* ---------- association lists keyed by N ---------- *)
Fixpoint aget {A} (k : N) (l : list (N * A)) : option A :=
  match l with
  | [] => None
  | (k', v) :: r => if k =? k' then Some v else aget k r
  end.
(* replace the first binding of k, or append a new binding at the end *)
Fixpoint aset {A} (k : N) (v : A) (l : list (N * A)) : list (N * A) :=
  match l with
  | [] => [(k, v)]
  | (k', v') :: r => if k =? k' then (k, v) :: r else (k', v') :: aset k v r
  end.
Definition amem {A} (k : N) (l : list (N * A)) : bool := match aget k l with Some _ => true | None => false end.

(* ---------- the abstract S3 state ---------- *)
Record meta := mkMeta { m_cc : N; m_cd : N; m_ce : N; m_cl : N; m_exp : N; m_wrl : N; m_um : list (N * N) }.
(* o_body: chunks (content id, length); o_np: 0 = single-part ETag, n > 0 = multipart ETag over n parts;
   o_cls: 0 = unset, 1 = STANDARD, >= 2 other classes *)
Record obj := mkObj { o_body : list (N * N); o_np : N; o_ct : N; o_meta : meta; o_tags : list (N * N); o_cls : N }.
Inductive ver := VObj (o : obj) | VDM.
Record bucket := mkB { b_ver : bool; b_keys : list (N * list ver) }.
Definition store := list (N * bucket).

Definition stack (b : bucket) (k : N) : list ver := match aget k (b_keys b) with Some s => s | None => [] end.
Definition cur (b : bucket) (k : N) : option obj := match stack b k with VObj o :: _ => Some o | _ => None end.
(* ListObjects: the keys whose newest version is an object *)
Definition cur_objs (b : bucket) : list (N * obj) :=
  flat_map (fun p => match snd p with VObj o :: _ => [(fst p, o)] | _ => [] end) (b_keys b).
(* PutObject / CompleteMultipartUpload into a bucket: a new version when versioning is enabled,
   replacement otherwise *)
Definition bput (b : bucket) (k : N) (o : obj) : bucket :=
  mkB (b_ver b) (aset k (if b_ver b then VObj o :: stack b k else [VObj o]) (b_keys b)).

(* ---------- migrateSingleObject ---------- *)
Definition part_size : N := 5242880.   (* manager.DefaultUploadPartSize *)
Definition body_size (b : list (N * N)) : N := fold_right (fun c a => snd c + a) 0 b.
(* Expires coordinate: 0 absent, else 1 + 5*t + form; form 0 = http.TimeFormat spelling of time t,
   1..3 = other spellings http.ParseTime accepts (RFC 850, asctime, wrong weekday name), 4 = not a date.
   parseExpires + objectMetadataFromSDKInput: parse, then print with http.TimeFormat; unparseable => dropped *)
Definition exp_norm (e : N) : N :=
  if e =? 0 then 0 else let r := (e - 1) mod 5 in if r =? 4 then 0 else e - r.
Definition mig_meta (m : meta) : meta :=
  mkMeta (m_cc m) (m_cd m) (m_ce m) (m_cl m) (exp_norm (m_exp m)) (m_wrl m) (m_um m).
(* the uploader sends bodies up to part_size through PutObject, larger ones as a multipart upload
   of ceil(size / part_size) parts; the storage class is never passed on *)
Definition mig_np (size : N) : N := if size <=? part_size then 0 else (size + part_size - 1) / part_size.
Definition mig_obj (o : obj) : obj :=
  mkObj (o_body o) (mig_np (body_size (o_body o))) (o_ct o) (mig_meta (o_meta o)) (o_tags o) 0.

(* the bucket copy / bucket loop / whole migration, parametrized by the per-object transfer function f
   (f = mig_obj between two local storages; see mig_obj_k for the other storage kinds) *)
Definition copy_all_f (f : obj -> obj) (sb db : bucket) : bucket :=
  fold_left (fun d p => bput d (fst p) (f (snd p))) (cur_objs sb) db.

(* ---------- MigrateStorage ---------- *)
Inductive merr := MOk | MNotEmpty | MNoSuchBucket.
Definition missing (src dst : store) : list N := filter (fun n => negb (amem n dst)) (map fst src).
Definition create_missing (dst : store) (names : list N) : store :=
  fold_left (fun d n => d ++ [(n, mkB false [])]) names dst.
Fixpoint mig_buckets_f (f : obj -> obj) (bs : list (N * bucket)) (dst : store) : store * merr :=
  match bs with
  | [] => (dst, MOk)
  | (n, sb) :: rest =>
      match aget n dst with
      | None => (dst, MNoSuchBucket)
      | Some db =>
          if is_nil (cur_objs db) then mig_buckets_f f rest (aset n (copy_all_f f sb db) dst)
          else (dst, MNotEmpty)
      end
  end.
Definition migrate_f (f : obj -> obj) (src dst : store) : store * merr :=
  mig_buckets_f f src (create_missing dst (missing src dst)).

(* local storage -> local storage *)
Definition copy_all := copy_all_f mig_obj.
Definition mig_buckets := mig_buckets_f mig_obj.
Definition migrate := migrate_f mig_obj.

(* ---------- storage kinds ---------- *)
(* a storage handed to MigrateStorage is a local MetadataPartStorage or an S3ClientStorage in front of
   a pithos server (whose backing storage holds the state of the model) *)
Inductive skind := KLocal | KClient.
Definition ct_octet : N := 4.   (* pool coordinate of "application/octet-stream" *)
(* what GetObject + GetObjectTagging report for an object: the stored body, content type (absent stays
   absent), metadata (raw Expires header included) and tags, for both kinds *)
Definition src_view (k : skind) (o : obj) : obj := o.
(* what the destination stores: PutObject through the client (bodies up to the part size) does not
   forward the tag set (C38-put-tags-lost) and the SDK sends "application/octet-stream" when no content
   type is given, which the server stores; CreateMultipartUpload (larger bodies) forwards tags and
   leaves an absent content type absent *)
Definition dst_store (k : skind) (o : obj) : obj :=
  match k with
  | KLocal => o
  | KClient => if o_np o =? 0
               then mkObj (o_body o) (o_np o) (if o_ct o =? 0 then ct_octet else o_ct o) (o_meta o) [] (o_cls o)
               else o
  end.
Definition mig_obj_k (sk dk : skind) (o : obj) : obj := dst_store dk (mig_obj (src_view sk o)).
Definition migrate_k (sk dk : skind) : store -> store -> store * merr := migrate_f (mig_obj_k sk dk).

Definition eff_cls (c : N) : N := if c =? 0 then 1 else c.

(* ---------- line protocol ---------- *)
Fixpoint pair_up (l : list N) : list (N * N) :=
  match l with a :: b :: r => (a, b) :: pair_up r | _ => [] end.
Definition parse_pairs (t : bytes) : option (list (N * N)) :=
  if bytes_eqb t B"-" then Some [] else option_map pair_up (mapM parse_N (split_on "."%byte t)).
Fixpoint ins {A} (k : N) (v : A) (l : list (N * A)) : list (N * A) :=
  match l with
  | [] => [(k, v)]
  | (k', v') :: r => if k <=? k' then (k, v) :: l else (k', v') :: ins k v r
  end.
Definition sortN {A} (l : list (N * A)) : list (N * A) := fold_right (fun p acc => ins (fst p) (snd p) acc) [] l.
Definition show_pairs_raw (l : list (N * N)) : bytes :=
  match l with [] => B"-" | _ => join B"." (flat_map (fun p => [show_N (fst p); show_N (snd p)]) l) end.
Definition show_pairs (l : list (N * N)) : bytes := show_pairs_raw (sortN l).
Fixpoint norm_body (b : list (N * N)) : list (N * N) :=
  match b with
  | [] => []
  | (c, n) :: r =>
      if n =? 0 then norm_body r else
      match norm_body r with
      | (c', n') :: r' => if c =? c' then (c, n + n') :: r' else (c, n) :: (c', n') :: r'
      | [] => [(c, n)]
      end
  end.

Definition parse_ver (t : bytes) : option ver :=
  if bytes_eqb t B"D" then Some VDM else
  match split_on ":"%byte t with
  | [o; body; np; ct; cc; cd; ce; cl; ex; wrl; um; tags; cls] =>
      if bytes_eqb o B"O" then
        match parse_pairs body, parse_N np, parse_N ct, parse_N cc, parse_N cd, parse_N ce with
        | Some body, Some np, Some ct, Some cc, Some cd, Some ce =>
            match parse_N cl, parse_N ex, parse_N wrl, parse_pairs um, parse_pairs tags, parse_N cls with
            | Some cl, Some ex, Some wrl, Some um, Some tags, Some cls =>
                Some (VObj (mkObj body np ct (mkMeta cc cd ce cl ex wrl um) tags cls))
            | _, _, _, _, _, _ => None
            end
        | _, _, _, _, _, _ => None
        end
      else None
  | _ => None
  end.
Definition show_ver (v : ver) : bytes :=
  match v with
  | VDM => B"D"
  | VObj o =>
      let m := o_meta o in
      join B":" [B"O"; show_pairs_raw (norm_body (o_body o)); show_N (o_np o); show_N (o_ct o); show_N (m_cc m); show_N (m_cd m);
                 show_N (m_ce m); show_N (m_cl m); show_N (m_exp m); show_N (m_wrl m); show_pairs (m_um m);
                 show_pairs (o_tags o); show_N (o_cls o)]
  end.

(* versions: the line lists them oldest first, the stack is newest first *)
Fixpoint p_vers (l : list bytes) (acc : list ver) : list ver * list bytes :=
  match l with
  | t :: l' => match parse_ver t with Some v => p_vers l' (v :: acc) | None => (acc, l) end
  | [] => (acc, [])
  end.
Fixpoint p_keys (fuel : nat) (l : list bytes) : list (N * list ver) * list bytes :=
  match fuel with
  | O => ([], l)
  | S f =>
      match l with
      | k :: kid :: nv :: l' =>
          if bytes_eqb k B"K" then
            match parse_N kid with
            | Some kn => let (vs, r) := p_vers l' [] in
                         let (ks, r') := p_keys f r in ((kn, vs) :: ks, r')
            | None => ([], l)
            end
          else ([], l)
      | _ => ([], l)
      end
  end.
Fixpoint p_buckets (fuel : nat) (l : list bytes) : list (N * bucket) * list bytes :=
  match fuel with
  | O => ([], l)
  | S f =>
      match l with
      | b :: name :: v :: nk :: l' =>
          if bytes_eqb b B"B" then
            match parse_N name with
            | Some n => let (ks, r) := p_keys (length l') l' in
                        let (bs, r') := p_buckets f r in
                        ((n, mkB (bytes_eqb v B"1") ks) :: bs, r')
            | None => ([], l)
            end
          else ([], l)
      | _ => ([], l)
      end
  end.
Definition p_store (l : list bytes) : option (store * list bytes) :=
  match l with
  | s :: nb :: l' => if bytes_eqb s B"S" then Some (p_buckets (length l') l') else None
  | _ => None
  end.

Definition show_bucket (p : N * bucket) : list bytes :=
  let ks := sortN (filter (fun q => negb (is_nil (snd q))) (b_keys (snd p))) in
  [B"B"; show_N (fst p); show_bool (b_ver (snd p)); show_nat (length ks)] ++
  flat_map (fun q => [B"K"; show_N (fst q); show_nat (length (snd q))] ++ map show_ver (snd q)) ks.
Definition show_store (s : store) : bytes :=
  unwords ([B"S"; show_nat (length s)] ++ flat_map show_bucket (sortN s)).
Definition show_err (e : merr) : bytes :=
  match e with MOk => B"Ok" | MNotEmpty => B"NotEmpty" | MNoSuchBucket => B"NoSuchBucket" end.

Definition run_line (line : bytes) : bytes :=
  match tokens line with
  | m :: rest =>
      do kinds <- (if bytes_eqb m B"M" then Some (KLocal, KLocal)
                   else if bytes_eqb m B"Ms" then Some (KClient, KLocal)
                   else if bytes_eqb m B"Md" then Some (KLocal, KClient)
                   else if bytes_eqb m B"Msd" then Some (KClient, KClient)
                   else None);
      do (src, r1) <- p_store rest;
      do (dst, r2) <- p_store r1;
      match r2 with
      | [] => let (d, e) := migrate_k (fst kinds) (snd kinds) src dst in unwords [show_err e; show_store d]
      | _ => parse_error
      end
  | [] => parse_error
  end.
