(* Model/Authz.v — executable model of the request routing and of the order of authorizer and
   storage calls in every HTTP handler of internal/http/server (server.go mux patterns, the
   query/header dispatch functions, protocol.go authorizeRequest/authorizeCopyRequest, the
   list/multi-delete per-item hooks, website.go websitePrepare/serve*, isReadOnly of the Lua
   authorizer).  A handler is a small program of steps; its execution against an arbitrary
   authorizer decision function and an arbitrary environment (storage outcomes, request
   validity, listed items) yields a trace of events.  No proofs here. *)
From Verif Require Import Bytes Codec.

(* ---------- operation names (authorization.go) ---------- *)
Inductive op :=
| OListBuckets | OHeadBucket | OListMultipartUploads | OListObjects | OCreateBucket | ODeleteBucket
| OHeadObject | OHeadObjectVersion | OListParts | OGetObject | OGetObjectVersion
| OCreateMultipartUpload | OCompleteMultipartUpload | OUploadPart | OUploadPartCopy | OPutObject
| OCopyObject | OAppendObject | OAbortMultipartUpload | ODeleteObject | ODeleteObjectVersion
| ODeleteObjects | OGetBucketCORS | OPutBucketCORS | ODeleteBucketCORS | OGetBucketWebsite
| OPutBucketWebsite | ODeleteBucketWebsite | OGetBucketVersioning | OPutBucketVersioning
| OListObjectVersions | OGetObjectTagging | OPutObjectTagging | ODeleteObjectTagging
| OGetObjectVersionTagging | OPutObjectVersionTagging | ODeleteObjectVersionTagging
| OGetBucketLifecycle | OPutBucketLifecycle | ODeleteBucketLifecycle
| OGetBucketNotification | OPutBucketNotification.

Definition op_name (o : op) : bytes :=
  match o with
  | OListBuckets => B"ListBuckets" | OHeadBucket => B"HeadBucket"
  | OListMultipartUploads => B"ListMultipartUploads" | OListObjects => B"ListObjects"
  | OCreateBucket => B"CreateBucket" | ODeleteBucket => B"DeleteBucket"
  | OHeadObject => B"HeadObject" | OHeadObjectVersion => B"HeadObjectVersion"
  | OListParts => B"ListParts" | OGetObject => B"GetObject" | OGetObjectVersion => B"GetObjectVersion"
  | OCreateMultipartUpload => B"CreateMultipartUpload"
  | OCompleteMultipartUpload => B"CompleteMultipartUpload" | OUploadPart => B"UploadPart"
  | OUploadPartCopy => B"UploadPartCopy" | OPutObject => B"PutObject" | OCopyObject => B"CopyObject"
  | OAppendObject => B"AppendObject" | OAbortMultipartUpload => B"AbortMultipartUpload"
  | ODeleteObject => B"DeleteObject" | ODeleteObjectVersion => B"DeleteObjectVersion"
  | ODeleteObjects => B"DeleteObjects" | OGetBucketCORS => B"GetBucketCORS"
  | OPutBucketCORS => B"PutBucketCORS" | ODeleteBucketCORS => B"DeleteBucketCORS"
  | OGetBucketWebsite => B"GetBucketWebsite" | OPutBucketWebsite => B"PutBucketWebsite"
  | ODeleteBucketWebsite => B"DeleteBucketWebsite" | OGetBucketVersioning => B"GetBucketVersioning"
  | OPutBucketVersioning => B"PutBucketVersioning" | OListObjectVersions => B"ListObjectVersions"
  | OGetObjectTagging => B"GetObjectTagging" | OPutObjectTagging => B"PutObjectTagging"
  | ODeleteObjectTagging => B"DeleteObjectTagging"
  | OGetObjectVersionTagging => B"GetObjectVersionTagging"
  | OPutObjectVersionTagging => B"PutObjectVersionTagging"
  | ODeleteObjectVersionTagging => B"DeleteObjectVersionTagging"
  | OGetBucketLifecycle => B"GetBucketLifecycle" | OPutBucketLifecycle => B"PutBucketLifecycle"
  | ODeleteBucketLifecycle => B"DeleteBucketLifecycle"
  | OGetBucketNotification => B"GetBucketNotification"
  | OPutBucketNotification => B"PutBucketNotification"
  end.

(* luaauthorizer.go isReadOnly: the first case list; everything else (second list and the
   operations in neither list) is "not read-only" *)
Definition is_read_only (o : op) : bool :=
  match o with
  | OListBuckets | OHeadBucket | OHeadObject | OHeadObjectVersion | OListMultipartUploads
  | OListObjects | OListParts | OGetObject | OGetObjectVersion | OGetBucketWebsite | OGetBucketCORS
  | OGetBucketNotification | OGetObjectTagging | OGetObjectVersionTagging => true
  | _ => false
  end.

(* ---------- storage methods (storage.Storage) reachable from the handlers ---------- *)
Inductive smeth :=
| MListBuckets | MHeadBucket | MCreateBucket | MDeleteBucket
| MGetBucketVersioning | MPutBucketVersioning
| MGetBucketWebsite | MPutBucketWebsite | MDeleteBucketWebsite
| MGetBucketCORS | MPutBucketCORS | MDeleteBucketCORS
| MGetBucketLifecycle | MPutBucketLifecycle | MDeleteBucketLifecycle
| MGetBucketNotification | MPutBucketNotification
| MListObjects | MListObjectVersions | MHeadObject | MGetObject | MPutObject | MCopyObject
| MAppendObject | MDeleteObject | MDeleteObjects
| MCreateMultipartUpload | MUploadPart | MUploadPartCopy | MCompleteMultipartUpload
| MAbortMultipartUpload | MListMultipartUploads | MListParts
| MGetObjectTagging | MPutObjectTagging | MDeleteObjectTagging.

Definition smeth_name (m : smeth) : bytes :=
  match m with
  | MListBuckets => B"ListBuckets" | MHeadBucket => B"HeadBucket" | MCreateBucket => B"CreateBucket"
  | MDeleteBucket => B"DeleteBucket"
  | MGetBucketVersioning => B"GetBucketVersioningConfiguration"
  | MPutBucketVersioning => B"PutBucketVersioningConfiguration"
  | MGetBucketWebsite => B"GetBucketWebsiteConfiguration"
  | MPutBucketWebsite => B"PutBucketWebsiteConfiguration"
  | MDeleteBucketWebsite => B"DeleteBucketWebsiteConfiguration"
  | MGetBucketCORS => B"GetBucketCORSConfiguration" | MPutBucketCORS => B"PutBucketCORSConfiguration"
  | MDeleteBucketCORS => B"DeleteBucketCORSConfiguration"
  | MGetBucketLifecycle => B"GetBucketLifecycleConfiguration"
  | MPutBucketLifecycle => B"PutBucketLifecycleConfiguration"
  | MDeleteBucketLifecycle => B"DeleteBucketLifecycleConfiguration"
  | MGetBucketNotification => B"GetBucketNotificationConfiguration"
  | MPutBucketNotification => B"PutBucketNotificationConfiguration"
  | MListObjects => B"ListObjects" | MListObjectVersions => B"ListObjectVersions"
  | MHeadObject => B"HeadObject" | MGetObject => B"GetObject" | MPutObject => B"PutObject"
  | MCopyObject => B"CopyObject" | MAppendObject => B"AppendObject" | MDeleteObject => B"DeleteObject"
  | MDeleteObjects => B"DeleteObjects" | MCreateMultipartUpload => B"CreateMultipartUpload"
  | MUploadPart => B"UploadPart" | MUploadPartCopy => B"UploadPartCopy"
  | MCompleteMultipartUpload => B"CompleteMultipartUpload"
  | MAbortMultipartUpload => B"AbortMultipartUpload" | MListMultipartUploads => B"ListMultipartUploads"
  | MListParts => B"ListParts" | MGetObjectTagging => B"GetObjectTagging"
  | MPutObjectTagging => B"PutObjectTagging" | MDeleteObjectTagging => B"DeleteObjectTagging"
  end.

(* a storage method that changes stored state *)
Definition mutating (m : smeth) : bool :=
  match m with
  | MCreateBucket | MDeleteBucket | MPutBucketVersioning | MPutBucketWebsite | MDeleteBucketWebsite
  | MPutBucketCORS | MDeleteBucketCORS | MPutBucketLifecycle | MDeleteBucketLifecycle
  | MPutBucketNotification | MPutObject | MCopyObject | MAppendObject | MDeleteObject | MDeleteObjects
  | MCreateMultipartUpload | MUploadPart | MUploadPartCopy | MCompleteMultipartUpload
  | MAbortMultipartUpload | MPutObjectTagging | MDeleteObjectTagging => true
  | _ => false
  end.

(* a storage method that hands out object data or per-object metadata *)
Definition reads_object (m : smeth) : bool :=
  match m with MGetObject | MHeadObject | MGetObjectTagging => true | _ => false end.

(* SPEC: which operation names cover which storage effect (written from the S3 action names, not
   from the handlers): a call of [m] is legitimate only under one of these operations *)
Definition covers (o : op) (m : smeth) : bool :=
  match m, o with
  | MListBuckets, OListBuckets | MHeadBucket, OHeadBucket | MCreateBucket, OCreateBucket
  | MDeleteBucket, ODeleteBucket
  | MGetBucketVersioning, OGetBucketVersioning | MPutBucketVersioning, OPutBucketVersioning
  | MGetBucketWebsite, OGetBucketWebsite | MPutBucketWebsite, OPutBucketWebsite
  | MDeleteBucketWebsite, ODeleteBucketWebsite
  | MGetBucketCORS, OGetBucketCORS | MPutBucketCORS, OPutBucketCORS | MDeleteBucketCORS, ODeleteBucketCORS
  | MGetBucketLifecycle, OGetBucketLifecycle | MPutBucketLifecycle, OPutBucketLifecycle
  | MDeleteBucketLifecycle, ODeleteBucketLifecycle
  | MGetBucketNotification, OGetBucketNotification | MPutBucketNotification, OPutBucketNotification
  | MListObjects, OListObjects | MListObjectVersions, OListObjectVersions
  | MHeadObject, OHeadObject | MHeadObject, OHeadObjectVersion
  | MHeadObject, OGetObject                 (* website: existence probe under GetObject *)
  | MGetObject, OGetObject | MGetObject, OGetObjectVersion
  | MPutObject, OPutObject | MCopyObject, OCopyObject | MAppendObject, OAppendObject
  | MDeleteObject, ODeleteObject | MDeleteObject, ODeleteObjectVersion
  | MDeleteObjects, ODeleteObjects
  | MCreateMultipartUpload, OCreateMultipartUpload | MUploadPart, OUploadPart
  | MUploadPartCopy, OUploadPartCopy | MCompleteMultipartUpload, OCompleteMultipartUpload
  | MAbortMultipartUpload, OAbortMultipartUpload | MListMultipartUploads, OListMultipartUploads
  | MListParts, OListParts
  | MGetObjectTagging, OGetObjectTagging | MGetObjectTagging, OGetObjectVersionTagging
  | MPutObjectTagging, OPutObjectTagging | MPutObjectTagging, OPutObjectVersionTagging
  | MDeleteObjectTagging, ODeleteObjectTagging | MDeleteObjectTagging, ODeleteObjectVersionTagging => true
  | _, _ => false
  end.

(* per-item hooks (authorization.RequestResourceAuthorizer) *)
Inductive hook := HListBucket | HListObject | HDeleteEntry | HListUpload | HListPart.
Definition hook_name (h : hook) : bytes :=
  match h with
  | HListBucket => B"ListBucket" | HListObject => B"ListObject" | HDeleteEntry => B"DeleteObjectEntry"
  | HListUpload => B"ListMultipartUpload" | HListPart => B"ListPart"
  end.

(* ---------- request shape ---------- *)
Inductive meth := GET | HEAD | PUT | POST | DELETE | OPTIONS | OTHER.
Inductive host := Api | Web.
Inductive pkind := PRoot | PBucket | PObject.

Record qflags := {
  q_versioning : bool; q_versions : bool; q_cors : bool; q_lifecycle : bool; q_notification : bool;
  q_website : bool; q_uploads : bool; q_uploadId : bool; q_partNumber : bool; q_list2 : bool;
  q_delete : bool; q_append : bool; q_tagging : bool; q_versionId : bool }.

Record shape := { s_host : host; s_meth : meth; s_path : pkind; s_q : qflags; s_copy : bool (* x-amz-copy-source non-empty *) }.

(* ---------- handler programs ---------- *)
Inductive target := TNone | TBucket | TObject | TCopy.   (* what the call names: nothing / bucket / bucket+key / source+destination *)

Inductive step :=
| VBucket                      (* storage.NewBucketName(path bucket); failure -> error response *)
| VKey                         (* storage.NewObjectKey(path key) *)
| VCopySource                  (* parseCopySource + NewBucketName/NewObjectKey of the source *)
| Check                        (* request-content validation after authorization (body, ids, headers) *)
| VMaxParts                    (* listParts: max-parts outside 0..1000 -> 400 *)
| VSelfCopy                    (* copyObject: source = destination without any change requested -> 400 *)
| Fail (code : N)              (* shape-determined rejection *)
| Auth (o : op) (t : target)
| Call (m : smeth) (t : target)
| ListOnce (m : smeth) (t : target) (h : option hook)    (* one listing call, items filtered by h *)
| ListLoop (m : smeth) (t : target) (h : hook)           (* the listAndFilter* refetch loops *)
| DeleteEntries.               (* multi-delete: per entry key validation, hook, one DeleteObjects call *)

Inductive handler :=
| HSteps (l : list step) (ok : N)     (* run the steps; success status *)
| HWebsite (o : op) (m : smeth)       (* website.go flow: authorize o, serve with m *)
| HStatus (code : N).                 (* answered without touching authorizer or storage *)

Definition obj (o ov : op) (q : qflags) : op := if q_versionId q then ov else o.

Definition bucket_get o m := HSteps [VBucket; Auth o TBucket; Call m TBucket] 200.
Definition bucket_put o m := HSteps [VBucket; Auth o TBucket; Check; Call m TBucket] 200.
Definition bucket_del o m := HSteps [VBucket; Auth o TBucket; Call m TBucket] 204.
Definition object_h (pre : list step) (o : op) (post : list step) (ok : N) : handler :=
  HSteps ([VBucket; VKey] ++ pre ++ [Auth o TObject] ++ post) ok.

(* server.go mux + routeBucketGet/Put/DeleteHandler, postBucketHandler, getObjectOrListParts,
   createMultipartUploadOrComplete..., uploadPartOrPutObject, abortMultipartUploadOrDeleteObject *)
Definition route (s : shape) : handler :=
  let q := s_q s in
  match s_host s with
  | Web =>
      match s_meth s with
      | GET => HWebsite OGetObject MGetObject
      | HEAD => HWebsite OHeadObject MHeadObject
      | _ => HStatus 405
      end
  | Api =>
      match s_path s, s_meth s with
      | PRoot, (GET | HEAD) => HSteps [Auth OListBuckets TNone; ListOnce MListBuckets TNone (Some HListBucket)] 200
      | PRoot, _ => HStatus 405
      | PBucket, HEAD => HSteps [VBucket; Auth OHeadBucket TBucket; Call MHeadBucket TBucket] 200
      | PBucket, GET =>
          if q_versioning q then bucket_get OGetBucketVersioning MGetBucketVersioning
          else if q_versions q then HSteps [VBucket; Auth OListObjectVersions TBucket; ListOnce MListObjectVersions TBucket None] 200
          else if q_cors q then bucket_get OGetBucketCORS MGetBucketCORS
          else if q_lifecycle q then bucket_get OGetBucketLifecycle MGetBucketLifecycle
          else if q_notification q then bucket_get OGetBucketNotification MGetBucketNotification
          else if q_website q then bucket_get OGetBucketWebsite MGetBucketWebsite
          else if q_uploads q then HSteps [VBucket; Auth OListMultipartUploads TBucket; ListLoop MListMultipartUploads TBucket HListUpload] 200
          else HSteps [VBucket; Auth OListObjects TBucket; ListLoop MListObjects TBucket HListObject] 200
      | PBucket, PUT =>
          if q_versioning q then bucket_put OPutBucketVersioning MPutBucketVersioning
          else if q_cors q then bucket_put OPutBucketCORS MPutBucketCORS
          else if q_lifecycle q then bucket_put OPutBucketLifecycle MPutBucketLifecycle
          else if q_notification q then bucket_put OPutBucketNotification MPutBucketNotification
          else if q_website q then bucket_put OPutBucketWebsite MPutBucketWebsite
          else HSteps [VBucket; Auth OCreateBucket TBucket; Call MCreateBucket TBucket] 200
      | PBucket, DELETE =>
          if q_cors q then bucket_del ODeleteBucketCORS MDeleteBucketCORS
          else if q_lifecycle q then bucket_del ODeleteBucketLifecycle MDeleteBucketLifecycle
          else if q_website q then bucket_del ODeleteBucketWebsite MDeleteBucketWebsite
          else bucket_del ODeleteBucket MDeleteBucket
      | PBucket, POST =>
          if q_delete q then HSteps [VBucket; Auth ODeleteObjects TBucket; Check; DeleteEntries] 200
          else HStatus 405
      | PBucket, (OPTIONS | OTHER) => HStatus 405
      | PObject, HEAD => object_h [] (obj OHeadObject OHeadObjectVersion q) [Call MHeadObject TObject] 200
      | PObject, GET =>
          if q_uploadId q then object_h [] OListParts [Check; VMaxParts; ListLoop MListParts TObject HListPart] 200
          else if q_tagging q then object_h [] (obj OGetObjectTagging OGetObjectVersionTagging q) [Call MGetObjectTagging TObject] 200
          else object_h [] (obj OGetObject OGetObjectVersion q) [Check; Call MGetObject TObject] 200
      | PObject, POST =>
          if q_uploads q then object_h [] OCreateMultipartUpload [Check; Call MCreateMultipartUpload TObject] 200
          else if q_uploadId q then object_h [] OCompleteMultipartUpload [Check; Call MCompleteMultipartUpload TObject] 200
          else HStatus 404
      | PObject, PUT =>
          if q_uploadId q || q_partNumber q then
            let both := q_uploadId q && q_partNumber q in
            if s_copy s then
              HSteps ([VBucket; VKey; VCopySource; Auth OUploadPartCopy TCopy]
                      ++ (if both then [Check; Call MUploadPartCopy TCopy] else [Fail 400])) 200
            else
              object_h [] OUploadPart (if q_uploadId q then (if q_partNumber q then [Check; Call MUploadPart TObject] else [Check; Fail 400]) else [Fail 500]) 200
          else if s_copy s then
            HSteps [VBucket; VKey; VCopySource; Auth OCopyObject TCopy; Check; VSelfCopy; Call MCopyObject TCopy] 200
          else if q_append q then object_h [] OAppendObject [Check; Call MAppendObject TObject] 200
          else if q_tagging q then object_h [] (obj OPutObjectTagging OPutObjectVersionTagging q) [Check; Call MPutObjectTagging TObject] 200
          else object_h [] OPutObject [Check; Call MPutObject TObject] 200
      | PObject, DELETE =>
          if q_uploadId q then object_h [] OAbortMultipartUpload [Check; Call MAbortMultipartUpload TObject] 204
          else if q_tagging q then object_h [] (obj ODeleteObjectTagging ODeleteObjectVersionTagging q) [Call MDeleteObjectTagging TObject] 204
          else object_h [] (obj ODeleteObject ODeleteObjectVersion q) [Call MDeleteObject TObject] 204
      | PObject, (OPTIONS | OTHER) => HStatus 405
      end
  end.

(* ---------- environment: everything a run depends on besides the shape ---------- *)
Inductive outcome := ROk | RNotFound | RErr.
Inductive wcfg := WPlain | WRedirAll | WRuleAll | WRule404 | WNoCfg | WErr.
Inductive wobj := WOOk | WORedir | WONf | WOErr.
Inductive werr := WENone | WEOk | WENf.

Record env := {
  e_bucket : bytes;          (* path bucket *)
  e_key : bytes;             (* path key (decoded) *)
  e_copysrc : bytes;         (* raw x-amz-copy-source value *)
  e_valid : bool;            (* request content passes the post-authorization validations *)
  e_main : outcome;          (* outcome of the principal storage call *)
  e_items : list bytes;      (* items the listing call has to offer / keys of the multi-delete body *)
  e_max : N;                 (* max-keys / max-uploads / max-parts query value, 0 = absent *)
  e_authd : bool;            (* request carries an authenticated identity: deny => 403, else 401 *)
  e_origin : bool;           (* Origin header present: the CORS middleware resolves the bucket's rules *)
  e_wcfg : wcfg; e_wobj : wobj; e_widx : bool; e_werr : werr
}.

(* authorizer input, as far as the properties need it (authorization.Request) *)
Record areq := { a_op : op; a_bucket : option bytes; a_key : option bytes;
                 a_srcb : option bytes; a_srck : option bytes }.

Inductive event :=
| EAuth (r : areq) (allowed : bool)
| ECall (m : smeth) (b k sb sk : option bytes) (keys : list bytes)
| EItem (h : hook) (base : areq) (item : bytes) (allowed : bool)
| EResp (code : N) (items : list bytes).

(* ---------- name validation (metadatastore/bucketname.go, objectkey.go), ASCII ---------- *)
Definition is_lower_alnum (b : byte) : bool :=
  let n := byteN b in ((97 <=? n)%N && (n <=? 122)%N) || ((48 <=? n)%N && (n <=? 57)%N).
Definition is_digit (b : byte) : bool := let n := byteN b in (48 <=? n)%N && (n <=? 57)%N.
Definition bn_char (b : byte) : bool := is_lower_alnum b || beqb b "."%byte || beqb b "-"%byte.

Fixpoint contains (p v : bytes) : bool :=
  is_prefix p v || match v with [] => false | _ :: v' => contains p v' end.

(* net.ParseIP on a string of bucket-name characters: only dotted-quad IPv4 can parse *)
Definition ipv4_field (f : bytes) : bool :=
  match f with
  | [] => false
  | [d] => is_digit d
  | d :: _ => forallb is_digit f && negb (beqb d "0"%byte) && (length f <=? 3)
              && match parse_N f with Some n => (n <=? 255)%N | None => false end
  end.
Definition is_ipv4 (s : bytes) : bool :=
  match split_on "."%byte s with
  | [a; b; c; d] => ipv4_field a && ipv4_field b && ipv4_field c && ipv4_field d
  | _ => false
  end.

Definition last_byte (s : bytes) : option byte := match rev s with [] => None | b :: _ => Some b end.
Definition label_ok (l : bytes) : bool :=
  match l with
  | [] => false
  | c :: _ => is_lower_alnum c && match last_byte l with Some e => is_lower_alnum e | None => false end
              && forallb (fun b => is_lower_alnum b || beqb b "-"%byte) l
  end.

Definition bucket_valid (s : bytes) : bool :=
  (3 <=? length s) && (length s <=? 63)
  && forallb bn_char s
  && match s with c :: _ => is_lower_alnum c | [] => false end
  && match last_byte s with Some e => is_lower_alnum e | None => false end
  && negb (is_ipv4 s)
  && negb (is_prefix B"xn--" s) && negb (is_prefix B"sthree-" s)
  && negb (is_suffix B"-s3alias" s) && negb (is_suffix B"--ol-s3" s)
  && negb (contains B"--" s) && negb (contains B".-" s) && negb (contains B"-." s)
  && forallb label_ok (split_on "."%byte s).

Definition key_valid (k : bytes) : bool := negb (is_empty k) && (length k <=? 1024).

(* ---------- copy.go parseCopySource ---------- *)
Fixpoint pct_decode (fuel : nat) (s : bytes) : option bytes :=
  match fuel with
  | O => Some []
  | S f =>
    match s with
    | [] => Some []
    | c :: rest =>
        if beqb c "%"%byte then
          match rest with
          | h :: l :: rest' =>
              match hex_val h, hex_val l, pct_decode f rest' with
              | Some a, Some b, Some r => Some (Nbyte (16 * a + b) :: r)
              | _, _, _ => None
              end
          | _ => None
          end
        else match pct_decode f rest with Some r => Some (c :: r) | None => None end
    end
  end.

Definition query_ok (q : bytes) : bool :=
  negb (existsb (fun b => beqb b ";"%byte) q)
  && match pct_decode (S (length q)) q with Some _ => true | None => false end.

(* Some (bucket, key) when the header parses (no validation of the names yet) *)
Definition parse_copy_source (v : bytes) : option (bytes * bytes) :=
  match v with
  | [] => None
  | _ =>
    let '(path, qok) := match split_first "?"%byte v with
                        | Some (p, q) => (p, query_ok q)
                        | None => (v, true)
                        end in
    if negb qok then None else
    let path := match path with c :: r => if beqb c "/"%byte then r else path | [] => path end in
    match split_first "/"%byte path with
    | Some (b, k) =>
        if is_empty b || is_empty k then None
        else match pct_decode (S (length k)) k with Some k' => Some (b, k') | None => None end
    | None => None
    end
  end.

(* ---------- execution ---------- *)
Section Exec.
  Variable decide : areq -> bool.
  Variable decide_item : hook -> areq -> bytes -> bool.
  Variable e : env.

  Definition denied_code : N := if e_authd e then 403 else 401.
  Definition out_code (o : outcome) (ok : N) : N :=
    match o with ROk => ok | RNotFound => 404 | RErr => 500 end.

  Definition src : option (bytes * bytes) := parse_copy_source (e_copysrc e).
  Definition mk_req (o : op) (t : target) : areq :=
    match t with
    | TNone => {| a_op := o; a_bucket := None; a_key := None; a_srcb := None; a_srck := None |}
    | TBucket => {| a_op := o; a_bucket := Some (e_bucket e); a_key := None; a_srcb := None; a_srck := None |}
    | TObject => {| a_op := o; a_bucket := Some (e_bucket e); a_key := Some (e_key e); a_srcb := None; a_srck := None |}
    | TCopy => {| a_op := o; a_bucket := Some (e_bucket e); a_key := Some (e_key e);
                  a_srcb := option_map fst src; a_srck := option_map snd src |}
    end.
  Definition mk_call (m : smeth) (t : target) (keys : list bytes) : event :=
    let r := mk_req OListBuckets t in ECall m (a_bucket r) (a_key r) (a_srcb r) (a_srck r) keys.

  Definition eff_max : N := if ((e_max e =? 0) || (1000 <? e_max e))%N then 1000%N else e_max e.

  (* scan one page: emit one hook event per item until [room] allowed items have been collected *)
  Fixpoint scan (h : hook) (base : areq) (page : list bytes) (room : nat) : list event * list bytes * bool :=
    match page with
    | [] => ([], [], false)
    | it :: rest =>
        let a := decide_item h base it in
        if a then
          match room with
          | S O | O => ([EItem h base it true], [it], true)         (* collected reaches max: stop *)
          | S room' => let '(ev, got, full) := scan h base rest room' in (EItem h base it true :: ev, it :: got, full)
          end
        else let '(ev, got, full) := scan h base rest room in (EItem h base it false :: ev, got, full)
    end.

  (* the listAndFilter* loops over a storage that offers [rest] after the current marker *)
  Fixpoint list_loop (fuel : nat) (m : smeth) (t : target) (h : hook) (base : areq)
           (rest : list bytes) (room : nat) : list event * list bytes :=
    match fuel with
    | O => ([], [])
    | S f =>
        let maxn := N.to_nat eff_max in
        let page := firstn maxn rest in
        let truncated := maxn <? length rest in
        let '(ev, got, full) := scan h base page room in
        let call := mk_call m t [] in
        if full then (call :: ev, got)
        else if negb truncated then (call :: ev, got)
        else let '(ev', got') := list_loop f m t h base (skipn maxn rest) (room - length got) in
             (call :: ev ++ ev', got ++ got')
    end.

  Fixpoint filter_once (h : hook) (base : areq) (items : list bytes) : list event * list bytes :=
    match items with
    | [] => ([], [])
    | it :: rest =>
        let a := decide_item h base it in
        let '(ev, got) := filter_once h base rest in
        (EItem h base it a :: ev, if a then it :: got else got)
    end.

  (* steps; [last] is the request of the last successful Auth (base request of the hooks) *)
  Fixpoint exec (l : list step) (ok : N) (last : areq) : list event :=
    match l with
    | [] => [EResp ok []]
    | st :: rest =>
        match st with
        | VBucket => if bucket_valid (e_bucket e) then exec rest ok last else [EResp 500 []]
        | VKey => if key_valid (e_key e) then exec rest ok last else [EResp 500 []]
        | VCopySource =>
            match src with
            | None => [EResp 400 []]
            | Some (sb, sk) => if bucket_valid sb && key_valid sk then exec rest ok last else [EResp 500 []]
            end
        | Check => if e_valid e then exec rest ok last else [EResp 400 []]
        | VMaxParts => if (1000 <? e_max e)%N then [EResp 400 []] else exec rest ok last
        | VSelfCopy =>
            match src with
            | Some (sb, sk) => if bytes_eqb sb (e_bucket e) && bytes_eqb sk (e_key e) then [EResp 400 []] else exec rest ok last
            | None => exec rest ok last
            end
        | Fail c => [EResp c []]
        | Auth o t =>
            let r := mk_req o t in
            if decide r then EAuth r true :: exec rest ok r else [EAuth r false; EResp denied_code []]
        | Call m t =>
            mk_call m t [] ::
            match e_main e with ROk => exec rest ok last | o => [EResp (out_code o ok) []] end
        | ListOnce m t h =>
            mk_call m t [] ::
            match e_main e with
            | ROk =>
                match h with
                | Some h => let '(ev, got) := filter_once h last (e_items e) in ev ++ [EResp ok got]
                | None => [EResp ok (e_items e)]
                end
            | o => [EResp (out_code o ok) []]
            end
        | ListLoop m t h =>
            match e_main e with
            | ROk => let '(ev, got) := list_loop (S (length (e_items e))) m t h last (e_items e) (N.to_nat eff_max) in
                     ev ++ [EResp ok got]
            | o => [mk_call m t []; EResp (out_code o ok) []]
            end
        | DeleteEntries =>
            if (1000 <? N.of_nat (length (e_items e)))%N then [EResp 400 []] else
            let valid := filter key_valid (e_items e) in
            let '(ev, got) := filter_once HDeleteEntry last valid in
            match got with
            | [] => ev ++ [EResp ok []]
            | _ => ev ++ [mk_call MDeleteObjects TBucket got;
                          match e_main e with ROk => EResp ok got | o => EResp (out_code o ok) [] end]
            end
        end
    end.

  (* website.go: websitePrepare + serveWebsiteGetObject/HeadObject + serveErrorDocument *)
  (* the index suffix of the configured website; a RedirectAllRequestsTo configuration has none *)
  Definition index_suffix : bytes := match e_wcfg e with WRedirAll => [] | _ => B"index.html" end.
  Definition errdoc_key := B"err.html".
  Definition resolve_key (k : bytes) : bytes :=
    if is_empty k || is_suffix B"/" k then k ++ index_suffix else k.

  Definition serve_error_document (is_get : bool) (b : bytes) : list event :=
    match e_werr e with
    | WENone => [EResp 404 []]
    | WEOk => [ECall MGetObject (Some b) (Some errdoc_key) None None [];
               EResp 404 (if is_get then [errdoc_key] else [])]
    | WENf => [ECall MGetObject (Some b) (Some errdoc_key) None None []; EResp 404 []]
    end.

  Definition website (o : op) (m : smeth) : list event :=
    let b := e_bucket e in
    if negb (bucket_valid b) then [EResp 400 []] else
    let is_get := match m with MGetObject => true | _ => false end in
    let cfg_ok := match e_wcfg e with WNoCfg | WErr => false | _ => true end in
    let resolved := resolve_key (e_key e) in
    let keyopt := if cfg_ok && key_valid resolved then Some resolved else None in
    let r := {| a_op := o; a_bucket := Some b; a_key := keyopt; a_srcb := None; a_srck := None |} in
    ECall MGetBucketWebsite (Some b) None None None [] ::
    if negb (decide r) then [EAuth r false; EResp denied_code []] else
    EAuth r true ::
    match e_wcfg e with
    | WNoCfg => [EResp 404 []]
    | WErr => [EResp 500 []]
    | WRedirAll => [EResp 301 []]
    | c =>
      match keyopt with
      | None => serve_error_document is_get b
      | Some rk =>
        match c with
        | WRuleAll => [EResp 301 []]
        | _ =>
          ECall m (Some b) (Some rk) None None [] ::
          match e_wobj e with
          | WOOk => [EResp 200 (match m with MGetObject => [rk] | _ => [] end)]
          | WORedir => [EResp 301 []]
          | WOErr => [EResp 500 []]
          | WONf =>
              let k := e_key e in
              let probe := negb (is_empty k) && negb (is_suffix B"/" k) && key_valid (k ++ B"/" ++ index_suffix) in
              (if probe then [ECall MHeadObject (Some b) (Some (k ++ B"/" ++ index_suffix)) None None []] else [])
              ++ (if probe && e_widx e then [EResp 302 []]
                  else match c with
                       | WRule404 => [EResp 301 []]
                       | _ => serve_error_document is_get b
                       end)
          end
        end
      end
    end.

  Definition no_req : areq := {| a_op := OListBuckets; a_bucket := None; a_key := None; a_srcb := None; a_srck := None |}.

  (* the CORS middleware (Origin header): resolveCORSRulesForRequest reads the bucket's CORS
     configuration before the handler runs — API host only *)
  Definition cors_prefix (s : shape) : list event :=
    match s_host s, s_path s with
    | Api, (PBucket | PObject) =>
        if e_origin e && bucket_valid (e_bucket e) then [ECall MGetBucketCORS (Some (e_bucket e)) None None None []] else []
    | _, _ => []
    end.

  Definition run_handler (h : handler) : list event :=
    match h with
    | HSteps l ok => exec l ok no_req
    | HWebsite o m => website o m
    | HStatus c => [EResp c []]
    end.

  Definition run (s : shape) : list event := cors_prefix s ++ run_handler (route s).
End Exec.

(* ---------- line protocol ----------
   input : <host A|W> <method> <path R|B|O> <qflags> <bucket> <key> <copysrc> <env> <authz>
     qflags : letters v V c l n w u i p 2 d a t I  (or "-")
     env    : valid authd origin main(ok|nf|err) max items wcfg wobj widx werr  joined by ','?? -> separate tokens
     authz  : A | D | T<seed>.<pct>
   output : events separated by ' ' *)
Definition has (c : byte) (s : bytes) : bool := existsb (fun b => beqb b c) s.
Definition parse_q (t : bytes) : qflags :=
  {| q_versioning := has "v"%byte t; q_versions := has "V"%byte t; q_cors := has "c"%byte t;
     q_lifecycle := has "l"%byte t; q_notification := has "n"%byte t; q_website := has "w"%byte t;
     q_uploads := has "u"%byte t; q_uploadId := has "i"%byte t; q_partNumber := has "p"%byte t;
     q_list2 := has "2"%byte t; q_delete := has "d"%byte t; q_append := has "a"%byte t;
     q_tagging := has "t"%byte t; q_versionId := has "I"%byte t |}.

Definition parse_meth (t : bytes) : meth :=
  if bytes_eqb t B"GET" then GET else if bytes_eqb t B"HEAD" then HEAD else if bytes_eqb t B"PUT" then PUT
  else if bytes_eqb t B"POST" then POST else if bytes_eqb t B"DELETE" then DELETE
  else if bytes_eqb t B"OPTIONS" then OPTIONS else OTHER.

(* the pseudo-random authorizer table shared with the Go harness *)
Definition mix (seed : N) (s : bytes) : N :=
  fold_left (fun acc b => ((acc * 131 + byteN b + 7) mod 1000003)%N) s (seed mod 1000003)%N.
Definition optb (o : option bytes) : bytes := match o with None => B"~" | Some v => "="%byte :: v end.
Definition req_string (r : areq) : bytes :=
  op_name (a_op r) ++ B"|" ++ optb (a_bucket r) ++ B"|" ++ optb (a_key r) ++ B"|" ++ optb (a_srcb r) ++ B"|" ++ optb (a_srck r).
Inductive program := PAllow | PDeny | PTable (seed pct : N).
Definition p_decide (p : program) (r : areq) : bool :=
  match p with
  | PAllow => true | PDeny => false
  | PTable seed pct => (pct <=? (mix seed (req_string r)) mod 100)%N
  end.
Definition p_decide_item (p : program) (h : hook) (base : areq) (item : bytes) : bool :=
  match p with
  | PAllow => true | PDeny => false
  | PTable seed pct => (pct <=? (mix seed (hook_name h ++ B"|" ++ optb (a_bucket base) ++ B"|" ++ item)) mod 100)%N
  end.

Definition parse_program (t : bytes) : option program :=
  if bytes_eqb t B"A" then Some PAllow else if bytes_eqb t B"D" then Some PDeny
  else match t with
       | c :: rest =>
           if beqb c "T"%byte then
             match split_first "."%byte rest with
             | Some (a, b) => match parse_N a, parse_N b with Some s, Some p => Some (PTable s p) | _, _ => None end
             | None => None
             end
           else None
       | [] => None
       end.

Definition tok_o (o : option bytes) : bytes := match o with None => B"~" | Some v => tok_bytes v end.
Definition show_req (r : areq) : bytes :=
  op_name (a_op r) ++ B":" ++ tok_o (a_bucket r) ++ B":" ++ tok_o (a_key r) ++ B":" ++ tok_o (a_srcb r) ++ B":" ++ tok_o (a_srck r).

(* with an invalid request body/headers the exact error status is not modelled: every status
   >= 400 other than 401/403 is printed as ERR (same canonicalisation in the harness) *)
Definition show_code (valid : bool) (c : N) : bytes :=
  if negb valid && (400 <=? c)%N && negb ((c =? 401) || (c =? 403))%N then B"ERR" else show_N c.

Definition show_event (valid : bool) (ev : event) : bytes :=
  match ev with
  | EAuth r a => B"A:" ++ show_req r ++ B":" ++ show_bool (is_read_only (a_op r)) ++ B":" ++ show_bool a
  | ECall m b k sb sk keys =>
      B"S:" ++ smeth_name m ++ B":" ++ tok_o b ++ B":" ++ tok_o k ++ B":" ++ tok_o sb ++ B":" ++ tok_o sk ++ B":" ++ tok_list keys
  | EItem h base it a => B"I:" ++ hook_name h ++ B":" ++ tok_bytes it ++ B":" ++ show_bool a
  | EResp c items => B"R:" ++ show_code valid c ++ B":" ++ tok_list items
  end.

Definition parse_outcome (t : bytes) : option outcome :=
  if bytes_eqb t B"ok" then Some ROk else if bytes_eqb t B"nf" then Some RNotFound
  else if bytes_eqb t B"err" then Some RErr else None.
Definition parse_wcfg (t : bytes) : option wcfg :=
  if bytes_eqb t B"plain" then Some WPlain else if bytes_eqb t B"redirall" then Some WRedirAll
  else if bytes_eqb t B"ruleall" then Some WRuleAll else if bytes_eqb t B"rule404" then Some WRule404
  else if bytes_eqb t B"nocfg" then Some WNoCfg else if bytes_eqb t B"err" then Some WErr else None.
Definition parse_wobj (t : bytes) : option wobj :=
  if bytes_eqb t B"ok" then Some WOOk else if bytes_eqb t B"redir" then Some WORedir
  else if bytes_eqb t B"nf" then Some WONf else if bytes_eqb t B"err" then Some WOErr else None.
Definition parse_werr (t : bytes) : option werr :=
  if bytes_eqb t B"none" then Some WENone else if bytes_eqb t B"ok" then Some WEOk
  else if bytes_eqb t B"nf" then Some WENf else None.

Definition run_line (l : bytes) : bytes :=
  match tokens l with
  | [h; m; p; q; b; k; cs; valid; authd; origin; main; mx; items; wc; wo; wi; we; prog] =>
      do hst <- (if bytes_eqb h B"A" then Some Api else if bytes_eqb h B"W" then Some Web else None);
      do pk <- (if bytes_eqb p B"R" then Some PRoot else if bytes_eqb p B"B" then Some PBucket
                else if bytes_eqb p B"O" then Some PObject else None);
      do b <- untok_bytes b; do k <- untok_bytes k; do cs <- untok_bytes cs;
      do valid <- parse_bool valid; do authd <- parse_bool authd; do origin <- parse_bool origin;
      do main <- parse_outcome main; do mx <- parse_N mx; do items <- untok_list items;
      do wc <- parse_wcfg wc; do wo <- parse_wobj wo; do wi <- parse_bool wi; do we <- parse_werr we;
      do prog <- parse_program prog;
      let s := {| s_host := hst; s_meth := parse_meth m; s_path := pk; s_q := parse_q q;
                  s_copy := negb (is_empty cs) |} in
      let e := {| e_bucket := b; e_key := k; e_copysrc := cs; e_valid := valid; e_main := main;
                  e_items := items; e_max := mx; e_authd := authd; e_origin := origin;
                  e_wcfg := wc; e_wobj := wo; e_widx := wi; e_werr := we |} in
      unwords (map (show_event valid) (run (p_decide prog) (p_decide_item prog) e s))
  | _ => parse_error
  end.
