(* Model/AuditLog.v — executable model of internal/auditlog:
   entry.go (Entry, CalculateHash), merkle.go, validation.go (Validator), serialization/binary.go
   (byte level) and serialization/json.go (at the level of the Go structs handed to / received
   from encoding/json: which keys are present, hex strings, version dependent layout).
   SHA-512 and signature verification are parameters.  No proofs here. *)
From Verif Require Import Bytes Codec.
Local Open Scope N_scope.

(* ---------------------------------------------------------------- entries *)
Record logd := {
  l_op : bytes; l_phase : bytes;
  l_bucket : bytes; l_key : bytes; l_upload : bytes; l_part : Z; l_srcb : bytes; l_srck : bytes;
  l_cred : bytes; l_auth : bytes;
  l_reqid : bytes; l_trace : bytes; l_ip : bytes;
  l_status : Z; l_outcome : bytes; l_errcode : bytes; l_err : bytes; l_dur : Z
}.

(* the dynamic type of Entry.Details *)
Inductive details :=
| DGenesis
| DLog (d : logd)
| DGround (root sigE sigM : bytes)
| DNone.

Record entry := {
  e_ver : N;           (* uint16 *)
  e_ts : Z;            (* Timestamp.UnixNano(), int64 *)
  e_type : bytes;
  e_det : details;
  e_prev : bytes; e_hash : bytes; e_sig : bytes
}.

Definition t_genesis := B"GENESIS".
Definition t_log := B"LOG".
Definition t_grounding := B"GROUNDING".
Definition sha_size : N := 64.
Definition ed_sig_size : N := 64.
Definition mldsa_sig_size : N := 4627.
Definition grounding_block : N := 1000.

Definition rev' {A} (l : list A) : list A := rev_append l [].
Definition lenL {A} (l : list A) : N := N.of_nat (length l).
Fixpoint len_tr {A} (l : list A) (acc : nat) : nat := match l with [] => acc | _ :: l' => len_tr l' (S acc) end.

(* ---------------------------------------------------------------- fixed width big endian *)
Fixpoint be (k : nat) (n : N) : bytes :=
  match k with
  | O => []
  | S k' => Nbyte ((n / 256 ^ N.of_nat k') mod 256) :: be k' n
  end.
Definition be_val (l : bytes) : N := fold_left (fun acc b => 256 * acc + byteN b) l 0.

Definition u16 (n : N) : bytes := be 2 n.
Definition u32 (n : N) : bytes := be 4 n.
Definition i32 (z : Z) : bytes := be 4 (Z.to_N (z mod 2 ^ 32)).
Definition i64 (z : Z) : bytes := be 8 (Z.to_N (z mod 2 ^ 64)).
Definition to_signed (bits : Z) (n : N) : Z :=
  let z := Z.of_N n in if (z <? 2 ^ (bits - 1))%Z then z else (z - 2 ^ bits)%Z.

(* writeBytes / writeString: uint32(len) big endian, then the bytes *)
Definition wbytes (b : bytes) : bytes := u32 (lenN b) ++ b.

(* ---------------------------------------------------------------- Entry.CalculateHash input *)
Definition logd_hash_part (ver : N) (d : logd) : bytes :=
  wbytes (l_op d) ++ wbytes (l_phase d) ++ wbytes (l_bucket d) ++ wbytes (l_key d) ++
  wbytes (l_upload d) ++ i32 (l_part d) ++
  (if ver <=? 1 then wbytes (l_cred d) ++ wbytes (l_err d)
   else wbytes (l_cred d) ++ wbytes (l_auth d) ++ wbytes (l_reqid d) ++ wbytes (l_trace d) ++
        wbytes (l_ip d) ++ i32 (l_status d) ++ wbytes (l_outcome d) ++ wbytes (l_errcode d) ++
        wbytes (l_err d) ++ i64 (l_dur d)).

(* None = the Go code panics (grounding signature of the wrong length) *)
Definition details_hash_part (ver : N) (d : details) : option bytes :=
  match d with
  | DGenesis => Some []
  | DLog l => Some (logd_hash_part ver l)
  | DGround root sE sM =>
      if (lenN sE =? ed_sig_size) && (lenN sM =? mldsa_sig_size)
      then Some (wbytes root ++ sE ++ sM) else None
  | DNone => Some []
  end.

Definition hash_input (e : entry) : option bytes :=
  match details_hash_part (e_ver e) (e_det e) with
  | Some dp => Some (u16 (e_ver e) ++ i64 (e_ts e) ++ wbytes (e_type e) ++ dp ++ e_prev e)
  | None => None
  end.

(* ---------------------------------------------------------------- binary serializer *)
Definition logd_bin_part (ver : N) (d : logd) : bytes :=
  wbytes (l_op d) ++ wbytes (l_phase d) ++ wbytes (l_bucket d) ++ wbytes (l_key d) ++
  wbytes (l_upload d) ++ i32 (l_part d) ++
  (if 3 <=? ver then wbytes (l_srcb d) ++ wbytes (l_srck d) else []) ++
  (if ver <=? 1 then wbytes (l_cred d) ++ wbytes (l_err d)
   else wbytes (l_cred d) ++ wbytes (l_auth d) ++ wbytes (l_reqid d) ++ wbytes (l_trace d) ++
        wbytes (l_ip d) ++ i32 (l_status d) ++ wbytes (l_outcome d) ++ wbytes (l_errcode d) ++
        wbytes (l_err d) ++ i64 (l_dur d)).

Definition details_bin_part (ver : N) (d : details) : option bytes :=
  match d with
  | DGenesis => Some []
  | DLog l => Some (logd_bin_part ver l)
  | DGround root sE sM =>
      if (lenN sE =? ed_sig_size) && (lenN sM =? mldsa_sig_size)
      then Some (wbytes root ++ sE ++ sM) else None
  | DNone => Some []
  end.

(* None = Encode returns an error *)
Definition enc_bin (e : entry) : option bytes :=
  match details_bin_part (e_ver e) (e_det e) with
  | Some dp =>
      if (lenN (e_prev e) =? sha_size) && (lenN (e_hash e) =? sha_size) && (lenN (e_sig e) =? ed_sig_size)
      then Some (u16 (e_ver e) ++ i64 (e_ts e) ++ wbytes (e_type e) ++ dp ++ e_prev e ++ e_hash e ++ e_sig e)
      else None
  | None => None
  end.

(* --- decoding.  io.ReadFull semantics: no byte available -> io.EOF, fewer than asked ->
   io.ErrUnexpectedEOF *)
Inductive rerr := EEof | EUeof.
Inductive rd (A : Type) := ROk (a : A) (rest : bytes) | RErr (e : rerr).
Arguments ROk {A}. Arguments RErr {A}.

Fixpoint takeN (k : N) (l : bytes) {struct l} : option (bytes * bytes) :=
  if k =? 0 then Some ([], l)
  else match l with
       | [] => None
       | b :: l' => match takeN (k - 1) l' with
                    | Some (a, r) => Some (b :: a, r)
                    | None => None
                    end
       end.

(* read k > 0 bytes *)
Definition rtake (k : N) (l : bytes) : rd bytes :=
  match l with
  | [] => RErr EEof
  | _ => match takeN k l with Some (a, r) => ROk a r | None => RErr EUeof end
  end.

Definition rbind {A C} (x : rd A) (f : A -> bytes -> rd C) : rd C :=
  match x with ROk a r => f a r | RErr e => RErr e end.
Notation "'rdo' x , r <- e ; k" := (rbind e (fun x r => k))
  (at level 200, x name, r name, e at level 100, k at level 200, right associativity).

Definition rnum (k : N) (l : bytes) : rd N := rdo b, r <- rtake k l; ROk (be_val b) r.
Definition ri32 (l : bytes) : rd Z := rdo n, r <- rnum 4 l; ROk (to_signed 32 n) r.
Definition ri64 (l : bytes) : rd Z := rdo n, r <- rnum 8 l; ROk (to_signed 64 n) r.
(* readBytes / readString *)
Definition rbytes (l : bytes) : rd bytes :=
  rdo n, r <- rnum 4 l;
  if n =? 0 then ROk [] r else rtake n r.

Definition dec_logd (ver : N) (l : bytes) : rd logd :=
  rdo op, r <- rbytes l; rdo phase, r <- rbytes r; rdo bucket, r <- rbytes r; rdo key, r <- rbytes r;
  rdo upload, r <- rbytes r; rdo part, r <- ri32 r;
  rdo srcb, r <- (if 3 <=? ver then rbytes r else ROk [] r);
  rdo srck, r <- (if 3 <=? ver then rbytes r else ROk [] r);
  if ver <=? 1 then
    rdo cred, r <- rbytes r; rdo err, r <- rbytes r;
    ROk {| l_op := op; l_phase := phase; l_bucket := bucket; l_key := key; l_upload := upload;
           l_part := part; l_srcb := srcb; l_srck := srck; l_cred := cred; l_auth := B"anonymous";
           l_reqid := []; l_trace := []; l_ip := [];
           l_status := if is_empty err then 200%Z else 500%Z;
           l_outcome := if is_empty err then B"success" else B"error";
           l_errcode := []; l_err := err; l_dur := 0%Z |} r
  else
    rdo cred, r <- rbytes r; rdo auth, r <- rbytes r; rdo reqid, r <- rbytes r; rdo trace, r <- rbytes r;
    rdo ip, r <- rbytes r; rdo status, r <- ri32 r; rdo outcome, r <- rbytes r; rdo errcode, r <- rbytes r;
    rdo err, r <- rbytes r; rdo dur, r <- ri64 r;
    ROk {| l_op := op; l_phase := phase; l_bucket := bucket; l_key := key; l_upload := upload;
           l_part := part; l_srcb := srcb; l_srck := srck; l_cred := cred; l_auth := auth;
           l_reqid := reqid; l_trace := trace; l_ip := ip; l_status := status; l_outcome := outcome;
           l_errcode := errcode; l_err := err; l_dur := dur |} r.

Definition dec_details (ver : N) (ty : bytes) (l : bytes) : rd details :=
  if bytes_eqb ty t_genesis then ROk DGenesis l
  else if bytes_eqb ty t_log then rdo d, r <- dec_logd ver l; ROk (DLog d) r
  else if bytes_eqb ty t_grounding then
    rdo root, r <- rbytes l; rdo sE, r <- rtake ed_sig_size r; rdo sM, r <- rtake mldsa_sig_size r;
    ROk (DGround root sE sM) r
  else ROk DNone l.

Definition dec_bin (l : bytes) : rd entry :=
  rdo ver, r <- rnum 2 l; rdo ts, r <- ri64 r; rdo ty, r <- rbytes r;
  rdo det, r <- dec_details ver ty r;
  rdo prev, r <- rtake sha_size r; rdo hash, r <- rtake sha_size r; rdo sig, r <- rtake ed_sig_size r;
  ROk {| e_ver := ver; e_ts := ts; e_type := ty; e_det := det; e_prev := prev; e_hash := hash; e_sig := sig |} r.

(* the read loop of the tool / NewFileSink: entries until io.EOF (clean) or another error *)
Fixpoint dec_all (fuel : nat) (l : bytes) (acc : list entry) : list entry * option rerr :=
  match fuel with
  | O => (rev' acc, None)
  | S f => match dec_bin l with
           | ROk e r => dec_all f r (e :: acc)
           | RErr EEof => (rev' acc, None)
           | RErr EUeof => (rev' acc, Some EUeof)
           end
  end.

(* ---------------------------------------------------------------- JSON serializer (struct level) *)
Inductive jdetails :=
| JNull                          (* json null (Details == nil) *)
| JEmpty                         (* {} *)
| JLog1 (op phase bucket : bytes) (key upload : option bytes) (part : option Z) (actor : bytes)
        (err : option bytes)
| JLog (op phase bucket : bytes) (key upload : option bytes) (part : option Z) (srcb srck : option bytes)
       (cred auth reqid trace ip : option bytes) (status : Z) (outcome errcode err : option bytes) (dur : Z)
| JGround (root sigE sigM : bytes).   (* hex text *)

Record jdoc := {
  j_ver : N; j_ts : Z; j_type : bytes; j_det : jdetails;
  j_prev : bytes; j_hash : bytes; j_sig : bytes      (* hex text *)
}.

Definition omit (s : bytes) : option bytes := match s with [] => None | _ => Some s end.
Definition omitZ (z : Z) : option Z := if (z =? 0)%Z then None else Some z.
Definition dflt (o : option bytes) : bytes := match o with Some s => s | None => [] end.
Definition dfltZ (o : option Z) : Z := match o with Some z => z | None => 0%Z end.

Definition enc_json_details (ver : N) (d : details) : jdetails :=
  match d with
  | DGenesis => JEmpty
  | DLog l =>
      if ver <=? 1 then
        JLog1 (l_op l) (l_phase l) (l_bucket l) (omit (l_key l)) (omit (l_upload l)) (omitZ (l_part l))
              (l_cred l) (omit (l_err l))
      else
        JLog (l_op l) (l_phase l) (l_bucket l) (omit (l_key l)) (omit (l_upload l)) (omitZ (l_part l))
             (omit (l_srcb l)) (omit (l_srck l)) (omit (l_cred l)) (omit (l_auth l))
             (omit (l_reqid l)) (omit (l_trace l)) (omit (l_ip l)) (l_status l)
             (omit (l_outcome l)) (omit (l_errcode l)) (omit (l_err l)) (l_dur l)
  | DGround root sE sM => JGround (hex_enc root) (hex_enc sE) (hex_enc sM)
  | DNone => JNull
  end.

Definition enc_json (e : entry) : jdoc :=
  {| j_ver := e_ver e; j_ts := e_ts e; j_type := e_type e; j_det := enc_json_details (e_ver e) (e_det e);
     j_prev := hex_enc (e_prev e); j_hash := hex_enc (e_hash e); j_sig := hex_enc (e_sig e) |}.

(* hex.DecodeString with the error ignored: the bytes decoded before the first bad pair *)
Fixpoint hex_dec_partial (l : bytes) : bytes :=
  match l with
  | h :: lo :: l' => match hex_val h, hex_val lo with
                     | Some a, Some b => Nbyte (16 * a + b) :: hex_dec_partial l'
                     | _, _ => []
                     end
  | _ => []
  end.

Definition zero_logd : logd :=
  {| l_op := []; l_phase := []; l_bucket := []; l_key := []; l_upload := []; l_part := 0%Z; l_srcb := [];
     l_srck := []; l_cred := []; l_auth := []; l_reqid := []; l_trace := []; l_ip := []; l_status := 0%Z;
     l_outcome := []; l_errcode := []; l_err := []; l_dur := 0%Z |}.

Definition logd_of_v1 (op phase bucket key upload : bytes) (part : Z) (actor err : bytes) : logd :=
  {| l_op := op; l_phase := phase; l_bucket := bucket; l_key := key; l_upload := upload; l_part := part;
     l_srcb := []; l_srck := []; l_cred := actor; l_auth := B"anonymous"; l_reqid := []; l_trace := [];
     l_ip := []; l_status := if is_empty err then 200%Z else 500%Z;
     l_outcome := if is_empty err then B"success" else B"error"; l_errcode := []; l_err := err; l_dur := 0%Z |}.

(* None = Decode returns an error (json: cannot unmarshal object into string and vice versa) *)
Definition dec_json_details (ver : N) (ty : bytes) (j : jdetails) : option details :=
  if bytes_eqb ty t_genesis then Some DGenesis
  else if bytes_eqb ty t_log then
    if ver <=? 1 then
      match j with
      | JLog1 op phase bucket key upload part actor err =>
          Some (DLog (logd_of_v1 op phase bucket (dflt key) (dflt upload) (dfltZ part) actor (dflt err)))
      | JLog _ _ _ _ _ _ _ _ _ _ _ _ _ _ _ _ _ _ => None
      | _ => Some (DLog (logd_of_v1 [] [] [] [] [] 0%Z [] []))
      end
    else
      match j with
      | JLog op phase bucket key upload part srcb srck cred auth reqid trace ip status outcome errcode err dur =>
          Some (DLog {| l_op := op; l_phase := phase; l_bucket := bucket; l_key := dflt key;
                        l_upload := dflt upload; l_part := dfltZ part; l_srcb := dflt srcb; l_srck := dflt srck;
                        l_cred := dflt cred; l_auth := dflt auth; l_reqid := dflt reqid; l_trace := dflt trace;
                        l_ip := dflt ip; l_status := status; l_outcome := dflt outcome;
                        l_errcode := dflt errcode; l_err := dflt err; l_dur := dur |})
      | JLog1 _ _ _ _ _ _ _ _ => None
      | _ => Some (DLog zero_logd)
      end
  else if bytes_eqb ty t_grounding then
    match j with
    | JGround root sE sM => Some (DGround (hex_dec_partial root) (hex_dec_partial sE) (hex_dec_partial sM))
    | _ => Some (DGround [] [] [])
    end
  else Some DNone.

Definition dec_json (j : jdoc) : option entry :=
  match hex_dec (j_prev j), hex_dec (j_hash j), hex_dec (j_sig j) with
  | Some prev, Some hash, Some sig =>
      match dec_json_details (j_ver j) (j_type j) (j_det j) with
      | Some det => Some {| e_ver := j_ver j; e_ts := j_ts j; e_type := j_type j; e_det := det;
                            e_prev := prev; e_hash := hash; e_sig := sig |}
      | None => None
      end
  | _, _, _ => None
  end.

(* ---------------------------------------------------------------- Merkle root and Validator *)
Section Validator.
Variable H : bytes -> bytes.                  (* SHA-512 *)
Variables vE vM : bytes -> bytes -> bool.     (* Verify(data, signature) of the two verifiers *)
Variables useE useM : bool.                   (* verifier != nil *)
Variable block : N.                           (* GroundingBlockSize *)

Fixpoint merkle_level (l : list bytes) : list bytes :=
  match l with
  | [] => []
  | [a] => [H (a ++ a)]
  | a :: b :: r => H (a ++ b) :: merkle_level r
  end.
Fixpoint merkle_loop (fuel : nat) (l : list bytes) : bytes :=
  match l with
  | [] => []
  | [a] => a
  | _ => match fuel with O => [] | S f => merkle_loop f (merkle_level l) end
  end.
Definition merkle_root (l : list bytes) : bytes := merkle_loop (length l) l.

Inductive reason := RHash | RNotGenesis | RGenesisPrev | RChain | RSig | RTooMany | RInterval | RGDetails
                  | RRoot | RGSigE | RGSigM.
Record vstate := { v_prev : bytes; v_buf : list bytes; v_idx : N }.
Inductive vres := VOk (s : vstate) | VFail (r : reason) | VPanic.

Definition genesis_prev : bytes := H B"pithos".

Definition validate_entry (st : vstate) (e : entry) : vres :=
  match hash_input e with
  | None => VPanic
  | Some x =>
    if negb (bytes_eqb (H x) (e_hash e)) then VFail RHash
    else if (v_idx st =? 0) && negb (bytes_eqb (e_type e) t_genesis) then VFail RNotGenesis
    else if (v_idx st =? 0) && negb (bytes_eqb (e_prev e) genesis_prev) then VFail RGenesisPrev
    else if negb (v_idx st =? 0) && negb (bytes_eqb (e_prev e) (v_prev st)) then VFail RChain
    else if useE && negb (vE (e_hash e) (e_sig e)) then VFail RSig
    else if bytes_eqb (e_type e) t_log then
      let buf' := v_buf st ++ [e_hash e] in
      if block <? lenL buf' then VFail RTooMany
      else VOk {| v_prev := e_hash e; v_buf := buf'; v_idx := v_idx st + 1 |}
    else if bytes_eqb (e_type e) t_grounding then
      if negb (lenL (v_buf st) =? block) then VFail RInterval
      else match e_det e with
           | DGround root sE sM =>
               if negb (bytes_eqb (merkle_root (v_buf st)) root) then VFail RRoot
               else if useE && negb (vE root sE) then VFail RGSigE
               else if useM && negb (vM root sM) then VFail RGSigM
               else VOk {| v_prev := e_hash e; v_buf := []; v_idx := v_idx st + 1 |}
           | _ => VFail RGDetails
           end
    else VOk {| v_prev := e_hash e; v_buf := v_buf st; v_idx := v_idx st + 1 |}
  end.

(* the loop of tool.Verify: first failure stops *)
Fixpoint validate_from (st : vstate) (l : list entry) : vres :=
  match l with
  | [] => VOk st
  | e :: l' => match validate_entry st e with
               | VOk st' => validate_from st' l'
               | r => r
               end
  end.
Definition init_state : vstate := {| v_prev := []; v_buf := []; v_idx := 0 |}.
Definition validate (l : list entry) : vres := validate_from init_state l.
Definition accepted (l : list entry) : bool := match validate l with VOk _ => true | _ => false end.

(* the same loop, reporting the index at which it stopped (VerificationError.EntryIndex) *)
Inductive vfinal := FOk (n : N) | FFail (i : N) (r : reason) | FPanic (i : N).
Fixpoint validate_report (st : vstate) (l : list entry) : vfinal :=
  match l with
  | [] => FOk (v_idx st)
  | e :: l' => match validate_entry st e with
               | VOk st' => validate_report st' l'
               | VFail r => FFail (v_idx st) r
               | VPanic => FPanic (v_idx st)
               end
  end.
End Validator.

(* ================================================================ line protocol ===============
   entry token : ver,ts,type,prev,hash,sig,KIND[,fields]   (byte strings hex, "-" = empty)
       KIND G (GenesisDetails) | N (nil) | R,root,sigE,sigM (GroundingDetails)
          | L,op,phase,bucket,key,upload,part,srcb,srck,cred,auth,reqid,trace,ip,status,outcome,errcode,err,dur
   HI <entry>                      -> hex(hash input) | PANIC
   EB <entry>                      -> hex(binary encoding) | ERR
   DB <hex>                        -> <entry;entry;...|_> <EOF|UEOF>
   EJ <entry>                      -> <jdoc>
   DJ <jdoc>                       -> <entry> | ERR
   V  <flags> <digests> <extra> <sigbits> <entry;entry;...> <meta>
   VB <flags> <digests> <extra> <sigbits> <hex of file> <meta>
        flags   = two of 0/1: Ed25519 verifier present, ML-DSA verifier present
        digests = SHA-512 of the i-th entry's hash input (supplied by the Go side), comma separated
        extra   = further SHA-512 evaluations input:digest,... ("pithos" and the Merkle nodes)
        sigbits = three 0/1 per entry: entry signature valid, grounding Ed25519 valid, grounding ML-DSA valid
                                   -> OK <n> | FAIL <i> <REASON> | PANIC <i> | DECERR <n>  *)
Fixpoint split_tr_go (c : byte) (l : bytes) (cur : bytes) (acc : list bytes) : list bytes :=
  match l with
  | [] => rev_append acc [rev' cur]
  | x :: l' => if beqb x c then split_tr_go c l' [] (rev' cur :: acc) else split_tr_go c l' (x :: cur) acc
  end.
Definition split_tr (c : byte) (l : bytes) : list bytes := split_tr_go c l [] [].

Fixpoint hex_dec_tr (l : bytes) (acc : bytes) : option bytes :=
  match l with
  | [] => Some (rev' acc)
  | h :: lo :: l' => match hex_val h, hex_val lo with
                     | Some a, Some b => hex_dec_tr l' (Nbyte (16 * a + b) :: acc)
                     | _, _ => None
                     end
  | _ => None
  end.
Fixpoint hex_enc_tr (l : bytes) (acc : bytes) : bytes :=
  match l with
  | [] => rev' acc
  | b :: l' => hex_enc_tr l' (hex_digit (byteN b mod 16) :: hex_digit (byteN b / 16) :: acc)
  end.
Definition tokb (l : bytes) : bytes := match l with [] => B"-" | _ => hex_enc_tr l [] end.
Definition untokb (t : bytes) : option bytes := if bytes_eqb t B"-" then Some [] else hex_dec_tr t [].

Definition comma := B",".
Definition show_logd (d : logd) : list bytes :=
  [tokb (l_op d); tokb (l_phase d); tokb (l_bucket d); tokb (l_key d); tokb (l_upload d); show_Z (l_part d);
   tokb (l_srcb d); tokb (l_srck d); tokb (l_cred d); tokb (l_auth d); tokb (l_reqid d); tokb (l_trace d);
   tokb (l_ip d); show_Z (l_status d); tokb (l_outcome d); tokb (l_errcode d); tokb (l_err d); show_Z (l_dur d)].
Definition show_details (d : details) : list bytes :=
  match d with
  | DGenesis => [B"G"]
  | DNone => [B"N"]
  | DGround root sE sM => [B"R"; tokb root; tokb sE; tokb sM]
  | DLog l => B"L" :: show_logd l
  end.
Definition show_entry (e : entry) : bytes :=
  join comma ([show_N (e_ver e); show_Z (e_ts e); tokb (e_type e); tokb (e_prev e); tokb (e_hash e); tokb (e_sig e)]
              ++ show_details (e_det e)).
Definition show_entries (l : list entry) : bytes :=
  match l with [] => B"_" | _ => join B";" (map show_entry l) end.

Definition parse_logd (f : list bytes) : option logd :=
  match f with
  | [op; phase; bucket; key; upload; part; srcb; srck; cred; auth; reqid; trace; ip; status; outcome; errcode; err; dur] =>
      match untokb op, untokb phase, untokb bucket, untokb key, untokb upload, parse_Z part with
      | Some op, Some phase, Some bucket, Some key, Some upload, Some part =>
        match untokb srcb, untokb srck, untokb cred, untokb auth, untokb reqid, untokb trace with
        | Some srcb, Some srck, Some cred, Some auth, Some reqid, Some trace =>
          match untokb ip, parse_Z status, untokb outcome, untokb errcode, untokb err, parse_Z dur with
          | Some ip, Some status, Some outcome, Some errcode, Some err, Some dur =>
              Some {| l_op := op; l_phase := phase; l_bucket := bucket; l_key := key; l_upload := upload;
                      l_part := part; l_srcb := srcb; l_srck := srck; l_cred := cred; l_auth := auth;
                      l_reqid := reqid; l_trace := trace; l_ip := ip; l_status := status; l_outcome := outcome;
                      l_errcode := errcode; l_err := err; l_dur := dur |}
          | _, _, _, _, _, _ => None
          end
        | _, _, _, _, _, _ => None
        end
      | _, _, _, _, _, _ => None
      end
  | _ => None
  end.
Definition parse_details (f : list bytes) : option details :=
  match f with
  | k :: rest =>
      if bytes_eqb k B"G" then (if is_nil rest then Some DGenesis else None)
      else if bytes_eqb k B"N" then (if is_nil rest then Some DNone else None)
      else if bytes_eqb k B"R" then
        match rest with
        | [root; sE; sM] => match untokb root, untokb sE, untokb sM with
                            | Some root, Some sE, Some sM => Some (DGround root sE sM)
                            | _, _, _ => None
                            end
        | _ => None
        end
      else if bytes_eqb k B"L" then option_map DLog (parse_logd rest)
      else None
  | [] => None
  end.
Definition parse_entry (t : bytes) : option entry :=
  match split_on ","%byte t with
  | ver :: ts :: ty :: prev :: hash :: sig :: det =>
      match parse_N ver, parse_Z ts, untokb ty, untokb prev, untokb hash, untokb sig, parse_details det with
      | Some ver, Some ts, Some ty, Some prev, Some hash, Some sig, Some det =>
          Some {| e_ver := ver; e_ts := ts; e_type := ty; e_det := det; e_prev := prev; e_hash := hash; e_sig := sig |}
      | _, _, _, _, _, _, _ => None
      end
  | _ => None
  end.
Definition parse_entries (t : bytes) : option (list entry) :=
  if bytes_eqb t B"_" then Some [] else mapM parse_entry (split_tr ";"%byte t).

(* jdoc token: ver,ts,type,prevhex,hashhex,sighex,KIND[,fields]; optional fields "N" | "S"hex
   KIND 0 (null) | E ({}) | R,root,sigE,sigM | 1,op,phase,bucket,key?,upload?,part?,actor,err?
      | 2,op,phase,bucket,key?,upload?,part?,srcb?,srck?,cred?,auth?,reqid?,trace?,ip?,status,outcome?,errcode?,err?,dur *)
Definition tok_o (o : option bytes) : bytes := match o with None => B"N" | Some v => "S"%byte :: tokb v end.
Definition untok_o (t : bytes) : option (option bytes) :=
  match t with
  | b :: rest => if beqb b "S"%byte then option_map Some (untokb rest)
                 else if bytes_eqb t B"N" then Some None else None
  | [] => None
  end.
Definition tok_oZ (o : option Z) : bytes := match o with None => B"N" | Some z => show_Z z end.
Definition untok_oZ (t : bytes) : option (option Z) :=
  if bytes_eqb t B"N" then Some None else option_map Some (parse_Z t).

Definition show_jdetails (d : jdetails) : list bytes :=
  match d with
  | JNull => [B"0"]
  | JEmpty => [B"E"]
  | JGround r a b => [B"R"; tokb r; tokb a; tokb b]
  | JLog1 op phase bucket key upload part actor err =>
      [B"1"; tokb op; tokb phase; tokb bucket; tok_o key; tok_o upload; tok_oZ part; tokb actor; tok_o err]
  | JLog op phase bucket key upload part srcb srck cred auth reqid trace ip status outcome errcode err dur =>
      [B"2"; tokb op; tokb phase; tokb bucket; tok_o key; tok_o upload; tok_oZ part; tok_o srcb; tok_o srck;
       tok_o cred; tok_o auth; tok_o reqid; tok_o trace; tok_o ip; show_Z status; tok_o outcome; tok_o errcode;
       tok_o err; show_Z dur]
  end.
Definition show_jdoc (j : jdoc) : bytes :=
  join comma ([show_N (j_ver j); show_Z (j_ts j); tokb (j_type j); tokb (j_prev j); tokb (j_hash j); tokb (j_sig j)]
              ++ show_jdetails (j_det j)).

Definition parse_jdetails (f : list bytes) : option jdetails :=
  match f with
  | [k] => if bytes_eqb k B"0" then Some JNull else if bytes_eqb k B"E" then Some JEmpty else None
  | [k; r; a; b] =>
      if bytes_eqb k B"R" then
        match untokb r, untokb a, untokb b with
        | Some r, Some a, Some b => Some (JGround r a b)
        | _, _, _ => None
        end
      else None
  | [k; op; phase; bucket; key; upload; part; actor; err] =>
      if bytes_eqb k B"1" then
        match untokb op, untokb phase, untokb bucket, untok_o key, untok_o upload, untok_oZ part, untokb actor, untok_o err with
        | Some op, Some phase, Some bucket, Some key, Some upload, Some part, Some actor, Some err =>
            Some (JLog1 op phase bucket key upload part actor err)
        | _, _, _, _, _, _, _, _ => None
        end
      else None
  | [k; op; phase; bucket; key; upload; part; srcb; srck; cred; auth; reqid; trace; ip; status; outcome; errcode; err; dur] =>
      if bytes_eqb k B"2" then
        match untokb op, untokb phase, untokb bucket, untok_o key, untok_o upload, untok_oZ part with
        | Some op, Some phase, Some bucket, Some key, Some upload, Some part =>
          match untok_o srcb, untok_o srck, untok_o cred, untok_o auth, untok_o reqid, untok_o trace with
          | Some srcb, Some srck, Some cred, Some auth, Some reqid, Some trace =>
            match untok_o ip, parse_Z status, untok_o outcome, untok_o errcode, untok_o err, parse_Z dur with
            | Some ip, Some status, Some outcome, Some errcode, Some err, Some dur =>
                Some (JLog op phase bucket key upload part srcb srck cred auth reqid trace ip status outcome errcode err dur)
            | _, _, _, _, _, _ => None
            end
          | _, _, _, _, _, _ => None
          end
        | _, _, _, _, _, _ => None
        end
      else None
  | _ => None
  end.
Definition parse_jdoc (t : bytes) : option jdoc :=
  match split_on ","%byte t with
  | ver :: ts :: ty :: prev :: hash :: sig :: det =>
      match parse_N ver, parse_Z ts, untokb ty, untokb prev, untokb hash, untokb sig, parse_jdetails det with
      | Some ver, Some ts, Some ty, Some prev, Some hash, Some sig, Some det =>
          Some {| j_ver := ver; j_ts := ts; j_type := ty; j_det := det; j_prev := prev; j_hash := hash; j_sig := sig |}
      | _, _, _, _, _, _, _ => None
      end
  | _ => None
  end.

(* --- tables standing for SHA-512 and the verifiers in one case --- *)
Fixpoint lookup_b (k : bytes) (t : list (bytes * bytes)) : bytes :=
  match t with [] => [] | (k', v) :: t' => if bytes_eqb k k' then v else lookup_b k t' end.
Fixpoint lookup_sig (d s : bytes) (t : list (bytes * bytes * bool)) : bool :=
  match t with
  | [] => false
  | (d', s', v) :: t' => if bytes_eqb d d' && bytes_eqb s s' then v else lookup_sig d s t'
  end.

Definition hi_or_empty (e : entry) : bytes := match hash_input e with Some x => x | None => [] end.
Definition parse_pair (t : bytes) : option (bytes * bytes) :=
  match split_on ":"%byte t with
  | [k; v] => match untokb k, untokb v with Some k, Some v => Some (k, v) | _, _ => None end
  | _ => None
  end.
Definition parse_pairs (t : bytes) : option (list (bytes * bytes)) :=
  if bytes_eqb t B"_" then Some [] else mapM parse_pair (split_tr ","%byte t).
Definition parse_digests (t : bytes) : option (list bytes) :=
  if bytes_eqb t B"_" then Some [] else mapM untokb (split_tr ","%byte t).

Definition bit (b : byte) : bool := beqb b "1"%byte.
Fixpoint sig_tables (es : list entry) (bits : bytes)
  : list (bytes * bytes * bool) * list (bytes * bytes * bool) :=
  match es, bits with
  | e :: es', b0 :: b1 :: b2 :: bits' =>
      let (tE, tM) := sig_tables es' bits' in
      match e_det e with
      | DGround root sE sM => ((e_hash e, e_sig e, bit b0) :: (root, sE, bit b1) :: tE, (root, sM, bit b2) :: tM)
      | _ => ((e_hash e, e_sig e, bit b0) :: tE, tM)
      end
  | _, _ => ([], [])
  end.

Definition show_reason (r : reason) : bytes :=
  match r with
  | RHash => B"HASH" | RNotGenesis => B"NOTGENESIS" | RGenesisPrev => B"GENESISPREV" | RChain => B"CHAIN"
  | RSig => B"SIG" | RTooMany => B"TOOMANY" | RInterval => B"INTERVAL" | RGDetails => B"GDETAILS"
  | RRoot => B"ROOT" | RGSigE => B"GSIGE" | RGSigM => B"GSIGM"
  end.
Definition show_vfinal (f : vfinal) : bytes :=
  match f with
  | FOk n => unwords [B"OK"; show_N n]
  | FFail i r => unwords [B"FAIL"; show_N i; show_reason r]
  | FPanic i => unwords [B"PANIC"; show_N i]
  end.

Definition run_validator (flags digests extra bits : bytes) (es : list entry) (decerr : bool) : bytes :=
  do ds <- parse_digests digests;
  do ex <- parse_pairs extra;
  match flags with
  | [fE; fM] =>
      let tabH := combine (map hi_or_empty es) ds ++ ex in
      let (tE, tM) := sig_tables es bits in
      let res := validate_report (fun x => lookup_b x tabH) (fun d s => lookup_sig d s tE)
                                 (fun d s => lookup_sig d s tM) (bit fE) (bit fM) grounding_block
                                 init_state es in
      match res with
      | FOk n => if decerr then unwords [B"DECERR"; show_N n] else show_vfinal res
      | _ => show_vfinal res
      end
  | _ => parse_error
  end.

Definition run_line (l : bytes) : bytes :=
  match split_tr " "%byte l with
  | [cmd; a] =>
      if bytes_eqb cmd B"HI" then
        do e <- parse_entry a; match hash_input e with Some x => tokb x | None => B"PANIC" end
      else if bytes_eqb cmd B"EB" then
        do e <- parse_entry a; match enc_bin e with Some x => tokb x | None => B"ERR" end
      else if bytes_eqb cmd B"DB" then
        do bs <- untokb a;
        let (es, err) := dec_all (len_tr bs 1%nat) bs [] in
        unwords [show_entries es; match err with None => B"EOF" | Some _ => B"UEOF" end]
      else if bytes_eqb cmd B"EJ" then
        do e <- parse_entry a; show_jdoc (enc_json e)
      else if bytes_eqb cmd B"DJ" then
        do j <- parse_jdoc a; match dec_json j with Some e => show_entry e | None => B"ERR" end
      else parse_error
  | [cmd; flags; digests; extra; bits; body; meta] =>
      if bytes_eqb cmd B"V" then
        do es <- parse_entries body; run_validator flags digests extra bits es false
      else if bytes_eqb cmd B"VB" then
        do bs <- untokb body;
        let (es, err) := dec_all (len_tr bs 1%nat) bs [] in
        run_validator flags digests extra bits es (match err with None => false | Some _ => true end)
      else parse_error
  | _ => parse_error
  end.
