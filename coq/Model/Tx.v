(* Model/Tx.v — M-TX: database.TxController (internal/storage/database/tx.go: WithTx, Commit, Rollback and the
   three hook lists) composed with the hook programs the filesystem part store registers
   (partstore/filesystem/filesystem.go: PutPart, DeletePart with tx != nil).  Faithful to what the code DOES:
   rollback hooks run in REVERSE registration order (since fix 98ee436; before, registration order), the first
   failing after-commit hook ends Commit with its error AFTER the database commit.  No proofs here.

   File system = function from paths to contents.  A part id has one final name (32 hex digits); every
   PutPart/DeletePart call creates its own temp (".<id>.<random>.tmp", os.CreateTemp) and backup
   ("<id>.txbackup.<ulid>") names, modelled as the index n of the registering step in the transaction. *)
From Verif Require Import Bytes Codec.

Inductive path := PFinal (id : N) | PTemp (n : nat) | PBackup (n : nat).
Definition path_eqb (a b : path) : bool :=
  match a, b with
  | PFinal x, PFinal y => N.eqb x y
  | PTemp x, PTemp y => Nat.eqb x y
  | PBackup x, PBackup y => Nat.eqb x y
  | _, _ => false
  end.
Definition fsys := path -> option bytes.
Definition fupd (fs : fsys) (p : path) (v : option bytes) : fsys :=
  fun q => if path_eqb q p then v else fs q.
(* os.Rename: fails (fs.ErrNotExist) when the source is missing, replaces the destination *)
Definition rename (a b : path) (fs : fsys) : fsys * bool :=
  match fs a with
  | None => (fs, false)
  | Some v => (fupd (fupd fs a None) b (Some v), true)
  end.

(* one PutPart / DeletePart registration: the three closures share the flags backupCreated, published *)
Inductive ckind := CPut | CDel.
Record cell := { c_kind : ckind; c_id : N; c_n : nat; c_bc : bool; c_pub : bool }.
Definition mk_cell (k : ckind) (id : N) (n : nat) : cell :=
  {| c_kind := k; c_id := id; c_n := n; c_bc := false; c_pub := false |}.
Definition set_flags (c : cell) (bc pub : bool) : cell :=
  {| c_kind := c_kind c; c_id := c_id c; c_n := c_n c; c_bc := bc; c_pub := pub |}.

(* pre-commit hook.  fv = injected fault variant: 0 none; 1 the hook fails before doing anything (first
   os.Rename fails with an error that is not ErrNotExist); 2 (PutPart only) the temp file has vanished, so
   the second rename fails after the backup was made and the hook restores the backup itself *)
Definition pre_cell (fv : nat) (c : cell) (fs : fsys) : cell * fsys * bool :=
  let F := PFinal (c_id c) in let T := PTemp (c_n c) in let Bk := PBackup (c_n c) in
  if Nat.eqb fv 1 then (c, fs, false) else
  match c_kind c with
  | CDel =>
      let '(fs1, ok) := rename F Bk fs in (set_flags c ok (c_pub c), fs1, true)
  | CPut =>
      let fs := if Nat.eqb fv 2 then fupd fs T None else fs in
      let '(fs1, bc) := rename F Bk fs in
      let '(fs2, ok) := rename T F fs1 in
      if ok then (set_flags c bc true, fs2, true)
      else if bc then (set_flags c false false, fst (rename Bk F fs2), false)
      else (set_flags c false false, fs2, false)
  end.

(* after-commit hook: if backupCreated { return os.Remove(backupName) } *)
Definition after_cell (c : cell) (fs : fsys) : fsys * bool :=
  if c_bc c then
    match fs (PBackup (c_n c)) with
    | Some _ => (fupd fs (PBackup (c_n c)) None, true)
    | None => (fs, false)
    end
  else (fs, true).

(* rollback hook *)
Definition rollback_cell (c : cell) (fs : fsys) : fsys :=
  let F := PFinal (c_id c) in let T := PTemp (c_n c) in let Bk := PBackup (c_n c) in
  match c_kind c with
  | CPut =>
      if c_pub c then
        let fs := fupd fs F None in
        if c_bc c then fst (rename Bk F fs) else fs
      else fupd fs T None
  | CDel => if c_bc c then fst (rename Bk F fs) else fs
  end.

Inductive fault := FNone | FPre (i v : nat) | FCommit | FAfter (j : nat).

Section Tx.
Variable D : Type.                     (* database states *)

(* the body of the transaction (the fn given to WithTx) *)
Inductive tstep := SDb (f : D -> D) | SPut (id : N) (c : bytes) | SDel (id : N) | SErr.

Fixpoint body (n : nat) (ss : list tstep) (w : D) (fs : fsys) (cells : list cell)
  : D * fsys * list cell * bool :=
  match ss with
  | [] => (w, fs, cells, true)
  | SDb f :: r => body (S n) r (f w) fs cells
  | SPut id c :: r => body (S n) r w (fupd fs (PTemp n) (Some c)) (cells ++ [mk_cell CPut id n])
  | SDel id :: r => body (S n) r w fs (cells ++ [mk_cell CDel id n])
  | SErr :: _ => (w, fs, cells, false)
  end.

Definition fv_at (ft : fault) (i : nat) : nat :=
  match ft with FPre j v => if Nat.eqb j i then v else 0 | _ => 0 end.

(* Commit, first loop: pre-commit hooks in registration order until the first failure *)
Fixpoint pre_all (ft : fault) (i : nat) (cs : list cell) (fs : fsys) : list cell * fsys * bool :=
  match cs with
  | [] => ([], fs, true)
  | c :: r =>
      let '(c', fs', ok) := pre_cell (fv_at ft i) c fs in
      if ok then let '(r', fs'', ok') := pre_all ft (S i) r fs' in (c' :: r', fs'', ok')
      else (c' :: r, fs', false)
  end.

(* Rollback: every rollback hook, last registered first (fix 98ee436), errors do not stop the loop:
   rb_all (c :: r) fs = rollback_cell c (rb_all r fs) *)
Definition rb_all (cs : list cell) (fs : fsys) : fsys := fold_right rollback_cell fs cs.

(* Commit, second loop: after-commit hooks until the first failure, whose error Commit returns *)
Fixpoint after_all (ft : fault) (j : nat) (cs : list cell) (fs : fsys) : fsys * bool :=
  match cs with
  | [] => (fs, true)
  | c :: r =>
      if match ft with FAfter k => Nat.eqb k j | _ => false end then (fs, false) else
      let '(fs', ok) := after_cell c fs in
      if ok then after_all ft (S j) r fs' else (fs', false)
  end.

(* WithTx: result = (no error returned?, committed database state, file system) *)
Definition run_tx (ft : fault) (prog : list tstep) (dbc : D) (fs0 : fsys) : bool * D * fsys :=
  let '(w, fs1, cells, ok) := body 0 prog dbc fs0 [] in
  if negb ok then (false, dbc, rb_all cells fs1) else
  let '(cells', fs2, ok) := pre_all ft 0 cells fs1 in
  if negb ok then (false, dbc, rb_all cells' fs2) else
  match ft with
  | FCommit => (false, dbc, rb_all cells' fs2)
  | _ => let '(fs3, ok) := after_all ft 0 cells' fs2 in (ok, w, fs3)
  end.

Definition step_id (s : tstep) : list N :=
  match s with SPut id _ => [id] | SDel id => [id] | _ => [] end.
Definition prog_ids (prog : list tstep) : list N := flat_map step_id prog.
End Tx.

Arguments SDb {D}. Arguments SPut {D}. Arguments SDel {D}. Arguments SErr {D}.
Arguments run_tx {D}. Arguments prog_ids {D}. Arguments body {D}. Arguments step_id {D}.

(* ---------- line protocol:  tx <init> <prog> <fault>
   init  = _ | id=hex,id=hex      final part files present before the transaction
   prog  = W<n> | P<id>=<hex> | D<id> | E   separated by ','   (database = one number)
   fault = N | H<i>v<v> | C | A<j>
   output: ok|err db=<n> then for id 0..3  id:<content hex or ->:t<temp files>:b<backup files> *)
Definition parse_kv (t : bytes) : option (N * bytes) :=
  match split_on "="%byte t with
  | [a; b] => match parse_N a, untok_bytes b with Some n, Some c => Some (n, c) | _, _ => None end
  | _ => None
  end.
Definition parse_step (t : bytes) : option (tstep N) :=
  match t with
  | c :: r =>
      if beqb c "W"%byte then option_map (fun n => SDb (fun _ => n)) (parse_N r)
      else if beqb c "P"%byte then option_map (fun kv => SPut (fst kv) (snd kv)) (parse_kv r)
      else if beqb c "D"%byte then option_map SDel (parse_N r)
      else if beqb c "E"%byte then match r with [] => Some SErr | _ => None end
      else None
  | [] => None
  end.
Definition parse_fault (t : bytes) : option fault :=
  match t with
  | c :: r =>
      if beqb c "N"%byte then Some FNone
      else if beqb c "C"%byte then Some FCommit
      else if beqb c "A"%byte then option_map FAfter (parse_nat r)
      else if beqb c "H"%byte then
        match split_on "v"%byte r with
        | [a; b] => match parse_nat a, parse_nat b with Some i, Some v => Some (FPre i v) | _, _ => None end
        | _ => None
        end
      else None
  | [] => None
  end.
Definition parse_init (t : bytes) : option (list (N * bytes)) :=
  if bytes_eqb t B"_" then Some [] else mapM parse_kv (split_on ","%byte t).

Definition init_fs (l : list (N * bytes)) : fsys :=
  fold_left (fun fs kv => fupd fs (PFinal (fst kv)) (Some (snd kv))) l (fun _ => None).

Fixpoint step_cells (n : nat) (prog : list (tstep N)) : list (N * nat) :=
  match prog with
  | [] => []
  | s :: r => map (fun id => (id, n)) (step_id s) ++ step_cells (S n) r
  end.
Definition count_present (fs : fsys) (mk : nat -> path) (id : N) (cs : list (N * nat)) : nat :=
  length (filter (fun c => N.eqb (fst c) id && match fs (mk (snd c)) with Some _ => true | None => false end) cs).

Definition show_dir (fs : fsys) (prog : list (tstep N)) : list bytes :=
  map (fun id =>
         join B":" [show_N id;
                    match fs (PFinal id) with Some c => tok_bytes c | None => B"-" end;
                    "t"%byte :: show_nat (count_present fs PTemp id (step_cells 0 prog));
                    "b"%byte :: show_nat (count_present fs PBackup id (step_cells 0 prog))])
      [0%N; 1%N; 2%N; 3%N].

Definition run_tx_line (toks : list bytes) : bytes :=
  match toks with
  | [i; p; f] =>
      do init <- parse_init i;
      do prog <- mapM parse_step (split_on ","%byte p);
      do ft <- parse_fault f;
      let '(ok, db, fs) := run_tx ft prog 0%N (init_fs init) in
      unwords ((if ok then B"ok" else B"err") :: (B"db=" ++ show_N db) :: show_dir fs prog)
  | _ => parse_error
  end.
