(* Model/AuditWriter.v — executable model of internal/storage/middlewares/audit/audit.go:
   NewAuditLogMiddleware (genesis), log (mutex-serialised chaining with lastHash/hashBuffer), emitGrounding,
   run (START / COMPLETE bracket) and the table of storage.Storage methods the middleware wraps.
   SHA-512 and the two signers are parameters.  Sink writes are assumed to succeed.  No proofs here. *)
From Verif Require Import Bytes Codec AuditLog.
Local Open Scope N_scope.

Section Writer.
Variable H : bytes -> bytes.
Variables signE signM : bytes -> bytes.
Variable block : N.

Record wstate := { w_last : bytes; w_buf : list bytes; w_out : list entry }.

(* Entry.Sign: Hash = CalculateHash(), SignatureEd25519 = Sign(Hash) *)
Definition mk_entry (ts : Z) (ty : bytes) (det : details) (prev : bytes) : entry :=
  let e0 := {| e_ver := 3; e_ts := ts; e_type := ty; e_det := det; e_prev := prev; e_hash := []; e_sig := [] |} in
  let h := H (hi_or_empty e0) in
  {| e_ver := 3; e_ts := ts; e_type := ty; e_det := det; e_prev := prev; e_hash := h; e_sig := signE h |}.

Definition all_zero (b : bytes) : bool := forallb (fun x => beqb x x00) b.

Definition emit_grounding (w : wstate) (ts : Z) : wstate :=
  let root := merkle_root H (w_buf w) in
  let g := mk_entry ts t_grounding (DGround root (signE root) (signM root)) (w_last w) in
  {| w_last := e_hash g; w_buf := []; w_out := w_out w ++ [g] |}.

(* one call of AuditLogMiddleware.log (atomic: it runs under m.mu); ts / tsg are the two clock readings *)
Definition log_step (w : wstate) (ts tsg : Z) (d : logd) : wstate :=
  let e := mk_entry ts t_log (DLog d) (w_last w) in
  let w1 := {| w_last := e_hash e; w_buf := w_buf w ++ [e_hash e]; w_out := w_out w ++ [e] |} in
  if block <=? lenL (w_buf w1) then emit_grounding w1 tsg else w1.

(* NewAuditLogMiddleware(lastHash, initialHashBuffer) *)
Definition new_writer (last : bytes) (buf : list bytes) (ts : Z) : wstate :=
  if all_zero last then
    let g := mk_entry ts t_genesis DGenesis (genesis_prev H) in
    {| w_last := e_hash g; w_buf := buf; w_out := [g] |}
  else {| w_last := last; w_buf := buf; w_out := [] |}.

Definition call := (Z * Z * logd)%type.
Definition run_calls (w : wstate) (cs : list call) : wstate :=
  fold_left (fun w c => match c with (ts, tsg, d) => log_step w ts tsg d end) cs w.
End Writer.

(* ---------------------------------------------------------------- run: START / COMPLETE around the storage call *)
Record opcall := {
  o_op : bytes;
  o_bucket : bytes; o_key : bytes; o_upload : bytes; o_part : Z; o_srcb : bytes; o_srck : bytes;
  o_upload_result : bytes;       (* CreateMultipartUpload: the upload id returned by the storage (COMPLETE entry only) *)
  o_cred : bytes; o_auth : bytes; o_reqid : bytes; o_trace : bytes; o_ip : bytes;
  o_err : bytes                  (* "" = the storage call succeeded, otherwise err.Error() *)
}.

Definition start_details (o : opcall) : logd :=
  {| l_op := o_op o; l_phase := B"START"; l_bucket := o_bucket o; l_key := o_key o; l_upload := o_upload o;
     l_part := o_part o; l_srcb := o_srcb o; l_srck := o_srck o; l_cred := o_cred o; l_auth := o_auth o;
     l_reqid := o_reqid o; l_trace := o_trace o; l_ip := o_ip o; l_status := 0%Z; l_outcome := B"pending";
     l_errcode := []; l_err := []; l_dur := 0%Z |}.
Definition complete_details (o : opcall) (dur : Z) : logd :=
  {| l_op := o_op o; l_phase := B"COMPLETE"; l_bucket := o_bucket o; l_key := o_key o;
     l_upload := if bytes_eqb (o_op o) B"CreateMultipartUpload" then o_upload_result o else o_upload o;
     l_part := o_part o; l_srcb := o_srcb o; l_srck := o_srck o; l_cred := o_cred o; l_auth := o_auth o;
     l_reqid := o_reqid o; l_trace := o_trace o; l_ip := o_ip o;
     l_status := if is_empty (o_err o) then 200%Z else 500%Z;
     l_outcome := if is_empty (o_err o) then B"success" else B"error";
     l_errcode := []; l_err := o_err o; l_dur := dur |}.

(* ---------------------------------------------------------------- which storage.Storage methods are wrapped *)
Inductive mclass := Audited | Unaudited | Lifecycle.
Definition storage_methods : list (bytes * mclass) :=
  [ (B"Start", Lifecycle); (B"Stop", Lifecycle);
    (B"CreateBucket", Audited); (B"DeleteBucket", Audited); (B"ListBuckets", Audited); (B"HeadBucket", Audited);
    (B"GetBucketVersioningConfiguration", Audited); (B"PutBucketVersioningConfiguration", Audited);
    (B"GetBucketWebsiteConfiguration", Audited); (B"PutBucketWebsiteConfiguration", Audited);
    (B"DeleteBucketWebsiteConfiguration", Audited);
    (B"GetBucketCORSConfiguration", Audited); (B"PutBucketCORSConfiguration", Audited); (B"DeleteBucketCORSConfiguration", Audited);
    (B"GetBucketLifecycleConfiguration", Audited); (B"PutBucketLifecycleConfiguration", Audited);
    (B"DeleteBucketLifecycleConfiguration", Audited);
    (B"GetBucketNotificationConfiguration", Unaudited); (B"PutBucketNotificationConfiguration", Unaudited);
    (B"ListObjects", Audited); (B"ListObjectVersions", Audited); (B"HeadObject", Audited); (B"GetObject", Audited);
    (B"PutObject", Audited); (B"CopyObject", Audited); (B"AppendObject", Audited); (B"DeleteObject", Audited);
    (B"DeleteObjects", Audited); (B"TransitionObjectStorageClass", Unaudited);
    (B"CreateMultipartUpload", Audited); (B"UploadPart", Audited); (B"UploadPartCopy", Audited);
    (B"CompleteMultipartUpload", Audited); (B"AbortMultipartUpload", Audited); (B"ListMultipartUploads", Audited);
    (B"ListParts", Audited);
    (B"GetObjectTagging", Unaudited); (B"PutObjectTagging", Unaudited); (B"DeleteObjectTagging", Unaudited) ].

Fixpoint class_of (m : bytes) (t : list (bytes * mclass)) : option mclass :=
  match t with [] => None | (n, c) :: t' => if bytes_eqb m n then Some c else class_of m t' end.
(* the storage operations (everything but the lifecycle hooks Start/Stop) *)
Definition storage_ops : list bytes :=
  map fst (filter (fun p => match snd p with Lifecycle => false | _ => true end) storage_methods).
Definition audited (m : bytes) : bool :=
  match class_of m storage_methods with Some Audited => true | _ => false end.

(* ---------------------------------------------------------------- time.Time: an instant and a Location
   Entry.Timestamp is a time.Time.  GENESIS / GROUNDING entries are stamped time.Now().UTC(), LOG entries
   time.Now() (the process-local zone).  What the code does with it:
     CalculateHash, BinarySerializer.Encode : Timestamp.UnixNano()                         (the instant)
     BinaryDecoder.Decode                   : time.Unix(0, ns)                              (instant, Local)
     JsonSerializer.Encode                  : Timestamp.UTC().Format("2006-01-02T15:04:05.999999999Z")
     JsonDecoder.Decode                     : time.Parse(time.RFC3339Nano, s)               (literal Z: UTC)
   A printed date-time is represented by the nanosecond count of that calendar reading ([t_wall]); the
   calendar arithmetic itself is the standard library's. *)
Record gotime := { t_inst : Z;     (* ns since the epoch *)
                   t_off : Z }.    (* offset of its Location at that instant, seconds east of UTC *)
Definition t_utc (t : gotime) : gotime := {| t_inst := t_inst t; t_off := 0%Z |}.            (* Time.UTC() *)
Definition t_unixnano (t : gotime) : Z := t_inst t.                                          (* Time.UnixNano() *)
Definition t_wall (t : gotime) : Z := (t_inst t + t_off t * 1000000000)%Z.                   (* Time.Format(layout without zone) *)
Definition t_unix0 (zone : Z -> Z) (ns : Z) : gotime := {| t_inst := ns; t_off := zone ns |}.  (* time.Unix(0, ns) *)
Definition t_parse_z (wall : Z) : gotime := {| t_inst := wall; t_off := 0%Z |}.              (* time.Parse, zone "Z" *)

(* an Entry as the Go code holds it: [e_ts (g_e g)] is the instant, [g_off g] the offset of the Location *)
Record gentry := { g_e : entry; g_off : Z }.
Definition g_time (g : gentry) : gotime := {| t_inst := e_ts (g_e g); t_off := g_off g |}.
Definition with_ts (e : entry) (ts : Z) : entry :=
  {| e_ver := e_ver e; e_ts := ts; e_type := e_type e; e_det := e_det e; e_prev := e_prev e; e_hash := e_hash e;
     e_sig := e_sig e |}.
Definition hash_input_go (g : gentry) : option bytes := hash_input (with_ts (g_e g) (t_unixnano (g_time g))).
Definition enc_bin_go (g : gentry) : option bytes := enc_bin (with_ts (g_e g) (t_unixnano (g_time g))).
Definition enc_json_go (g : gentry) : jdoc := enc_json (with_ts (g_e g) (t_wall (t_utc (g_time g)))).
Definition dec_bin_go (zone : Z -> Z) (l : bytes) : rd gentry :=
  match dec_bin l with
  | ROk e r => ROk {| g_e := e; g_off := t_off (t_unix0 zone (e_ts e)) |} r
  | RErr x => RErr x
  end.
Definition dec_json_go (j : jdoc) : option gentry :=
  match dec_json j with
  | Some e => Some {| g_e := with_ts e (t_inst (t_parse_z (e_ts e))); g_off := t_off (t_parse_z (e_ts e)) |}
  | None => None
  end.
Definition dec_all_go (zone : Z -> Z) (fuel : nat) (l : bytes) : list gentry * option rerr :=
  let (es, err) := dec_all fuel l [] in
  (map (fun e => {| g_e := e; g_off := t_off (t_unix0 zone (e_ts e)) |}) es, err).
(* the entries of a log together with the Location each timestamp carries *)
Fixpoint zipg (l : list entry) (offs : list Z) : list gentry :=
  match l, offs with
  | e :: l', o :: offs' => {| g_e := e; g_off := o |} :: zipg l' offs'
  | e :: l', [] => {| g_e := e; g_off := 0%Z |} :: zipg l' []
  | [], _ => []
  end.

(* ================================================================ line protocol ===============
   M <method name hex>                 -> AUDITED | UNAUDITED | LIFECYCLE | UNKNOWN
   MS <name,name,...>                  -> COMPLETE | INCOMPLETE   (the interface's method set vs. the table)
   T <zone> <fmt> <off> <entry>        -> <encoding> <decoded entry>@<offset of the decoded timestamp's Location>
       the entry's timestamp is held in the process-local zone <zone>, whose offset at that instant is <off> s
   W <fmt> <mode> <zone> <op;op;...>   -> <shape> <record;record;...>       (<zone> = process-local time zone)
       op     = name,bucket,key,upload,part,srcb,srck,uploadresult,cred,auth,reqid,ip,err  (hex tokens, part decimal)
       mode   = seq | conc | restart:<i>   (restart after i operations)
       shape  = run length encoding of the entry types written: S (genesis) L<n> G ...
       record = phase,op,bucket,key,upload,part,srcb,srck,cred,auth,reqid,ip,status,outcome,err  in operation order *)
Definition parse_op (t : bytes) : option opcall :=
  match split_on ","%byte t with
  | [name; bucket; key; upload; part; srcb; srck; ures; cred; auth; reqid; ip; err] =>
      match untokb name, untokb bucket, untokb key, untokb upload, parse_Z part, untokb srcb, untokb srck with
      | Some name, Some bucket, Some key, Some upload, Some part, Some srcb, Some srck =>
        match untokb ures, untokb cred, untokb auth, untokb reqid, untokb ip, untokb err with
        | Some ures, Some cred, Some auth, Some reqid, Some ip, Some err =>
            Some {| o_op := name; o_bucket := bucket; o_key := key; o_upload := upload; o_part := part; o_srcb := srcb;
                    o_srck := srck; o_upload_result := ures; o_cred := cred; o_auth := auth; o_reqid := reqid;
                    o_trace := []; o_ip := ip; o_err := err |}
        | _, _, _, _, _, _ => None
        end
      | _, _, _, _, _, _, _ => None
      end
  | _ => None
  end.

(* the audit middleware's name for a storage method (auditlog.Operation) *)
Definition op_name (m : bytes) : bytes :=
  if bytes_eqb m B"GetBucketVersioningConfiguration" then B"GetBucketVersioning"
  else if bytes_eqb m B"PutBucketVersioningConfiguration" then B"PutBucketVersioning"
  else if bytes_eqb m B"GetBucketWebsiteConfiguration" then B"GetBucketWebsite"
  else if bytes_eqb m B"PutBucketWebsiteConfiguration" then B"PutBucketWebsite"
  else if bytes_eqb m B"DeleteBucketWebsiteConfiguration" then B"DeleteBucketWebsite"
  else if bytes_eqb m B"GetBucketCORSConfiguration" then B"GetBucketCORS"
  else if bytes_eqb m B"PutBucketCORSConfiguration" then B"PutBucketCORS"
  else if bytes_eqb m B"DeleteBucketCORSConfiguration" then B"DeleteBucketCORS"
  else if bytes_eqb m B"GetBucketLifecycleConfiguration" then B"GetBucketLifecycle"
  else if bytes_eqb m B"PutBucketLifecycleConfiguration" then B"PutBucketLifecycle"
  else if bytes_eqb m B"DeleteBucketLifecycleConfiguration" then B"DeleteBucketLifecycle"
  else m.

(* the log calls one storage call through the middleware makes (none for methods it does not wrap) *)
Definition op_calls (o : opcall) : list call :=
  if audited (o_op o) then
    let o' := {| o_op := op_name (o_op o); o_bucket := o_bucket o; o_key := o_key o; o_upload := o_upload o;
                 o_part := o_part o; o_srcb := o_srcb o; o_srck := o_srck o; o_upload_result := o_upload_result o;
                 o_cred := o_cred o; o_auth := o_auth o; o_reqid := o_reqid o; o_trace := o_trace o; o_ip := o_ip o;
                 o_err := o_err o |} in
    [(0%Z, 0%Z, start_details o'); (0%Z, 0%Z, complete_details o' 0%Z)]
  else [].

Definition d_H (x : bytes) : bytes := [x01].
Definition d_signE (x : bytes) : bytes := repeat x00 64.
Definition d_signM (x : bytes) : bytes := repeat x00 4627.
Definition d_v (d s : bytes) : bool := true.

Definition show_record (d : logd) : bytes :=
  join B"," [tokb (l_phase d); tokb (l_op d); tokb (l_bucket d); tokb (l_key d); tokb (l_upload d); show_Z (l_part d);
             tokb (l_srcb d); tokb (l_srck d); tokb (l_cred d); tokb (l_auth d); tokb (l_reqid d); tokb (l_ip d);
             show_Z (l_status d); tokb (l_outcome d); tokb (l_err d)].

(* run length encoding of the entry types *)
Fixpoint shape_go (l : list entry) (run : N) (acc : list bytes) : list bytes :=
  match l with
  | [] => rev' (if run =? 0 then acc else ("L"%byte :: show_N run) :: acc)
  | e :: l' =>
      if bytes_eqb (e_type e) t_log then shape_go l' (run + 1) acc
      else let acc := if run =? 0 then acc else ("L"%byte :: show_N run) :: acc in
           shape_go l' 0 ((if bytes_eqb (e_type e) t_genesis then B"S" else if bytes_eqb (e_type e) t_grounding then B"G" else B"?") :: acc)
  end.
Definition show_shape (l : list entry) : bytes := match shape_go l 0 [] with [] => B"-" | s => join B"," s end.

Definition records_of (l : list entry) : list logd :=
  flat_map (fun e => match e_det e with DLog d => [d] | _ => [] end) l.

Definition run_workload (restart : option nat) (ops : list opcall) : list entry :=
  let W := run_calls d_H d_signE d_signM grounding_block in
  let fresh := new_writer d_H d_signE [] [] 0%Z in
  match restart with
  | None => w_out (W fresh (flat_map op_calls ops))
  | Some i =>
      let L0 := w_out (W fresh (flat_map op_calls (firstn i ops))) in
      match validate_from d_H d_v d_v false false grounding_block init_state L0 with
      | VOk st => L0 ++ w_out (W (new_writer d_H d_signE (v_prev st) (v_buf st) 0%Z) (flat_map op_calls (skipn i ops)))
      | _ => []
      end
  end.

Definition show_class (c : option mclass) : bytes :=
  match c with Some Audited => B"AUDITED" | Some Unaudited => B"UNAUDITED" | Some Lifecycle => B"LIFECYCLE" | None => B"UNKNOWN" end.

Definition run_line (l : bytes) : bytes :=
  match split_tr " "%byte l with
  | [cmd; a] =>
      if bytes_eqb cmd B"M" then do m <- untokb a; show_class (class_of m storage_methods)
      else if bytes_eqb cmd B"MS" then
        do ms <- mapM untokb (split_tr ","%byte a);
        if forallb (fun m => mem_bytes m (map fst storage_methods)) ms && forallb (fun p => mem_bytes (fst p) ms) storage_methods
        then B"COMPLETE" else B"INCOMPLETE"
      else parse_error
  | [cmd; zone; fmt; off; ent] =>
      if bytes_eqb cmd B"T" then
        do off <- parse_Z off; do e <- parse_entry ent;
        let g := {| g_e := e; g_off := off |} in
        if bytes_eqb fmt B"bin" then
          match enc_bin_go g with
          | None => B"ERR"
          | Some bs =>
              match dec_bin_go (fun _ => off) bs with
              | ROk g' [] => unwords [tokb bs; show_entry (g_e g') ++ B"@" ++ show_Z (g_off g')]
              | _ => unwords [tokb bs; B"DECERR"]
              end
          end
        else
          let j := enc_json_go g in
          match dec_json_go j with
          | Some g' => unwords [show_jdoc j; show_entry (g_e g') ++ B"@" ++ show_Z (g_off g')]
          | None => unwords [show_jdoc j; B"DECERR"]
          end
      else if bytes_eqb cmd B"W" then
        let body := ent in let mode := fmt in
        do ops <- mapM parse_op (split_tr ";"%byte body);
        do restart <- (if is_prefix B"restart:" mode then option_map Some (parse_nat (skipn 8 mode)) else Some None);
        let out := run_workload restart ops in
        unwords [show_shape out; match records_of out with [] => B"_" | rs => join B";" (map show_record rs) end]
      else parse_error
  | [cmd; fmt; mode; body] =>
      if bytes_eqb cmd B"W" then  (* legacy form without zone *)
        do ops <- mapM parse_op (split_tr ";"%byte body);
        do restart <- (if is_prefix B"restart:" mode then option_map Some (parse_nat (skipn 8 mode)) else Some None);
        let out := run_workload restart ops in
        unwords [show_shape out; match records_of out with [] => B"_" | rs => join B";" (map show_record rs) end]
      else parse_error
  | _ => parse_error
  end.
