(* Model/ObjCache.v — the object-cache storage middleware
   (internal/storage/middlewares/objectcache/objectcache.go over delegator.go) in front of an
   abstract inner storage.  The inner storage is modelled only as far as the middleware can see
   it: per (bucket,key) a stack of versions (bucket 0 unversioned, bucket 1 versioning enabled),
   objects as symbolic records (part contents by content id, content type / metadata / tag set /
   storage class by id, symbolic ETag, a stamp standing for every other attribute such as
   LastModified), pending multipart uploads.  The middleware state is the head cache, the body
   cache and the still open readers of cache-filling GETs.  No proofs in this file. *)
From Verif Require Import Bytes Codec.
Local Open Scope N_scope.

(* ---------- keys and finite maps (association lists, newest binding first) ---------- *)
Definition K := (N * N)%type.                       (* bucket id, key id *)
Definition K_eqb (a b : K) : bool := (fst a =? fst b) && (snd a =? snd b).

Fixpoint get {A} (k : K) (m : list (K * A)) : option A :=
  match m with
  | [] => None
  | (k', v) :: m' => if K_eqb k k' then Some v else get k m'
  end.
Definition set {A} (k : K) (v : A) (m : list (K * A)) : list (K * A) := (k, v) :: m.
Fixpoint del {A} (k : K) (m : list (K * A)) : list (K * A) :=
  match m with
  | [] => []
  | (k', v) :: m' => if K_eqb k k' then del k m' else (k', v) :: del k m'
  end.

(* ---------- objects ---------- *)
Inductive etag := ES (c : N) | EM (l : list N).
Fixpoint listN_eqb (a b : list N) : bool :=
  match a, b with
  | [], [] => true
  | x :: a', y :: b' => (x =? y) && listN_eqb a' b'
  | _, _ => false
  end.
Definition etag_eqb (a b : etag) : bool :=
  match a, b with
  | ES x, ES y => x =? y
  | EM x, EM y => listN_eqb x y
  | _, _ => false
  end.

Record obj := mkObj { o_parts : list N; o_ct : N; o_meta : N; o_tags : N; o_cls : N; o_etag : etag; o_stamp : N }.
Inductive ver := VObj (o : obj) | VDM.

(* content id -> length in bytes (harness/c20_store.go c20Len); unknown ids are empty *)
Definition len_of (c : N) : N :=
  match c with
  | 1 => 1 | 2 => 2 | 3 => 7 | 4 => 64 | 5 => 1000 | 6 => 4096 | 7 => 4097 | 8 => 5000 | 9 => 3000
  | _ => 0
  end.
Definition max_cached : N := 4096.
Definition size_parts (l : list N) : N := fold_right (fun c a => len_of c + a) 0 l.
Definition size_of (o : obj) : N := size_parts (o_parts o).
(* the bytes of a part list, canonically: the contents that are not empty, in order *)
Definition body_of (l : list N) : list N := filter (fun c => negb (len_of c =? 0)) l.

Inductive err :=
| Ok | NoSuchKey | DeleteMarker | NoSuchBucket | PreconditionFailed | NotModified | InvalidRange
| InvalidWriteOffset | InvalidStorageClass | InvalidSequence | MethodNotAllowed | BadDigest | ReadErr.

(* conditions: If-Match / If-None-Match style *)
Inductive cond := CNone | CStar | CTag (e : etag).
Inductive pcond := PNone | PIfNoneStar | PIfMatch (c : cond).

(* validateConditionalHead / validateConditionalGet, and the identical checks of the inner storage *)
Definition validate (o : obj) (im inm : cond) : option err :=
  match im with
  | CTag e => if etag_eqb (o_etag o) e then
                match inm with
                | CNone => None
                | CStar => Some NotModified
                | CTag e' => if etag_eqb (o_etag o) e' then Some NotModified else None
                end
              else Some PreconditionFailed
  | _ => match inm with
         | CNone => None
         | CStar => Some NotModified
         | CTag e' => if etag_eqb (o_etag o) e' then Some NotModified else None
         end
  end.

(* ---------- the inner storage ---------- *)
(* Per (bucket,key) the rows of the objects table that are visible through the API: version id
   (None = "null"), object or delete marker, creation stamp (kept when the null row is overwritten in
   place; the upload's creation time for multipart objects) and the is_latest flag.  Buckets carry a
   versioning state.  Version ids are referred to by their creation ordinal. *)
Inductive vstate := VUnset | VEnabled | VSuspended.
(* [VRBogus]: an id that no version has (an ordinal not yet handed out when the call was made) *)
Inductive vref := VRNone | VRNull | VRId (n : N) | VRBogus.
Record row := mkRow { w_vid : option N; w_ver : ver; w_created : N; w_latest : bool }.
Record upload := mkUp { u_k : K; u_ct : N; u_meta : N; u_tags : N; u_cls : N; u_parts : list (N * N); u_open : bool; u_created : N }.
Record inner := mkInner { i_objs : list (K * list row); i_ups : list upload; i_clock : N; i_nextvid : N; i_vers : list (N * vstate) }.
(* the harness enables versioning on bucket 1 before the history starts *)
Definition inner0 : inner := mkInner [] [] 0 0 [(1, VEnabled)].

Definition versioned (k : K) : bool := fst k =? 1.     (* used by Model/Repl.v only *)
Definition bucket_ok (b : N) : bool := b <? 2.
Definition bucket_missing (b : N) : bool := b =? 2.   (* a bucket that does not exist; only PutObject is really called on it *)
Fixpoint vs_lookup (b : N) (l : list (N * vstate)) : vstate :=
  match l with [] => VUnset | (b', v) :: l' => if b' =? b then v else vs_lookup b l' end.
Definition vs_of (s : inner) (b : N) : vstate := vs_lookup b (i_vers s).
Definition is_enabled (s : inner) (b : N) : bool := match vs_of s b with VEnabled => true | _ => false end.
Definition is_suspended (s : inner) (b : N) : bool := match vs_of s b with VSuspended => true | _ => false end.
Definition is_unset (s : inner) (b : N) : bool := match vs_of s b with VUnset => true | _ => false end.

Definition stack (s : inner) (k : K) : list row := match get k (i_objs s) with Some l => l | None => [] end.
Definition cur_row (s : inner) (k : K) : option row := find w_latest (stack s k).
Definition cur (s : inner) (k : K) : option ver := option_map w_ver (cur_row s k).
Definition cur_obj (s : inner) (k : K) : option obj := match cur s k with Some (VObj o) => Some o | _ => None end.
Definition is_null (r : row) : bool := match w_vid r with None => true | Some _ => false end.
Definition vid_matches (vr : vref) (r : row) : bool :=
  match vr, w_vid r with
  | VRNull, None => true
  | VRId n, Some m => n =? m
  | _, _ => false
  end.
Definition row_by (s : inner) (k : K) (vr : vref) : option row := find (vid_matches vr) (stack s k).
Definition null_row (s : inner) (k : K) : option row := find is_null (stack s k).
(* the row a call without / with a version id addresses *)
Definition target_row (s : inner) (k : K) (vr : vref) : option row :=
  match vr with VRNone => cur_row s k | _ => row_by s k vr end.

Definition set_stack (s : inner) (k : K) (l : list row) : inner :=
  mkInner (set k l (i_objs s)) (i_ups s) (i_clock s + 1) (i_nextvid s) (i_vers s).
Definition bump_vid (s : inner) : inner := mkInner (i_objs s) (i_ups s) (i_clock s) (i_nextvid s + 1) (i_vers s).
Definition unlatest1 (r : row) : row := mkRow (w_vid r) (w_ver r) (w_created r) false.
Definition unlatest (l : list row) : list row := map unlatest1 l.
Definition set_ver (r : row) (v : ver) : row := mkRow (w_vid r) v (w_created r) (w_latest r).

(* a new current version (sql PutObject / CompleteMultipartUpload):
   Enabled: new row with a fresh id.  Otherwise the null version: overwritten in place keeping its
   creation stamp ([inplace], PutObject) or removed and re-inserted (CompleteMultipartUpload). *)
Definition write_new (s : inner) (k : K) (v : ver) (created : N) (inplace : bool) : inner :=
  if is_enabled s (fst k) then
    bump_vid (set_stack s k (mkRow (Some (i_nextvid s)) v created true :: unlatest (stack s k)))
  else
    match null_row s k with
    | Some _ =>
        if inplace then
          set_stack s k (map (fun r => if is_null r then mkRow None v (w_created r) true else unlatest1 r) (stack s k))
        else
          set_stack s k (mkRow None v created true :: unlatest (filter (fun r => negb (is_null r)) (stack s k)))
    | None => set_stack s k (mkRow None v created true :: unlatest (stack s k))
    end.
(* in-place change of one row *)
Definition upd_rows (pr : row -> bool) (f : row -> row) (l : list row) : list row :=
  map (fun r => if pr r then f r else r) l.
Definition upd_target (s : inner) (k : K) (vr : vref) (f : row -> row) : inner :=
  set_stack s k (upd_rows (match vr with VRNone => w_latest | _ => vid_matches vr end) f (stack s k)).
(* FindLatestObjectByBucketNameAndKeyExcludingID: the remaining row with the newest creation stamp *)
Fixpoint max_created (l : list row) : option N :=
  match l with
  | [] => None
  | r :: l' => match max_created l' with
               | Some c => Some (N.max c (w_created r))
               | None => Some (w_created r)
               end
  end.
Definition promote (l : list row) : list row :=
  match max_created l with
  | None => l
  | Some c => map (fun r => if w_created r =? c then mkRow (w_vid r) (w_ver r) (w_created r) true else r) l
  end.

Inductive rres := RObj (o : obj) | RErr (e : err).
Definition inner_lookup (s : inner) (k : K) : rres :=
  match cur s k with
  | None => RErr NoSuchKey
  | Some VDM => RErr DeleteMarker
  | Some (VObj o) => RObj o
  end.
Definition inner_head (s : inner) (k : K) (im inm : cond) : rres :=
  match inner_lookup s k with
  | RObj o => match validate o im inm with Some e => RErr e | None => RObj o end
  | r => r
  end.
Inductive gres := GObj (o : obj) (body : list N) | GErr (e : err).
(* GetObject of the whole object *)
Definition inner_get (s : inner) (k : K) (im inm : cond) : gres :=
  match inner_head s k im inm with
  | RErr e => GErr e
  | RObj o => GObj o (body_of (o_parts o))
  end.
(* reads that name a version id *)
Definition inner_head_v (s : inner) (k : K) (vr : vref) (im inm : cond) : rres :=
  match row_by s k vr with
  | None => RErr NoSuchKey
  | Some r => match w_ver r with
              | VDM => RErr MethodNotAllowed
              | VObj o => match validate o im inm with Some e => RErr e | None => RObj o end
              end
  end.
Definition inner_get_v (s : inner) (k : K) (vr : vref) (im inm : cond) : gres :=
  match inner_head_v s k vr im inm with
  | RErr e => GErr e
  | RObj o => GObj o (body_of (o_parts o))
  end.

(* GetObject with one byte range (normalizeAndValidateRanges + createRangeReader): the object the call
   addresses and the normalised (start, length), or InvalidRange *)
Definition norm_range (size : N) (rs re : option N) : option (N * N) :=
  match rs, re with
  | None, None => Some (0, size)
  | None, Some e => if e =? 0 then None
                    else let suf := N.min e size in if suf =? 0 then None else Some (size - suf, suf)
  | Some st, Some e => let e' := N.min e size in if e' <=? st then None else Some (st, e' - st)
  | Some st, None => if size <=? st then None else Some (st, size - st)
  end.
Inductive rgres := GRange (o : obj) (start len : N) | GRErr (e : err).
Definition inner_get_range (s : inner) (k : K) (vr : vref) (rs re : option N) : rgres :=
  match (match vr with VRNone => inner_head s k CNone CNone | _ => inner_head_v s k vr CNone CNone end) with
  | RErr e => GRErr e
  | RObj o => match norm_range (size_of o) rs re with
              | Some (st, ln) => GRange o st ln
              | None => GRErr InvalidRange
              end
  end.

Definition cond_holds (c : cond) (cu : option obj) : bool :=
  match c, cu with
  | CNone, _ => true
  | CStar, Some _ => true
  | CTag e, Some o => etag_eqb (o_etag o) e
  | _, None => false
  end.
Definition row_obj (r : option row) : option obj := match r with Some r' => match w_ver r' with VObj o => Some o | VDM => None end | None => None end.

Definition inner_put (s : inner) (k : K) (cid ct meta tags cls : N) (c : pcond) : inner * err :=
  let ex := cur_obj s k in
  let pass := match c with
              | PNone => true
              | PIfNoneStar => match ex with
                               | None => is_enabled s (fst k) || match null_row s k with None => true | Some _ => false end
                               | Some _ => false
                               end
              | PIfMatch c' => cond_holds c' ex
              end in
  if pass then (write_new s k (VObj (mkObj [cid] ct meta tags cls (ES cid) (i_clock s))) (i_clock s) true, Ok)
  else (s, PreconditionFailed).

Definition inner_append (s : inner) (k : K) (cid : N) (off : option N) : inner * err :=
  let ex := cur_obj s k in
  let off_ok := match off, ex with
                | None, _ => true
                | Some n, None => n =? 0
                | Some n, Some o => n =? size_of o
                end in
  if off_ok then
    if is_enabled s (fst k) then
      let o' := match ex with
                | None => mkObj [cid] 0 0 0 0 (EM [cid]) (i_clock s)
                | Some o => let ps := o_parts o ++ [cid] in mkObj ps (o_ct o) 0 0 0 (EM ps) (i_clock s)
                end in
      (write_new s k (VObj o') (i_clock s) true, Ok)
    else
      (* sql AppendObject: the latest row (even a delete marker) is updated in place *)
      match cur_row s k with
      | Some r =>
          let o' := match w_ver r with
                    | VObj o => let ps := o_parts o ++ [cid] in mkObj ps (o_ct o) (o_meta o) (o_tags o) (o_cls o) (EM ps) (i_clock s)
                    | VDM => mkObj [cid] 0 0 0 0 (EM [cid]) (i_clock s)
                    end in
          (upd_target s k VRNone (fun x => set_ver x (VObj o')), Ok)
      | None => (set_stack s k (mkRow None (VObj (mkObj [cid] 0 0 0 0 (EM [cid]) (i_clock s))) (i_clock s) true :: stack s k), Ok)
      end
  else (s, InvalidWriteOffset).

Definition inner_copy (s : inner) (src dst : K) (rm : bool) (ct meta : N) (rt : bool) (tags cls : N) : inner * err :=
  match inner_lookup s src with
  | RErr e => (s, e)
  | RObj o =>
      let o' := mkObj (o_parts o) (if rm then ct else o_ct o) (if rm then meta else o_meta o)
                      (if rt then tags else o_tags o) cls (o_etag o) (i_clock s) in
      (write_new s dst (VObj o') (i_clock s) true, Ok)
  end.

(* sql DeleteObject (after the pre-checks of metadatapart): [cond] has been found to address an
   existing target where one is required *)
Definition remove_version (s : inner) (k : K) (vr : vref) (r : row) : inner :=
  let rest := filter (fun x => negb (vid_matches vr x)) (stack s k) in
  set_stack s k (if w_latest r then promote rest else rest).
Definition push_marker (s : inner) (k : K) : inner :=
  let rows := if is_suspended s (fst k) then filter (fun r => negb (is_null r)) (stack s k) else stack s k in
  bump_vid (set_stack s k (mkRow (Some (i_nextvid s)) VDM (i_clock s) true :: unlatest rows)).

Definition inner_delete (s : inner) (k : K) (c : cond) (vr : vref) : inner * err :=
  match vr with
  | VRNone =>
      if is_unset s (fst k) then
        match cur_row s k with
        | None => match c with CNone => (s, Ok) | _ => (s, PreconditionFailed) end
        | Some r => if cond_holds c (row_obj (Some r))
                    then (set_stack s k (filter (fun x => negb (w_latest x)) (stack s k)), Ok)
                    else (s, PreconditionFailed)
        end
      else
        if cond_holds c (cur_obj s k) then (push_marker s k, Ok) else (s, PreconditionFailed)
  | _ =>
      match row_by s k vr with
      | None => match c with CNone => (s, Ok) | _ => (s, PreconditionFailed) end
      | Some r =>
          let pass := match c with
                      | CNone | CStar => true
                      | CTag e => match w_ver r with VObj o => etag_eqb (o_etag o) e | VDM => false end
                      end in
          if pass then (remove_version s k vr r, Ok) else (s, PreconditionFailed)
      end
  end.

(* one entry of DeleteObjects: true = Deleted, false = PreconditionFailed.  The bulk path compares
   the ETag of the looked-up row with the literal condition first, so "*" never matches there. *)
Definition inner_delete_entry (s : inner) (k : K) (c : cond) (vr : vref) : inner * bool :=
  let looked := match vr with
                | VRNone => if is_suspended s (fst k) then null_row s k else cur_row s k
                | _ => row_by s k vr
                end in
  match looked with
  | None =>
      match c with
      | CNone => match vr with
                 | VRNone => if is_unset s (fst k) then (s, true) else (push_marker s k, true)
                 | _ => (s, true)
                 end
      | _ => (s, false)
      end
  | Some r =>
      let pass := match c with
                  | CNone => true
                  | CStar => false
                  | CTag e => match w_ver r with VObj o => etag_eqb (o_etag o) e | VDM => false end
                  end in
      if pass then
        match inner_delete s k c vr with
        | (s', Ok) => (s', true)
        | (s', _) => (s', false)
        end
      else (s, false)
  end.
(* the caller fixed the version ids before the call: ordinals not yet handed out then match nothing,
   even if an earlier entry of the same call creates a delete marker with that ordinal *)
Definition freeze_vref (limit : N) (e : N * cond * vref) : N * cond * vref :=
  match e with
  | (k, c, VRId n) => if n <? limit then e else (k, c, VRBogus)
  | _ => e
  end.
Fixpoint inner_delete_many (s : inner) (b : N) (es : list (N * cond * vref)) : inner * list (N * bool) :=
  match es with
  | [] => (s, [])
  | (k, c, vr) :: es' =>
      let (s1, d) := inner_delete_entry s (b, k) c vr in
      let (s2, r) := inner_delete_many s1 b es' in
      (s2, (k, d) :: r)
  end.

Definition set_tags (o : obj) (tags st : N) : obj := mkObj (o_parts o) (o_ct o) (o_meta o) tags (o_cls o) (o_etag o) st.
Definition set_cls (o : obj) (cls st : N) : obj := mkObj (o_parts o) (o_ct o) (o_meta o) (o_tags o) cls (o_etag o) st.
Definition inner_tag (s : inner) (k : K) (tags : N) (vr : vref) : inner * err :=
  match target_row s k vr with
  | None => (s, NoSuchKey)
  | Some r =>
      match w_ver r with
      | VDM => (s, match vr with VRNone => DeleteMarker | _ => MethodNotAllowed end)
      | VObj o => (upd_target s k vr (fun x => set_ver x (VObj (set_tags o tags (i_clock s)))), Ok)
      end
  end.

Definition class_ok (c : N) : bool := (1 <=? c) && (c <=? 3).
Definition inner_trans (s : inner) (k : K) (cls : N) (c : cond) (vr : vref) : inner * err :=
  if class_ok cls then
    match row_obj (target_row s k vr) with
    | None => (s, NoSuchKey)
    | Some o =>
        if cond_holds c (Some o) then
          (upd_target s k vr (fun x => set_ver x (VObj (set_cls o cls (i_clock s)))), Ok)
        else (s, PreconditionFailed)
    end
  else (s, InvalidStorageClass).

Definition inner_set_versioning (s : inner) (b : N) (v : vstate) : inner :=
  mkInner (i_objs s) (i_ups s) (i_clock s) (i_nextvid s) ((b, v) :: i_vers s).

(* multipart uploads, addressed by creation ordinal *)
Fixpoint upd_nth {A} (n : nat) (f : A -> A) (l : list A) : list A :=
  match l, n with
  | [], _ => []
  | x :: l', O => f x :: l'
  | x :: l', S n' => x :: upd_nth n' f l'
  end.
Fixpoint insert_part (p : N * N) (l : list (N * N)) : list (N * N) :=
  match l with
  | [] => [p]
  | q :: l' => if fst p <? fst q then p :: l
               else if fst p =? fst q then p :: l'
               else q :: insert_part p l'
  end.
Definition close_up (u : upload) : upload := mkUp (u_k u) (u_ct u) (u_meta u) (u_tags u) (u_cls u) (u_parts u) false (u_created u).
Definition set_ups (s : inner) (ups : list upload) : inner := mkInner (i_objs s) ups (i_clock s + 1) (i_nextvid s) (i_vers s).

Inductive mres := MDone (e : err) | MNoUpload.
Definition inner_mcreate (s : inner) (k : K) (ct meta tags cls : N) : inner :=
  set_ups s (i_ups s ++ [mkUp k ct meta tags cls [] true (i_clock s)]).
Definition inner_mpart (s : inner) (u pn cid : N) : inner * mres :=
  match nth_error (i_ups s) (N.to_nat u) with
  | None => (s, MNoUpload)
  | Some up =>
      if u_open up then
        (set_ups s (upd_nth (N.to_nat u) (fun x => mkUp (u_k x) (u_ct x) (u_meta x) (u_tags x) (u_cls x) (insert_part (pn, cid) (u_parts x)) true (u_created x)) (i_ups s)), MDone Ok)
      else (s, MDone NoSuchKey)
  end.
(* part numbers must be exactly 1..n (UploadWithInvalidSequenceNumber otherwise; the upload stays open) *)
Fixpoint seq_from (n : N) (l : list (N * N)) : bool :=
  match l with
  | [] => true
  | p :: l' => (fst p =? n) && seq_from (n + 1) l'
  end.
Definition inner_mcomplete (s : inner) (u : N) : inner * mres * option K :=
  match nth_error (i_ups s) (N.to_nat u) with
  | None => (s, MNoUpload, None)
  | Some up =>
      if u_open up then
        if negb (seq_from 1 (u_parts up)) then (s, MDone InvalidSequence, Some (u_k up)) else
        let ps := map snd (u_parts up) in
        let s1 := set_ups s (upd_nth (N.to_nat u) close_up (i_ups s)) in
        (write_new s1 (u_k up) (VObj (mkObj ps (u_ct up) (u_meta up) (u_tags up) (u_cls up) (EM ps) (i_clock s))) (u_created up) false, MDone Ok, Some (u_k up))
      else (s, MDone NoSuchKey, Some (u_k up))
  end.
Definition inner_mabort (s : inner) (u : N) : inner * mres :=
  match nth_error (i_ups s) (N.to_nat u) with
  | None => (s, MNoUpload)
  | Some up =>
      if u_open up then (set_ups s (upd_nth (N.to_nat u) close_up (i_ups s)), MDone Ok)
      else (s, MDone NoSuchKey)
  end.

(* ---------- the middleware ---------- *)
(* an open reader handed out by GetObject: [h_fill] = it streams into the body cache when read to EOF *)
Record handle := mkH { h_k : K; h_body : list N; h_obj : option obj; h_live : bool; h_fill : bool }.
Record st := mkSt { s_in : inner; s_head : list (K * obj); s_body : list (K * list N); s_hs : list handle }.
Definition st0 : st := mkSt inner0 [] [] [].

Definition invalidate (s : st) (i : inner) (k : K) : st := mkSt i (del k (s_head s)) (del k (s_body s)) (s_hs s).
Definition with_inner (s : st) (i : inner) : st := mkSt i (s_head s) (s_body s) (s_hs s).

Inductive op :=
| OPut (k : K) (cid ct meta tags cls : N) (c : pcond)
| OPutBad (k : K) (cid : N) (flt : N)       (* a put whose body is rejected: 2/3 checksum mismatch, 4 reader error *)
| OAppend (k : K) (cid : N) (off : option N)
| OAppendBad (k : K) (cid : N) (flt : N)
| OCopy (src dst : K) (rm : bool) (ct meta : N) (rt : bool) (tags cls : N)
| ODelete (k : K) (c : cond) (vr : vref)
| ODeleteMany (b : N) (es : list (N * cond * vref))
| OTag (k : K) (tags : N) (vr : vref)
| OUntag (k : K) (vr : vref)
| OTrans (k : K) (cls : N) (c : cond) (vr : vref)
| OVers (b : N) (v : vstate)
| OMCreate (k : K) (ct meta tags cls : N)
| OMPart (u pn cid : N)
| OMComplete (u : N)
| OMAbort (u : N)
| OHead (k : K) (im inm : cond)
| OGet (k : K) (im inm : cond)
| OHeadV (k : K) (vr : vref) (im inm : cond)
| OGetV (k : K) (vr : vref) (im inm : cond)
| OGetR (k : K) (vr : vref) (rs re : option N)    (* GetObject with one byte range [rs, re) / suffix *)
| OGetOpen (k : K) (im inm : cond)
| OGetFinish (h : N)
| OGetAbort (h : N)
| OBad.

Inductive res :=
| RStatus (e : err)
| RDel (l : list (N * bool))
| RHead (o : obj)
| RGet (o : obj) (body : list N)
| RRange (o : obj) (start len : N)
| ROpen (o : obj)
| RBody (body : list N)
| RBlock | RNoHandle | RNoUpload | RBad.

Definition pending (s : st) (k : K) : bool := existsb (fun h => h_live h && K_eqb (h_k h) k) (s_hs s).

(* HeadObject *)
Definition mw_head (s : st) (k : K) (im inm : cond) : st * res :=
  match get k (s_head s) with
  | Some o => match validate o im inm with Some e => (s, RStatus e) | None => (s, RHead o) end
  | None =>
      match inner_lookup (s_in s) k with
      | RErr e => (s, RStatus e)
      | RObj o =>
          let s' := mkSt (s_in s) (set k o (s_head s)) (s_body s) (s_hs s) in
          match validate o im inm with Some e => (s', RStatus e) | None => (s', RHead o) end
      end
  end.

(* the synchronous part of GetObject: answer + (object, body, fills-the-cache?) *)
Inductive opened := OpErr (e : err) | OpOk (o : obj) (body : list N) (fill : bool).
Definition mw_open (s : st) (k : K) (im inm : cond) : st * opened :=
  match get k (s_head s), get k (s_body s) with
  | Some o, Some b =>
      match validate o im inm with Some e => (s, OpErr e) | None => (s, OpOk o b false) end
  | _, _ =>
      match inner_get (s_in s) k im inm with
      | GErr e => (s, OpErr e)
      | GObj o b =>
          if max_cached <? size_of o then (s, OpOk o b false)
          else (mkSt (s_in s) (set k o (s_head s)) (s_body s) (s_hs s), OpOk o b true)
      end
  end.

Definition push_handle (s : st) (h : handle) : st := mkSt (s_in s) (s_head s) (s_body s) (s_hs s ++ [h]).
Definition dead_handle (k : K) : handle := mkH k [] None false false.

Definition kill (h : handle) : handle := mkH (h_k h) (h_body h) (h_obj h) false (h_fill h).

Definition step (s : st) (o : op) : st * res :=
  match o with
  | OPut k cid ct meta tags cls c =>
      if bucket_ok (fst k) then
        let (i, e) := inner_put (s_in s) k cid ct meta tags cls c in
        match e with
        | Ok =>
            let body' := if len_of cid <=? max_cached then set k (body_of [cid]) (s_body s) else del k (s_body s) in
            let head' := match inner_lookup i k with
                         | RObj ob => set k ob (s_head s)
                         | RErr _ => del k (s_head s)
                         end in
            (mkSt i head' body' (s_hs s), RStatus Ok)
        | _ => (invalidate s i k, RStatus e)
        end
      else if bucket_missing (fst k) then
        (* the call is made: the inner storage consumes the body, then reports the missing bucket;
           the middleware streams the body into its cache and invalidates *)
        (invalidate s (s_in s) k, RStatus NoSuchBucket)
      else (s, RStatus NoSuchBucket)
  | OPutBad k cid flt =>
      (* rejected after (flt 2,3: checksum mismatch) or while (flt 4: reader error) the body was
         consumed: the store is unchanged, the middleware removes both cache entries of the key *)
      if bucket_ok (fst k) || bucket_missing (fst k) then
        (invalidate s (s_in s) k, RStatus (if flt =? 4 then ReadErr else BadDigest))
      else (s, RStatus NoSuchBucket)
  | OAppendBad k cid flt =>
      (* AppendObject does not touch the cache on error *)
      if bucket_ok (fst k) then (s, RStatus (if flt =? 4 then ReadErr else BadDigest))
      else (s, RStatus NoSuchBucket)
  | OAppend k cid off =>
      if bucket_ok (fst k) then
        let (i, e) := inner_append (s_in s) k cid off in
        match e with Ok => (invalidate s i k, RStatus Ok) | _ => (with_inner s i, RStatus e) end
      else (s, RStatus NoSuchBucket)
  | OCopy src dst rm ct meta rt tags cls =>
      if bucket_ok (fst src) && bucket_ok (fst dst) then
        let (i, e) := inner_copy (s_in s) src dst rm ct meta rt tags cls in
        (invalidate s i dst, RStatus e)
      else (s, RStatus NoSuchBucket)
  | ODelete k c vr =>
      (* also with a version id: deleting the current version by id promotes another one *)
      if bucket_ok (fst k) then
        let (i, e) := inner_delete (s_in s) k c vr in
        match e with Ok => (invalidate s i k, RStatus Ok) | _ => (with_inner s i, RStatus e) end
      else (s, RStatus NoSuchBucket)
  | ODeleteMany b es =>
      if bucket_ok b then
        let (i, r) := inner_delete_many (s_in s) b (map (freeze_vref (i_nextvid (s_in s))) es) in
        (fold_left (fun (a : st) (kd : N * bool) => if snd kd then invalidate a (s_in a) (b, fst kd) else a) r (with_inner s i), RDel r)
      else (s, RStatus NoSuchBucket)
  | OTag k tags vr =>
      if bucket_ok (fst k) then
        let (i, e) := inner_tag (s_in s) k tags vr in (invalidate s i k, RStatus e)
      else (s, RStatus NoSuchBucket)
  | OUntag k vr =>
      if bucket_ok (fst k) then
        let (i, e) := inner_tag (s_in s) k 0 vr in (invalidate s i k, RStatus e)
      else (s, RStatus NoSuchBucket)
  | OTrans k cls c vr =>
      (* TransitionObjectStorageClass (overridden since c25178c): forward, then invalidate even on error *)
      if bucket_ok (fst k) then
        let (i, e) := inner_trans (s_in s) k cls c vr in (invalidate s i k, RStatus e)
      else (s, RStatus NoSuchBucket)
  | OVers b v =>
      (* PutBucketVersioningConfiguration: delegator only *)
      if bucket_ok b then (with_inner s (inner_set_versioning (s_in s) b v), RStatus Ok)
      else (s, RStatus NoSuchBucket)
  | OMCreate k ct meta tags cls =>
      if bucket_ok (fst k) then (with_inner s (inner_mcreate (s_in s) k ct meta tags cls), RStatus Ok)
      else (s, RStatus NoSuchBucket)
  | OMPart u pn cid =>
      match inner_mpart (s_in s) u pn cid with
      | (i, MDone e) => (with_inner s i, RStatus e)
      | (_, MNoUpload) => (s, RNoUpload)
      end
  | OMComplete u =>
      match inner_mcomplete (s_in s) u with
      | (i, MDone Ok, Some k) => (invalidate s i k, RStatus Ok)
      | (i, MDone e, _) => (with_inner s i, RStatus e)
      | (_, MNoUpload, _) => (s, RNoUpload)
      end
  | OMAbort u =>
      match inner_mabort (s_in s) u with
      | (i, MDone e) => (with_inner s i, RStatus e)
      | (_, MNoUpload) => (s, RNoUpload)
      end
  | OHead k im inm =>
      if bucket_ok (fst k) then mw_head s k im inm else (s, RStatus NoSuchBucket)
  | OGet k im inm =>
      if bucket_ok (fst k) then
        if pending s k then (s, RBlock)
        else
          match mw_open s k im inm with
          | (s', OpErr e) => (s', RStatus e)
          | (s', OpOk ob b fill) =>
              ((if fill then mkSt (s_in s') (s_head s') (set k b (s_body s')) (s_hs s') else s'), RGet ob b)
          end
      else (s, RStatus NoSuchBucket)
  | OHeadV k vr im inm =>
      (* reads that name a version id bypass the cache *)
      if bucket_ok (fst k) then
        (s, match inner_head_v (s_in s) k vr im inm with RObj o => RHead o | RErr e => RStatus e end)
      else (s, RStatus NoSuchBucket)
  | OGetV k vr im inm =>
      if bucket_ok (fst k) then
        (s, match inner_get_v (s_in s) k vr im inm with GObj o b => RGet o b | GErr e => RStatus e end)
      else (s, RStatus NoSuchBucket)
  | OGetR k vr rs re =>
      (* ranged reads bypass the cache, with or without a version id *)
      if bucket_ok (fst k) then
        (s, match inner_get_range (s_in s) k vr rs re with GRange o st ln => RRange o st ln | GRErr e => RStatus e end)
      else (s, RStatus NoSuchBucket)
  | OGetOpen k im inm =>
      if bucket_ok (fst k) then
        if pending s k then (push_handle s (dead_handle k), RBlock)
        else
          match mw_open s k im inm with
          | (s', OpErr e) => (push_handle s' (dead_handle k), RStatus e)
          | (s', OpOk ob b fill) => (push_handle s' (mkH k b (Some ob) true fill), ROpen ob)
          end
      else (push_handle s (dead_handle k), RStatus NoSuchBucket)
  | OGetFinish h =>
      match nth_error (s_hs s) (N.to_nat h) with
      | Some hd =>
          if h_live hd then
            let hs' := upd_nth (N.to_nat h) kill (s_hs s) in
            (mkSt (s_in s) (s_head s) (if h_fill hd then set (h_k hd) (h_body hd) (s_body s) else s_body s) hs', RBody (h_body hd))
          else (s, RNoHandle)
      | None => (s, RNoHandle)
      end
  | OGetAbort h =>
      match nth_error (s_hs s) (N.to_nat h) with
      | Some hd =>
          if h_live hd then
            let hs' := upd_nth (N.to_nat h) kill (s_hs s) in
            (mkSt (s_in s) (s_head s) (if h_fill hd then del (h_k hd) (s_body s) else s_body s) hs', RStatus Ok)
          else (s, RNoHandle)
      | None => (s, RNoHandle)
      end
  | OBad => (s, RBad)
  end.

Fixpoint run (s : st) (ops : list op) : st * list res :=
  match ops with
  | [] => (s, [])
  | o :: ops' => let (s1, r) := step s o in let (s2, rs) := run s1 ops' in (s2, r :: rs)
  end.

(* ---------- line protocol ---------- *)
Definition parse_etag (t : bytes) : option etag :=
  match t with
  | "s"%byte :: r => option_map ES (parse_N r)
  | "m"%byte :: r => option_map EM (mapM parse_N (split_on "."%byte r))
  | _ => None
  end.
Definition parse_cond (t : bytes) : option cond :=
  if bytes_eqb t B"N" then Some CNone
  else if bytes_eqb t B"*" then Some CStar
  else option_map CTag (parse_etag t).
Definition parse_pcond (t : bytes) : option pcond :=
  if bytes_eqb t B"N" then Some PNone
  else if bytes_eqb t B"S" then Some PIfNoneStar
  else option_map PIfMatch (parse_cond t).
Definition parse_off (t : bytes) : option (option N) :=
  if bytes_eqb t B"N" then Some None else option_map Some (parse_N t).
Definition parse_vref (t : bytes) : option vref :=
  if bytes_eqb t B"N" then Some VRNone
  else if bytes_eqb t B"n" then Some VRNull
  else match t with
       | "v"%byte :: r => option_map VRId (parse_N r)
       | _ => None
       end.
(* "k:cond" or "k:cond:vref" *)
Definition parse_entry (t : bytes) : option (N * cond * vref) :=
  match split_on ":"%byte t with
  | [a; b] => match parse_N a, parse_cond b with Some k, Some c => Some (k, c, VRNone) | _, _ => None end
  | [a; b; v] => match parse_N a, parse_cond b, parse_vref v with Some k, Some c, Some vr => Some (k, c, vr) | _, _, _ => None end
  | _ => None
  end.
Definition pb (t : bytes) : option bool := parse_bool t.

Definition parse_op (t : bytes) : op :=
  let f := split_on ","%byte t in
  let bad := OBad in
  match f with
  | tag :: a =>
      if bytes_eqb tag B"P" then
        match a with
        | [b; k; cid; ct; me; tg; cl; c] =>
            match mapM parse_N [b; k; cid; ct; me; tg; cl], parse_pcond c with
            | Some [b; k; cid; ct; me; tg; cl], Some c => OPut (b, k) cid ct me tg cl c
            | _, _ => bad
            end
        | [b; k; cid; ct; me; tg; cl; c; flt] =>
            (* flt: 0 none, 1 a correct checksum is sent, 2/3 a wrong one, 4 the reader fails mid-body *)
            match mapM parse_N [b; k; cid; ct; me; tg; cl; flt], parse_pcond c with
            | Some [b; k; cid; ct; me; tg; cl; flt], Some c =>
                if flt <=? 1 then OPut (b, k) cid ct me tg cl c
                else if flt <=? 4 then OPutBad (b, k) cid flt else bad
            | _, _ => bad
            end
        | _ => bad
        end
      else if bytes_eqb tag B"A" then
        match a with
        | [b; k; cid; off] =>
            match mapM parse_N [b; k; cid], parse_off off with
            | Some [b; k; cid], Some off => OAppend (b, k) cid off
            | _, _ => bad
            end
        | [b; k; cid; off; flt] =>
            match mapM parse_N [b; k; cid; flt], parse_off off with
            | Some [b; k; cid; flt], Some off =>
                if flt <=? 1 then OAppend (b, k) cid off
                else if (flt <=? 4) && match off with None => true | Some _ => false end then OAppendBad (b, k) cid flt
                else bad
            | _, _ => bad
            end
        | _ => bad
        end
      else if bytes_eqb tag B"C" then
        match mapM parse_N a with
        | Some [sb; sk; db; dk; rm; ct; me; rt; tg; cl] => OCopy (sb, sk) (db, dk) (rm =? 1) ct me (rt =? 1) tg cl
        | _ => bad
        end
      else if bytes_eqb tag B"D" then
        match a with
        | [b; k; c] =>
            match mapM parse_N [b; k], parse_cond c with
            | Some [b; k], Some c => ODelete (b, k) c VRNone
            | _, _ => bad
            end
        | [b; k; c; v] =>
            match mapM parse_N [b; k], parse_cond c, parse_vref v with
            | Some [b; k], Some c, Some vr => ODelete (b, k) c vr
            | _, _, _ => bad
            end
        | _ => bad
        end
      else if bytes_eqb tag B"X" then
        match a with
        | b :: es =>
            match parse_N b, mapM parse_entry es with
            | Some b, Some es => ODeleteMany b es
            | _, _ => bad
            end
        | _ => bad
        end
      else if bytes_eqb tag B"T" then
        match a with
        | [b; k; tg] => match mapM parse_N [b; k; tg] with Some [b; k; tg] => OTag (b, k) tg VRNone | _ => bad end
        | [b; k; tg; v] => match mapM parse_N [b; k; tg], parse_vref v with Some [b; k; tg], Some vr => OTag (b, k) tg vr | _, _ => bad end
        | _ => bad
        end
      else if bytes_eqb tag B"U" then
        match a with
        | [b; k] => match mapM parse_N [b; k] with Some [b; k] => OUntag (b, k) VRNone | _ => bad end
        | [b; k; v] => match mapM parse_N [b; k], parse_vref v with Some [b; k], Some vr => OUntag (b, k) vr | _, _ => bad end
        | _ => bad
        end
      else if bytes_eqb tag B"V" then
        match a with
        | [b; v] => match parse_N b with
                    | Some b => if bytes_eqb v B"E" then OVers b VEnabled else if bytes_eqb v B"S" then OVers b VSuspended else bad
                    | None => bad
                    end
        | _ => bad
        end
      else if bytes_eqb tag B"R" then
        match a with
        | [b; k; cl; c] =>
            match mapM parse_N [b; k; cl], parse_cond c with
            | Some [b; k; cl], Some c => OTrans (b, k) cl c VRNone
            | _, _ => bad
            end
        | [b; k; cl; c; v] =>
            match mapM parse_N [b; k; cl], parse_cond c, parse_vref v with
            | Some [b; k; cl], Some c, Some vr => OTrans (b, k) cl c vr
            | _, _, _ => bad
            end
        | _ => bad
        end
      else if bytes_eqb tag B"MC" then
        match mapM parse_N a with Some [b; k; ct; me; tg; cl] => OMCreate (b, k) ct me tg cl | _ => bad end
      else if bytes_eqb tag B"MP" then
        match mapM parse_N a with Some [u; pn; cid] => OMPart u pn cid | _ => bad end
      else if bytes_eqb tag B"MF" then
        match mapM parse_N a with Some [u] => OMComplete u | _ => bad end
      else if bytes_eqb tag B"MA" then
        match mapM parse_N a with Some [u] => OMAbort u | _ => bad end
      else if bytes_eqb tag B"H" || bytes_eqb tag B"G" || bytes_eqb tag B"GO" then
        match a with
        | [b; k; im; inm] =>
            match mapM parse_N [b; k], parse_cond im, parse_cond inm with
            | Some [b; k], Some im, Some inm =>
                if bytes_eqb tag B"H" then OHead (b, k) im inm
                else if bytes_eqb tag B"G" then OGet (b, k) im inm
                else OGetOpen (b, k) im inm
            | _, _, _ => bad
            end
        | [b; k; im; inm; v] =>
            (* reads with a version id (H and G only) *)
            match mapM parse_N [b; k], parse_cond im, parse_cond inm, parse_vref v with
            | Some [b; k], Some im, Some inm, Some vr =>
                match vr with
                | VRNone => if bytes_eqb tag B"H" then OHead (b, k) im inm
                            else if bytes_eqb tag B"G" then OGet (b, k) im inm else OGetOpen (b, k) im inm
                | _ => if bytes_eqb tag B"H" then OHeadV (b, k) vr im inm
                       else if bytes_eqb tag B"G" then OGetV (b, k) vr im inm else bad
                end
            | _, _, _, _ => bad
            end
        | _ => bad
        end
      else if bytes_eqb tag B"GR" then
        match a with
        | [b; k; rs; re; v] =>
            match mapM parse_N [b; k], parse_off rs, parse_off re, parse_vref v with
            | Some [b; k], Some rs, Some re, Some vr => OGetR (b, k) vr rs re
            | _, _, _, _ => bad
            end
        | _ => bad
        end
      else if bytes_eqb tag B"GF" then
        match mapM parse_N a with Some [h] => OGetFinish h | _ => bad end
      else if bytes_eqb tag B"GX" then
        match mapM parse_N a with Some [h] => OGetAbort h | _ => bad end
      else bad
  | [] => bad
  end.

Definition show_err (e : err) : bytes :=
  match e with
  | Ok => B"ok" | NoSuchKey => B"NoSuchKey" | DeleteMarker => B"DeleteMarker" | NoSuchBucket => B"NoSuchBucket"
  | PreconditionFailed => B"PreconditionFailed" | NotModified => B"NotModified" | InvalidRange => B"InvalidRange"
  | InvalidWriteOffset => B"InvalidWriteOffset" | InvalidStorageClass => B"InvalidStorageClass"
  | InvalidSequence => B"Err(UploadWithInvalidSequenceNumber)"
  | MethodNotAllowed => B"MethodNotAllowed"
  | BadDigest => B"BadDigest"
  | ReadErr => B"ReadErr"
  end.
Definition show_body (b : list N) : bytes :=
  match b with [] => B"-" | _ => join B"." (map show_N b) end.
(* how the reported ETag relates to a body: "s" = MD5 of that body, "m<n>" multipart style, "?" neither *)
Definition show_style (e : etag) (body : option (list N)) : bytes :=
  match e with
  | EM l => "m"%byte :: show_nat (length l)
  | ES c => match body with
            | None => B"s"
            | Some b => if listN_eqb b (body_of [c]) then B"s" else B"?"
            end
  end.
Definition show_obj (o : obj) (body : option (list N)) : bytes :=
  show_N (o_ct o) ++ B":" ++ show_N (o_meta o) ++ B":" ++ show_N (o_tags o) ++ B":" ++ show_N (o_cls o) ++ B":" ++
  show_style (o_etag o) body ++ match body with None => [] | Some b => B":" ++ show_body b end.
Definition show_res (r : res) : bytes :=
  match r with
  | RStatus e => show_err e
  | RDel l => B"ok=" ++ map (fun kd : N * bool => if snd kd then "d"%byte else "p"%byte) l
  | RHead o => B"ok=" ++ show_obj o None
  | RGet o b => B"ok=" ++ show_obj o (Some b)
  | RRange o st ln => B"ok=" ++ show_obj o None ++ B":r" ++ show_N st ++ B"." ++ show_N ln
  | ROpen o => B"ok=" ++ show_obj o None
  | RBody b => B"ok=" ++ show_body b
  | RBlock => B"BLOCK"
  | RNoHandle => B"NoHandle"
  | RNoUpload => B"NoUpload"
  | RBad => B"BadOp"
  end.

Definition mode_ok (m : bytes) : bool := bytes_eqb m B"c0" || bytes_eqb m B"c1" || bytes_eqb m B"k0".
Definition is_handle_op (o : op) : bool :=
  match o with OGetOpen _ _ _ | OGetFinish _ | OGetAbort _ => true | _ => false end.

Definition run_line (l : bytes) : bytes :=
  match split_first " "%byte l with
  | Some (m, rest) =>
      if mode_ok m then
        let ops := map parse_op (split_on ";"%byte rest) in
        (* mode c1 (real GenericCache, not safe for overlapping readers) refuses the handle ops *)
        let ops := if bytes_eqb m B"c1" then map (fun o => if is_handle_op o then OBad else o) ops else ops in
        unwords (map show_res (snd (run st0 ops)))
      else parse_error
  | None => parse_error
  end.
