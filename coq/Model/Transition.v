(* Model/Transition.v — C14: storage-class transitions over named part stores.
   Written from internal/storage/metadatapart/{object_write.go (PutObject, AppendObject,
   TransitionObjectStorageClass), copy.go, delete.go, dedup.go, metadatapart.go (deleteUnreferencedParts)},
   partstore/named.go (StoreForClass, ByName) and metadatastore/sql/{object_write.go (PutObject, AppendObject,
   TransitionObject), parts.go (savePartRows, removePartRowsByObjectId), delete.go} + the part registry.
   Objects are lists of parts (part id, store, content id); the registry counts part rows per id; every
   named store maps part ids to contents; the dedup index maps (store, content) to a part id.
   The class -> store mapping is a parameter of every step (it may change between phases). No proofs here. *)
From Verif Require Import Bytes Codec.

Record part := mkP { p_id : N; p_store : N; p_cont : N }.
(* o_mp: the ETag is multipart-style (the object was built by AppendObject) *)
Record obj := mkO { o_class : option bytes; o_parts : list part; o_meta : N; o_tags : N; o_mp : bool }.
(* a row of the objects table: harness ordinal, version id = "null"?, delete marker?, is_latest, created_at rank *)
Record ver := mkV { v_ord : N; v_null : bool; v_dm : bool; v_latest : bool; v_created : N; v_obj : obj }.
Inductive status := Unversioned | Enabled | Suspended.
Definition okey := (N * N)%type.    (* bucket (0 starts unversioned, 1 starts versioning-enabled), key index *)
Definition okey_eqb (a b : okey) : bool := (fst a =? fst b)%N && (snd a =? snd b)%N.

Record state := mkS {
  s_objs : list (okey * list ver);         (* rows of a key, most recently inserted first *)
  s_next : N;                              (* next row ordinal / created_at rank *)
  s_nextp : N;                             (* next fresh part id *)
  s_reg : list (N * N);                    (* part registry: part id -> reference count (> 0) *)
  s_blobs : list ((N * N) * N);            (* (store, part id) -> content id : what the stores hold *)
  s_idx : list ((N * N) * N);              (* dedup index: (store, content id) -> part id *)
  s_st0 : status; s_st1 : status           (* versioning status of the two buckets *)
}.
Definition init : state := mkS [] 0 0 [] [] [] Unversioned Enabled.

(* class -> store configuration; store 0 is the default store *)
Definition config := list (bytes * N).
Definition effective_class (c : option bytes) : bytes :=
  match c with None => B"STANDARD" | Some [] => B"STANDARD" | Some c => c end.
Fixpoint cfg_get (c : bytes) (cfg : config) : N :=
  match cfg with [] => 0 | (c', n) :: r => if bytes_eqb c c' then n else cfg_get c r end.
Definition store_for (cfg : config) (c : option bytes) : N := cfg_get (effective_class c) cfg.
Definition num_stores : N := 3.
Definition storage_classes : list bytes :=
  [B"STANDARD"; B"REDUCED_REDUNDANCY"; B"STANDARD_IA"; B"ONEZONE_IA"; B"INTELLIGENT_TIERING";
   B"GLACIER_IR"; B"GLACIER"; B"DEEP_ARCHIVE"; B"EXPRESS_ONEZONE"; B"OUTPOSTS"].
Definition valid_class (c : bytes) : bool := mem_bytes c storage_classes.

(* ---- finite maps as association lists ---- *)
Definition pair_eqb (a b : N * N) : bool := (fst a =? fst b)%N && (snd a =? snd b)%N.
Fixpoint reg_get (id : N) (r : list (N * N)) : N :=
  match r with [] => 0 | (i, c) :: r' => if (id =? i)%N then c else reg_get id r' end.
Fixpoint reg_inc (id : N) (r : list (N * N)) : list (N * N) :=
  match r with
  | [] => [(id, 1%N)]
  | (i, c) :: r' => if (id =? i)%N then (i, c + 1)%N :: r' else (i, c) :: reg_inc id r'
  end.
(* RemoveReferences for one row: returns the new registry and whether the count reached zero (the row
   of the id is then deleted) *)
Fixpoint reg_dec (id : N) (r : list (N * N)) : list (N * N) * bool :=
  match r with
  | [] => ([], false)
  | (i, c) :: r' =>
      if (id =? i)%N then (if (c <=? 1)%N then (filter (fun e => negb (id =? fst e)%N) r', true) else ((i, c - 1)%N :: r', false))
      else let '(r2, z) := reg_dec id r' in ((i, c) :: r2, z)
  end.
Fixpoint blob_get (k : N * N) (l : list ((N * N) * N)) : option N :=
  match l with [] => None | (k', v) :: l' => if pair_eqb k k' then Some v else blob_get k l' end.
Definition blob_del (k : N * N) (l : list ((N * N) * N)) := filter (fun e => negb (pair_eqb k (fst e))) l.
Definition idx_del_id (id : N) (l : list ((N * N) * N)) := filter (fun e => negb (id =? snd e)%N) l.

Definition with_reg (s : state) r := mkS (s_objs s) (s_next s) (s_nextp s) r (s_blobs s) (s_idx s) (s_st0 s) (s_st1 s).
Definition with_blobs (s : state) b := mkS (s_objs s) (s_next s) (s_nextp s) (s_reg s) b (s_idx s) (s_st0 s) (s_st1 s).
Definition with_idx (s : state) i := mkS (s_objs s) (s_next s) (s_nextp s) (s_reg s) (s_blobs s) i (s_st0 s) (s_st1 s).
Definition with_objs (s : state) o := mkS o (s_next s) (s_nextp s) (s_reg s) (s_blobs s) (s_idx s) (s_st0 s) (s_st1 s).
Definition with_nextp (s : state) n b i := mkS (s_objs s) (s_next s) n (s_reg s) b i (s_st0 s) (s_st1 s).

(* removal of one part row: RemoveReferences; at zero the dedup entries of the id go and the part is
   deleted from the store recorded on the row (deleteUnreferencedParts -> ByName) *)
Definition remove_row (s : state) (p : part) : state :=
  let '(r, zero) := reg_dec (p_id p) (s_reg s) in
  if zero then mkS (s_objs s) (s_next s) (s_nextp s) r (blob_del (p_store p, p_id p) (s_blobs s)) (idx_del_id (p_id p) (s_idx s)) (s_st0 s) (s_st1 s)
  else with_reg s r.
Definition remove_rows (s : state) (ps : list part) : state := fold_left remove_row ps s.

(* TryAddPartReferences: every id must have a live registry row *)
Definition all_live (s : state) (ids : list N) : bool := forallb (fun id => (0 <? reg_get id (s_reg s))%N) ids.
Definition add_refs (s : state) (ids : list N) : state := with_reg s (fold_left (fun r id => reg_inc id r) ids (s_reg s)).

(* a freshly written part: PutPart, then dedupeFreshPart.  Returns the state, the part row and whether
   its reference was pre-acquired *)
Definition write_fresh (s : state) (store cont : N) : state * part * bool :=
  let id := s_nextp s in
  let s1 := with_nextp s (id + 1) (((store, id), cont) :: s_blobs s) (s_idx s) in
  match blob_get (store, cont) (s_idx s1) with
  | Some e =>
      if (0 <? reg_get e (s_reg s1))%N then
        (with_blobs (add_refs s1 [e]) (blob_del (store, id) (s_blobs s1)), mkP e store cont, true)
      else (with_idx s1 (((store, cont), id) :: idx_del_id e (s_idx s1)), mkP id store cont, false)
  | None => (with_idx s1 (((store, cont), id) :: s_idx s1), mkP id store cont, false)
  end.

(* savePartRows: rows whose reference was not pre-acquired are registered *)
Definition register (s : state) (ps : list (part * bool)) : state :=
  add_refs s (map (fun pb => p_id (fst pb)) (filter (fun pb => negb (snd pb)) ps)).

(* ---- rows of a key ---- *)
Definition empty_obj : obj := mkO None [] 0 0 false.
Fixpoint versions_of (k : okey) (l : list (okey * list ver)) : list ver :=
  match l with [] => [] | (k', vs) :: l' => if okey_eqb k k' then vs else versions_of k l' end.
Fixpoint set_versions (k : okey) (vs : list ver) (l : list (okey * list ver)) :=
  match l with
  | [] => [(k, vs)]
  | (k', vs') :: l' => if okey_eqb k k' then (k, vs) :: l' else (k', vs') :: set_versions k vs l'
  end.
Definition status_of (s : state) (k : okey) : status := if (fst k =? 1)%N then s_st1 s else s_st0 s.

(* how an operation addresses a row: no version id (the row with is_latest), the version id of the row that
   was created as ordinal n, the literal version id "null", or a well-formed id that no row has *)
Inductive vsel := VLatest | VOrd (n : N) | VNull | VUnknown.
Fixpoint find_idx (f : ver -> bool) (vs : list ver) : option nat :=
  match vs with
  | [] => None
  | r :: vs' => if f r then Some O else option_map S (find_idx f vs')
  end.
Definition resolve (vs : list ver) (v : vsel) : option nat :=
  match v with
  | VLatest => find_idx v_latest vs
  | VOrd n => find_idx (fun r => (v_ord r =? n)%N) vs
  | VNull => find_idx v_null vs
  | VUnknown => None
  end.
Definition find_row (s : state) (k : okey) (v : vsel) : option ver :=
  match resolve (versions_of k (s_objs s)) v with
  | Some i => nth_error (versions_of k (s_objs s)) i
  | None => None
  end.
(* the harness answers NoSuchVersion itself for an ordinal that is not (or no longer) a row of the key *)
Definition known_version (s : state) (k : okey) (v : vsel) : bool :=
  match v with
  | VOrd _ => match resolve (versions_of k (s_objs s)) v with Some _ => true | None => false end
  | _ => true
  end.

Fixpoint update_nth (i : nat) (g : ver -> ver) (vs : list ver) : list ver :=
  match vs, i with
  | [], _ => []
  | r :: vs', O => g r :: vs'
  | r :: vs', S j => r :: update_nth j g vs'
  end.
Fixpoint remove_nth (i : nat) (vs : list ver) : list ver :=
  match vs, i with
  | [], _ => []
  | _ :: vs', O => vs'
  | r :: vs', S j => r :: remove_nth j vs'
  end.
Definition set_obj (o : obj) (r : ver) : ver := mkV (v_ord r) (v_null r) (v_dm r) (v_latest r) (v_created r) o.
Definition set_latest (b : bool) (r : ver) : ver := mkV (v_ord r) (v_null r) (v_dm r) b (v_created r) (v_obj r).
Definition demote (vs : list ver) : list ver := map (fun r => if v_latest r then set_latest false r else r) vs.
(* index of the row with the greatest created_at rank (FindLatestObject...ExcludingID ORDER BY created_at DESC) *)
Fixpoint newest (vs : list ver) : option (nat * N) :=
  match vs with
  | [] => None
  | r :: vs' =>
      match newest vs' with
      | Some (i, c) => if (c <? v_created r)%N then Some (O, v_created r) else Some (S i, c)
      | None => Some (O, v_created r)
      end
  end.
Definition promote (vs : list ver) : list ver :=
  match newest vs with Some (i, _) => update_nth i (set_latest true) vs | None => vs end.

Definition replace_row_obj (s : state) (k : okey) (i : nat) (o' : obj) : state :=
  with_objs s (set_versions k (update_nth i (set_obj o') (versions_of k (s_objs s))) (s_objs s)).
Definition bump (s : state) : state :=
  mkS (s_objs s) (s_next s + 1) (s_nextp s) (s_reg s) (s_blobs s) (s_idx s) (s_st0 s) (s_st1 s).

(* metadata-store PutObject.  Enabled: the current row is demoted and a row with a fresh version id is added.
   Unversioned / Suspended: the current row is demoted and the row with version id "null" is overwritten in place
   (it keeps its created_at; its old part rows are removed before the new ones are saved) or created *)
Definition install (s : state) (k : okey) (o : obj) (flags : list bool) : state :=
  let rows := combine (o_parts o) flags in
  let vs := demote (versions_of k (s_objs s)) in
  let n := s_next s in
  match status_of s k with
  | Enabled =>
      register (bump (with_objs s (set_versions k (mkV n false false true n o :: vs) (s_objs s)))) rows
  | _ =>
      match find_idx v_null vs with
      | Some i =>
          let old := match nth_error vs i with Some r => r | None => mkV 0 true false false 0 empty_obj end in
          let vs' := update_nth i (fun r => mkV n true false true (v_created r) o) vs in
          register (remove_rows (bump (with_objs s (set_versions k vs' (s_objs s)))) (o_parts (v_obj old))) rows
      | None =>
          register (bump (with_objs s (set_versions k (mkV n true false true n o :: vs) (s_objs s)))) rows
      end
  end.

Inductive err := NoSuchKey | NoSuchVersion | InvalidStorageClass | PreconditionFailed | DeleteMarker | BadOp.

Definition do_put (cfg : config) (s : state) (k : okey) (cls : option bytes) (cont meta tags : N) : state * option err :=
  let '(s1, p, pre) := write_fresh s (store_for cfg cls) cont in
  (install s1 k (mkO cls [p] meta tags false) [pre], None).

(* CreateMultipartUpload(class) + UploadPart per content + CompleteMultipartUpload, as one step.  Every part is
   routed to the store of the upload's class, deduplicated and registered at upload time; completion turns the
   pending row into the object: Enabled -> a new version; otherwise the row with version id "null" is DELETED
   (its part rows removed) and the completed row (created now) takes its place *)
Fixpoint write_many (s : state) (store : N) (cs : list N) : state * list part * list bool :=
  match cs with
  | [] => (s, [], [])
  | c :: cs' =>
      let '(s1, p, pre) := write_fresh s store c in
      let '(s2, ps, fl) := write_many (register s1 [(p, pre)]) store cs' in
      (s2, p :: ps, pre :: fl)
  end.
Definition install_mp (s : state) (k : okey) (o : obj) : state :=
  let vs0 := versions_of k (s_objs s) in
  let n := s_next s in
  match status_of s k with
  | Enabled => bump (with_objs s (set_versions k (mkV n false false true n o :: demote vs0) (s_objs s)))
  | _ =>
      match find_idx v_null vs0 with
      | Some i =>
          let old := match nth_error vs0 i with Some r => r | None => mkV 0 true false false 0 empty_obj end in
          remove_rows (bump (with_objs s (set_versions k (mkV n true false true n o :: demote (remove_nth i vs0)) (s_objs s))))
                      (o_parts (v_obj old))
      | None => bump (with_objs s (set_versions k (mkV n true false true n o :: demote vs0) (s_objs s)))
      end
  end.
Definition do_multipart (cfg : config) (s : state) (k : okey) (cls : option bytes) (cs : list N) : state * option err :=
  let '(s1, ps, _) := write_many s (store_for cfg cls) cs in
  (install_mp s1 k (mkO cls ps 0 0 true), None).

(* the current object as AppendObject sees it: a delete marker counts as absent *)
Definition current_object (s : state) (k : okey) : option (nat * ver) :=
  match resolve (versions_of k (s_objs s)) VLatest with
  | Some i => match nth_error (versions_of k (s_objs s)) i with
              | Some r => if v_dm r then None else Some (i, r)
              | None => None end
  | None => None
  end.

(* AppendObject: the new part goes to the store of the object's current class; unversioned: the row is updated
   in place; versioning enabled: a new version shares the old parts (references pre-acquired) and — as the
   metadata layer passes a bare object to PutObject — has no class, metadata or tags.  Suspended buckets are not
   exercised (C02 finding: the current row is updated in place whatever it is) *)
Definition do_append (cfg : config) (s : state) (k : okey) (cont : N) : state * option err :=
  match status_of s k with
  | Suspended => (s, Some BadOp)
  | st =>
    match current_object s k with
    | None =>
        let '(s1, p, pre) := write_fresh s (store_for cfg None) cont in
        (install s1 k (mkO None [p] 0 0 true) [pre], None)
    | Some (i, r) =>
        let o := v_obj r in
        let '(s1, p, pre) := write_fresh s (store_for cfg (o_class o)) cont in
        match st with
        | Enabled =>
            if all_live s1 (map p_id (o_parts o)) then
              (install (add_refs s1 (map p_id (o_parts o))) k (mkO None (o_parts o ++ [p]) 0 0 true)
                       (map (fun _ => true) (o_parts o) ++ [pre]), None)
            else (s, Some NoSuchKey)
        | _ =>
            (register (replace_row_obj s1 k i (mkO (o_class o) (o_parts o ++ [p]) (o_meta o) (o_tags o) true)) [(p, pre)], None)
        end
    end
  end.

(* CopyObject (full copy): same-store parts are shared; cross-store parts are looked up in the dedup
   index of the destination store, else copied under a fresh id and indexed *)
Fixpoint copy_parts (s : state) (dst : N) (ps : list part) : state * list (part * bool) * list N * bool :=
  match ps with
  | [] => (s, [], [], true)
  | p :: ps' =>
      if (p_store p =? dst)%N then
        let '(s', rows, shared, ok) := copy_parts s dst ps' in (s', (p, true) :: rows, p_id p :: shared, ok)
      else
        let live := match blob_get (dst, p_cont p) (s_idx s) with
                    | Some e => if (0 <? reg_get e (s_reg s))%N then Some e else None
                    | None => None end in
        match live with
        | Some e =>
            let '(s', rows, shared, ok) := copy_parts (add_refs s [e]) dst ps' in
            (s', (mkP e dst (p_cont p), true) :: rows, shared, ok)
        | None =>
            let s0 := match blob_get (dst, p_cont p) (s_idx s) with
                      | Some e => with_idx s (idx_del_id e (s_idx s)) | None => s end in
            match blob_get (p_store p, p_id p) (s_blobs s0) with
            | None => (s0, [], [], false)           (* source bytes missing: GetPart fails *)
            | Some c =>
                let id := s_nextp s0 in
                let s1 := with_nextp s0 (id + 1) (((dst, id), c) :: s_blobs s0) (((dst, p_cont p), id) :: s_idx s0) in
                let '(s', rows, shared, ok) := copy_parts s1 dst ps' in
                (s', (mkP id dst (p_cont p), false) :: rows, shared, ok)
            end
        end
  end.
Definition do_copy (cfg : config) (s : state) (src : okey) (sv : vsel) (dst : okey) (cls : option bytes) : state * option err :=
  if negb (known_version s src sv) then (s, Some NoSuchVersion) else
  match find_row s src sv with
  | None => (s, Some NoSuchKey)
  | Some r =>
      if v_dm r then (s, Some DeleteMarker) else
      let o := v_obj r in
      let '(s1, rows, shared, ok) := copy_parts s (store_for cfg cls) (o_parts o) in
      if negb ok then (s, Some NoSuchKey)
      else if negb (all_live s1 shared) then (s, Some NoSuchKey)
      else (install (add_refs s1 shared) dst (mkO cls (map fst rows) (o_meta o) (o_tags o) (o_mp o)) (map snd rows), None)
  end.

(* TransitionObjectStorageClass: parts already in the target store stay (reference pre-acquired), the
   others are copied under fresh ids (no dedup lookup); TransitionObject then swaps the rows of the
   ADDRESSED row.  The decision is taken per part from the store recorded on the part row, never from what
   the object's current class maps to *)
Fixpoint move_parts (s : state) (dst : N) (ps : list part) : state * list (part * bool) * list N * bool :=
  match ps with
  | [] => (s, [], [], true)
  | p :: ps' =>
      if (p_store p =? dst)%N then
        let '(s', rows, shared, ok) := move_parts s dst ps' in (s', (p, true) :: rows, p_id p :: shared, ok)
      else
        match blob_get (p_store p, p_id p) (s_blobs s) with
        | None => (s, [], [], false)
        | Some c =>
            let id := s_nextp s in
            let s1 := with_nextp s (id + 1) (((dst, id), c) :: s_blobs s) (s_idx s) in
            let '(s', rows, shared, ok) := move_parts s1 dst ps' in
            (s', (mkP id dst (p_cont p), false) :: rows, shared, ok)
        end
  end.

(* ETag identity: same content sequence and same style *)
Fixpoint list_N_eqb (a b : list N) : bool :=
  match a, b with
  | [], [] => true
  | x :: a', y :: b' => (x =? y)%N && list_N_eqb a' b'
  | _, _ => false
  end.
Definition etag_eqb (a b : obj) : bool :=
  list_N_eqb (map p_cont (o_parts a)) (map p_cont (o_parts b)) && Bool.eqb (o_mp a) (o_mp b).
(* If-Match of a transition: none, "*", or the ETag that the row created as ordinal n of the same key has *)
Inductive ifmatch := IMNone | IMStar | IMOrd (n : N).

Definition do_transition (cfg : config) (s : state) (k : okey) (v : vsel) (c : bytes) (im : ifmatch) : state * option err :=
  if negb (known_version s k v) then (s, Some NoSuchVersion) else
  match (match im with
         | IMOrd n => match find_row s k (VOrd n) with
                      | Some r => if v_dm r then None else Some (Some (v_obj r))
                      | None => None end
         | _ => Some None end) with
  | None => (s, Some BadOp)           (* the harness cannot name that ETag *)
  | Some ref =>
    if negb (valid_class c) then (s, Some InvalidStorageClass)
    else match resolve (versions_of k (s_objs s)) v with
         | None => (s, Some NoSuchKey)
         | Some i =>
           match nth_error (versions_of k (s_objs s)) i with
           | None => (s, Some NoSuchKey)
           | Some r =>
             if v_dm r then (s, Some NoSuchKey) else
             let o := v_obj r in
             if (match ref with Some ro => negb (etag_eqb o ro) | None => false end) then (s, Some PreconditionFailed) else
             let '(s1, rows, shared, ok) := move_parts s (cfg_get c cfg) (o_parts o) in
             if negb ok then (s, Some NoSuchKey)
             else if negb (all_live s1 shared) then (s, Some NoSuchKey)
             else
               let s2 := add_refs s1 shared in
               let s3 := replace_row_obj s2 k i (mkO (Some c) (map fst rows) (o_meta o) (o_tags o) (o_mp o)) in
               (register (remove_rows s3 (o_parts o)) rows, None)
           end
         end
  end.

(* DeleteObject *)
Definition drop_row (s : state) (k : okey) (i : nat) (fix_latest : bool) : state :=
  let vs := versions_of k (s_objs s) in
  match nth_error vs i with
  | None => s
  | Some r =>
      let vs' := remove_nth i vs in
      let vs'' := if fix_latest && v_latest r then promote vs' else vs' in
      remove_rows (with_objs s (set_versions k vs'' (s_objs s))) (o_parts (v_obj r))
  end.
Definition add_marker (s : state) (k : okey) : state :=
  let n := s_next s in
  bump (with_objs s (set_versions k (mkV n false true true n empty_obj :: demote (versions_of k (s_objs s))) (s_objs s))).
Definition do_delete (s : state) (k : okey) (v : vsel) : state * option err :=
  if negb (known_version s k v) then (s, Some NoSuchVersion) else
  match v with
  | VLatest =>
      match status_of s k with
      | Unversioned =>
          match resolve (versions_of k (s_objs s)) VLatest with
          | Some i => (drop_row s k i false, None)
          | None => (s, None)
          end
      | Enabled => (add_marker s k, None)
      | Suspended =>
          let s1 := match resolve (versions_of k (s_objs s)) VNull with
                    | Some i => drop_row s k i false | None => s end in
          (add_marker s1 k, None)
      end
  | _ =>
      match resolve (versions_of k (s_objs s)) v with
      | Some i => (drop_row s k i true, None)
      | None => (s, None)                 (* unknown version: silently succeeds *)
      end
  end.

Definition set_status (s : state) (b : N) (st : status) : state :=
  if (b =? 1)%N then mkS (s_objs s) (s_next s) (s_nextp s) (s_reg s) (s_blobs s) (s_idx s) (s_st0 s) st
  else mkS (s_objs s) (s_next s) (s_nextp s) (s_reg s) (s_blobs s) (s_idx s) st (s_st1 s).

Inductive op :=
| OPut (k : okey) (cls : option bytes) (cont meta tags : N)
| OAppend (k : okey) (cont : N)
| OCopy (src : okey) (sv : vsel) (dst : okey) (cls : option bytes)
| OTransition (k : okey) (v : vsel) (cls : bytes) (im : ifmatch)
| ODelete (k : okey) (v : vsel)
| OVersioning (b : N) (st : status)
| OMultipart (k : okey) (cls : option bytes) (cs : list N)
| ORange (k : okey) (v : vsel) (rs : list (N * N))
| ORead (k : okey) (v : vsel)
| OCounts
| OSweep
| OBad.

Definition step (cfg : config) (s : state) (o : op) : state * option err :=
  match o with
  | OPut k cls c m t => do_put cfg s k cls c m t
  | OAppend k c => do_append cfg s k c
  | OCopy src sv dst cls => do_copy cfg s src sv dst cls
  | OTransition k v c im => do_transition cfg s k v c im
  | ODelete k v => do_delete s k v
  | OVersioning b st => (set_status s b st, None)
  | OMultipart k cls cs => do_multipart cfg s k cls cs
  | ORead _ _ | ORange _ _ _ | OCounts | OSweep => (s, None)
  | OBad => (s, Some BadOp)
  end.

(* reading an object: every part is fetched from the store recorded on its row (ByName) *)
Fixpoint read_parts (s : state) (ps : list part) : option (list N) :=
  match ps with
  | [] => Some []
  | p :: ps' => match blob_get (p_store p, p_id p) (s_blobs s), read_parts s ps' with
                | Some c, Some r => Some (c :: r) | _, _ => None end
  end.
Definition read (s : state) (k : okey) (v : vsel) : option (list N) :=
  match find_row s k v with None => None | Some r => read_parts s (o_parts (v_obj r)) end.

(* a history in phases: each phase has its own class -> store configuration *)
Fixpoint run (cfg : config) (s : state) (ops : list op) : state :=
  match ops with [] => s | o :: ops' => run cfg (fst (step cfg s o)) ops' end.
Fixpoint run_phases (s : state) (phases : list (config * list op)) : state :=
  match phases with [] => s | (cfg, ops) :: r => run_phases (run cfg s ops) r end.

(* ---- store kinds and the read path's transaction mode ----
   A named store either needs an ambient database transaction for GetPart (the SQL part store, and anything
   wrapped around it) or can be read without one (filesystem, and wrappers around it).  GetObject decides ONCE
   per storage: it streams without a transaction iff EVERY configured store is transaction-free capable
   (NamedPartStores.Capabilities = intersection); otherwise the readers keep the read transaction.  A GetPart
   without a transaction on a store that needs one fails. *)
Definition kinds := list bool.                 (* needs_tx of store 0, 1, 2 *)
Definition needs_tx (kd : kinds) (st : N) : bool := nth (N.to_nat st) kd false.
Definition tx_free_streaming (kd : kinds) : bool := forallb negb kd.
Definition part_mode_ok (kd : kinds) (txfree : bool) (p : part) : bool := negb txfree || negb (needs_tx kd (p_store p)).
Definition read_parts_k (kd : kinds) (s : state) (ps : list part) : option (list N) :=
  if forallb (part_mode_ok kd (tx_free_streaming kd)) ps then read_parts s ps else None.
Definition read_k (kd : kinds) (s : state) (k : okey) (v : vsel) : option (list N) :=
  match find_row s k v with None => None | Some r => read_parts_k kd s (o_parts (v_obj r)) end.

(* byte layout: content c is clen c bytes long; a range [start, end) of the concatenation is a list of
   (content id, offset in it, length) segments *)
Definition clen (c : N) : N := 23 + (c mod 7) * 5.
Fixpoint segments (cs : list N) (start len : N) : list (N * N * N) :=
  match cs with
  | [] => []
  | c :: cs' =>
      if (len =? 0)%N then []
      else if (clen c <=? start)%N then segments cs' (start - clen c) len
      else let take := N.min (clen c - start) len in (c, start, take) :: segments cs' 0 (len - take)
  end.
Definition total_len (cs : list N) : N := fold_right (fun c a => clen c + a)%N 0%N cs.
(* normalizeAndValidateRanges for explicit [start, end) ranges: the end is clamped to the size; an empty range is invalid *)
Definition norm_range (size : N) (r : N * N) : option (N * N) :=
  let e := N.min (snd r) size in if (fst r <? e)%N then Some (fst r, e) else None.

(* ------------------------------------------------------------------------------------------ *)
(* printing                                                                                    *)
Definition show_list (l : list N) : bytes := match l with [] => B"-" | _ => join B"." (map show_N l) end.
Definition show_etag (o : obj) : bytes := if o_mp o then "m"%byte :: show_nat (length (o_parts o)) else B"s".
Definition show_seg (x : N * N * N) : bytes := show_N (fst (fst x)) ++ B"@" ++ show_N (snd (fst x)) ++ B"+" ++ show_N (snd x).
Definition show_range (kd : kinds) (s : state) (k : okey) (v : vsel) (rs : list (N * N)) : bytes :=
  if negb (known_version s k v) then B"NoSuchVersion" else
  match find_row s k v with
  | None => B"NoSuchKey"
  | Some r =>
      if v_dm r then B"DeleteMarker" else
      match read_parts_k kd s (o_parts (v_obj r)) with
      | None => B"Unreadable"
      | Some cs =>
          match mapM (norm_range (total_len cs)) rs with
          | None => B"InvalidRange"
          | Some nrs => match nrs with
                        | [] => B"-"
                        | _ => join B"," (map (fun r => join B"." (map show_seg (segments cs (fst r) (snd r - fst r)))) nrs)
                        end
          end
      end
  end.
Definition show_read (kd : kinds) (s : state) (k : okey) (v : vsel) : bytes :=
  if negb (known_version s k v) then B"NoSuchVersion" else
  match find_row s k v with
  | None => B"NoSuchKey"
  | Some r =>
      if v_dm r then B"DeleteMarker" else
      let o := v_obj r in
      match read_parts_k kd s (o_parts o) with
      | None => B"Unreadable"
      | Some cs => join B"|" [tok_bytes (effective_class (o_class o)); show_list cs; show_N (o_meta o); show_N (o_tags o);
                              show_list (map p_store (o_parts o)); show_etag o]
      end
  end.
(* number of DISTINCT contents a store holds.  (The number of part files is not compared: the collector's
   start-up pass back-fills the dedup index concurrently with the first operations of a freshly opened
   storage, so whether two equal contents share one file is timing dependent; which contents a store holds
   is not.) *)
Definition count_store (s : state) (st : N) : N :=
  N.of_nat (length (nodup N.eq_dec (map snd (filter (fun e => (fst (fst e) =? st)%N) (s_blobs s))))).
Definition show_counts (s : state) : bytes :=
  join B"," [show_N (count_store s 0); show_N (count_store s 1); show_N (count_store s 2)].
Definition all_rows (s : state) : list (N * okey) :=
  flat_map (fun e => map (fun r => (v_ord r, fst e)) (snd e)) (s_objs s).
Fixpoint find_owner (n : N) (l : list (N * okey)) : option okey :=
  match l with [] => None | (m, k) :: l' => if (n =? m)%N then Some k else find_owner n l' end.
Fixpoint sweep_versions (kd : kinds) (s : state) (fuel : nat) (n : N) : list bytes :=
  match fuel with
  | O => []
  | S fuel' =>
      match find_owner n (all_rows s) with
      | Some k => show_read kd s k (VOrd n) :: sweep_versions kd s fuel' (n + 1)
      | None => sweep_versions kd s fuel' (n + 1)
      end
  end.
Definition sweep (kd : kinds) (s : state) : bytes :=
  join B"/" (map (fun bk => show_read kd s bk VLatest) [(0, 0); (0, 1); (0, 2); (1, 0); (1, 1); (1, 2)]%N
             ++ sweep_versions kd s (N.to_nat (s_next s)) 0 ++ [show_counts s]).
Definition show_err (e : err) : bytes :=
  match e with
  | NoSuchKey => B"NoSuchKey" | NoSuchVersion => B"NoSuchVersion"
  | InvalidStorageClass => B"InvalidStorageClass" | PreconditionFailed => B"PreconditionFailed"
  | DeleteMarker => B"DeleteMarker" | BadOp => B"BadOp"
  end.
Definition show_result (kd : kinds) (s : state) (o : op) (r : option err) : bytes :=
  match r with
  | Some e => show_err e
  | None => match o with
            | ORead k v => show_read kd s k v
            | ORange k v rs => show_range kd s k v rs
            | OCounts => show_counts s
            | OSweep => sweep kd s
            | _ => B"ok"
            end
  end.

(* ---- line protocol:  h <tok> <tok> ...   a token starting with "M=" switches the configuration:
        M=hexclass.store,hexclass.store  (M=_ : everything in the default store).
        version selector: L | <ordinal> | X (the literal id "null") | U (an id no row has) ---- *)
Definition parse_small (max : N) (t : bytes) : option N :=
  match parse_N t with Some n => if (n <? max)%N then Some n else None | None => None end.
Definition parse_okey (b k : bytes) : option okey :=
  match parse_small 2 b, parse_small 3 k with Some x, Some y => Some (x, y) | _, _ => None end.
Definition parse_ver (t : bytes) : option vsel :=
  if bytes_eqb t B"L" then Some VLatest
  else if bytes_eqb t B"X" then Some VNull
  else if bytes_eqb t B"U" then Some VUnknown
  else option_map VOrd (parse_N t).
Definition parse_im (t : bytes) : option ifmatch :=
  if bytes_eqb t B"N" then Some IMNone
  else if bytes_eqb t B"*" then Some IMStar
  else match t with
       | c :: r => if beqb c "e"%byte then option_map IMOrd (parse_N r) else None
       | [] => None
       end.
Definition parse_cls (t : bytes) : option (option bytes) :=
  if bytes_eqb t B"N" then Some None else option_map Some (untok_bytes t).
Definition parse_cfg_item (t : bytes) : option (bytes * N) :=
  match split_on "."%byte t with
  | [c; n] => match untok_bytes c, parse_small num_stores n with Some x, Some y => Some (x, y) | _, _ => None end
  | _ => None
  end.
Definition parse_cfg (t : bytes) : option config :=
  if bytes_eqb t B"_" then Some [] else mapM parse_cfg_item (split_on ","%byte t).

Definition parse_range (t : bytes) : option (N * N) :=
  match split_on "-"%byte t with
  | [a; b] => match parse_N a, parse_N b with Some x, Some y => Some (x, y) | _, _ => None end
  | _ => None
  end.
(* store kinds: one letter per store, f = filesystem, c = compression over filesystem (transaction-free);
   q = SQL part store, d = compression over the SQL part store (need a transaction) *)
Definition parse_kind (b : byte) : option bool :=
  if beqb b "f"%byte || beqb b "c"%byte then Some false
  else if beqb b "q"%byte || beqb b "d"%byte then Some true else None.
Definition parse_kinds (t : bytes) : option kinds :=
  match mapM parse_kind t with
  | Some kd => if (length kd =? 3)%nat then Some kd else None
  | None => None
  end.
Definition parse_op (t : bytes) : op :=
  match split_on ":"%byte t with
  | [kind; b; k; c; x; m; g] =>
      if bytes_eqb kind B"P" then
        match parse_okey b k, parse_cls c, parse_N x, parse_N m, parse_N g with
        | Some ok, Some cls, Some cont, Some meta, Some tags => OPut ok cls cont meta tags
        | _, _, _, _, _ => OBad end
      else if bytes_eqb kind B"C" then
        match parse_okey b k, parse_ver c, parse_okey x m, parse_cls g with
        | Some s, Some v, Some d, Some cls => OCopy s v d cls
        | _, _, _, _ => OBad end
      else OBad
  | [kind; b; k; x] =>
      if bytes_eqb kind B"A" then
        match parse_okey b k, parse_N x with Some ok, Some c => OAppend ok c | _, _ => OBad end
      else if bytes_eqb kind B"D" then
        match parse_okey b k, parse_ver x with Some ok, Some v => ODelete ok v | _, _ => OBad end
      else if bytes_eqb kind B"R" then
        match parse_okey b k, parse_ver x with Some ok, Some v => ORead ok v | _, _ => OBad end
      else OBad
  | [kind; b; k; c; x] =>
      if bytes_eqb kind B"MP" then
        match parse_okey b k, parse_cls c, mapM parse_N (split_on "."%byte x) with
        | Some ok, Some cls, Some cs => OMultipart ok cls cs | _, _, _ => OBad end
      else if bytes_eqb kind B"G" then
        match parse_okey b k, parse_ver c, mapM parse_range (split_on ","%byte x) with
        | Some ok, Some v, Some rs => ORange ok v rs | _, _, _ => OBad end
      else OBad
  | [kind; b; k; v; c; im] =>
      if bytes_eqb kind B"T" then
        match parse_okey b k, parse_ver v, untok_bytes c, parse_im im with
        | Some ok, Some vv, Some cls, Some i => OTransition ok vv cls i | _, _, _, _ => OBad end
      else OBad
  | [kind; b; st] =>
      if bytes_eqb kind B"V" then
        match parse_small 2 b with
        | Some bb => if bytes_eqb st B"E" then OVersioning bb Enabled
                     else if bytes_eqb st B"S" then OVersioning bb Suspended else OBad
        | None => OBad end
      else OBad
  | [kind] => if bytes_eqb kind B"N" then OCounts else if bytes_eqb kind B"S" then OSweep else OBad
  | _ => OBad
  end.

Fixpoint run_tokens (kd : kinds) (cfg : config) (s : state) (toks : list bytes) : list bytes :=
  match toks with
  | [] => []
  | t :: r =>
      if is_prefix B"M=" t then
        match parse_cfg (skipn 2 t) with
        | Some cfg' => B"cfg" :: run_tokens kd cfg' s r
        | None => B"BadCfg" :: run_tokens kd cfg s r
        end
      else
        let o := parse_op t in
        let '(s', res) := step cfg s o in
        show_result kd s' o res :: run_tokens kd cfg s' r
  end.

Definition run_line (line : bytes) : bytes :=
  match tokens line with
  | mode :: rest =>
      if bytes_eqb mode B"h" then
        (* the store kinds are fixed for a whole case: optional first token K=xyz (default: three filesystem stores) *)
        match rest with
        | t :: rest' =>
            if is_prefix B"K=" t then
              match parse_kinds (skipn 2 t) with
              | Some kd => unwords (B"kinds" :: run_tokens kd [] init rest')
              | None => unwords (B"BadKinds" :: run_tokens [false; false; false] [] init rest')
              end
            else unwords (run_tokens [false; false; false] [] init rest)
        | [] => unwords (run_tokens [false; false; false] [] init rest)
        end
      else parse_error
  | [] => parse_error
  end.
