(* Model/Range.v — executable model of the range-read path of pithos (C05).  No proofs here.
   internal/http/server/object_read.go      parseRangeHeader, generateContentRangeValue, the size /
                                            status / multipart logic of getObjectHandler
   internal/storage/metadatapart/object_read.go  normalizeAndValidateRanges, createRangeReader
   internal/storage/metadatapart/metadatapart.go lazyPartSequenceReadCloser (skip/limit per part)
   internal/ioutils/limit.go, copy.go       SkipNBytes, LimitedEndReadCloser, CopyN
   Numbers are Z; the one place where int64 arithmetic can overflow on the path (the "+1" that turns
   an inclusive last-byte-pos into an exclusive end) is modelled with an explicit [wrap64]. *)
From Verif Require Import Bytes Codec.
Local Open Scope Z_scope.

Definition two63 : Z := 9223372036854775808.
Definition wrap64 (z : Z) : Z := ((z + two63) mod (2 * two63)) - two63.

(* ---- strconv.ParseInt(s, 10, 64): optional sign, 1+ decimal digits, range check; every error
   (syntax or range) has the same effect on this path ---- *)
Definition parse_int64 (s : bytes) : option Z :=
  match s with
  | [] => None
  | c :: rest =>
      let neg := beqb c "-"%byte in
      let body := if neg || beqb c "+"%byte then rest else s in
      match parse_N body with
      | None => None
      | Some un =>
          if neg then (if (Z.of_N un <=? two63) then Some (- Z.of_N un) else None)
          else (if (Z.of_N un <? two63) then Some (Z.of_N un) else None)
      end
  end.

(* storage.ByteRange: Start/End are *int64, End exclusive *)
Record brange := { b_start : option Z; b_end : option Z }.

Definition parse_opt_int (s : bytes) : option (option Z) :=
  match s with [] => Some None | _ => option_map Some (parse_int64 s) end.

Definition parse_one (rv : bytes) : option brange :=
  match split_first "-"%byte (trim_space rv) with
  | None => None
  | Some (a, b) =>
      match parse_opt_int a, parse_opt_int b with
      | Some st, Some en =>
          match st, en with
          | None, None => None
          | None, Some e => Some {| b_start := None; b_end := Some e |}
          | Some s, None => Some {| b_start := Some s; b_end := None |}
          | Some s, Some e => Some {| b_start := Some s; b_end := Some (wrap64 (e + 1)) |}
          end
      | _, _ => None
      end
  end.

Definition parse_range_header (h : bytes) : option (list brange) :=
  match h with
  | [] => Some []
  | _ => match split_first "="%byte h with
         | None => None
         | Some (u, rest) =>
             if bytes_eqb u B"bytes" then mapM parse_one (split_on ","%byte rest) else None
         end
  end.

(* ---- normalizeAndValidateRanges ---- *)
Definition normalize_one (size : Z) (r : brange) : option brange :=
  match b_start r, b_end r with
  | None, Some e =>
      if e <=? 0 then None
      else let sl := Z.min e size in Some {| b_start := Some (size - sl); b_end := Some size |}
  | st, en =>
      if (match st with Some s => s <? 0 | None => false end) then None
      else
        let en' := match en with Some e => if size <? e then Some size else Some e | None => None end in
        match st, en' with
        | Some s, Some e => if e <=? s then None else Some {| b_start := st; b_end := en' |}
        | _, _ => Some {| b_start := st; b_end := en' |}
        end
  end.
Definition normalize (rs : list brange) (size : Z) : option (list brange) := mapM (normalize_one size) rs.

(* ---- createRangeReader: the skip/limit plan over the part sizes ---- *)
Inductive seg := Seg (idx : nat) (skip limit : Z).
Inductive rr := RRInvalid | RRInternal | RRPlan (p : list seg).

Fixpoint plan_go (idx : nat) (off : Z) (sizes : list Z) (gs ge : Z) : option (list seg) :=
  match sizes with
  | [] => Some []
  | sz :: rest =>
      let pend := off + sz in
      if pend <=? gs then plan_go (S idx) pend rest gs ge            (* part before the range *)
      else if ge <=? off then Some []                                  (* past the range: break *)
      else
        let rs := if off <? gs then gs - off else 0 in
        let re := if ge <? pend then ge - off else sz in
        if re <? rs then None                                          (* "invalid part range computed" *)
        else match plan_go (S idx) pend rest gs ge with
             | Some p => Some (Seg idx rs (re - rs) :: p)
             | None => None
             end
  end.

Definition create_range_reader (sizes : list Z) (objsize : Z) (r : brange) : rr :=
  let gs := match b_start r with Some s => s | None => 0 end in
  let ge := match b_end r with Some e => e | None => objsize end in
  if ge <=? gs then
    (* the implicit whole-object range of a zero-length object is empty but valid (fix 5621e3b) *)
    match b_start r, b_end r with
    | None, None => if objsize =? 0 then RRPlan [] else RRInvalid
    | _, _ => RRInvalid
    end
  else match plan_go 0 0 sizes gs ge with Some p => RRPlan p | None => RRInternal end.

(* lazyPartSequenceReadCloser: per planned part GetPart, SkipNBytes(skip), LimitReader(limit), in order *)
Definition read_seg (parts : list bytes) (s : seg) : bytes :=
  match s with Seg i sk lim => firstn (Z.to_nat lim) (skipn (Z.to_nat sk) (nth i parts [])) end.
Definition read_plan (parts : list bytes) (p : list seg) : bytes := concat (map (read_seg parts) p).

Definition lenZ (l : bytes) : Z := Z.of_nat (length l).
Definition total (parts : list bytes) : Z := lenZ (concat parts).

(* ---- generateContentRangeValue (called with the un-normalised range) ---- *)
Definition content_range (r : brange) (size : Z) : bytes :=
  let start := match b_start r, b_end r with
               | Some s, _ => s
               | None, Some e => size - Z.min e size
               | None, None => 0
               end in
  let en := match b_start r, b_end r with
            | Some _, Some e => Z.min e size - 1
            | _, _ => size - 1
            end in
  B"bytes " ++ show_Z start ++ B"-" ++ show_Z en ++ B"/" ++ show_Z size.

(* the per-range size computed in getObjectHandler (again from the un-normalised range) *)
Definition range_size (r : brange) (size : Z) : Z :=
  match b_start r, b_end r with
  | None, Some e => Z.min e size
  | Some s, en => (match en with Some e => Z.min e size | None => size end) - s
  | None, None => 0
  end.

(* ---- responses ---- *)
Inductive response :=
| R416
| R500
| R200 (clen : Z) (body : bytes)
| R206 (clen : Z) (cr : bytes) (body : bytes)
| R206M (clen : Z) (ps : list (bytes * bytes)).      (* Content-Range value, part data *)

Definition crlf : bytes := [x0d; x0a].

(* ioutils.CopyN(w, reader, n): at most n bytes of what the reader delivers *)
Definition copy_n (n : Z) (data : bytes) : bytes := firstn (Z.to_nat n) data.

Definition part_header (cr : bytes) : bytes := B"Content-Range: " ++ cr ++ crlf ++ crlf.

(* the multipart/byteranges body exactly as written by getObjectHandler *)
Fixpoint multipart_go (sep : bytes) (first : bool) (ps : list (bytes * bytes)) : bytes :=
  match ps with
  | [] => crlf ++ B"--" ++ sep ++ B"--" ++ crlf
  | (cr, data) :: rest =>
      (if first then [] else crlf) ++ B"--" ++ sep ++ crlf ++ part_header cr ++ data
      ++ multipart_go sep false rest
  end.
Definition multipart_body (sep : bytes) (ps : list (bytes * bytes)) : bytes := multipart_go sep true ps.

(* the Content-Length formula of the handler; [sizes] are the declared per-range sizes *)
Definition multipart_clen (seplen : Z) (crs : list bytes) (sizes : list Z) : Z :=
  let n := Z.of_nat (length crs) in
  let hdrlen := fold_right (fun cr acc => lenZ (part_header cr) + acc) 0 crs in
  let sepline := 2 + 2 + seplen in
  fold_right Z.add 0 sizes + (n - 1) * 2 + hdrlen + sepline * n + (sepline + 2 + 2).

Fixpoint open_readers (sizes : list Z) (objsize : Z) (rs : list brange) : rr + list (list seg) :=
  match rs with
  | [] => inr []
  | r :: rest =>
      match create_range_reader sizes objsize r with
      | RRPlan p => match open_readers sizes objsize rest with
                    | inr ps => inr (p :: ps)
                    | inl e => inl e
                    end
      | e => inl e
      end
  end.

(* storage.GetObject: default range, normalise, one reader per range; first error wins *)
Definition get_object (parts : list bytes) (rs : list brange) : rr + list (list seg) :=
  let size := total parts in
  let eff := match rs with [] => [ {| b_start := None; b_end := None |} ] | _ => rs end in
  match normalize eff size with
  | None => inl RRInvalid
  | Some nrs => open_readers (map lenZ parts) size nrs
  end.

(* everything after parseRangeHeader succeeded *)
Definition respond_ranges (sep : bytes) (parts : list bytes) (rs : list brange) : response :=
  let size := total parts in
  match get_object parts rs with
  | inl RRInvalid => R416
  | inl _ => R500
  | inr plans =>
      let datas := map (read_plan parts) plans in
      match rs with
      | [] => R200 size (copy_n size (concat datas))
      | [r] => R206 (range_size r size) (content_range r size) (copy_n (range_size r size) (concat datas))
      | _ =>
          let crs := map (fun r => content_range r size) rs in
          let szs := map (fun r => range_size r size) rs in
          R206M (multipart_clen (lenZ sep) crs szs)
                (combine crs (map (fun sd => copy_n (fst sd) (snd sd)) (combine szs datas)))
      end
  end.

Definition respond (sep : bytes) (parts : list bytes) (hdr : bytes) : response :=
  match parse_range_header hdr with
  | None => R416
  | Some rs => respond_ranges sep parts rs
  end.

(* ---- line protocol ------------------------------------------------------------------------
   input : <kind> <hdr hex> <parts tok_list> <opt>      kind = P (pure functions) | H (HTTP); opt ignored
   P out : PARSE_ERR
         | <ranges> NORM_ERR
         | <ranges> <normalized> <reader;reader;…> [<content-range,…>]     (content ranges only when every reader opened)
           range  = s..e with N for nil;  reader = INVALID | INTERNAL | E | idx/skip/limit+…:datahex
   H out : 416 | 500 | 200 <clen> <body> | 206 <clen> <cr> <body> | 206M <clen> <cr>:<data>,… *)
Definition show_optZ (o : option Z) : bytes := match o with None => B"N" | Some z => show_Z z end.
Definition show_range (r : brange) : bytes := show_optZ (b_start r) ++ B".." ++ show_optZ (b_end r).
Definition show_ranges (rs : list brange) : bytes :=
  match rs with [] => B"_" | _ => join B";" (map show_range rs) end.
Definition show_seg (s : seg) : bytes :=
  match s with Seg i sk lim => show_nat i ++ B"/" ++ show_Z sk ++ B"/" ++ show_Z lim end.
Definition show_reader (parts : list bytes) (r : rr) : bytes :=
  match r with
  | RRInvalid => B"INVALID"
  | RRInternal => B"INTERNAL"
  | RRPlan [] => B"E"
  | RRPlan p => join B"+" (map show_seg p) ++ B":" ++ tok_bytes (read_plan parts p)
  end.
Definition is_plan (r : rr) : bool := match r with RRPlan _ => true | _ => false end.

Definition run_pure (parts : list bytes) (hdr : bytes) : bytes :=
  match parse_range_header hdr with
  | None => B"PARSE_ERR"
  | Some rs =>
      let size := total parts in
      match normalize rs size with
      | None => unwords [show_ranges rs; B"NORM_ERR"]
      | Some nrs =>
          let readers := map (create_range_reader (map lenZ parts) size) nrs in
          let base := [show_ranges rs; show_ranges nrs;
                       match readers with [] => B"_" | _ => join B";" (map (show_reader parts) readers) end] in
          if forallb is_plan readers
          then unwords (base ++ [tok_list (map (fun r => content_range r size) rs)])
          else unwords base
      end
  end.

Definition sep26 : bytes := B"00000000000000000000000000".

Definition show_response (r : response) : bytes :=
  match r with
  | R416 => B"416"
  | R500 => B"500"
  | R200 n b => unwords [B"200"; show_Z n; tok_bytes b]
  | R206 n cr b => unwords [B"206"; show_Z n; tok_bytes cr; tok_bytes b]
  | R206M n ps => unwords [B"206M"; show_Z n;
                           join B"," (map (fun p => tok_bytes (fst p) ++ B":" ++ tok_bytes (snd p)) ps)]
  end.

Definition run_line (l : bytes) : bytes :=
  match tokens l with
  | [k; h; ps; _] =>
      do hdr <- untok_bytes h; do parts <- untok_list ps;
      if bytes_eqb k B"P" then run_pure parts hdr
      else if bytes_eqb k B"H" then show_response (respond sep26 parts hdr)
      else parse_error
  | _ => parse_error
  end.
