(* Model/Router.v — executable model of internal/storage/middlewares/conditional/conditional.go
   (lookupStorage, per-bucket delegation, ListBuckets merge, cross-storage CopyObject) over abstract
   backing storages.  A backing storage is a map bucket -> (key -> object); an object is its content
   id plus four observable attributes.  Every mapping entry is its own storage INSTANCE (as
   storage/config builds them); entries may share a backing database.  No proofs here. *)
From Verif Require Import Bytes Codec.

Record obj := { o_data : bytes; o_c : bool (* content type *); o_u : bool (* user metadata *);
                o_t : bool (* tags *); o_m : bool (* multipart ETag *) }.

(* byte-lexicographic order *)
Fixpoint bytes_ltb (a b : bytes) : bool :=
  match a, b with
  | [], [] => false
  | [], _ :: _ => true
  | _ :: _, [] => false
  | x :: a', y :: b' => (byteN x <? byteN y)%N || ((byteN x =? byteN y)%N && bytes_ltb a' b')
  end.

Section Assoc.
  Context {V : Type}.
  Fixpoint aget (k : bytes) (l : list (bytes * V)) : option V :=
    match l with [] => None | (k', v) :: r => if bytes_eqb k k' then Some v else aget k r end.
  (* insert / overwrite keeping the list sorted by key *)
  Fixpoint aset (k : bytes) (v : V) (l : list (bytes * V)) : list (bytes * V) :=
    match l with
    | [] => [(k, v)]
    | (k', v') :: r => if bytes_eqb k k' then (k, v) :: r
                       else if bytes_ltb k k' then (k, v) :: l else (k', v') :: aset k v r
    end.
  Fixpoint adel (k : bytes) (l : list (bytes * V)) : list (bytes * V) :=
    match l with [] => [] | (k', v) :: r => if bytes_eqb k k' then r else (k', v) :: adel k r end.
End Assoc.

Definition bucket_st := list (bytes * obj).
Definition store := list (bytes * bucket_st).
Definition world := list store.                       (* backing databases 0 (default), 1, 2, ... *)
Definition cfg := list (bytes * nat).                 (* bucketToStorageMap: bucket -> backing id *)

Definition route (c : cfg) (b : bytes) : nat := match aget b c with Some i => i | None => 0 end.
(* lookupStorage returns the same INSTANCE for two buckets iff both are unmapped (default) or they
   are the same mapped bucket *)
Definition same_instance (c : cfg) (b1 b2 : bytes) : bool :=
  match aget b1 c, aget b2 c with
  | None, None => true
  | Some _, Some _ => bytes_eqb b1 b2
  | _, _ => false
  end.

Definition get_store (w : world) (i : nat) : store := nth i w [].
Fixpoint upd_nth {A} (i : nat) (f : A -> A) (l : list A) : list A :=
  match l, i with
  | [], _ => []
  | x :: r, O => f x :: r
  | x :: r, S i' => x :: upd_nth i' f r
  end.

Inductive res := ROk | RNoSuchBucket | RNoSuchKey | RExists | RNotEmpty | RHead (o : obj) | RList (l : list bytes).

Inductive op :=
| CreateBucket (b : bytes) | DeleteBucket (b : bytes)
| Put (b k : bytes) (o : obj) | Del (b k : bytes) | Head (b k : bytes)
| Copy (sb sk db dk : bytes) | ListBuckets.

(* insertion sort by name (slices.SortFunc with strings.Compare) *)
Fixpoint ins (x : bytes) (l : list bytes) : list bytes :=
  match l with [] => [x] | y :: r => if bytes_ltb y x then y :: ins x r else x :: l end.
Definition isort (l : list bytes) : list bytes := fold_right ins [] l.

Definition buckets_of (s : store) : list bytes := map fst s.

(* the object found by HeadObject/GetObject in a backing store *)
Definition find_obj (s : store) (b k : bytes) : res + obj :=
  match aget b s with
  | None => inl RNoSuchBucket
  | Some objs => match aget k objs with None => inl RNoSuchKey | Some o => inr o end
  end.

Definition put_obj (s : store) (b k : bytes) (o : obj) : option store :=
  match aget b s with None => None | Some objs => Some (aset b (aset k o objs) s) end.

Definition step (c : cfg) (w : world) (o : op) : world * res :=
  match o with
  | CreateBucket b =>
      let i := route c b in
      match aget b (get_store w i) with
      | Some _ => (w, RExists)
      | None => (upd_nth i (aset b []) w, ROk)
      end
  | DeleteBucket b =>
      let i := route c b in
      match aget b (get_store w i) with
      | None => (w, RNoSuchBucket)
      | Some [] => (upd_nth i (adel b) w, ROk)
      | Some _ => (w, RNotEmpty)
      end
  | Put b k ob =>
      let i := route c b in
      match put_obj (get_store w i) b k ob with
      | None => (w, RNoSuchBucket)
      | Some s' => (upd_nth i (fun _ => s') w, ROk)
      end
  | Del b k =>
      let i := route c b in
      match aget b (get_store w i) with
      | None => (w, RNoSuchBucket)
      | Some objs => (upd_nth i (aset b (adel k objs)) w, ROk)
      end
  | Head b k =>
      match find_obj (get_store w (route c b)) b k with inl r => (w, r) | inr ob => (w, RHead ob) end
  | Copy sb sk db dk =>
      let si := route c sb in let di := route c db in
      match find_obj (get_store w si) sb sk with
      | inl r => (w, r)
      | inr ob =>
          (* same instance: the backing storage's own CopyObject keeps every attribute;
             different instances: HeadObject + GetObject + PutObject(..., nil, nil) *)
          let ob' := if same_instance c sb db then ob
                     else {| o_data := o_data ob; o_c := o_c ob; o_u := false; o_t := false; o_m := false |} in
          match put_obj (get_store w di) db dk ob' with
          | None => (w, RNoSuchBucket)
          | Some s' => (upd_nth di (fun _ => s') w, ROk)
          end
      end
  | ListBuckets =>
      (w, RList (isort (flat_map (fun e => buckets_of (get_store w (snd e))) c ++ buckets_of (get_store w 0))))
  end.

Fixpoint run (c : cfg) (w : world) (ops : list op) : world * list res :=
  match ops with
  | [] => (w, [])
  | o :: r => let '(w1, x) := step c w o in let '(w2, xs) := run c w1 r in (w2, x :: xs)
  end.

(* ---------- line protocol: <cfg> <ops> ---------- *)
Definition show_flags (o : obj) : bytes :=
  B"c" ++ show_bool (o_c o) ++ B"u" ++ show_bool (o_u o) ++ B"t" ++ show_bool (o_t o) ++ B"m" ++ show_bool (o_m o).
Definition show_res (r : res) : bytes :=
  match r with
  | ROk => B"ok" | RNoSuchBucket => B"NoSuchBucket" | RNoSuchKey => B"NoSuchKey"
  | RExists => B"BucketAlreadyExists" | RNotEmpty => B"BucketNotEmpty"
  | RHead o => B"H:" ++ o_data o ++ B":" ++ show_flags o
  | RList l => B"L:" ++ join B"," l
  end.
Definition show_store (i : nat) (s : store) : bytes :=
  show_nat i ++ B":" ++ join B"," (map (fun be => fst be ++ B"{" ++ join B"," (map (fun ko => fst ko ++ B"=" ++ o_data (snd ko) ++ B":" ++ show_flags (snd ko)) (snd be)) ++ B"}") s).

Definition parse_cfg (t : bytes) : option cfg :=
  if bytes_eqb t B"-" then Some []
  else mapM (fun e => match split_on ":"%byte e with
                      | [b; i] => option_map (fun n => (b, n)) (parse_nat i)
                      | _ => None end) (split_on ","%byte t).
Definition mkobj (d : bytes) (meta mp : bool) : obj :=
  {| o_data := d; o_c := meta; o_u := meta; o_t := meta; o_m := mp |}.
Definition parse_op (t : bytes) : option op :=
  match split_on ","%byte t with
  | [o; b] => if bytes_eqb o B"cb" then Some (CreateBucket b) else if bytes_eqb o B"db" then Some (DeleteBucket b) else None
  | [o] => if bytes_eqb o B"lb" then Some ListBuckets else None
  | [o; b; k] => if bytes_eqb o B"del" then Some (Del b k) else if bytes_eqb o B"head" then Some (Head b k) else None
  | [o; b; k; d] => if bytes_eqb o B"mput" then Some (Put b k (mkobj d false true)) else None
  | [o; b; k; d; m] =>
      if bytes_eqb o B"put" then option_map (fun mb => Put b k (mkobj d mb false)) (parse_bool m)
      else if bytes_eqb o B"cp" then Some (Copy b k d m) else None
  | _ => None
  end.

Definition run_line (l : bytes) : bytes :=
  match tokens l with
  | [c; ops] =>
      do c <- parse_cfg c;
      do ops <- mapM parse_op (split_on ";"%byte ops);
      let '(w, rs) := run c [[]; []; []] ops in
      join B";" (map show_res rs) ++ B" | " ++ unwords [show_store 0 (get_store w 0); show_store 1 (get_store w 1); show_store 2 (get_store w 2)]
  | _ => parse_error
  end.
