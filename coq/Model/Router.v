(* Model/Router.v — executable model of internal/storage/middlewares/conditional/conditional.go
   (lookupStorage, per-bucket delegation, ListBuckets merge, cross-storage CopyObject and
   UploadPartCopy with readSourceForCopy / copySourceConditionsSatisfied) over abstract backing
   storages.  A backing storage is a map bucket -> (versioning flag, key -> versions); an object
   version is its content plus four observable attributes and a Last-Modified instant.  Every
   mapping entry is its own storage INSTANCE (as storage/config builds them); entries may share a
   backing database.  The same-storage copy of the backing storage (metadatapart copy.go /
   multipart.go UploadPartCopy / evaluateCopySourceConditions) is modelled separately
   ([inner_*]) so that the two can be compared.  No proofs here. *)
From Verif Require Import Bytes Codec.

Record obj := { o_data : bytes; o_c : bool (* content type *); o_u : bool (* user metadata *);
                o_t : bool (* tags *); o_m : bool (* multipart ETag *);
                o_lm : Z (* Last-Modified, milliseconds *) }.

(* byte-lexicographic order *)
Fixpoint bytes_ltb (a b : bytes) : bool :=
  match a, b with
  | [], [] => false
  | [], _ :: _ => true
  | _ :: _, [] => false
  | x :: a', y :: b' => (byteN x <? byteN y)%N || ((byteN x =? byteN y)%N && bytes_ltb a' b')
  end.

Section Assoc.
  Context {V : Type}.
  Fixpoint aget (k : bytes) (l : list (bytes * V)) : option V :=
    match l with [] => None | (k', v) :: r => if bytes_eqb k k' then Some v else aget k r end.
  (* insert / overwrite keeping the list sorted by key *)
  Fixpoint aset (k : bytes) (v : V) (l : list (bytes * V)) : list (bytes * V) :=
    match l with
    | [] => [(k, v)]
    | (k', v') :: r => if bytes_eqb k k' then (k, v) :: r
                       else if bytes_ltb k k' then (k, v) :: l else (k', v') :: aset k v r
    end.
  Fixpoint adel (k : bytes) (l : list (bytes * V)) : list (bytes * V) :=
    match l with [] => [] | (k', v) :: r => if bytes_eqb k k' then r else (k', v) :: adel k r end.
End Assoc.

Inductive ver := VObj (o : obj) | VMarker.
(* bucket versioning: never enabled / Enabled / Suspended (the "null" version is overwritten in place) *)
Inductive vmode := VOff | VOn | VSusp.
Definition is_on (m : vmode) : bool := match m with VOn => true | _ => false end.
Record bucket := { b_mode : vmode; b_keys : list (bytes * list ver) (* versions, newest first *) }.
Definition store := list (bytes * bucket).
Definition world := list store.                       (* backing databases 0 (default), 1, 2, ... *)
Definition cfg := list (bytes * nat).                 (* bucketToStorageMap: bucket -> backing id *)

Definition route (c : cfg) (b : bytes) : nat := match aget b c with Some i => i | None => 0 end.
(* lookupStorage returns the same INSTANCE for two buckets iff both are unmapped (default) or they
   are the same mapped bucket *)
Definition same_instance (c : cfg) (b1 b2 : bytes) : bool :=
  match aget b1 c, aget b2 c with
  | None, None => true
  | Some _, Some _ => bytes_eqb b1 b2
  | _, _ => false
  end.

Definition get_store (w : world) (i : nat) : store := nth i w [].
Fixpoint upd_nth {A} (i : nat) (f : A -> A) (l : list A) : list A :=
  match l, i with
  | [], _ => []
  | x :: r, O => f x :: r
  | x :: r, S i' => x :: upd_nth i' f r
  end.

(* source version id as reported back: none / "null" (unversioned bucket) / n-th version of the key *)
Inductive svid := SNone | SNull | SIdx (n : nat).

Inductive res :=
| ROk | RNoSuchBucket | RNoSuchKey | RExists | RNotEmpty | RPrecondition | RInvalidRange
| RDeleteMarker | RMethodNotAllowed | RUploadNoSuchBucket
| RCopied (v : svid) | RHead (o : obj) | RList (l : list bytes)
| RTx (inner : list res) (committed : bool).

(* ---------- copy options ---------- *)
(* an If-Match / If-None-Match header value: the ETag of some object (content + part structure),
   "*", or an ETag no object has *)
Inductive etag_cond := EVal (d : bytes) (m : bool) | EWild | EOther.
Inductive range := RgNone | RgSpan (s : Z) (e : option Z) | RgSuffix (n : Z).   (* storage.ByteRange, exclusive end *)
Record conds := { c_im : option etag_cond; c_inm : option etag_cond;
                  c_ius : option Z; c_ims : option Z   (* absolute instants, milliseconds *) }.
Record copts := { co_vid : option nat; co_range : range; co_conds : conds }.
Definition no_conds : conds := {| c_im := None; c_inm := None; c_ius := None; c_ims := None |}.
Definition no_opts : copts := {| co_vid := None; co_range := RgNone; co_conds := no_conds |}.

(* time.Time.Truncate(time.Second) on milliseconds *)
Definition trunc_s (t : Z) : Z := (t / 1000 * 1000)%Z.
(* value == "*" || value == object.ETag *)
Definition ec_matches (e : etag_cond) (o : obj) : bool :=
  match e with
  | EWild => true
  | EOther => false
  | EVal d m => bytes_eqb d (o_data o) && Bool.eqb m (o_m o)
  end.

(* conditional.go copySourceConditionsSatisfied *)
Definition cross_conditions (c : conds) (o : obj) : bool :=
  let im_passed := match c_im c with Some e => ec_matches e o | None => false end in
  if match c_im c with Some _ => negb im_passed | None => false end then false
  else if match c_inm c with Some e => ec_matches e o | None => false end then false
  else
    let lmt := trunc_s (o_lm o) in
    if match c_ius c with Some t => negb (match c_im c with Some _ => im_passed | None => false end) && (t <? lmt)%Z | None => false end then false
    else if match c_ims c with Some t => negb (t <? lmt)%Z | None => false end then false
    else true.

(* metadatapart object_read.go evaluateCopySourceConditions *)
Definition inner_conditions (c : conds) (o : obj) : bool :=
  let if_match_passed := match c_im c with Some e => ec_matches e o | None => false end in
  match c_im c, if_match_passed with
  | Some _, false => false
  | _, _ =>
    match c_inm c with
    | Some e =>
        if ec_matches e o then false
        else
          let last_modified := trunc_s (o_lm o) in
          match c_ius c with
          | Some t =>
              if negb (match c_im c with Some _ => if_match_passed | None => false end) && (t <? last_modified)%Z then false
              else match c_ims c with Some t' => (t' <? last_modified)%Z | None => true end
          | None => match c_ims c with Some t' => (t' <? last_modified)%Z | None => true end
          end
    | None =>
        let last_modified := trunc_s (o_lm o) in
        match c_ius c with
        | Some t =>
            if negb (match c_im c with Some _ => if_match_passed | None => false end) && (t <? last_modified)%Z then false
            else match c_ims c with Some t' => (t' <? last_modified)%Z | None => true end
        | None => match c_ims c with Some t' => (t' <? last_modified)%Z | None => true end
        end
    end
  end.

(* object_read.go normalizeAndValidateRanges: the byte window [start, end) of an object of [size]
   bytes, None = ErrInvalidRange *)
Definition norm_window (r : range) (size : Z) : option (Z * Z) :=
  match r with
  | RgNone => Some (0, size)%Z
  | RgSuffix n => if (n <=? 0)%Z then None else Some (size - Z.min n size, size)%Z
  | RgSpan s e =>
      if (s <? 0)%Z then None
      else match e with
           | Some x => let e' := Z.min x size in if (s >=? e')%Z then None else Some (s, e')
           | None => Some (s, size)
           end
  end.
(* createRangeReader: an empty window is ErrInvalidRange, except the implicit whole of an empty object *)
Definition reader_ok (r : range) (win : Z * Z) (size : Z) : bool :=
  (fst win <? snd win)%Z || (match r with RgNone => true | _ => false end && (size =? 0)%Z).
(* multipart.go findWhollyCoveredPart on a single-part source: the window is the whole part *)
Definition covers_part (win : Z * Z) (size : Z) : bool := (fst win =? 0)%Z && (snd win =? size)%Z.

(* GetObject(ranges) / ranged CopyObject: normalise, then open the reader *)
Definition read_window (r : range) (size : Z) : option (Z * Z) :=
  match norm_window r size with
  | Some win => if reader_ok r win size then Some win else None
  | None => None
  end.
(* same-storage UploadPartCopy: a wholly covered part is shared without opening a reader *)
Definition part_window (r : range) (size : Z) : option (Z * Z) :=
  match norm_window r size with
  | Some win => if covers_part win size || reader_ok r win size then Some win else None
  | None => None
  end.
Definition sub_bytes (d : bytes) (w : Z * Z) : bytes :=
  firstn (Z.to_nat (snd w - fst w)) (skipn (Z.to_nat (fst w)) d).
Definition sizeZ (d : bytes) : Z := Z.of_nat (length d).

(* ---------- reading a source version (HeadObject / HeadObjectVersion) ---------- *)
Definition find_version (s : store) (b k : bytes) (vid : option nat) : res + (obj * svid) :=
  match aget b s with
  | None => inl RNoSuchBucket
  | Some bk =>
      match aget k (b_keys bk) with
      | None | Some [] => inl RNoSuchKey
      | Some (v :: vs) =>
          match vid with
          | None =>
              match v with
              | VMarker => inl RDeleteMarker
              | VObj o => inr (o, if is_on (b_mode bk) then SIdx (S (length vs)) else SNull)
              end
          | Some n =>
              if negb (is_on (b_mode bk)) then inl RNoSuchKey
              else if (n =? 0) || (S (length vs) <? n) then inl RNoSuchKey
              else match nth_error (v :: vs) (S (length vs) - n) with
                   | Some (VObj o) => inr (o, SIdx n)
                   | Some VMarker => inl RMethodNotAllowed
                   | None => inl RNoSuchKey
                   end
          end
      end
  end.

(* writing an object: replaces the "null" version of an unversioned bucket, pushes a version otherwise *)
Definition put_obj (s : store) (b k : bytes) (o : obj) : option store :=
  match aget b s with
  | None => None
  | Some bk =>
      let old := match aget k (b_keys bk) with Some vs => vs | None => [] end in
      let vs := if is_on (b_mode bk) then VObj o :: old else [VObj o] in
      Some (aset b {| b_mode := b_mode bk; b_keys := aset k vs (b_keys bk) |} s)
  end.

(* DeleteObject without a version id: removes the object of an unversioned bucket, pushes a delete
   marker in an Enabled bucket, replaces the null version by a delete marker in a Suspended one *)
Definition del_obj (s : store) (b k : bytes) : option store :=
  match aget b s with
  | None => None
  | Some bk =>
      let keys := match b_mode bk with
                  | VOn => aset k (VMarker :: match aget k (b_keys bk) with Some vs => vs | None => [] end) (b_keys bk)
                  | VSusp => aset k [VMarker] (b_keys bk)
                  | VOff => adel k (b_keys bk)
                  end in
      Some (aset b {| b_mode := b_mode bk; b_keys := keys |} s)
  end.

(* the object a copy writes, given the source version and the window; [cross] = re-put by the
   middleware with nil options, [mp] = destination assembled by CompleteMultipartUpload *)
Definition copied_obj (src : obj) (win : Z * Z) (ranged cross mp : bool) (now : Z) : obj :=
  {| o_data := sub_bytes (o_data src) win;
     o_c := if mp then false else o_c src;
     o_u := if mp || cross then false else o_u src;
     o_t := if mp || cross then false else o_t src;
     o_m := if mp then true else if ranged || cross then false else o_m src;
     o_lm := now |}.

Definition is_ranged (r : range) : bool := match r with RgNone => false | _ => true end.

(* conditional.go CopyObject, different instances: readSourceForCopy (HeadObject, conditions,
   GetObject with the range) on the source storage, PutObject(..., nil, nil) on the destination *)
Definition cross_copy (ss ds : store) (sb sk db dk : bytes) (o : copts) (mp : bool) (now : Z) : option store * res :=
  match find_version ss sb sk (co_vid o) with
  | inl r => (None, r)
  | inr (src, v) =>
      if negb (cross_conditions (co_conds o) src) then (None, RPrecondition)
      else match read_window (co_range o) (sizeZ (o_data src)) with
           | None => (None, RInvalidRange)
           | Some win =>
               match put_obj ds db dk (copied_obj src win (is_ranged (co_range o)) true mp now) with
               | None => (None, RNoSuchBucket)
               | Some ds' => (Some ds', RCopied v)
               end
           end
  end.

(* metadatapart CopyObject / UploadPartCopy inside one storage *)
Definition inner_copy (ss ds : store) (sb sk db dk : bytes) (o : copts) (mp : bool) (now : Z) : option store * res :=
  match find_version ss sb sk (co_vid o) with
  | inl r => (None, r)
  | inr (src, v) =>
      if inner_conditions (co_conds o) src then
        match (if mp then part_window else read_window) (co_range o) (sizeZ (o_data src)) with
        | None => (None, RInvalidRange)
        | Some win =>
            match put_obj ds db dk (copied_obj src win (is_ranged (co_range o)) false mp now) with
            | None => (None, RNoSuchBucket)
            | Some ds' => (Some ds', RCopied v)
            end
        end
      else (None, RPrecondition)
  end.

(* ---------- a copy racing with another client ---------- *)
(* the concurrent writer acts on the source key *)
Inductive writer := WPut (o : obj) | WDel.
Definition apply_writer (wr : writer) (s : store) (b k : bytes) : store :=
  match (match wr with WPut o => put_obj s b k o | WDel => del_obj s b k end) with Some s' => s' | None => s end.

(* ETags: equal content and equal part structure *)
Definition etag_eqb (a b : obj) : bool := bytes_eqb (o_data a) (o_data b) && Bool.eqb (o_m a) (o_m b).

(* conditional.go across instances as its call sequence: HeadObject on [s_head] (+ the preconditions),
   GetObject(VersionID, IfMatchETag = the head's ETag, range) on [s_get], PutObject on the destination.
   The bytes come from the GetObject, everything else from the HeadObject. *)
Definition cross_copy_gen (s_head s_get ds : store) (sb sk db dk : bytes) (o : copts) (mp : bool) (now : Z) : option store * res :=
  match find_version s_head sb sk (co_vid o) with
  | inl r => (None, r)
  | inr (src, v) =>
      if negb (cross_conditions (co_conds o) src) then (None, RPrecondition)
      else match find_version s_get sb sk (co_vid o) with
           | inl r => (None, r)
           | inr (got, _) =>
               if negb (etag_eqb src got) then (None, RPrecondition)
               else match read_window (co_range o) (sizeZ (o_data got)) with
                    | None => (None, RInvalidRange)
                    | Some win =>
                        let ob := copied_obj src win (is_ranged (co_range o)) true mp now in
                        match put_obj ds db dk {| o_data := sub_bytes (o_data got) win; o_c := o_c ob; o_u := o_u ob;
                                                  o_t := o_t ob; o_m := o_m ob; o_lm := o_lm ob |} with
                        | None => (None, RNoSuchBucket)
                        | Some ds' => (Some ds', RCopied v)
                        end
                    end
           end
  end.

(* the writer runs at call boundary k: 1 = before HeadObject, 2 = between HeadObject and GetObject,
   3 (or more) = after GetObject returned *)
Definition cross_copy_at (k : nat) (wr : writer) (ss ds : store) (sb sk db dk : bytes) (o : copts) (mp : bool) (now : Z) : option store * res :=
  let ssw := apply_writer wr ss sb sk in
  match k with
  | 0 | 1 => cross_copy_gen ssw ssw ds sb sk db dk o mp now
  | 2 => cross_copy_gen ss ssw ds sb sk db dk o mp now
  | _ => cross_copy_gen ss ss ds sb sk db dk o mp now
  end.
Inductive op :=
| CreateBucket (b : bytes) (mode : vmode) | DeleteBucket (b : bytes)
| Put (b k : bytes) (o : obj) | Del (b k : bytes) | Head (b k : bytes) (vid : option nat)
| Copy (sb sk db dk : bytes) (o : copts) | PartCopy (sb sk db dk : bytes) (o : copts) | ListBuckets
| CopyAt (part : bool) (sb sk db dk : bytes) (o : copts) (k : nat) (wr : writer).

(* insertion sort by name (slices.SortFunc with strings.Compare) *)
Fixpoint ins (x : bytes) (l : list bytes) : list bytes :=
  match l with [] => [x] | y :: r => if bytes_ltb y x then y :: ins x r else x :: l end.
Definition isort (l : list bytes) : list bytes := fold_right ins [] l.

Definition buckets_of (s : store) : list bytes := map fst s.
Definition bucket_empty (bk : bucket) : bool := forallb (fun kv => is_nil (snd kv)) (b_keys bk).

Definition step (c : cfg) (now : Z) (w : world) (o : op) : world * res :=
  match o with
  | CreateBucket b v =>
      let i := route c b in
      match aget b (get_store w i) with
      | Some _ => (w, RExists)
      | None => (upd_nth i (aset b {| b_mode := v; b_keys := [] |}) w, ROk)
      end
  | DeleteBucket b =>
      let i := route c b in
      match aget b (get_store w i) with
      | None => (w, RNoSuchBucket)
      | Some bk => if bucket_empty bk then (upd_nth i (adel b) w, ROk) else (w, RNotEmpty)
      end
  | Put b k ob =>
      let i := route c b in
      match put_obj (get_store w i) b k ob with
      | None => (w, RNoSuchBucket)
      | Some s' => (upd_nth i (fun _ => s') w, ROk)
      end
  | Del b k =>
      let i := route c b in
      match del_obj (get_store w i) b k with
      | None => (w, RNoSuchBucket)
      | Some s' => (upd_nth i (fun _ => s') w, ROk)
      end
  | Head b k vid =>
      match find_version (get_store w (route c b)) b k vid with inl r => (w, r) | inr (ob, _) => (w, RHead ob) end
  | Copy sb sk db dk co =>
      let ss := get_store w (route c sb) in let di := route c db in
      let '(ds', r) := (if same_instance c sb db then inner_copy else cross_copy) ss (get_store w di) sb sk db dk co false now in
      (match ds' with Some s' => upd_nth di (fun _ => s') w | None => w end, r)
  | PartCopy sb sk db dk co =>
      (* CreateMultipartUpload on the destination first, then UploadPartCopy, then Complete *)
      let ss := get_store w (route c sb) in let di := route c db in
      match aget db (get_store w di) with
      | None => (w, RUploadNoSuchBucket)
      | Some _ =>
          let '(ds', r) := (if same_instance c sb db then inner_copy else cross_copy) ss (get_store w di) sb sk db dk co true now in
          (match ds' with Some s' => upd_nth di (fun _ => s') w | None => w end, r)
      end
  | CopyAt part sb sk db dk co k wr =>
      let si := route c sb in let di := route c db in
      (* the writer's effect on the source storage happens exactly once, whatever becomes of the copy *)
      let wr_w := fun w0 : world => upd_nth si (fun s => apply_writer wr s sb sk) w0 in
      if part && match aget db (get_store w di) with None => true | Some _ => false end then (wr_w w, RUploadNoSuchBucket)
      else if same_instance c sb db then
        (* the storage's own copy is one step: the writer comes before it (k <= 1) or after it *)
        let w0 := if (k <=? 1) then wr_w w else w in
        let '(ds', r) := inner_copy (get_store w0 si) (get_store w0 di) sb sk db dk co part now in
        let w2 := match ds' with Some s' => upd_nth di (fun _ => s') w0 | None => w0 end in
        (if (k <=? 1) then w2 else wr_w w2, r)
      else
        let w1 := wr_w w in
        let '(ds', r) := cross_copy_at k wr (get_store w si) (get_store w1 di) sb sk db dk co part now in
        (match ds' with Some s' => upd_nth di (fun _ => s') w1 | None => w1 end, r)
  | ListBuckets =>
      (w, RList (isort (flat_map (fun e => buckets_of (get_store w (snd e))) c ++ buckets_of (get_store w 0))))
  end.

(* the clock: operation number n happens at n seconds + 537 ms *)
Fixpoint run_from (c : cfg) (n : Z) (w : world) (ops : list op) : world * list res :=
  match ops with
  | [] => (w, [])
  | o :: r => let '(w1, x) := step c (n * 1000 + 537)%Z w o in
              let '(w2, xs) := run_from c (n + 1)%Z w1 r in (w2, x :: xs)
  end.
Definition run (c : cfg) (w : world) (ops : list op) : world * list res := run_from c 1%Z w ops.

(* ---------- line protocol: <cfg> <ops> ---------- *)
Definition show_data (d : bytes) : bytes := match d with [] => B"E" | _ => d end.
Definition show_flags (o : obj) : bytes :=
  B"c" ++ show_bool (o_c o) ++ B"u" ++ show_bool (o_u o) ++ B"t" ++ show_bool (o_t o) ++ B"m" ++ show_bool (o_m o).
Definition show_obj (o : obj) : bytes := show_data (o_data o) ++ B":" ++ show_flags o.
Definition show_svid (v : svid) : bytes :=
  match v with SNone => B"-" | SNull => B"null" | SIdx n => show_nat n end.
Definition show_res (r : res) : bytes :=
  match r with
  | ROk => B"ok" | RNoSuchBucket => B"NoSuchBucket" | RNoSuchKey => B"NoSuchKey"
  | RExists => B"BucketAlreadyExists" | RNotEmpty => B"BucketNotEmpty"
  | RPrecondition => B"PreconditionFailed" | RInvalidRange => B"InvalidRange"
  | RDeleteMarker => B"DeleteMarker" | RMethodNotAllowed => B"MethodNotAllowed"
  | RUploadNoSuchBucket => B"U:NoSuchBucket"
  | RCopied v => B"ok:" ++ show_svid v
  | RHead o => B"H:" ++ show_obj o
  | RList l => B"L:" ++ join B"," l
  | RTx _ _ => B"T"
  end.
(* a transaction element shows its inner results *)
Definition show_res_top (r : res) : bytes :=
  match r with
  | RTx inner c => B"T[" ++ join B"/" (map show_res inner) ++ B"]:" ++ (if c then B"ok" else B"rb")
  | _ => show_res r
  end.
Definition show_ver (v : ver) : bytes := match v with VMarker => B"DM" | VObj o => show_obj o end.
Definition show_store (i : nat) (s : store) : bytes :=
  show_nat i ++ B":" ++ join B"," (map (fun be =>
    fst be ++ (match b_mode (snd be) with VOn => B"!" | VSusp => B"~" | VOff => [] end) ++ B"{"
    ++ join B"," (map (fun kv => fst kv ++ B"=" ++ join B"|" (map show_ver (snd kv)))
                      (filter (fun kv => negb (is_nil (snd kv))) (b_keys (snd be)))) ++ B"}") s).

Definition parse_cfg (t : bytes) : option cfg :=
  if bytes_eqb t B"-" then Some []
  else mapM (fun e => match split_on ":"%byte e with
                      | [b; i] => option_map (fun n => (b, n)) (parse_nat i)
                      | _ => None end) (split_on ","%byte t).
Definition parse_data (d : bytes) : bytes := if bytes_eqb d B"E" then [] else d.
(* meta: 0 nothing, 1 content type + user metadata + tags, 2 content type only *)
Definition mkobj (d : bytes) (meta : N) (mp : bool) : obj :=
  {| o_data := parse_data d; o_c := negb (meta =? 0)%N; o_u := (meta =? 1)%N; o_t := (meta =? 1)%N; o_m := mp; o_lm := 0 |}.
Definition parse_meta (t : bytes) : option N :=
  match parse_N t with Some n => if (n <=? 2)%N then Some n else None | None => None end.
Definition parse_writer (t : bytes) : option writer :=
  match split_on ":"%byte t with
  | [o] => if bytes_eqb o B"del" then Some WDel else None
  | [o; d] => if bytes_eqb o B"mput" then Some (WPut (mkobj d 0 true)) else None
  | [o; d; m] => if bytes_eqb o B"put" then option_map (fun m => WPut (mkobj d m false)) (parse_meta m) else None
  | _ => None
  end.
Definition parse_vid (t : bytes) : option (option nat) :=
  if bytes_eqb t B"-" then Some None else option_map Some (parse_nat t).
Definition parse_range (t : bytes) : option range :=
  if bytes_eqb t B"-" then Some RgNone
  else match split_first ":"%byte t with
       | Some ([], n) => option_map RgSuffix (parse_Z n)
       | Some (s, []) => option_map (fun s => RgSpan s None) (parse_Z s)
       | Some (s, e) => match parse_Z s, parse_Z e with Some s, Some e => Some (RgSpan s (Some e)) | _, _ => None end
       | None => None
       end.
(* as written in the case line: E = the ETag of the source as the client saw it, W = "*", X = another ETag *)
Inductive rel_ec := REq | RWild | ROther.
Definition parse_ec (b : byte) : option rel_ec :=
  if beqb b "E"%byte then Some REq else if beqb b "W"%byte then Some RWild
  else if beqb b "X"%byte then Some ROther else None.
(* condition items; times are given relative to the source's Last-Modified second, so they are
   kept as offsets here and made absolute when the source is known *)
Record rconds := { r_im : option rel_ec; r_inm : option rel_ec; r_ius : option Z; r_ims : option Z }.
Definition parse_cond_item (acc : rconds) (t : bytes) : option rconds :=
  match t with
  | a :: b :: rest =>
      let tag := [a; b] in
      if bytes_eqb tag B"im" then match rest with [x] => option_map (fun e => {| r_im := Some e; r_inm := r_inm acc; r_ius := r_ius acc; r_ims := r_ims acc |}) (parse_ec x) | _ => None end
      else if bytes_eqb tag B"nm" then match rest with [x] => option_map (fun e => {| r_im := r_im acc; r_inm := Some e; r_ius := r_ius acc; r_ims := r_ims acc |}) (parse_ec x) | _ => None end
      else if bytes_eqb tag B"us" then option_map (fun d => {| r_im := r_im acc; r_inm := r_inm acc; r_ius := Some d; r_ims := r_ims acc |}) (parse_Z rest)
      else if bytes_eqb tag B"ms" then option_map (fun d => {| r_im := r_im acc; r_inm := r_inm acc; r_ius := r_ius acc; r_ims := Some d |}) (parse_Z rest)
      else None
  | _ => None
  end.
Definition parse_conds (t : bytes) : option rconds :=
  let z := {| r_im := None; r_inm := None; r_ius := None; r_ims := None |} in
  if bytes_eqb t B"-" then Some z
  else fold_left (fun acc it => match acc with Some a => parse_cond_item a it | None => None end) (split_on "+"%byte t) (Some z).

(* parsed operation: copies still carry relative times *)
Inductive pop :=
| POp (o : op)
| PCopy (part : bool) (sb sk db dk : bytes) (vid : option nat) (r : range) (rc : rconds) (at_ : option (nat * writer))
| PTx (commit : bool) (ops : list pop).

Definition parse_op (t : bytes) : option pop :=
  match split_on ","%byte t with
  | [o; b] => if bytes_eqb o B"cb" then Some (POp (CreateBucket b VOff)) else if bytes_eqb o B"cbv" then Some (POp (CreateBucket b VOn))
              else if bytes_eqb o B"cbs" then Some (POp (CreateBucket b VSusp))
              else if bytes_eqb o B"db" then Some (POp (DeleteBucket b)) else None
  | [o] => if bytes_eqb o B"lb" then Some (POp ListBuckets) else None
  | [o; b; k] => if bytes_eqb o B"del" then Some (POp (Del b k)) else if bytes_eqb o B"head" then Some (POp (Head b k None)) else None
  | [o; b; k; d] => if bytes_eqb o B"mput" then Some (POp (Put b k (mkobj d 0 true)))
                    else if bytes_eqb o B"head" then option_map (fun n => POp (Head b k (Some n))) (parse_nat d) else None
  | [o; b; k; d; m] =>
      if bytes_eqb o B"put" then option_map (fun mb => POp (Put b k (mkobj d mb false))) (parse_meta m)
      else if bytes_eqb o B"cp" then Some (PCopy false b k d m None RgNone {| r_im := None; r_inm := None; r_ius := None; r_ims := None |} None) else None
  | [o; sb; sk; db; dk; v; r; cn] =>
      match parse_vid v, parse_range r, parse_conds cn with
      | Some v, Some r, Some cn =>
          if bytes_eqb o B"cp" then Some (PCopy false sb sk db dk v r cn None)
          else if bytes_eqb o B"upc" then Some (PCopy true sb sk db dk v r cn None) else None
      | _, _, _ => None
      end
  | [o; sb; sk; db; dk; v; r; cn; k; wr] =>
      match parse_vid v, parse_range r, parse_conds cn, parse_nat k, parse_writer wr with
      | Some v, Some r, Some cn, Some k, Some wr =>
          if bytes_eqb o B"cpi" then Some (PCopy false sb sk db dk v r cn (Some (k, wr)))
          else if bytes_eqb o B"upci" then Some (PCopy true sb sk db dk v r cn (Some (k, wr))) else None
      | _, _, _, _, _ => None
      end
  | _ => None
  end.

(* a history element: an operation, or txc= / txr= / txcs= / txrs= followed by '/'-separated operations *)
Definition parse_elem (t : bytes) : option pop :=
  match split_first "="%byte t with
  | Some (tag, body) =>
      let commit := bytes_eqb tag B"txc" || bytes_eqb tag B"txcs" in
      if commit || bytes_eqb tag B"txr" || bytes_eqb tag B"txrs"
      then option_map (PTx commit) (mapM parse_op (split_on "/"%byte body)) else None
  | None => parse_op t
  end.

(* make the relative times absolute: source Last-Modified second + d seconds (the harness does the
   same with the real source's Last-Modified); unknown source: any instant *)
Definition resolve (c : cfg) (w : world) (p : pop) (now : Z) : op :=
  match p with
  | POp (Put b k o) => Put b k {| o_data := o_data o; o_c := o_c o; o_u := o_u o; o_t := o_t o; o_m := o_m o; o_lm := now |}
  | POp o => o
  | PTx _ _ => ListBuckets   (* not used: transaction elements are run by [run_parsed] *)
  | PCopy part sb sk db dk vid0 r rc at_ =>
      (* the client builds the request from the source as it is BEFORE the operation starts; it cannot name a
         version that does not exist yet (index 0 stands for an id no version has) *)
      let nvers := match aget sb (get_store w (route c sb)) with
                   | Some bk => match aget sk (b_keys bk) with Some vs => length vs | None => 0 end
                   | None => 0
                   end in
      let vid := match vid0 with Some n => if nvers <? n then Some 0 else Some n | None => None end in
      let seen := match find_version (get_store w (route c sb)) sb sk vid with inr (o, _) => Some o | inl _ => None end in
      let lm := match seen with Some o => o_lm o | None => now end in
      let abs d := (trunc_s lm + d * 1000)%Z in
      let ec (e : rel_ec) := match e with
                             | RWild => EWild | ROther => EOther
                             | REq => match seen with Some o => EVal (o_data o) (o_m o) | None => EOther end
                             end in
      let co := {| co_vid := vid; co_range := r;
                   co_conds := {| c_im := option_map ec (r_im rc); c_inm := option_map ec (r_inm rc); c_ius := option_map abs (r_ius rc); c_ims := option_map abs (r_ims rc) |} |} in
      match at_ with
      | Some (k, wr) =>
          let wr' := match wr with
                     | WPut o => WPut {| o_data := o_data o; o_c := o_c o; o_u := o_u o; o_t := o_t o; o_m := o_m o; o_lm := now |}
                     | WDel => WDel
                     end in
          CopyAt part sb sk db dk co k wr'
      | None => if part then PartCopy sb sk db dk co else Copy sb sk db dk co
      end
  end.

(* ---------- the ambient transaction ----------
   router.WithTransaction opens the DEFAULT storage's transaction and hands the router to the
   callback.  Inside, operations on buckets of the default backing (0) work on its pending state
   [pend], invisible to other connections until the commit; operations on routed buckets reach their
   own backing's database directly and are committed there at once. *)
Definition set0 (w : world) (p : store) : world := upd_nth 0 (fun _ => p) w.
Fixpoint tx_run (c : cfg) (n : Z) (w : world) (pend : store) (ops : list pop) : world * store * list res :=
  match ops with
  | [] => (w, pend, [])
  | p :: r => let now := (n * 1000 + 537)%Z in
              (* the callback's view: the committed world with the default backing replaced by the pending state *)
              let view := set0 w pend in
              let '(v1, x) := step c now view (resolve c view p now) in
              let '(w2, pend2, xs) := tx_run c (n + 1)%Z (set0 v1 (get_store w 0)) (get_store v1 0) r in
              (w2, pend2, x :: xs)
  end.

Definition run_elem (c : cfg) (n : Z) (w : world) (p : pop) : world * res :=
  match p with
  | PTx commit ops =>
      let '(w1, pend, rs) := tx_run c (n * 1000)%Z w (get_store w 0) ops in
      (if commit then set0 w1 pend else w1, RTx rs commit)
  | _ => let now := (n * 1000 + 537)%Z in step c now w (resolve c w p now)
  end.
Fixpoint run_parsed (c : cfg) (n : Z) (w : world) (ops : list pop) : world * list res :=
  match ops with
  | [] => (w, [])
  | p :: r => let '(w1, x) := run_elem c n w p in
              let '(w2, xs) := run_parsed c (n + 1)%Z w1 r in (w2, x :: xs)
  end.

Definition run_line (l : bytes) : bytes :=
  match tokens l with
  | [c; ops] =>
      do c <- parse_cfg c;
      do ops <- mapM parse_elem (split_on ";"%byte ops);
      let '(w, rs) := run_parsed c 1%Z [[]; []; []] ops in
      join B";" (map show_res_top rs) ++ B" | " ++ unwords [show_store 0 (get_store w 0); show_store 1 (get_store w 1); show_store 2 (get_store w 2)]
  | _ => parse_error
  end.
