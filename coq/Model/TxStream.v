(* Model/TxStream.v — C36 round 2: metadataPartStorage.GetObject over SEVERAL part stores of different kinds.
   Written from internal/storage/metadatapart/object_read.go (GetObject, createRangeReader,
   lazyPartSequenceReadCloser), partstore/named.go (NamedPartStores.Capabilities, ByName), the GetPart paths of the
   filesystem, SQL and outbox part stores, on top of Model/TxReaders.v (database.WithTxReadClosers).
   (a) per-store capability table + routing of a part to the store recorded on its row + the decision whether the
       readers stream WITHOUT the GetObject transaction;
   (b) the transactions the outbox part store begins by itself, one per lazily opened part, when it is read without
       an ambient transaction (getPartTxFree): counters begun / finalized + which reader currently holds one.
   No proofs here. *)
From Verif Require Import Bytes Codec TxReaders.

(* ---------- stores ---------- *)
Inductive skind := SFs | SSql | SOutbox.           (* outbox = part outbox in front of a filesystem store *)
(* CapabilityTxFreeGetPart: filesystem yes; sql no (content is read from the transaction); outbox = inner store's *)
Definition txfree (k : skind) : bool := match k with SSql => false | _ => true end.
Inductive mode := MTx | MFree.
(* NamedPartStores.Capabilities = intersection over ALL configured stores; GetObject streams tx-free iff it has
   CapabilityTxFreeGetPart *)
Definition decide (stores : list skind) : mode := if forallb txfree stores then MFree else MTx.

(* ---------- parts of the object ---------- *)
(* state of a part in an outbox store: flushed to the inner store | pending put with content | pending put of an
   empty part (no content chunk) | pending delete | deleted and flushed (gone).  Parts in fs/sql stores are
   KFlushed (KGone after the object was deleted). *)
Inductive pkind := KFlushed | KPendContent | KPendEmpty | KPendDelete | KGone.
Record part := { p_store : nat; p_size : nat; p_kind : pkind }.
Record prange := { pr_part : nat; pr_len : nat }.

(* createRangeReader: the parts overlapping [gs, ge) with their limits; a zero-length part strictly inside the range
   is included with limit 0, one at or before the start is skipped *)
Fixpoint mk_ranges (ps : list part) (idx pos gs ge : nat) : list prange :=
  match ps with
  | [] => []
  | p :: rest =>
      let pstart := pos in let pend := pos + p_size p in
      if (pend <=? gs)%nat then mk_ranges rest (S idx) pend gs ge
      else if (ge <=? pstart)%nat then []
      else
        let a := if (pstart <? gs)%nat then gs - pstart else 0 in
        let b := if (ge <? pend)%nat then ge - pstart else p_size p in
        {| pr_part := idx; pr_len := b - a |} :: mk_ranges rest (S idx) pend gs ge
  end.

(* ---------- readers ---------- *)
Record cur := { cu_own : bool;      (* this open part holds a transaction of its own (outbox, pending content) *)
                cu_left : nat }.    (* bytes still to deliver from it *)
Record rdr := { r_todo : list prange; r_cur : option cur; r_closed : bool }.

Inductive oerr := ETxDone | ENilTx | ENotFound.
Inductive rres := RBytes (n : nat) | REofS | RErrS (e : oerr) | REnd (total : nat) | RErrEnd (e : oerr) (total : nat) | ROkS.

Record sst := {
  amb : st;                 (* the GetObject transaction shared by the readers (Model/TxReaders.v); MTx only *)
  amb_gone : bool;          (* MFree: the short metadata transaction has ended before GetObject returned *)
  begun : nat;              (* transactions begun by part stores on their own *)
  finalized : nat;          (* ... and rolled back *)
  rdrs : list rdr;
  parts : list part
}.

Definition amb_is_done (m : mode) (s : sst) : bool :=
  match m with MTx => tx_done (amb s) | MFree => amb_gone s end.

(* PartStore.GetPart(ctx, readerTx, id) for the part, readerTx = nil in MFree:
   result, #transactions begun, #transactions finalized before returning *)
Definition open_part (m : mode) (done : bool) (stores : list skind) (p : part) (len : nat)
  : (cur + oerr) * nat * nat :=
  let gone := match p_kind p with KPendDelete | KGone => true | _ => false end in
  match nth (p_store p) stores SFs, m with
  | SFs, _ => (if gone then inr ENotFound else inl {| cu_own := false; cu_left := len |}, 0, 0)
  | SSql, MFree => (inr ENilTx, 0, 0)          (* tx.SqlTx() on a nil transaction *)
  | SSql, MTx => (if done then inr ETxDone else if gone then inr ENotFound
                  else inl {| cu_own := false; cu_left := len |}, 0, 0)
  | SOutbox, MTx => (if done then inr ETxDone else if gone then inr ENotFound
                     else inl {| cu_own := false; cu_left := len |}, 0, 0)
  | SOutbox, MFree =>
      (* getPartTxFree: BeginTx; released on every path except "pending entry with content" *)
      match p_kind p with
      | KFlushed => (inl {| cu_own := false; cu_left := len |}, 1, 1)
      | KPendContent => (inl {| cu_own := true; cu_left := len |}, 1, 0)
      | KPendEmpty => (inl {| cu_own := false; cu_left := 0 |}, 1, 1)
      | KPendDelete | KGone => (inr ENotFound, 1, 1)
      end
  end.

(* lazyPartSequenceReadCloser.Read with a buffer of bsz bytes *)
Fixpoint read_loop (fuel : nat) (m : mode) (done : bool) (stores : list skind) (ps : list part) (bsz : nat)
                   (r : rdr) (bg fn : nat) : rdr * rres * nat * nat :=
  match fuel with
  | O => (r, REofS, bg, fn)
  | S fuel' =>
      match r_cur r with
      | Some c =>
          if (cu_left c =? 0)%nat then
            (* current.Read answers EOF: close the part (its own transaction is rolled back), go on *)
            read_loop fuel' m done stores ps bsz {| r_todo := r_todo r; r_cur := None; r_closed := r_closed r |}
                      bg (if cu_own c then S fn else fn)
          else
            let n := Nat.min bsz (cu_left c) in
            ({| r_todo := r_todo r; r_cur := Some {| cu_own := cu_own c; cu_left := cu_left c - n |};
                r_closed := r_closed r |}, RBytes n, bg, fn)
      | None =>
          match r_todo r with
          | [] => (r, REofS, bg, fn)
          | pr :: rest =>
              (* partIndex++ happens before GetPart: a part whose open failed is skipped by the next Read *)
              let p := nth (pr_part pr) ps {| p_store := 0; p_size := 0; p_kind := KGone |} in
              let '(res, db, df) := open_part m done stores p (pr_len pr) in
              match res with
              | inr e => ({| r_todo := rest; r_cur := None; r_closed := r_closed r |}, RErrS e, bg + db, fn + df)
              | inl c => read_loop fuel' m done stores ps bsz
                                   {| r_todo := rest; r_cur := Some c; r_closed := r_closed r |} (bg + db) (fn + df)
              end
          end
      end
  end.
Definition read_fuel (r : rdr) : nat := 2 * length (r_todo r) + 3.

Definition read_once (m : mode) (done : bool) (stores : list skind) (ps : list part) (bsz : nat) (r : rdr) (bg fn : nat) :=
  if r_closed r then (r, REofS, bg, fn) else read_loop (read_fuel r) m done stores ps bsz r bg fn.

(* read until EOF or the first error; total = bytes delivered *)
Fixpoint read_all (fuel : nat) (m : mode) (done : bool) (stores : list skind) (ps : list part) (bsz : nat)
                  (r : rdr) (bg fn total : nat) : rdr * rres * nat * nat :=
  match fuel with
  | O => (r, REnd total, bg, fn)
  | S fuel' =>
      let '(r', res, bg', fn') := read_once m done stores ps bsz r bg fn in
      match res with
      | RBytes n => read_all fuel' m done stores ps bsz r' bg' fn' (total + n)
      | RErrS e => (r', RErrEnd e total, bg', fn')
      | _ => (r', REnd total, bg', fn')
      end
  end.
Definition todo_bytes (r : rdr) : nat :=
  fold_right (fun pr a => pr_len pr + a) 0 (r_todo r) + match r_cur r with Some c => cu_left c | None => 0 end.

(* lazyPartSequenceReadCloser.Close *)
Definition close_rdr (r : rdr) (fn : nat) : rdr * nat :=
  ({| r_todo := r_todo r; r_cur := None; r_closed := true |},
   match r_cur r with Some c => if cu_own c then S fn else fn | None => fn end).

Fixpoint upd {A} (l : list A) (i : nat) (x : A) : list A :=
  match l, i with
  | [], _ => []
  | _ :: t, O => x :: t
  | a :: t, S j => a :: upd t j x
  end.
Definition dead_rdr : rdr := {| r_todo := []; r_cur := None; r_closed := true |}.

(* ---------- operations of the caller (and of the environment) ---------- *)
Inductive sop := SR (i : nat) | SE (i : nat) | SC (i : nat)
               | SX      (* the object is deleted by another request: fs parts are gone, outbox parts get a pending delete *)
               | SF.     (* the outbox worker flushes: pending puts become flushed, pending deletes become gone *)

Definition set_parts (s : sst) (ps : list part) : sst :=
  {| amb := amb s; amb_gone := amb_gone s; begun := begun s; finalized := finalized s; rdrs := rdrs s; parts := ps |}.
Definition with_rdr (s : sst) (i : nat) (r : rdr) (bg fn : nat) : sst :=
  {| amb := amb s; amb_gone := amb_gone s; begun := bg; finalized := fn; rdrs := upd (rdrs s) i r; parts := parts s |}.

Definition sstep (m : mode) (stores : list skind) (bsz : nat) (s : sst) (o : sop) : sst * rres :=
  match o with
  | SR i =>
      let '(r, res, bg, fn) := read_once m (amb_is_done m s) stores (parts s) bsz (nth i (rdrs s) dead_rdr)
                                         (begun s) (finalized s) in
      (with_rdr s i r bg fn, res)
  | SE i =>
      let r0 := nth i (rdrs s) dead_rdr in
      let '(r, res, bg, fn) := read_all (todo_bytes r0 + read_fuel r0 + 2) m (amb_is_done m s) stores (parts s) bsz r0
                                        (begun s) (finalized s) 0 in
      (with_rdr s i r bg fn, res)
  | SC i =>
      (* MTx: the reader is wrapped by WithTxReadClosers: inner Close, then the once-only hook;
         MFree: the lazy reader itself *)
      let '(r, fn) := close_rdr (nth i (rdrs s) dead_rdr) (finalized s) in
      let s1 := with_rdr s i r (begun s) fn in
      match m with
      | MTx => ({| amb := fst (step true (amb s1) (Close i)); amb_gone := amb_gone s1; begun := begun s1;
                   finalized := finalized s1; rdrs := rdrs s1; parts := parts s1 |}, ROkS)
      | MFree => (s1, ROkS)
      end
  | SX =>
      (set_parts s (map (fun p => {| p_store := p_store p; p_size := p_size p;
                                     p_kind := match nth (p_store p) stores SFs with
                                               | SOutbox => match p_kind p with KGone => KGone | _ => KPendDelete end
                                               | _ => KGone
                                               end |}) (parts s)), ROkS)
  | SF =>
      (set_parts s (map (fun p => {| p_store := p_store p; p_size := p_size p;
                                     p_kind := match p_kind p with
                                               | KPendContent | KPendEmpty => KFlushed
                                               | KPendDelete => KGone
                                               | k => k
                                               end |}) (parts s)), ROkS)
  end.

Fixpoint srun (m : mode) (stores : list skind) (bsz : nat) (s : sst) (ops : list sop) : sst * list (rres * sst) :=
  match ops with
  | [] => (s, [])
  | o :: t => let '(s1, r) := sstep m stores bsz s o in
              let '(s2, rs) := srun m stores bsz s1 t in (s2, (r, s1) :: rs)
  end.

(* GetObject returned n readers for the given ranges *)
Definition obj_size (ps : list part) : nat := fold_right (fun p a => p_size p + a) 0 ps.
Definition mk_rdr (ps : list part) (rg : option (nat * nat)) : rdr :=
  let '(gs, ge) := match rg with Some x => x | None => (0, obj_size ps) end in
  {| r_todo := mk_ranges ps 0 0 gs ge; r_cur := None; r_closed := false |}.
Definition sinit (m : mode) (ps : list part) (rgs : list (option (nat * nat))) : sst :=
  {| amb := init (length rgs); amb_gone := true; begun := 0; finalized := 0;
     rdrs := map (mk_rdr ps) rgs; parts := ps |}.
Definition close_all (n : nat) : list sop := map SC (seq 0 n).

(* ---------- line protocol
   sx <kinds> <place> <sizes> <nflushed> <bsz> <ranges> <ops>
     kinds    f|s|o separated by ','  (store 0 = default)          place  = k (written to store k) or jtk (written to
                                                                          store j, then transitioned to store k)
     sizes    part sizes separated by ',' (size!0 / size!1: injected   nflushed = how many leading parts are flushed (outbox)
              repository failure, see parse_size)
     ranges   "-" (whole object) or start-end separated by ';'     ops    R<i> E<i> C<i> X F separated by ';' ("-" none)
   output: mode=<tx|free> <res/begun/finalized/ambientdone per op> end=<begun>/<finalized>/<ambientdone> (after closing all) *)
Definition parse_skind (t : bytes) : option skind :=
  if bytes_eqb t B"f" then Some SFs else if bytes_eqb t B"s" then Some SSql else if bytes_eqb t B"o" then Some SOutbox else None.
Definition parse_sop (t : bytes) : option sop :=
  if bytes_eqb t B"X" then Some SX else if bytes_eqb t B"F" then Some SF else
  match t with
  | c :: rest =>
      match parse_nat rest with
      | Some i => if beqb c "R"%byte then Some (SR i) else if beqb c "E"%byte then Some (SE i)
                  else if beqb c "C"%byte then Some (SC i) else None
      | None => None
      end
  | [] => None
  end.
Definition parse_place (t : bytes) : option nat :=
  match split_on "t"%byte t with
  | [k] => parse_nat k
  | [j; k] => match parse_nat j, parse_nat k with Some _, Some x => Some x | _, _ => None end
  | _ => None
  end.
Definition parse_sops (t : bytes) : option (list sop) :=
  if bytes_eqb t B"-" then Some [] else mapM parse_sop (split_on ";"%byte t).
Definition parse_range (t : bytes) : option (option (nat * nat)) :=
  match split_on "-"%byte t with
  | [a; b] => match parse_nat a, parse_nat b with Some x, Some y => Some (Some (x, y)) | _, _ => None end
  | _ => None
  end.
Definition parse_ranges (t : bytes) : option (list (option (nat * nat))) :=
  if bytes_eqb t B"-" then Some [None] else mapM parse_range (split_on ";"%byte t).

Definition mk_parts (store : nat) (outbox : bool) (sizes : list nat) (nflushed : nat) : list part :=
  map (fun ix => let '(i, sz) := ix in
                 {| p_store := store; p_size := sz;
                    p_kind := if negb outbox || (i <? nflushed)%nat then KFlushed
                              else if (sz =? 0)%nat then KPendEmpty else KPendContent |})
      (combine (seq 0 (length sizes)) sizes).

(* injected lookup failures of the outbox repository (the double answers ErrPartNotFound): size!0 = the lookup of the
   part's last outbox entry fails, size!1 = the lookup of the entry's first content chunk fails, size!2 = it reports the entry as vanished every time (both reached only while the
   part is a pending put).  Either way GetPart returns the error after releasing its own transaction: observably the
   part behaves like a deleted one. *)
Definition parse_size (t : bytes) : option (nat * option nat) :=
  match split_on "!"%byte t with
  | [a] => option_map (fun n => (n, None)) (parse_nat a)
  | [a; b] => match parse_nat a, parse_nat b with Some n, Some j => Some (n, Some j) | _, _ => None end
  | _ => None
  end.
Definition apply_faults (ps : list part) (fl : list (option nat)) : list part :=
  map (fun pf => let '(p, f) := pf in
                 match f with
                 | Some 0 => {| p_store := p_store p; p_size := p_size p; p_kind := KGone |}
                 | Some _ => match p_kind p with
                             | KPendContent | KPendEmpty => {| p_store := p_store p; p_size := p_size p; p_kind := KGone |}
                             | _ => p
                             end
                 | None => p
                 end) (combine ps fl).

Definition show_oerr (e : oerr) : bytes :=
  match e with ETxDone => B"TXDONE" | ENilTx => B"NILTX" | ENotFound => B"NOTFOUND" end.
Definition show_rres (r : rres) : bytes :=
  match r with
  | RBytes n => show_nat n
  | REofS => B"EOF"
  | RErrS e => show_oerr e
  | REnd t => B"END:" ++ show_nat t
  | RErrEnd e t => show_oerr e ++ B":" ++ show_nat t
  | ROkS => B"OK"
  end.
Definition show_sstep (m : mode) (x : rres * sst) : bytes :=
  join B"/" [show_rres (fst x); show_nat (begun (snd x)); show_nat (finalized (snd x));
             show_bool (amb_is_done m (snd x))].

Definition sop_ok (n : nat) (no_sql : bool) (o : sop) : bool :=
  match o with SR i | SE i | SC i => (i <? n)%nat | SX => no_sql | SF => true end.

Definition run_sx_line (toks : list bytes) : bytes :=
  match toks with
  | [k; pl; sz; nf; b; rg; o] =>
      do stores <- mapM parse_skind (split_on ","%byte k);
      do place <- parse_place pl;
      do sizesf <- mapM parse_size (split_on ","%byte sz);
      let sizes := map fst sizesf in let faults := map snd sizesf in
      do nflushed <- parse_nat nf;
      do bsz <- parse_nat b;
      do rgs <- parse_ranges rg;
      do ops <- parse_sops o;
      let total := fold_right Nat.add 0 sizes in
      if negb ((place <? length stores)%nat && (1 <=? bsz)%nat && (length rgs <=? 4)%nat &&
               forallb (fun r => match r with None => true | Some (x, y) => (x <? y)%nat && (y <=? total)%nat end) rgs &&
               forallb (sop_ok (length rgs) (forallb txfree stores)) ops &&
               (* faults only on non-empty parts held by an outbox store; a chunk-lookup fault excludes worker passes *)
               forallb (fun sf => match snd sf with
                                  | None => true
                                  | Some j => (1 <=? fst sf)%nat && (j <=? 2)%nat &&
                                              match nth place stores SFs with SOutbox => true | _ => false end &&
                                              ((j =? 0)%nat || negb (existsb (fun o => match o with SF => true | _ => false end) ops))
                                  end) sizesf)
      then B"BAD" else
      let m := decide stores in
      let ps := apply_faults (mk_parts place (match nth place stores SFs with SOutbox => true | _ => false end) sizes nflushed) faults in
      let s0 := sinit m ps rgs in
      let '(s1, tr) := srun m stores bsz s0 ops in
      let '(s2, _) := srun m stores bsz s1 (close_all (length rgs)) in
      unwords [match m with MTx => B"mode=tx" | MFree => B"mode=free" end;
               match tr with [] => B"-" | _ => join B";" (map (show_sstep m) tr) end;
               B"end=" ++ join B"/" [show_nat (begun s2); show_nat (finalized s2); show_bool (amb_is_done m s2)]]
  | _ => parse_error
  end.

(* the C36 driver: round-1 lines go to TxReaders.run_line *)
Definition run_line (l : bytes) : bytes :=
  match tokens l with
  | kind :: rest => if bytes_eqb kind B"sx" then run_sx_line rest else run_line_round1 l
  | [] => parse_error
  end.
