(* Model/StorageOutboxOwners.v — C21, several claim owners on one storage outbox id / database
   (a second or restarted instance): storage_outbox_entries rows with claim_owner / claim_until,
   ClaimFirstStorageOutboxEntry (HEAD of the queue only; free or lease expired), the replay on the
   inner storage (not fenced by the lease), DeleteStorageOutboxEntryByClaimOwner, release on a
   failed replay, heartbeat, crash, clock.  Reuses the inner storage, payloads and routing of
   Model/StorageOutbox.v.  No proofs here. *)
From Verif Require Import Bytes Codec StorageOutbox.

Record oentry := { oe_id : N; oe_pl : payload; oe_owner : option nat; oe_until : N }.
Inductive owstate := OIdle | OHolding (id : N) (p : payload) | OReplayed (id : N) (p : payload).
Record mstate := { m_inner : istate; m_queue : list oentry; m_now : N; m_next : N;
                   m_workers : nat -> owstate }.
Definition minit : mstate :=
  {| m_inner := init_inner; m_queue := []; m_now := 0; m_next := 1; m_workers := fun _ => OIdle |}.

Inductive mstep :=
| MCall (c : call)                 (* a client write that is routed to the outbox *)
| MClaim (w : nat) | MReplay (w : nat) | MFinalize (w : nat)
| MHeartbeat (w : nat) | MCrash (w : nat) | MTick (n : N).
Inductive mres :=
| MROk | MRNone | MRClaimed (id : N) | MRReplay (e : option err) | MRDeleted | MRLost | MRUnsupported.

Definition mwupd (f : nat -> owstate) (w : nat) (v : owstate) : nat -> owstate :=
  fun x => if Nat.eqb x w then v else f x.
Definition oclaimable (e : oentry) (t : N) : bool :=
  match oe_owner e with None => true | Some _ => (oe_until e <=? t)%N end.
Definition oowned (e : oentry) (w : nat) : bool :=
  match oe_owner e with Some w' => Nat.eqb w w' | None => false end.
Definition oset (e : oentry) (o : option nat) (u : N) : oentry :=
  {| oe_id := oe_id e; oe_pl := oe_pl e; oe_owner := o; oe_until := u |}.
Definition omap (q : list oentry) (id : N) (f : oentry -> oentry) : list oentry :=
  map (fun e => if (oe_id e =? id)%N then f e else e) q.

Fixpoint menqueue (q : list oentry) (n : N) (ps : list payload) : list oentry * N :=
  match ps with
  | [] => (q, n)
  | p :: t => menqueue (q ++ [{| oe_id := n; oe_pl := p; oe_owner := None; oe_until := 0 |}]) (n + 1)%N t
  end.

Section M.
Variable lease : N.
Variable UK : list bytes.

Definition step_m (s : mstate) (a : mstep) : mstate * mres :=
  let upd i q t n ws := {| m_inner := i; m_queue := q; m_now := t; m_next := n; m_workers := ws |} in
  match a with
  | MCall c =>
      match route (m_inner s) c with
      | (None, ps) => if rejects c then (s, MRUnsupported) else
                      let '(q', n') := menqueue (m_queue s) (m_next s) ps in
                      (upd (m_inner s) q' (m_now s) n' (m_workers s), MROk)
      | (Some _, _) => (s, MRUnsupported)
      end
  | MClaim w =>
      match m_workers s w, m_queue s with
      | OIdle, e :: t =>
          if oclaimable e (m_now s) then
            (upd (m_inner s) (oset e (Some w) (m_now s + lease)%N :: t) (m_now s) (m_next s)
                 (mwupd (m_workers s) w (OHolding (oe_id e) (oe_pl e))), MRClaimed (oe_id e))
          else (s, MRNone)
      | _, _ => (s, MRNone)
      end
  | MReplay w =>
      match m_workers s w with
      | OHolding id p =>
          match apply_call UK (m_inner s) (replay_call p) with
          | (i', None) => (upd i' (m_queue s) (m_now s) (m_next s) (mwupd (m_workers s) w (OReplayed id p)), MRReplay None)
          | (_, Some er) =>
              (upd (m_inner s) (omap (m_queue s) id (fun e => if oowned e w then oset e None 0 else e))
                   (m_now s) (m_next s) (mwupd (m_workers s) w OIdle), MRReplay (Some er))
          end
      | _ => (s, MRNone)
      end
  | MFinalize w =>
      match m_workers s w with
      | OReplayed id p =>
          if existsb (fun e => (oe_id e =? id)%N && oowned e w) (m_queue s) then
            (upd (m_inner s) (filter (fun e => negb ((oe_id e =? id)%N && oowned e w)) (m_queue s))
                 (m_now s) (m_next s) (mwupd (m_workers s) w OIdle), MRDeleted)
          else (upd (m_inner s) (m_queue s) (m_now s) (m_next s) (mwupd (m_workers s) w OIdle), MRLost)
      | _ => (s, MRNone)
      end
  | MHeartbeat w =>
      match m_workers s w with
      | OHolding id _ | OReplayed id _ =>
          (upd (m_inner s) (omap (m_queue s) id (fun e => if oowned e w then oset e (Some w) (m_now s + lease)%N else e))
               (m_now s) (m_next s) (m_workers s), MROk)
      | OIdle => (s, MRNone)
      end
  | MCrash w => (upd (m_inner s) (m_queue s) (m_now s) (m_next s) (mwupd (m_workers s) w OIdle), MROk)
  | MTick n => (upd (m_inner s) (m_queue s) (m_now s + n)%N (m_next s) (m_workers s), MROk)
  end.

Fixpoint run_m (s : mstate) (tr : list mstep) : mstate * list mres :=
  match tr with
  | [] => (s, [])
  | a :: t => let '(s1, r) := step_m s a in let '(s2, rs) := run_m s1 t in (s2, r :: rs)
  end.

(* ---- specification vocabulary ---- *)
(* the replay calls of the writes accepted into the outbox, in acceptance order (by
   C21_options_replayed they have the effect of the accepted calls themselves) *)
Fixpoint m_accepted (s : mstate) (tr : list mstep) : list call :=
  match tr with
  | [] => []
  | a :: t =>
      (match a with
       | MCall c => match route (m_inner s) c with (None, ps) => if rejects c then [] else map replay_call ps | _ => [] end
       | _ => []
       end) ++ m_accepted (fst (step_m s a)) t
  end.

Definition m_held_by_other (s : mstate) (ws : list nat) (w : nat) (id : N) : bool :=
  existsb (fun w' => negb (Nat.eqb w' w) &&
                     match m_workers s w' with
                     | OHolding i _ | OReplayed i _ => (i =? id)%N
                     | OIdle => false
                     end) ws.
(* the lease assumption: no claim takes an entry away from a live owner that still holds it, and no
   owner dies between its replay and its finalize (the replays are not idempotent) *)
Fixpoint m_orderly (s : mstate) (ws : list nat) (tr : list mstep) : bool :=
  match tr with
  | [] => true
  | a :: t =>
      (match a with
       | MClaim w =>
           match m_queue s with
           | e :: _ => negb (match m_workers s w with OIdle => oclaimable e (m_now s) | _ => false end
                             && m_held_by_other s ws w (oe_id e))
           | [] => true
           end
       | MCrash w => match m_workers s w with OReplayed _ _ => false | _ => true end
       | _ => true
       end) && m_orderly (fst (step_m s a)) ws t
  end.
Definition m_step_worker (a : mstep) : list nat :=
  match a with MClaim w | MReplay w | MFinalize w | MHeartbeat w | MCrash w => [w] | _ => [] end.
Definition m_trace_workers (tr : list mstep) : list nat := flat_map m_step_worker tr.
End M.

(* ---------------------------------------------------------------- line protocol
   OWN <lease> <buckets> <keys> <step>...   steps: the client op tokens of Model/StorageOutbox.v
   (only calls that are routed to the outbox), C<w> R<w> F<w> H<w> K<w> T<n>
   output: one token per step, "#", the sweep of the inner storage, Q<pending>;
   "ORD <pairs> <spinners>": regression detector for "entry ids sort in acceptance order" ([e_id] /
   [oe_id] = acceptance counter in both models): the harness saves <pairs> entries through the real
   repository while <spinners> goroutines create other ULIDs and answers "ordered" or "inverted:<k>";
   the models' ids are the acceptance order by construction, so the model answers "ordered";
   any other line is a Model/StorageOutbox.v line *)
Definition parse_mstep (t : bytes) : option mstep :=
  match t with
  | [] => None
  | c :: r =>
      if beqb c "C"%byte then option_map MClaim (parse_nat r)
      else if beqb c "R"%byte then option_map MReplay (parse_nat r)
      else if beqb c "F"%byte then option_map MFinalize (parse_nat r)
      else if beqb c "H"%byte then option_map MHeartbeat (parse_nat r)
      else if beqb c "K"%byte then option_map MCrash (parse_nat r)
      else if beqb c "T"%byte then option_map MTick (parse_N r)
      else match parse_op t with Some (OCall c) => Some (MCall c) | _ => None end
  end.
Definition show_mres (r : mres) : bytes :=
  match r with
  | MROk => B"OK" | MRNone => B"-" | MRClaimed id => B"c" ++ show_N id
  | MRReplay e => B"r:" ++ show_oerr e | MRDeleted => B"d" | MRLost => B"l" | MRUnsupported => B"UNSUPPORTED"
  end.
Definition run_owners (toks : list bytes) : bytes :=
  match toks with
  | lt :: bt :: kt :: steps =>
      do lease <- parse_N lt;
      do UB <- untok_list bt;
      do UK <- untok_list kt;
      do tr <- mapM parse_mstep steps;
      let '(s, rs) := run_m lease UK minit tr in
      unwords (map show_mres rs ++ [B"#"] ++ sweep UK UB (m_inner s) ++ [B"Q" ++ show_nat (length (m_queue s))])
  | _ => parse_error
  end.
Definition run_line (l : bytes) : bytes :=
  match tokens l with
  | t :: rest =>
      if bytes_eqb t B"OWN" then run_owners rest
      else if bytes_eqb t B"ORD" then B"ordered"
      else run_line_single l
  | [] => parse_error
  end.
