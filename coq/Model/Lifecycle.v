(* Model/Lifecycle.v — C25.  Executable model of the lifecycle reconciler
     internal/storage/bucketlifecycle.go      LifecycleRuleMatchesObject, lifecycleRulePrefix,
                                              lifecycleNextMidnightUTC, the due-time functions
     internal/storage/middlewares/lifecyclereconciler/lifecyclereconciler.go
                                              reconcileBucket and its passes
   over an in-memory storage (objects, versions, uploads) that applies the calls it receives, and the
   S3 due-time rule the property is judged against.  Time = seconds since the epoch (Z), UTC.
   NoncurrentVersionTransitions are not modelled.  No proofs here. *)
From Verif Require Import Bytes Codec Listing.
Open Scope Z_scope.

Definition day : Z := 86400.

(* ---- rules (the structure of storage.LifecycleRule that the code inspects) ---- *)
Definition tag := (bytes * bytes)%type.
Record and_op := { a_prefix : option bytes; a_tags : list tag; a_gt : option Z; a_lt : option Z }.
Record rfilter := { f_prefix : option bytes; f_tag : option tag; f_gt : option Z; f_lt : option Z;
                   f_and : option and_op }.
Record expiration := { e_days : option Z; e_date : option Z; e_dm : option bool }.
Record transition := { t_days : option Z; t_date : option Z; t_class : bytes }.
Record nc_expiration := { n_days : option Z; n_newer : option Z }.
Record rule := {
  r_enabled : bool;
  r_prefix : option bytes;          (* legacy top-level Prefix *)
  r_filter : option rfilter;
  r_exp : option expiration;
  r_trans : list transition;
  r_nce : option nc_expiration;
  r_abort : option Z                (* AbortIncompleteMultipartUpload.DaysAfterInitiation *)
}.

(* ---- storage content ---- *)
Record obj := { o_key : bytes; o_size : Z; o_tags : list tag; o_lm : Z; o_etag : bytes; o_class : bytes;
                o_swap : option (bytes * Z) }.   (* a concurrent PUT (etag, last-modified) that lands
                                                    between the listing and the first guarded call *)
Record ver := { v_key : bytes; v_id : bytes; v_latest : bool; v_dm : bool; v_lm : Z; v_size : Z;
                v_tags : list tag }.
Record upl := { u_key : bytes; u_id : bytes; u_init : Z }.

Inductive action :=
| ADelete (key etag : bytes) (ok : bool)                (* DeleteObject IfMatchETag; ok=false: 412 *)
| ADeleteVersion (key vid : bytes)
| ATransition (key class etag : bytes) (ok : bool)
| AAbort (key uid : bytes).

(* ---- LifecycleRuleMatchesObject ---- *)
Definition rule_prefix (r : rule) : bytes :=
  match r_prefix r with
  | Some p => p
  | None =>
      match r_filter r with
      | None => []
      | Some f =>
          match f_prefix f with
          | Some p => p
          | None => match f_and f with
                    | Some a => match a_prefix a with Some p => p | None => [] end
                    | None => []
                    end
          end
      end
  end.

Fixpoint tag_lookup (k : bytes) (tags : list tag) : option bytes :=
  match tags with
  | [] => None
  | (k', v) :: rest => if bytes_eqb k k' then Some v else tag_lookup k rest
  end.

Definition tag_ok (tags : list tag) (t : tag) : bool :=
  match tag_lookup (fst t) tags with Some v => bytes_eqb v (snd t) | None => false end.

Definition opt_or {A} (a b : option A) : option A := match a with Some _ => a | None => b end.

Definition rule_matches (r : rule) (key : bytes) (size : Z) (tags : list tag) : bool :=
  if negb (is_prefix (rule_prefix r) key) then false
  else match r_filter r with
       | None => true
       | Some f =>
           let gt := match f_and f with Some a => opt_or (a_gt a) (f_gt f) | None => f_gt f end in
           let lt := match f_and f with Some a => opt_or (a_lt a) (f_lt f) | None => f_lt f end in
           let ftags := (match f_tag f with Some t => [t] | None => [] end) ++
                        (match f_and f with Some a => a_tags a | None => [] end) in
           (match gt with Some g => negb (size <=? g) | None => true end) &&
           (match lt with Some l => negb (l <=? size) | None => true end) &&
           forallb (tag_ok tags) ftags
       end.

(* ---- due times as the code computes them ---- *)
(* first midnight UTC strictly after t *)
Definition next_midnight (t : Z) : Z := (t / day + 1) * day.

Definition exp_due (e : expiration) (created : Z) : option Z :=
  match e_date e with
  | Some d => Some d
  | None => match e_days e with
            | Some n => Some (next_midnight (created + n * day))
            | None => None
            end
  end.
Definition trans_due (t : transition) (created : Z) : option Z :=
  match t_date t with
  | Some d => Some d
  | None => match t_days t with
            | Some n => Some (next_midnight (created + n * day))
            | None => None
            end
  end.
Definition nce_due (n : nc_expiration) (since : Z) : option Z :=
  match n_days n with Some d => Some (next_midnight (since + d * day)) | None => None end.
Definition abort_due (days : Z) (initiated : Z) : Z := next_midnight (initiated + days * day).

Definition reached (now : Z) (due : option Z) : bool :=
  match due with Some d => d <=? now | None => false end.

(* ---- the S3 due rule, written from the S3 documentation: a day-based action becomes due at
        creation + days, rounded UP to midnight UTC; a date-based action at that date ---- *)
Definition s3_round_up (t : Z) : Z := if t mod day =? 0 then t else (t / day + 1) * day.
Definition s3_days_due (created days : Z) : Z := s3_round_up (created + days * day).

(* ---- rule selection of reconcileBucket ---- *)
Definition is_exp_rule (r : rule) : bool :=
  r_enabled r && match r_exp r with
                 | Some e => match e_days e, e_date e with None, None => false | _, _ => true end
                 | None => false
                 end.
Definition is_dm_rule (r : rule) : bool :=
  r_enabled r && match r_exp r with
                 | Some e => match e_dm e with Some true => true | _ => false end
                 | None => false
                 end.
Definition is_nce_rule (r : rule) : bool :=
  r_enabled r && match r_nce r with Some _ => true | None => false end.
Definition is_trans_rule (r : rule) : bool :=
  r_enabled r && negb (is_nil (r_trans r)).
Definition is_abort_rule (r : rule) : bool :=
  r_enabled r && match r_abort r with Some _ => true | None => false end.

(* ---- expireObjectIfDue: the first rule that is due and matches ---- *)
Definition exp_fires (now : Z) (o : obj) (r : rule) : bool :=
  match r_exp r with
  | Some e => reached now (exp_due e (o_lm o)) && rule_matches r (o_key o) (o_size o) (o_tags o)
  | None => false
  end.
Definition expire_decision (rules : list rule) (now : Z) (o : obj) : option rule :=
  find (exp_fires now o) (filter is_exp_rule rules).

(* the storage applies a pending concurrent PUT before it evaluates the guarded call *)
Definition apply_swap (o : obj) : obj :=
  match o_swap o with
  | Some (e, lm) => {| o_key := o_key o; o_size := o_size o; o_tags := o_tags o; o_lm := lm;
                       o_etag := e; o_class := o_class o; o_swap := None |}
  | None => o
  end.

(* expireObjects: per listed object at most one DeleteObject(IfMatchETag = listed ETag) *)
Fixpoint expire_pass (rules : list rule) (now : Z) (objs : list obj) : list action * list obj :=
  match objs with
  | [] => ([], [])
  | o :: rest =>
      let '(acts, remaining) := expire_pass rules now rest in
      match expire_decision rules now o with
      | None => (acts, o :: remaining)
      | Some _ =>
          let cur := apply_swap o in
          if bytes_eqb (o_etag cur) (o_etag o)
          then (ADelete (o_key o) (o_etag o) true :: acts, remaining)
          else (ADelete (o_key o) (o_etag o) false :: acts, cur :: remaining)
      end
  end.

(* ---- transitionObjectIfDue: among due transitions of matching rules whose target differs from the
        current class, the one with the latest due time (first one on ties) ---- *)
Definition std : bytes := B"STANDARD".
Definition eff_class (c : bytes) : bytes := match c with [] => std | _ => c end.

(* the inner loop over one rule's transitions; [m] caches the lazily evaluated filter *)
Fixpoint trans_rule_loop (now : Z) (o : obj) (matches : bool) (ts : list transition)
  (chosen : option (Z * bytes)) : option (Z * bytes) :=
  match ts with
  | [] => chosen
  | t :: rest =>
      match trans_due t (o_lm o) with
      | None => trans_rule_loop now o matches rest chosen
      | Some d =>
          if negb (d <=? now) then trans_rule_loop now o matches rest chosen
          else if bytes_eqb (t_class t) (eff_class (o_class o)) then trans_rule_loop now o matches rest chosen
          else if negb matches then chosen                       (* break *)
          else match chosen with
               | Some (cd, _) => if cd <? d then trans_rule_loop now o matches rest (Some (d, t_class t))
                                 else trans_rule_loop now o matches rest chosen
               | None => trans_rule_loop now o matches rest (Some (d, t_class t))
               end
      end
  end.
Definition transition_decision (rules : list rule) (now : Z) (o : obj) : option (Z * bytes) :=
  fold_left (fun chosen r =>
               trans_rule_loop now o (rule_matches r (o_key o) (o_size o) (o_tags o)) (r_trans r) chosen)
            (filter is_trans_rule rules) None.

Fixpoint transition_pass (rules : list rule) (now : Z) (objs : list obj) : list action :=
  match objs with
  | [] => []
  | o :: rest =>
      match transition_decision rules now o with
      | None => transition_pass rules now rest
      | Some (_, target) =>
          let cur := apply_swap o in
          ATransition (o_key o) target (o_etag o) (bytes_eqb (o_etag cur) (o_etag o))
            :: transition_pass rules now rest
      end
  end.

(* ---- expireObjectDeleteMarkers: a key whose only versions are delete markers, current one deleted ---- *)
Definition versions_of (k : bytes) (vs : list ver) : list ver := filter (fun v => bytes_eqb (v_key v) k) vs.
Fixpoint distinct_keys (vs : list ver) (seen : list bytes) : list bytes :=
  match vs with
  | [] => []
  | v :: rest => if mem_bytes (v_key v) seen then distinct_keys rest seen
                 else v_key v :: distinct_keys rest (v_key v :: seen)
  end.
Definition dm_pass_key (rules : list rule) (vs : list ver) : list action :=
  if existsb (fun v => negb (v_dm v)) vs then []
  else match last_opt (filter (fun v => v_latest v && v_dm v) vs) with
       | None => []
       | Some m =>
           match find (fun r => rule_matches r (v_key m) (v_size m) []) (filter is_dm_rule rules) with
           | Some _ => [ADeleteVersion (v_key m) (v_id m)]
           | None => []
           end
       end.

(* ---- expireNoncurrentObjectVersions ---- *)
(* sort.SliceStable by LastModified descending *)
Fixpoint insert_desc (v : ver) (l : list ver) : list ver :=
  match l with
  | [] => [v]
  | x :: l' => if v_lm v <? v_lm x then x :: insert_desc v l' else v :: l
  end.
Definition sort_desc (l : list ver) : list ver := fold_right insert_desc [] l.

Definition nce_fires (now since : Z) (newer : Z) (v : ver) (r : rule) : bool :=
  match r_nce r with
  | None => false
  | Some n =>
      reached now (nce_due n since) &&
      (match n_newer n with Some k => negb (newer <=? k) | None => true end) &&
      rule_matches r (v_key v) (v_size v) (v_tags v)
  end.

(* the loop over the sorted versions of one key: [prev] = LastModified of versions[i-1] (None at i = 0),
   [newer] = noncurrent versions already passed *)
Fixpoint nce_loop (rules : list rule) (now : Z) (prev : option Z) (newer : Z) (vs : list ver) : list action :=
  match vs with
  | [] => []
  | v :: rest =>
      if v_latest v || v_dm v then nce_loop rules now (Some (v_lm v)) newer rest
      else match prev with
           | None => nce_loop rules now (Some (v_lm v)) newer rest
           | Some since =>
               (match find (nce_fires now since newer v) (filter is_nce_rule rules) with
                | Some _ => [ADeleteVersion (v_key v) (v_id v)]
                | None => []
                end) ++ nce_loop rules now (Some (v_lm v)) (newer + 1) rest
           end
  end.
Definition nce_pass_key (rules : list rule) (now : Z) (vs : list ver) : list action :=
  nce_loop rules now None 0 (sort_desc vs).

(* ---- abortIncompleteUploads ---- *)
Definition abort_fires (now : Z) (u : upl) (r : rule) : bool :=
  rule_matches r (u_key u) 0 [] &&
  match r_abort r with Some d => abort_due d (u_init u) <=? now | None => false end.
Definition abort_pass (rules : list rule) (now : Z) (us : list upl) : list action :=
  flat_map (fun u => match find (abort_fires now u) (filter is_abort_rule rules) with
                     | Some _ => [AAbort (u_key u) (u_id u)]
                     | None => []
                     end) us.

Definition deleted_version (acts : list action) (v : ver) : bool :=
  existsb (fun a => match a with
                    | ADeleteVersion k i => bytes_eqb k (v_key v) && bytes_eqb i (v_id v)
                    | _ => false
                    end) acts.

(* ---- reconcileBucket: expiration, delete markers, noncurrent expiration, transitions, aborts ---- *)
Definition reconcile (rules : list rule) (now : Z) (objs : list obj) (vs : list ver) (us : list upl)
  : list action :=
  let '(a1, objs') := expire_pass rules now objs in
  let a2 := flat_map (fun k => dm_pass_key rules (versions_of k vs)) (distinct_keys vs []) in
  let vs' := filter (fun v => negb (deleted_version a2 v)) vs in
  let a3 := flat_map (fun k => nce_pass_key rules now (versions_of k vs')) (distinct_keys vs' []) in
  let a4 := transition_pass rules now objs' in
  let a5 := abort_pass rules now us in
  a1 ++ a2 ++ a3 ++ a4 ++ a5.

(* ================================================================ line protocol ========= *)
(* input : <now> <rules> <objects> <versions> <uploads>         ("~" = empty list, items separated by '|')
     rule    en/shape/prefix/tags/gt/lt/expdays/expdate/expdm/trans/ncdays/ncnewer/abortdays
             shape P: legacy Prefix; F: Filter with direct predicates (first tag only); A: Filter.And
             trans: "_" or days:date:class,...      optional numbers "N" or decimal (may be negative)
     object  key/size/tags/lm/etag/class/swap       swap: N or etag:lm
     version key/vid/latest/dm/lm/size/tags
     upload  key/uid/initiated
     tags    "_" or k:v,k:v  (hex)
   output: the calls made on the storage, as sorted tokens (or "-"):
     D:<key>:<etag>:<0|1>  V:<key>:<vid>  T:<key>:<class>:<etag>:<0|1>  A:<key>:<uid> *)
Definition parse_optZ (t : bytes) : option (option Z) :=
  if bytes_eqb t B"N" then Some None else option_map Some (parse_Z t).
Definition untok_optb (t : bytes) : option (option bytes) :=
  match t with
  | b :: rest => if beqb b "S"%byte then option_map Some (untok_bytes rest)
                 else if bytes_eqb t B"N" then Some None else None
  | [] => None
  end.
Definition parse_tag (t : bytes) : option tag :=
  match split_on ":"%byte t with
  | [k; v] => match untok_bytes k, untok_bytes v with Some k, Some v => Some (k, v) | _, _ => None end
  | _ => None
  end.
Definition parse_tags (t : bytes) : option (list tag) :=
  if bytes_eqb t B"_" then Some [] else mapM parse_tag (split_on ","%byte t).
Definition parse_trans1 (t : bytes) : option transition :=
  match split_on ":"%byte t with
  | [d; dt; c] => match parse_optZ d, parse_optZ dt, untok_bytes c with
                  | Some d, Some dt, Some c => Some {| t_days := d; t_date := dt; t_class := c |}
                  | _, _, _ => None
                  end
  | _ => None
  end.
Definition parse_trans (t : bytes) : option (list transition) :=
  if bytes_eqb t B"_" then Some [] else mapM parse_trans1 (split_on ","%byte t).
Definition parse_optbool (t : bytes) : option (option bool) :=
  if bytes_eqb t B"N" then Some None else option_map Some (parse_bool t).

Definition build_filter (shape : bytes) (p : option bytes) (tags : list tag) (gt lt : option Z)
  : option (option bytes * option rfilter) :=
  if bytes_eqb shape B"P" then Some (p, None)
  else if bytes_eqb shape B"F" then
    Some (None, Some {| f_prefix := p; f_tag := hd_error tags; f_gt := gt; f_lt := lt; f_and := None |})
  else if bytes_eqb shape B"A" then
    Some (None, Some {| f_prefix := None; f_tag := None; f_gt := None; f_lt := None;
                        f_and := Some {| a_prefix := p; a_tags := tags; a_gt := gt; a_lt := lt |} |})
  else None.

Definition parse_rule (t : bytes) : option rule :=
  match split_on "/"%byte t with
  | [en; sh; p; tg; gt; lt; ed; edt; edm; tr; nd; nn; ab] =>
      match parse_bool en, untok_optb p, parse_tags tg, parse_optZ gt, parse_optZ lt with
      | Some en, Some p, Some tg, Some gt, Some lt =>
          match build_filter sh p tg gt lt, parse_optZ ed, parse_optZ edt, parse_optbool edm,
                parse_trans tr, parse_optZ nd, parse_optZ nn, parse_optZ ab with
          | Some (rp, rf), Some ed, Some edt, Some edm, Some tr, Some nd, Some nn, Some ab =>
              Some {| r_enabled := en; r_prefix := rp; r_filter := rf;
                      r_exp := match ed, edt, edm with
                               | None, None, None => None
                               | _, _, _ => Some {| e_days := ed; e_date := edt; e_dm := edm |}
                               end;
                      r_trans := tr;
                      r_nce := match nd, nn with
                               | None, None => None
                               | _, _ => Some {| n_days := nd; n_newer := nn |}
                               end;
                      r_abort := ab |}
          | _, _, _, _, _, _, _, _ => None
          end
      | _, _, _, _, _ => None
      end
  | _ => None
  end.

Definition parse_list {A} (f : bytes -> option A) (t : bytes) : option (list A) :=
  if bytes_eqb t B"~" then Some [] else mapM f (split_on "|"%byte t).

Definition parse_swap (t : bytes) : option (option (bytes * Z)) :=
  if bytes_eqb t B"N" then Some None
  else match split_on ":"%byte t with
       | [e; l] => match untok_bytes e, parse_Z l with Some e, Some l => Some (Some (e, l)) | _, _ => None end
       | _ => None
       end.
Definition parse_obj (t : bytes) : option obj :=
  match split_on "/"%byte t with
  | [k; sz; tg; lm; et; cl; sw] =>
      match untok_bytes k, parse_Z sz, parse_tags tg, parse_Z lm, untok_bytes et, untok_bytes cl, parse_swap sw with
      | Some k, Some sz, Some tg, Some lm, Some et, Some cl, Some sw =>
          Some {| o_key := k; o_size := sz; o_tags := tg; o_lm := lm; o_etag := et; o_class := cl; o_swap := sw |}
      | _, _, _, _, _, _, _ => None
      end
  | _ => None
  end.
Definition parse_ver (t : bytes) : option ver :=
  match split_on "/"%byte t with
  | [k; id; la; dm; lm; sz; tg] =>
      match untok_bytes k, untok_bytes id, parse_bool la, parse_bool dm, parse_Z lm, parse_Z sz, parse_tags tg with
      | Some k, Some id, Some la, Some dm, Some lm, Some sz, Some tg =>
          Some {| v_key := k; v_id := id; v_latest := la; v_dm := dm; v_lm := lm; v_size := sz; v_tags := tg |}
      | _, _, _, _, _, _, _ => None
      end
  | _ => None
  end.
Definition parse_upl (t : bytes) : option upl :=
  match split_on "/"%byte t with
  | [k; id; i] =>
      match untok_bytes k, untok_bytes id, parse_Z i with
      | Some k, Some id, Some i => Some {| u_key := k; u_id := id; u_init := i |}
      | _, _, _ => None
      end
  | _ => None
  end.

Definition show_action (a : action) : bytes :=
  match a with
  | ADelete k e ok => join B":" [B"D"; tok_bytes k; tok_bytes e; show_bool ok]
  | ADeleteVersion k i => join B":" [B"V"; tok_bytes k; tok_bytes i]
  | ATransition k c e ok => join B":" [B"T"; tok_bytes k; tok_bytes c; tok_bytes e; show_bool ok]
  | AAbort k i => join B":" [B"A"; tok_bytes k; tok_bytes i]
  end.

(* insertion sort keeping duplicates (byte order, like Go's sort.Strings on ASCII tokens) *)
Fixpoint insert_tok (k : bytes) (l : list bytes) : list bytes :=
  match l with
  | [] => [k]
  | x :: l' => match bcmp k x with Gt => x :: insert_tok k l' | _ => k :: l end
  end.
Definition sort_toks (l : list bytes) : list bytes := fold_right insert_tok [] l.

Definition run_line (l : bytes) : bytes :=
  match tokens l with
  | [nw; rs; os; vs; us] =>
      do now <- parse_Z nw; do rules <- parse_list parse_rule rs; do objs <- parse_list parse_obj os;
      do vers <- parse_list parse_ver vs; do upls <- parse_list parse_upl us;
      match sort_toks (map show_action (reconcile rules now objs vers upls)) with
      | [] => B"-"
      | ts => unwords ts
      end
  | _ => parse_error
  end.
