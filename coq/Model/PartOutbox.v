(* Model/PartOutbox.v — C18: internal/storage/metadatapart/partstore/outbox/outbox.go with
   database/sqlite/repository/partoutboxentry/sqlite.go (M-QUEUE).  No proofs here.

   State: the committed outbox table (FIFO by id; claim_owner, claim_until, version), the inner part
   store (part id -> content id; a tx-free filesystem store), a clock, the workers' volatile states.
   Atomic steps (any interleaving, any number of workers):
     Commit ops   a writer transaction commits PutPart/DeletePart calls (entries + chunks, same tx)
     Claim w      ClaimFirstPartOutboxEntry in its own tx: head entry, free or lease expired, version CAS
     Replay w     the tx-free inner PutPart / DeletePart of the entry w holds (NOT fenced by the lease)
     Finalize w   DeletePartOutboxEntryByClaimOwner: delete iff the row still carries w as owner
     Heartbeat w  ExtendPartOutboxEntryClaim
     Release w    replay error path: ReleasePartOutboxEntryClaim, worker returns
     Crash w      the worker process dies (volatile state lost, row stays claimed until expiry)
     Tick n       time passes
     Get p / Ids  GetPart / GetPartIds at a snapshot (the lookups run in one read transaction) *)
From Verif Require Import Bytes Codec.

Inductive pop := PPutPart (p : N) (c : N) | PDelPart (p : N).
Definition pop_pid (o : pop) : N := match o with PPutPart p _ | PDelPart p => p end.

Record pentry := { pe_id : N; pe_op : pop; pe_owner : option nat; pe_until : N; pe_version : N }.

Inductive wstate := WIdle | WHolding (id : N) (o : pop) | WReplayed (id : N) (o : pop).

Definition store := N -> option N.
Definition supd (s : store) (p : N) (v : option N) : store := fun x => if (x =? p)%N then v else s x.
Definition apply_pop (s : store) (o : pop) : store :=
  match o with PPutPart p c => supd s p (Some c) | PDelPart p => supd s p None end.

(* a GetPartIds call in progress: what its FIRST read returned.  The code's order is outbox query
   first (the read transaction's snapshot of the entries), inner listing second; [LInner] is the
   swapped order (inner listing first), kept only to show why the order matters *)
Inductive listing_st := LOutbox (es : list pentry) | LInner (i : store).
(* a tx-free GetPart (getPartTxFree + lazyOutboxChunkReadCloser) in progress, under STATEMENT-level
   isolation (every repository lookup sees the latest committed entries; on SQLite the read
   transaction's snapshot makes the whole read one step, [SGetFree]): about to look up the last entry
   ([RPre], with the number of lookups rounds so far), about to ask for entry presence + first chunk
   ([RLooked]), about to ask for chunk [next] ([RStream]) *)
Inductive rphase := RPre | RLooked (id : N) (c : N) | RStream (id : N) (c : N) (next : nat).
Record rstate := { rd_pid : N; rd_tries : nat; rd_phase : rphase }.
Record pstate := { entries : list pentry; inner_parts : store; now : N; pnext : N;
                   workers : nat -> wstate; listing : option listing_st; reading : option rstate }.

Definition wupd (f : nat -> wstate) (w : nat) (v : wstate) : nat -> wstate :=
  fun x => if Nat.eqb x w then v else f x.

Definition pinit : pstate :=
  {| entries := []; inner_parts := fun _ => None; now := 0; pnext := 1; workers := fun _ => WIdle; listing := None; reading := None |}.

Inductive pstep :=
| SCommit (ops : list pop) | SRollback (ops : list pop)
| SClaim (w : nat) | SReplay (w : nat) | SFinalize (w : nat)
| SHeartbeat (w : nat) | SRelease (w : nat) | SCrash (w : nat) | STick (n : N)
| SGet (p : N) | SIds
| SIdsBegin | SIdsEnd                 (* GetPartIds as coded: outbox query, then inner listing *)
| SIdsInnerFirst | SIdsOutboxSecond   (* the swapped order *)
| SGetFree (p : N)                    (* GetPart with tx = nil, its own read transaction = one snapshot *)
| SRBegin (p : N) | SRStep.           (* the same under statement-level isolation, lookup by lookup *)

Inductive pres :=
| PROk | PRClaimed (id : N) | PRNone | PRDeleted | PRLost
| PRContent (c : option N) | PRIds (l : list N)
| PRReadErr                       (* the read fails (mid-read fallback finds no part / too many retries) *)
| PRMixed.                        (* bytes of two different contents: only if a part id is re-put during the read *)

Section M.
Variable lease : N.
Variable UP : list N.     (* part-id universe for GetPartIds *)

Fixpoint commit_ops (es : list pentry) (n : N) (ops : list pop) : list pentry * N :=
  match ops with
  | [] => (es, n)
  | o :: t => commit_ops (es ++ [{| pe_id := n; pe_op := o; pe_owner := None; pe_until := 0; pe_version := 0 |}]) (n + 1)%N t
  end.

Definition claimable (e : pentry) (t : N) : bool :=
  match pe_owner e with None => true | Some _ => (pe_until e <=? t)%N end.

(* GetPart: FindLastPartOutboxEntryByPartId, else the inner store *)
Definition last_for (es : list pentry) (p : N) : option pop :=
  option_map pe_op (find (fun e => (pop_pid (pe_op e) =? p)%N) (rev es)).
Definition get_part (s : pstate) (p : N) : option N :=
  match last_for (entries s) p with
  | Some (PPutPart _ c) => Some c
  | Some (PDelPart _) => None
  | None => inner_parts s p
  end.
(* chunks of a content as the harness lays them out: empty, one chunk, or two (> 8 MiB) *)
Definition nchunks (c : N) : nat := if (c =? 0)%N then 0 else if (900 <=? c)%N then 2 else 1.
(* byte sizes as the harness lays contents out ("c18-part-<c>|" repeated 1 + c mod 4 times; 9.1 MB for
   c >= 900, first chunk 8 MiB), needed only for the prefix skip of the mid-read fallback *)
Definition psize (c : N) : N :=
  if (c =? 0)%N then 0 else if (900 <=? c)%N then 9100000
  else ((10 + N.of_nat (length (show_N c))) * (1 + c mod 4))%N.
Definition emitted (c : N) (next : nat) : N :=
  match nchunks c, next with
  | 2, 1 => 8388608
  | _, _ => psize c
  end.
Definition last_entry (es : list pentry) (p : N) : option (N * pop) :=
  option_map (fun e => (pe_id e, pe_op e)) (find (fun e => (pop_pid (pe_op e) =? p)%N) (rev es)).
Definition present (es : list pentry) (id : N) : bool := existsb (fun e => (pe_id e =? id)%N) es.
Definition part_ids (s : pstate) : list N :=
  filter (fun p => match get_part s p with Some _ => true | None => false end) UP.
(* the overlay GetPartIds computes from an entry set and an inner listing read at different times *)
Definition overlay (es : list pentry) (i : store) (p : N) : option N :=
  match last_for es p with
  | Some (PPutPart _ c) => Some c
  | Some (PDelPart _) => None
  | None => i p
  end.
Definition overlay_ids (es : list pentry) (i : store) : list N :=
  filter (fun p => match overlay es i p with Some _ => true | None => false end) UP.

Definition set_owner (e : pentry) (o : option nat) (u : N) : pentry :=
  {| pe_id := pe_id e; pe_op := pe_op e; pe_owner := o; pe_until := u; pe_version := (pe_version e + 1)%N |}.

Definition map_entry (es : list pentry) (id : N) (f : pentry -> pentry) : list pentry :=
  map (fun e => if (pe_id e =? id)%N then f e else e) es.

Definition owned_by (e : pentry) (w : nat) : bool :=
  match pe_owner e with Some w' => Nat.eqb w w' | None => false end.

Definition step_p (s : pstate) (a : pstep) : pstate * pres :=
  let upd es i t n ws := {| entries := es; inner_parts := i; now := t; pnext := n; workers := ws; listing := listing s;
                            reading := reading s |} in
  let lst l := {| entries := entries s; inner_parts := inner_parts s; now := now s; pnext := pnext s;
                  workers := workers s; listing := l; reading := reading s |} in
  let rdg r := {| entries := entries s; inner_parts := inner_parts s; now := now s; pnext := pnext s;
                  workers := workers s; listing := listing s; reading := r |} in
  (* FindLastPartOutboxEntryByPartId of a tx-free read *)
  let lookup p tries :=
    match last_entry (entries s) p with
    | None => (rdg None, PRContent (inner_parts s p))
    | Some (_, PDelPart _) => (rdg None, PRContent None)
    | Some (id, PPutPart _ c) => (rdg (Some {| rd_pid := p; rd_tries := tries; rd_phase := RLooked id c |}), PROk)
    end in
  match a with
  | SCommit ops =>
      let '(es, n) := commit_ops (entries s) (pnext s) ops in
      (upd es (inner_parts s) (now s) n (workers s), PROk)
  | SRollback _ => (s, PROk)
  | SClaim w =>
      match workers s w, entries s with
      | WIdle, e :: t =>
          if claimable e (now s) then
            (upd (set_owner e (Some w) (now s + lease)%N :: t) (inner_parts s) (now s) (pnext s)
                 (wupd (workers s) w (WHolding (pe_id e) (pe_op e))), PRClaimed (pe_id e))
          else (s, PRNone)
      | _, _ => (s, PRNone)
      end
  | SReplay w =>
      match workers s w with
      | WHolding id o =>
          (upd (entries s) (apply_pop (inner_parts s) o) (now s) (pnext s) (wupd (workers s) w (WReplayed id o)), PROk)
      | _ => (s, PRNone)
      end
  | SFinalize w =>
      match workers s w with
      | WReplayed id o =>
          if existsb (fun e => (pe_id e =? id)%N && owned_by e w) (entries s) then
            (upd (filter (fun e => negb ((pe_id e =? id)%N && owned_by e w)) (entries s))
                 (inner_parts s) (now s) (pnext s) (wupd (workers s) w WIdle), PRDeleted)
          else (upd (entries s) (inner_parts s) (now s) (pnext s) (wupd (workers s) w WIdle), PRLost)
      | _ => (s, PRNone)
      end
  | SHeartbeat w =>
      match workers s w with
      | WHolding id _ | WReplayed id _ =>
          (upd (map_entry (entries s) id (fun e => if owned_by e w then set_owner e (Some w) (now s + lease)%N else e))
               (inner_parts s) (now s) (pnext s) (workers s), PROk)
      | WIdle => (s, PRNone)
      end
  | SRelease w =>
      match workers s w with
      | WHolding id _ =>
          (upd (map_entry (entries s) id (fun e => if owned_by e w then set_owner e None 0 else e))
               (inner_parts s) (now s) (pnext s) (wupd (workers s) w WIdle), PROk)
      | _ => (s, PRNone)
      end
  | SCrash w => (upd (entries s) (inner_parts s) (now s) (pnext s) (wupd (workers s) w WIdle), PROk)
  | STick n => (upd (entries s) (inner_parts s) (now s + n)%N (pnext s) (workers s), PROk)
  | SGet p => (s, PRContent (get_part s p))
  | SIds => (s, PRIds (part_ids s))
  | SIdsBegin => match listing s with None => (lst (Some (LOutbox (entries s))), PROk) | Some _ => (s, PRNone) end
  | SIdsEnd => match listing s with
               | Some (LOutbox es) => (lst None, PRIds (overlay_ids es (inner_parts s)))
               | _ => (s, PRNone)
               end
  | SIdsInnerFirst => match listing s with None => (lst (Some (LInner (inner_parts s))), PROk) | Some _ => (s, PRNone) end
  | SIdsOutboxSecond => match listing s with
                        | Some (LInner i) => (lst None, PRIds (overlay_ids (entries s) i))
                        | _ => (s, PRNone)
                        end
  | SGetFree p => (s, PRContent (get_part s p))
  | SRBegin p => match reading s with None => lookup p 1 | Some _ => (s, PRNone) end
  | SRStep =>
      match reading s with
      | None => (s, PRNone)
      | Some r =>
          let p := rd_pid r in
          match rd_phase r with
          | RPre => if Nat.leb 8 (rd_tries r) then (rdg None, PRReadErr) else lookup p (S (rd_tries r))
          | RLooked id c =>
              if present (entries s) id then
                match nchunks c with
                | O => (rdg None, PRContent (Some c))
                | _ => (rdg (Some {| rd_pid := p; rd_tries := rd_tries r; rd_phase := RStream id c 1 |}), PROk)
                end
              else (rdg (Some {| rd_pid := p; rd_tries := rd_tries r; rd_phase := RPre |}), PROk)
          | RStream id c next =>
              if present (entries s) id then
                if Nat.ltb next (nchunks c)
                then (rdg (Some {| rd_pid := p; rd_tries := rd_tries r; rd_phase := RStream id c (S next) |}), PROk)
                else (rdg None, PRContent (Some c))
              else (* the entry was flushed and deleted mid-read: continue from the inner store *)
                match inner_parts s p with
                | None => (rdg None, PRReadErr)
                | Some c' =>
                    if (psize c' <? emitted c next)%N then (rdg None, PRReadErr)     (* skipping the emitted prefix fails *)
                    else if (c' =? c)%N then (rdg None, PRContent (Some c))
                    else if (psize c' =? emitted c next)%N && (emitted c next =? psize c)%N
                    then (rdg None, PRContent (Some c))                             (* nothing left to read *)
                    else (rdg None, PRMixed)
                end
          end
      end
  end.

Fixpoint run_p (s : pstate) (tr : list pstep) : pstate * list pres :=
  match tr with
  | [] => (s, [])
  | a :: t => let '(s1, r) := step_p s a in let '(s2, rs) := run_p s1 t in (s2, r :: rs)
  end.

(* ---- specification vocabulary ---- *)
(* the committed history: all PutPart/DeletePart calls of committed transactions, in commit order *)
Fixpoint committed (tr : list pstep) : list pop :=
  match tr with
  | [] => []
  | SCommit ops :: t => ops ++ committed t
  | _ :: t => committed t
  end.
Definition spec_store (ops : list pop) : store := fold_left apply_pop ops (fun _ => None).

(* a live worker other than w holds (has claimed and not finalized/crashed) the entry id *)
Definition held_by_other (s : pstate) (ws : list nat) (w : nat) (id : N) : bool :=
  existsb (fun w' => negb (Nat.eqb w' w) &&
                     match workers s w' with
                     | WHolding i _ | WReplayed i _ => (i =? id)%N
                     | WIdle => false
                     end) ws.
(* no claim ever takes an entry away from a live holder (one worker; or leases that do not expire
   while a replay is in progress); [ws] = the worker ids that occur *)
Fixpoint no_steal (s : pstate) (ws : list nat) (tr : list pstep) : bool :=
  match tr with
  | [] => true
  | a :: t =>
      (match a, entries s with
       | SClaim w, e :: _ =>
           negb (match workers s w with WIdle => claimable e (now s) | _ => false end
                 && held_by_other s ws w (pe_id e))
       | _, _ => true
       end) && no_steal (fst (step_p s a)) ws t
  end.
(* no writer transaction commits while a GetPartIds call is between its two reads *)
Fixpoint quiet_listing (s : pstate) (tr : list pstep) : bool :=
  match tr with
  | [] => true
  | a :: t =>
      (match a, listing s with
       | SCommit _, Some _ => false
       | _, _ => true
       end) && quiet_listing (fst (step_p s a)) t
  end.
(* no writer transaction commits while a statement-level tx-free read is between its lookups *)
Fixpoint quiet_reading (s : pstate) (tr : list pstep) : bool :=
  match tr with
  | [] => true
  | a :: t =>
      (match a, reading s with
       | SCommit _, Some _ => false
       | _, _ => true
       end) && quiet_reading (fst (step_p s a)) t
  end.
Definition step_worker (a : pstep) : list nat :=
  match a with
  | SClaim w | SReplay w | SFinalize w | SHeartbeat w | SRelease w | SCrash w => [w]
  | _ => []
  end.
Definition trace_workers (tr : list pstep) : list nat := flat_map step_worker tr.
End M.

(* ---------------------------------------------------------------- line protocol
   <lease> <pids> <step> ...   steps: X<ops> commit, Y<ops> rollback (ops: p+c or p- separated by ','; "_" = none),
   C<w> R<w> F<w> H<w> L<w> K<w> (claim replay finalize heartbeat release crash), T<n>, G<p>, I,
   B / E (GetPartIds: first read / second read + result), b / e (the same in the swapped order),
   g<p> (GetPart with tx = nil), r<p> / s (tx-free GetPart under statement-level isolation: begin = first
   lookup, s = the next lookup; the last one answers =c / NF / RERR / MIX)
   output: one token per step, then "#", the inner store as p=c pairs over the pid universe, "Q"<pending> *)
Definition parse_pop (t : bytes) : option pop :=
  match split_first "+"%byte t with
  | Some (p, c) => match parse_N p, parse_N c with Some p, Some c => Some (PPutPart p c) | _, _ => None end
  | None => match rev t with
            | m :: rp => if beqb m "-"%byte then option_map PDelPart (parse_N (rev rp)) else None
            | [] => None
            end
  end.
Definition parse_pops (t : bytes) : option (list pop) :=
  if bytes_eqb t B"_" then Some [] else mapM parse_pop (split_on ","%byte t).
Definition parse_pstep (t : bytes) : option pstep :=
  match t with
  | [] => None
  | c :: r =>
      if beqb c "X"%byte then option_map SCommit (parse_pops r)
      else if beqb c "Y"%byte then option_map SRollback (parse_pops r)
      else if beqb c "C"%byte then option_map SClaim (parse_nat r)
      else if beqb c "R"%byte then option_map SReplay (parse_nat r)
      else if beqb c "F"%byte then option_map SFinalize (parse_nat r)
      else if beqb c "H"%byte then option_map SHeartbeat (parse_nat r)
      else if beqb c "L"%byte then option_map SRelease (parse_nat r)
      else if beqb c "K"%byte then option_map SCrash (parse_nat r)
      else if beqb c "T"%byte then option_map STick (parse_N r)
      else if beqb c "G"%byte then option_map SGet (parse_N r)
      else if bytes_eqb t B"I" then Some SIds
      else if bytes_eqb t B"B" then Some SIdsBegin
      else if bytes_eqb t B"E" then Some SIdsEnd
      else if bytes_eqb t B"s" then Some SRStep
      else if beqb c "g"%byte then option_map SGetFree (parse_N r)
      else if beqb c "r"%byte then option_map SRBegin (parse_N r)
      else if bytes_eqb t B"b" then Some SIdsInnerFirst
      else if bytes_eqb t B"e" then Some SIdsOutboxSecond
      else None
  end.
Definition show_ns (l : list N) : bytes := match l with [] => B"_" | _ => join B"," (map show_N l) end.
Definition show_pres (r : pres) : bytes :=
  match r with
  | PROk => B"ok" | PRClaimed id => B"c" ++ show_N id | PRNone => B"-"
  | PRDeleted => B"d" | PRLost => B"l"
  | PRContent None => B"NF" | PRContent (Some c) => B"=" ++ show_N c
  | PRIds l => B"i" ++ show_ns l
  | PRReadErr => B"RERR"
  | PRMixed => B"MIX"
  end.
Definition untok_ns (t : bytes) : option (list N) :=
  if bytes_eqb t B"_" then Some [] else mapM parse_N (split_on ","%byte t).
Definition show_inner (UP : list N) (s : store) : bytes :=
  match flat_map (fun p => match s p with Some c => [show_N p ++ B"=" ++ show_N c] | None => [] end) UP with
  | [] => B"_"
  | l => join B"," l
  end.
(* "ORD <pairs> <spinners>": the regression detector for the one thing this model takes from the code
   without modelling it — entry ids ([pe_id] = position in commit order, [pnext] counter) sort in the
   order in which the entries were saved.  The harness saves <pairs> entries through the real
   repository while <spinners> goroutines create other ULIDs and reports "ordered" or
   "inverted:<k>"; in the model ids ARE the save order, so the answer is always "ordered". *)
Definition run_steps (toks : list bytes) : bytes :=
  match toks with
  | lt :: pt :: steps =>
      do lease <- parse_N lt;
      do UP <- untok_ns pt;
      do tr <- mapM parse_pstep steps;
      let '(s, rs) := run_p lease UP pinit tr in
      (* L0: no read transaction begun by a tx-free GetPart is left open (the harness counts them) *)
      unwords (map show_pres rs ++ [B"#"; show_inner UP (inner_parts s); B"Q" ++ show_nat (length (entries s)); B"L0"])
  | _ => parse_error
  end.
Definition run_line (l : bytes) : bytes :=
  match tokens l with
  | t :: rest =>
      if bytes_eqb t B"ORD" then B"ordered"
      else if bytes_eqb t B"STO" then B"ok"   (* storage-level download scenarios: harness-only, see harness/c18_sto.go *)
      else run_steps (t :: rest)
  | [] => parse_error
  end.
