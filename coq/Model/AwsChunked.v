(* Model/AwsChunked.v — executable model of the aws-chunked upload path (C30).  No proofs here.
   internal/http/server/authentication/signature.go: awsChunkReadCloser.Read, readTrailerSection,
   validateTrailerChecksum, the place where the decoder is installed (checkAuthentication only), and
   putObjectHandler (reads r.Body to a clean io.EOF; any other error => nothing stored).
   HMAC-SHA256 chunk/trailer signatures and the payload checksum are opaque tokens: the case line carries,
   per validateSignature call, the signature that verifies (computed by the harness with real HMAC over
   the data carried by that chunk and the previous claimed signature), the verifying trailer signature
   and the base64 checksum of the carried payload.  Chunk sizes are assumed < 2^63 and smaller than the
   copy buffer (one Read per chunk). *)
From Verif Require Import Bytes Codec.

Record cfg := {
  has_trailer : bool;      (* …-TRAILER modes *)
  trailer_signed : bool;   (* STREAMING-AWS4-HMAC-SHA256-PAYLOAD-TRAILER *)
  skip_val : bool;         (* STREAMING-UNSIGNED-PAYLOAD[-TRAILER] *)
  is_v4a : bool;           (* request authenticated with AWS4-ECDSA-P256-SHA256: signatures are '*'-padded *)
  tname : bytes;           (* lower-cased, trimmed x-amz-trailer header *)
  exp_sigs : list bytes;
  exp_tsig : bytes;
  exp_ck : bytes
}.

Inductive outcome := Stored (payload : bytes) | Reject.

Definition nl : byte := x0a.
Definition is_crlf (b : byte) : bool := beqb b x0d || beqb b x0a.
Fixpoint trim_l (p : byte -> bool) (l : bytes) : bytes :=
  match l with [] => [] | x :: l' => if p x then trim_l p l' else l end.
Definition trim_crlf (l : bytes) : bytes := rev (trim_l is_crlf (rev (trim_l is_crlf l))).

(* bytes.SplitN(s, pat, 2) *)
Fixpoint split_sub (pat l : bytes) : option (bytes * bytes) :=
  match l with
  | [] => if is_nil pat then Some ([], []) else None
  | x :: l' =>
      if is_prefix pat l then Some ([], skipn (length pat) l)
      else match split_sub pat l' with Some (a, b) => Some (x :: a, b) | None => None end
  end.

(* strconv.ParseUint(s, 16, 64) *)
Fixpoint parse_hex_go (l : bytes) (acc : N) : option N :=
  match l with
  | [] => Some acc
  | b :: l' => match hex_val b with Some d => parse_hex_go l' (16 * acc + d)%N | None => None end
  end.
Definition parse_hex (l : bytes) : option N :=
  match l with
  | [] => None
  | _ => match parse_hex_go l 0%N with
         | Some n => if (n <? 18446744073709551616)%N then Some n else None
         | None => None
         end
  end.

(* signatureVerifier.normalizeStreamingSignature: SigV4a strips the '*' padding on the right *)
Definition norm_sig (c : cfg) (s : bytes) : bytes :=
  if is_v4a c then rev (trim_l (fun b => beqb b "*"%byte) (rev s)) else s.

Definition sig_ok (c : cfg) (calls : nat) (claimed : bytes) : bool :=
  match nth_error (exp_sigs c) calls with Some e => bytes_eqb e (norm_sig c claimed) | None => false end.

Definition tsig_prefix : bytes := B"x-amz-trailer-signature:".

(* readTrailerSection: at most 8 lines *)
Fixpoint trailer_lines (n : nat) (first : bool) (b ck tsig : bytes) : bytes * bytes :=
  match n with
  | O => (ck, tsig)
  | S n' =>
      let '(raw, rest, eof) := match split_first nl b with
                               | Some (l, r) => (l, r, false)
                               | None => (b, [], true)
                               end in
      let line := trim_space raw in
      if is_empty line then (if first && negb eof then trailer_lines n' false rest ck tsig else (ck, tsig))
      else
        let '(ck', tsig') :=
          if is_prefix tsig_prefix line then (ck, trim_space (skipn (length tsig_prefix) line))
          else if is_empty ck then (line, tsig) else (ck, tsig) in
        if eof then (ck', tsig') else trailer_lines n' false rest ck' tsig'
  end.

Definition known_algos : list bytes :=
  [B"x-amz-checksum-crc32"; B"x-amz-checksum-crc32c"; B"x-amz-checksum-crc64nvme";
   B"x-amz-checksum-sha1"; B"x-amz-checksum-sha256"].

(* validateTrailerChecksum: true = accepted *)
Definition ck_check (c : cfg) (ckline : bytes) : bool :=
  if mem_bytes (tname c) known_algos then
    match split_first ":"%byte ckline with
    | None => false
    | Some (name, value) =>
        bytes_eqb (to_lower (trim_space name)) (tname c) && bytes_eqb (trim_space value) (exp_ck c)
    end
  else negb (is_prefix B"x-amz-checksum-" (tname c)).

Definition sig_ext : bytes := B";chunk-signature=".

Fixpoint dec (fuel : nat) (c : cfg) (b cursig : bytes) (calls : nat) (acc : bytes) : outcome :=
  match fuel with
  | O => Reject
  | S f =>
      match split_first nl b with
      | None => Stored acc                                    (* ReadBytes: io.EOF = clean end of body *)
      | Some (l, rest) =>
          let meta := trim_crlf (l ++ [nl]) in
          let '(hexlen, sig', found) :=
            match split_sub sig_ext meta with
            | Some (a, s) => (a, s, true)
            | None => (meta, cursig, false)
            end in
          if negb found && negb (skip_val c) then Reject
          else match parse_hex hexlen with
               | None => Reject
               | Some len =>
                   if (len =? 0)%N then
                     if negb (skip_val c) && negb (sig_ok c calls sig') then Reject
                     else if has_trailer c then
                       let '(ck, tsig) := trailer_lines 8 true rest [] [] in
                       if trailer_signed c && negb (bytes_eqb (norm_sig c tsig) (exp_tsig c)) then Reject
                       else if ck_check c ck then Stored acc else Reject
                     else Stored acc
                   else
                     let have := lenN rest in
                     if (have =? 0)%N then Stored acc             (* ReadFull: 0, io.EOF *)
                     else if (have <? len)%N then Reject          (* io.ErrUnexpectedEOF *)
                     else
                       let data := firstn (N.to_nat len) rest in
                       let rest' := skipn (N.to_nat len) rest in
                       if (lenN rest' <? 2)%N then Stored acc     (* Discard(2) fails with io.EOF: Read returns 0, EOF *)
                       else if negb (skip_val c) && negb (sig_ok c calls sig') then Reject
                       else dec f c (skipn 2 rest') sig' (S calls) (acc ++ data)
               end
      end
  end.

Definition decode (c : cfg) (body : bytes) : outcome := dec (S (length body)) c body [] 0 [].

(* what ends up stored: the decoder exists only behind checkAuthentication *)
Inductive auth := AuthSigned | AuthOff | AuthAnonymous.
Definition upload (a : auth) (c : cfg) (body : bytes) : outcome :=
  match a with AuthSigned => decode c body | _ => Stored body end.

(* ---- the mode table of checkAuthentication: x-amz-content-sha256 -> framing flags -------------
   None = the request is refused (401): acceptsStreamingPayload ties the ECDSA constants to SigV4a requests and
   the HMAC constants to SigV4 requests.  Any other value (incl. UNSIGNED-PAYLOAD or a hex digest) sent with
   Content-Encoding: aws-chunked is decoded as signed chunks without trailer. *)
Definition sha_U : bytes := B"STREAMING-UNSIGNED-PAYLOAD".
Definition sha_UT : bytes := B"STREAMING-UNSIGNED-PAYLOAD-TRAILER".
Definition sha_S : bytes := B"STREAMING-AWS4-HMAC-SHA256-PAYLOAD".
Definition sha_ST : bytes := B"STREAMING-AWS4-HMAC-SHA256-PAYLOAD-TRAILER".
Definition sha_ES : bytes := B"STREAMING-AWS4-ECDSA-P256-SHA256-PAYLOAD".
Definition sha_EST : bytes := B"STREAMING-AWS4-ECDSA-P256-SHA256-PAYLOAD-TRAILER".
Definition streaming_constants : list bytes := [sha_U; sha_UT; sha_S; sha_ST; sha_ES; sha_EST].

Definition accepts_streaming (v4a : bool) (sha : bytes) : bool :=
  if v4a then negb (bytes_eqb sha sha_S) && negb (bytes_eqb sha sha_ST)
  else negb (bytes_eqb sha sha_ES) && negb (bytes_eqb sha sha_EST).

(* (trailingHeader, hasTrailingHeaderWithSignature, skipChunkValidation) *)
Definition mode_flags (v4a : bool) (sha : bytes) : option (bool * bool * bool) :=
  if accepts_streaming v4a sha then
    Some (bytes_eqb sha sha_UT || bytes_eqb sha sha_ST || bytes_eqb sha sha_EST,
          bytes_eqb sha sha_ST || bytes_eqb sha sha_EST,
          bytes_eqb sha sha_UT || bytes_eqb sha sha_U)
  else None.

(* ---- line protocol ----
   input : <auth on|on4a|off|anon> <x-amz-content-sha256> <raw x-amz-trailer value> <body> <payload> <exp_sigs list> <exp_tsig> <exp_ck> <label>
   output: REJECT | STORED P (stored = payload) | STORED <hex>
   (the label also carries "dlen+k"/"dlen-k": x-amz-decoded-content-length off by k — the code never compares it) *)
Definition parse_auth (a : bytes) : option (auth * bool) :=
  if bytes_eqb a B"on" then Some (AuthSigned, false) else if bytes_eqb a B"on4a" then Some (AuthSigned, true)
  else if bytes_eqb a B"off" then Some (AuthOff, false)
  else if bytes_eqb a B"anon" then Some (AuthAnonymous, false) else None.

Definition show_outcome (payload : bytes) (o : outcome) : bytes :=
  match o with
  | Reject => B"REJECT"
  | Stored s => if bytes_eqb s payload then B"STORED P" else B"STORED " ++ tok_bytes s
  end.

Definition run_line (l : bytes) : bytes :=
  match tokens l with
  | [a; m; tn; body; payload; sigs; tsig; ck; label] =>
      do av <- parse_auth a; do sha <- untok_bytes m; do tn <- untok_bytes tn; do body <- untok_bytes body;
      do payload <- untok_bytes payload; do sigs <- untok_list sigs; do tsig <- untok_bytes tsig; do ck <- untok_bytes ck;
      let '(a, v4a) := av in
      match a, mode_flags v4a sha with
      | AuthSigned, None => B"REJECT"                          (* 401 before any handler runs *)
      | _, flags =>
          let '(tr, trs, sk) := match flags with Some f => f | None => (false, false, false) end in
          show_outcome payload
            (upload a {| has_trailer := tr; trailer_signed := trs; skip_val := sk; is_v4a := v4a;
                         tname := to_lower (trim_space tn);      (* strings.ToLower(strings.TrimSpace(r.Header.Get("x-amz-trailer"))) *)
                         exp_sigs := sigs; exp_tsig := tsig; exp_ck := ck |} body)
      end
  | _ => parse_error
  end.
