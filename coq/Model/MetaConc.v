(* Model/MetaConc.v — concurrency layer over M-META (Model/Meta.v, imported unchanged).
   On SQLite every writing database.WithTx body is one atomic step (write pool MaxOpenConns(1),
   _txlock=immediate: internal/storage/database/sqlite/sqlite.go), so a concurrent execution of client
   threads is an interleaving of whole Meta.step's.  A schedule is therefore a LIST of operations; the
   theorems quantify over all schedules that are interleavings of the threads' programs.
   Definitions only; proofs are in Proofs/MetaConc*.v. *)
From Verif Require Import Bytes Codec Md5 Meta.

(* ---------- interleavings ---------- *)
Fixpoint replace_nth {A} (l : list A) (n : nat) (x : A) : list A :=
  match l, n with
  | [], _ => []
  | _ :: r, O => x :: r
  | y :: r, S n' => y :: replace_nth r n' x
  end.

(* is_interleaving threads sched: sched is obtained by repeatedly taking the next operation of some thread;
   every thread's program order is respected and every operation is taken exactly once *)
Inductive is_interleaving {A} : list (list A) -> list A -> Prop :=
  | il_done : forall ts, Forall (fun t => t = []) ts -> is_interleaving ts []
  | il_step : forall ts t x rest sched,
      nth_error ts t = Some (x :: rest) ->
      is_interleaving (replace_nth ts t rest) sched ->
      is_interleaving ts (x :: sched).

(* ---------- what a key currently holds, as GET-by-key resolves it ---------- *)
Definition cur_row (s : mstate) (b k : bytes) : option orow :=
  match find_latest s b k with
  | Some r => if o_dm r then None else Some r
  | None => None
  end.
Definition cur_size (s : mstate) (b k : bytes) : Z :=
  match cur_row s b k with Some r => o_size r | None => 0%Z end.
(* the recorded contents of the current object's parts, in read order *)
Definition cur_chunks (s : mstate) (b k : bytes) : list bytes :=
  match cur_row s b k with Some r => map p_content (row_parts s r) | None => [] end.
Definition cur_etag (s : mstate) (b k : bytes) : option etag :=
  match cur_row s b k with Some r => Some (o_etag r) | None => None end.

(* ---------- C12: appenders ---------- *)
Definition appender := (bytes * option Z)%type.       (* chunk, optional write offset *)
Definition app_op (b k : bytes) (a : appender) : op := OApp b k (fst a) (snd a).

Definition is_ack (r : res) : bool := match r with RAppend _ _ => true | _ => false end.

(* run a schedule of appends on one key: operation indices i, i+1, ... (fresh version ids) *)
Fixpoint run_apps (b k : bytes) (i : N) (s : mstate) (sched : list appender) : mstate * list res :=
  match sched with
  | [] => (s, [])
  | a :: rest =>
      let '(s', r) := op_append (with_ids s i) i b k (fst a) (snd a) in
      let '(s'', rs) := run_apps b k (i + 1) s' rest in
      (s'', r :: rs)
  end.

(* the chunks of the acknowledged appends, in schedule order *)
Fixpoint acked (sched : list appender) (rs : list res) : list bytes :=
  match sched, rs with
  | a :: sched', r :: rs' => (if is_ack r then [fst a] else []) ++ acked sched' rs'
  | _, _ => []
  end.
Definition total_len (cs : list bytes) : Z := fold_right (fun c a => (zlen c + a)%Z) 0%Z cs.

(* ---------- small state invariants used by the content theorems ---------- *)
Definition ids_fresh (s : mstate) : Prop :=
  (forall r, In r (objs s) -> (o_id r < next_id s)%N) /\
  (forall p, In p (parts s) -> (p_obj p < next_id s)%N).
Definition dm_no_parts (s : mstate) : Prop :=
  forall r, In r (objs s) -> o_dm r = true -> obj_parts s (o_id r) = [].
Definition CInv (s : mstate) : Prop :=
  ids_fresh s /\ NoDup (map o_id (objs s)) /\ dm_no_parts s.

(* every part row's bytes are in the part store under its id (the C08 invariant, used as a premise) *)
Definition parts_present (s : mstate) : Prop :=
  forall p, In p (parts s) -> store_get (store s) (p_pid p) = Some (p_content p).

(* ---------- C07: conditional writers on one key ---------- *)
Inductive cwriter :=
  | WPut (c : bytes) (cd : cond)
  | WCpl (u : N) (m : option (list (N * option bytes))) (cd : cond)
  | WDel (cd : cond).

Definition cw_step (b k : bytes) (i : N) (s : mstate) (w : cwriter) : mstate * res :=
  match w with
  | WPut c cd => op_put (with_ids s i) i b k c cd
  | WCpl u m cd => op_complete (with_ids s i) i b k u m cd
  | WDel cd => op_delete (with_ids s i) i b k None cd
  end.
Fixpoint run_cw (b k : bytes) (i : N) (s : mstate) (sched : list cwriter) : mstate * list res :=
  match sched with
  | [] => (s, [])
  | w :: rest =>
      let '(s', r) := cw_step b k i s w in
      let '(s'', rs) := run_cw b k (i + 1) s' rest in
      (s'', r :: rs)
  end.
Definition is_ok (r : res) : bool := match r with RErr _ => false | _ => true end.
Definition count_ok (rs : list res) : nat := length (filter is_ok rs).
Definition cw_cond (w : cwriter) : cond :=
  match w with WPut _ cd => cd | WCpl _ _ cd => cd | WDel cd => cd end.

(* ---------- arbitrary histories: the state each operation runs in, and its result ---------- *)
Fixpoint pre_states (i : N) (hist : list res) (s : mstate) (ops : list op) : list mstate :=
  match ops with
  | [] => []
  | o :: rest => let '(s', r) := step i hist s o in with_ids s i :: pre_states (i + 1) (r :: hist) s' rest
  end.
Fixpoint run_results (i : N) (hist : list res) (s : mstate) (ops : list op) : list res :=
  match ops with
  | [] => []
  | o :: rest => let '(s', r) := step i hist s o in r :: run_results (i + 1) (r :: hist) s' rest
  end.
