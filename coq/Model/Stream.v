(* Model/Stream.v — C40: a GetObject body being streamed while the store changes underneath.
   Mirrors internal/storage/metadatapart: createRangeReader (part ranges: skip/limit per part), lazyPartSequenceReadCloser
   (openNextPart / Read), ioutils.SkipNBytes + NewLimitedEndReadCloser, and the two streaming modes of GetObject:
   - TxFree (filesystem part store, CapabilityTxFreeGetPart): the metadata transaction ends before streaming; every part is
     opened lazily against the CURRENT store; an opened file keeps its bytes (POSIX: an open file survives unlink);
   - Snapshot (SQL part store, WithTxReadClosers): every part is read from the snapshot of the read transaction.
   Small-step: labels are reader calls Read(n) and environment steps that change the store.  No proofs here. *)
From Verif Require Import Bytes Codec.

Definition pstore := list (N * bytes).
Fixpoint ps_get (st : pstore) (pid : N) : option bytes :=
  match st with [] => None | (p, c) :: r => if N.eqb p pid then Some c else ps_get r pid end.
Definition ps_del (st : pstore) (pid : N) : pstore := filter (fun x => negb (N.eqb (fst x) pid)) st.

(* partRange: id, bytes to skip, bytes to deliver at most *)
Record entry := { e_pid : N; e_skip : nat; e_limit : nat }.

(* createRangeReader: parts = (id, recorded size) in order; the byte range [gstart, gend) of the object *)
Fixpoint plan_range (parts : list (N * nat)) (sofar gstart gend : nat) : list entry :=
  match parts with
  | [] => []
  | (pid, size) :: rest =>
      let pstart := sofar in
      let pend := sofar + size in
      if pend <=? gstart then plan_range rest pend gstart gend          (* part before the range *)
      else if gend <=? pstart then []                                     (* past the range *)
      else
        let rs := if pstart <? gstart then gstart - pstart else 0 in
        let re := if gend <? pend then gend - pstart else size in
        {| e_pid := pid; e_skip := rs; e_limit := re - rs |} :: plan_range rest pend gstart gend
  end.

Inductive rstatus := Running | AtEof | Failed.
Record reader := {
  r_todo : list entry;                 (* parts[partIndex:] *)
  r_cur : option (bytes * nat);        (* open handle: bytes still in the file after the position, limit left *)
  r_out : bytes;                       (* everything delivered so far *)
  r_st : rstatus
}.
Definition mk_reader (todo : list entry) : reader := {| r_todo := todo; r_cur := None; r_out := []; r_st := Running |}.

Inductive outcome := OBytes (b : bytes) | OEof | OErr.

(* lazyPartSequenceReadCloser.Read(p) with len(p) = n > 0.  lookup = GetPart.  A failed reader stays failed (callers of
   io.Reader stop at the first error). *)
Fixpoint read_loop (fuel : nat) (lookup : N -> option bytes) (n : nat) (r : reader) : reader * outcome :=
  match fuel with
  | O => (r, OErr)
  | S f =>
      match r_cur r with
      | None =>
          match r_todo r with
          | [] => ({| r_todo := []; r_cur := None; r_out := r_out r; r_st := AtEof |}, OEof)
          | e :: rest =>
              match lookup (e_pid e) with
              | None => ({| r_todo := rest; r_cur := None; r_out := r_out r; r_st := Failed |}, OErr)
              | Some c =>
                  (* SkipNBytes (Seek past the end is not an error), then LimitReader *)
                  read_loop f lookup n {| r_todo := rest; r_cur := Some (skipn (e_skip e) c, e_limit e);
                                          r_out := r_out r; r_st := r_st r |}
              end
          end
      | Some (rem, lim) =>
          let k := Nat.min n (Nat.min lim (length rem)) in
          match k with
          | O => (* io.EOF from the limited reader or the file: close, next part *)
              read_loop f lookup n {| r_todo := r_todo r; r_cur := None; r_out := r_out r; r_st := r_st r |}
          | S _ => ({| r_todo := r_todo r; r_cur := Some (skipn k rem, lim - k); r_out := r_out r ++ firstn k rem;
                       r_st := r_st r |}, OBytes (firstn k rem))
          end
      end
  end.
Definition read_fuel (r : reader) : nat := 2 * length (r_todo r) + 3.
Definition reader_read (lookup : N -> option bytes) (n : nat) (r : reader) : reader * outcome :=
  match r_st r with
  | Failed => (r, OErr)
  | _ => read_loop (read_fuel r) lookup n r
  end.

Inductive smode := TxFree | Snapshot.
Record sys := { s_mode : smode; s_store : pstore; s_snap : pstore; s_rd : reader }.

Inductive label :=
  | LRead (n : nat)              (* the client reads up to n bytes *)
  | LEnv (st' : pstore).         (* overwrite / delete / GC: the store becomes st' *)

Definition sys_step (s : sys) (l : label) : sys * option outcome :=
  match l with
  | LRead n =>
      let lookup := match s_mode s with TxFree => ps_get (s_store s) | Snapshot => ps_get (s_snap s) end in
      let '(r', o) := reader_read lookup n (s_rd s) in
      ({| s_mode := s_mode s; s_store := s_store s; s_snap := s_snap s; s_rd := r' |}, Some o)
  | LEnv st' => ({| s_mode := s_mode s; s_store := st'; s_snap := s_snap s; s_rd := s_rd s |}, None)
  end.
Fixpoint sys_run (s : sys) (ls : list label) : sys * list outcome :=
  match ls with
  | [] => (s, [])
  | l :: rest => let '(s1, o) := sys_step s l in
                 let '(s2, os) := sys_run s1 rest in
                 (s2, match o with Some x => x :: os | None => os end)
  end.

(* GetObject: resolve the version's parts against the store as it is now *)
Definition start (m : smode) (st : pstore) (todo : list entry) : sys :=
  {| s_mode := m; s_store := st; s_snap := st; s_rd := mk_reader todo |}.

(* the bytes the resolved version's range consists of: what the entries select from the store at resolution time *)
Definition contrib (st0 : pstore) (e : entry) : bytes :=
  match ps_get st0 (e_pid e) with Some c => firstn (e_limit e) (skipn (e_skip e) c) | None => [] end.
Definition expected (st0 : pstore) (todo : list entry) : bytes := concat (map (contrib st0) todo).

(* the environment never re-uses the id of a part of the resolved version for other content: such a part either keeps its
   bytes or disappears *)
Definition env_ok (st0 : pstore) (todo : list entry) (st' : pstore) : Prop :=
  forall e, In e todo -> ps_get st' (e_pid e) = ps_get st0 (e_pid e) \/ ps_get st' (e_pid e) = None.
Fixpoint labels_ok (st0 : pstore) (todo : list entry) (ls : list label) : Prop :=
  match ls with
  | [] => True
  | LRead n :: rest => (0 < n) /\ labels_ok st0 todo rest
  | LEnv st' :: rest => env_ok st0 todo st' /\ labels_ok st0 todo rest
  end.

(* ---------- several ranges of one GetObject: readers sharing one read transaction ----------
   database.WithTxReadClosers (SQL part stores): the transaction lives until EVERY returned reader has been closed (only
   the first Close of a reader counts); a consumer may drain and close the ranges one after another, close without
   draining, never close, close twice.  Tx-free stores: the readers are independent. *)
Record msys := {
  ms_mode : smode; ms_store : pstore; ms_snap : pstore;
  ms_rds : list reader; ms_closed : list bool;
  ms_tx : bool                      (* the read transaction is still open *)
}.
Inductive mlabel :=
  | MRead (i n : nat)               (* the consumer reads up to n bytes from range reader i *)
  | MClose (i : nat)                (* ... closes range reader i (possibly again) *)
  | MEnv (st' : pstore).            (* overwrite / delete / GC / outbox flush: the visible store becomes st' *)

Fixpoint set_nth {A} (l : list A) (i : nat) (x : A) : list A :=
  match l, i with
  | [], _ => []
  | _ :: r, O => x :: r
  | y :: r, S i' => y :: set_nth r i' x
  end.
Definition all_true (l : list bool) : bool := forallb (fun b => b) l.

Definition msys_step (s : msys) (l : mlabel) : msys * option outcome :=
  match l with
  | MRead i n =>
      match nth_error (ms_rds s) i, nth_error (ms_closed s) i with
      | Some r, Some false =>
          let lookup := match ms_mode s with
                        | TxFree => ps_get (ms_store s)
                        | Snapshot => if ms_tx s then ps_get (ms_snap s) else (fun _ => None)   (* sql.ErrTxDone *)
                        end in
          let '(r', o) := reader_read lookup n r in
          ({| ms_mode := ms_mode s; ms_store := ms_store s; ms_snap := ms_snap s; ms_rds := set_nth (ms_rds s) i r';
              ms_closed := ms_closed s; ms_tx := ms_tx s |}, Some o)
      | Some _, Some true => (s, Some OEof)        (* lazyPartSequenceReadCloser: closed => io.EOF *)
      | _, _ => (s, None)
      end
  | MClose i =>
      match nth_error (ms_closed s) i with
      | Some false =>
          let cl := set_nth (ms_closed s) i true in
          ({| ms_mode := ms_mode s; ms_store := ms_store s; ms_snap := ms_snap s; ms_rds := ms_rds s;
              ms_closed := cl; ms_tx := ms_tx s && negb (all_true cl) |}, None)
      | _ => (s, None)                             (* a repeated Close does not count *)
      end
  | MEnv st' => ({| ms_mode := ms_mode s; ms_store := st'; ms_snap := ms_snap s; ms_rds := ms_rds s;
                    ms_closed := ms_closed s; ms_tx := ms_tx s |}, None)
  end.
Fixpoint msys_run (s : msys) (ls : list mlabel) : msys * list outcome :=
  match ls with
  | [] => (s, [])
  | l :: rest => let '(s1, o) := msys_step s l in
                 let '(s2, os) := msys_run s1 rest in
                 (s2, match o with Some x => x :: os | None => os end)
  end.
Definition mstart (m : smode) (st : pstore) (todos : list (list entry)) : msys :=
  {| ms_mode := m; ms_store := st; ms_snap := st; ms_rds := map mk_reader todos;
     ms_closed := map (fun _ => false) todos; ms_tx := negb (is_nil todos) |}.
Fixpoint mlabels_ok (st0 : pstore) (todo : list entry) (ls : list mlabel) : Prop :=
  match ls with
  | [] => True
  | MRead _ n :: rest => (0 < n) /\ mlabels_ok st0 todo rest
  | MClose _ :: rest => mlabels_ok st0 todo rest
  | MEnv st' :: rest => env_ok st0 todo st' /\ mlabels_ok st0 todo rest
  end.

(* ---------- the outbox part store over a tx-free inner store ----------
   GetPart looks at the LAST pending outbox entry of the part: a pending DeletePart answers ErrPartNotFound although the
   inner store still holds the file; no pending entry: the inner store decides.  (Pending PutPart entries only exist
   for fresh part ids.)  What a reader can see: *)
Definition ob_visible (inner : pstore) (pending_delete : list N) : pstore :=
  filter (fun x => negb (existsb (N.eqb (fst x)) pending_delete)) inner.

(* ---------- case lines ----------
   <mode fs|sql> <versioned 0|1> <part contents, comma separated hex> <gstart> <gend> <steps, comma separated>
   steps: r<n> read n bytes | o overwrite the key (unversioned: all old parts unlinked) | d delete the key | x<i> part i removed (GC)
   output: one token per read (hex bytes | EOF | ERR) and a final token total:<hex of everything delivered>
   modes: fs (filesystem, tx-free) | ob (outbox over filesystem with the worker parked: deletes stay pending, tx-free) | sql.
   Multi-range lines: <mode> <versioned> <parts> M <s1-e1;s2-e2;...> <steps> with steps r<i>.<n> (read n bytes from range
   reader i), c<i> (close range reader i), o, d, x<i>, w (the outbox worker runs: pending deletes reach the inner store);
   output: one token per read and a final token per range  t<i>:<hex delivered by reader i> *)
Inductive cstep := CRead (n : nat) | COver | CDel | CGc (i : nat).
Definition parse_cstep (t : bytes) : option cstep :=
  match t with
  | c :: r =>
      if beqb c "r"%byte then match parse_nat r with Some (S n) => Some (CRead (S n)) | _ => None end
      else if beqb c "x"%byte then option_map CGc (parse_nat r)
      else if bytes_eqb t B"o" then Some COver
      else if bytes_eqb t B"d" then Some CDel else None
  | [] => None
  end.
Fixpoint number_parts (i : N) (cs : list bytes) : list (N * bytes) :=
  match cs with [] => [] | c :: r => (i, c) :: number_parts (i + 1) r end.
Definition cstep_label (versioned : bool) (st0 cur : pstore) (c : cstep) : label :=
  match c with
  | CRead n => LRead n
  | COver | CDel => if versioned then LEnv cur else LEnv (filter (fun x => negb (existsb (fun y => N.eqb (fst y) (fst x)) st0)) cur)
  | CGc i => match nth_error st0 i with Some (pid, _) => LEnv (ps_del cur pid) | None => LEnv cur end
  end.
Fixpoint run_csteps (versioned : bool) (st0 : pstore) (s : sys) (cs : list cstep) : sys * list outcome :=
  match cs with
  | [] => (s, [])
  | c :: rest => let '(s1, o) := sys_step s (cstep_label versioned st0 (s_store s) c) in
                 let '(s2, os) := run_csteps versioned st0 s1 rest in
                 (s2, match o with Some x => x :: os | None => os end)
  end.
Definition show_outcome (o : outcome) : bytes :=
  match o with OBytes b => tok_bytes b | OEof => B"EOF" | OErr => B"ERR" end.

Inductive mstep := MSRead (i n : nat) | MSClose (i : nat) | MSOver | MSDel | MSGc (i : nat) | MSWorker.
Definition parse_mstep (t : bytes) : option mstep :=
  match t with
  | c :: r =>
      if beqb c "r"%byte then
        match split_on "."%byte r with
        | [a; n] => match parse_nat a, parse_nat n with Some i, Some (S k) => Some (MSRead i (S k)) | _, _ => None end
        | _ => None
        end
      else if beqb c "c"%byte then option_map MSClose (parse_nat r)
      else if beqb c "x"%byte then option_map MSGc (parse_nat r)
      else if bytes_eqb t B"o" then Some MSOver
      else if bytes_eqb t B"d" then Some MSDel
      else if bytes_eqb t B"w" then Some MSWorker else None
  | [] => None
  end.
Definition mstep_label (versioned : bool) (st0 cur : pstore) (c : mstep) : mlabel :=
  match c with
  | MSRead i n => MRead i n
  | MSClose i => MClose i
  | MSOver | MSDel => if versioned then MEnv cur else MEnv (filter (fun x => negb (existsb (fun y => N.eqb (fst y) (fst x)) st0)) cur)
  | MSGc i => match nth_error st0 i with Some (pid, _) => MEnv (ps_del cur pid) | None => MEnv cur end
  | MSWorker => MEnv cur
  end.
Fixpoint run_msteps (versioned : bool) (st0 : pstore) (s : msys) (cs : list mstep) : msys * list outcome :=
  match cs with
  | [] => (s, [])
  | c :: rest => let '(s1, o) := msys_step s (mstep_label versioned st0 (ms_store s) c) in
                 let '(s2, os) := run_msteps versioned st0 s1 rest in
                 (s2, match o with Some x => x :: os | None => os end)
  end.
Definition parse_range (t : bytes) : option (nat * nat) :=
  match split_on "-"%byte t with
  | [a; e] => match parse_nat a, parse_nat e with Some x, Some y => Some (x, y) | _, _ => None end
  | _ => None
  end.
Fixpoint show_totals (i : nat) (rs : list reader) : list bytes :=
  match rs with
  | [] => []
  | r :: rest => ("t"%byte :: show_nat i ++ ":"%byte :: tok_bytes (r_out r)) :: show_totals (S i) rest
  end.
Definition parse_mode (m : bytes) : option smode :=
  if bytes_eqb m B"fs" then Some TxFree else if bytes_eqb m B"ob" then Some TxFree
  else if bytes_eqb m B"sql" then Some Snapshot else None.

Definition run_line (l : bytes) : bytes :=
  match tokens l with
  | [m; v; ps; mm; rgs; steps] =>
    if bytes_eqb mm B"M" then
      do mode <- parse_mode m;
      do ver <- parse_bool v;
      do contents <- untok_list ps;
      do ranges <- mapM parse_range (split_on ";"%byte rgs);
      do cs <- mapM parse_mstep (split_on ","%byte steps);
      let st0 := number_parts 1 contents in
      let sizes := map (fun x => (fst x, length (snd x))) st0 in
      let todos := map (fun r => plan_range sizes 0 (fst r) (snd r)) ranges in
      let '(s', os) := run_msteps ver st0 (mstart mode st0 todos) cs in
      unwords (map show_outcome os ++ show_totals 0 (ms_rds s'))
    else
      let gs := mm in let ge := rgs in
      do mode <- parse_mode m;
      do ver <- parse_bool v;
      do contents <- untok_list ps;
      do gstart <- parse_nat gs;
      do gend <- parse_nat ge;
      do cs <- mapM parse_cstep (split_on ","%byte steps);
      let st0 := number_parts 1 contents in
      let todo := plan_range (map (fun x => (fst x, length (snd x))) st0) 0 gstart gend in
      let '(s', os) := run_csteps ver st0 (start mode st0 todo) cs in
      unwords (map show_outcome os ++ [B"total:" ++ tok_bytes (r_out (s_rd s'))])
  | _ => parse_error
  end.
