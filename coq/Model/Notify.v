(* Model/Notify.v — executable model of internal/storage/notification:
     events.go      RuleMatches
     storage.go     runWithNotifications / enqueueEvents / buildEntriesForEvent (mutation + outbox rows in ONE
                    database transaction), DispatcherConfig.withDefaults, nextAttemptAt, dispatchEntry
     repository.go  ClaimFirst (attempts+1, only due and not dead-lettered rows), DeleteByClaimOwner,
                    ReleaseClaim, DeadLetter
   plus a minimal object-store state (which bucket/key exists, versioning) that decides whether the wrapped
   mutation succeeds and which event it reports.  No proofs here. *)
From Verif Require Import Bytes Codec.

(* ---------- RuleMatches ---------- *)
Record frule := { f_name : bytes; f_value : bytes }.
Record rule := { r_dest : bytes; r_events : list bytes; r_filters : list frule }.

Definition event_matches (conf name : bytes) : bool :=
  bytes_eqb conf name || (is_suffix B":*" conf && is_prefix (removelast conf) name).

Definition filter_ok (key : bytes) (f : frule) : bool :=
  if bytes_eqb (f_name f) B"prefix" then is_prefix (f_value f) key
  else if bytes_eqb (f_name f) B"suffix" then is_suffix (f_value f) key
  else true.

Definition rule_matches (r : rule) (name key : bytes) : bool :=
  existsb (fun c => event_matches c name) (r_events r) && forallb (filter_ok key) (r_filters r).

(* ---------- dispatcher configuration and backoff (durations in nanoseconds) ---------- *)
Record dcfg := { d_maxatt : Z; d_min : Z; d_max : Z }.

Definition with_defaults (c : dcfg) : dcfg :=
  let mn := if (d_min c <=? 0)%Z then 1000000000%Z else d_min c in
  let mx0 := if (d_max c <=? 0)%Z then 300000000000%Z else d_max c in
  {| d_maxatt := d_maxatt c; d_min := mn; d_max := if (mx0 <? mn)%Z then mn else mx0 |}.

(* nextAttemptAt - now, for a configuration that went through withDefaults.
   float64(min) * 2^exponent is exact below 2^53 ns; above the cap (or +Inf) the cap is used *)
Definition delay (c : dcfg) (attempts : Z) : Z :=
  let e := Z.max 0 (attempts - 1) in
  if (63 <=? e)%Z then d_max c
  else let d := (d_min c * 2 ^ e)%Z in if (d_max c <? d)%Z then d_max c else d.

(* ---------- outbox entries and the dispatcher ---------- *)
Inductive estate := Pending (due : bool) | Dead.
Record entry := { n_dest : bytes; n_event : bytes; n_key : bytes; n_attempts : Z; n_state : estate;
                  n_delay : option Z (* set by the release of the current round *) }.

(* one Publish call as seen by the publisher: destination, event, key, attempt number, success *)
Record pubrec := { p_dest : bytes; p_event : bytes; p_key : bytes; p_attempt : Z; p_ok : bool }.

(* claim + publish + delete / dead-letter / release of one row; [fails d a]: the a-th attempt to d fails *)
Definition dispatch_entry (c : dcfg) (fails : bytes -> Z -> bool) (e : entry) : list pubrec * list entry :=
  match n_state e with
  | Pending true =>
      let a := (n_attempts e + 1)%Z in
      let rec := {| p_dest := n_dest e; p_event := n_event e; p_key := n_key e; p_attempt := a;
                    p_ok := negb (fails (n_dest e) a) |} in
      if fails (n_dest e) a then
        if (0 <? d_maxatt c)%Z && (d_maxatt c <=? a)%Z
        then ([rec], [{| n_dest := n_dest e; n_event := n_event e; n_key := n_key e; n_attempts := a;
                         n_state := Dead; n_delay := None |}])
        else ([rec], [{| n_dest := n_dest e; n_event := n_event e; n_key := n_key e; n_attempts := a;
                         n_state := Pending false; n_delay := Some (delay c a) |}])
      else ([rec], [])
  | _ => ([], [{| n_dest := n_dest e; n_event := n_event e; n_key := n_key e; n_attempts := n_attempts e;
                  n_state := n_state e; n_delay := None |}])
  end.

(* dispatchAvailable: every due row is claimed exactly once (a released row is not due again) *)
Fixpoint dispatch_round (c : dcfg) (fails : bytes -> Z -> bool) (es : list entry) : list pubrec * list entry :=
  match es with
  | [] => ([], [])
  | e :: rest =>
      let (p1, e1) := dispatch_entry c fails e in
      let (p2, e2) := dispatch_round c fails rest in
      (p1 ++ p2, e1 ++ e2)
  end.

(* time passes: every pending row becomes due *)
Definition age_entry (e : entry) : entry :=
  {| n_dest := n_dest e; n_event := n_event e; n_key := n_key e; n_attempts := n_attempts e;
     n_state := match n_state e with Pending _ => Pending true | Dead => Dead end; n_delay := None |}.

(* ---------- object store + transaction ---------- *)
(* a key's versions, newest first: version number (creation order), delete marker?, content id (decides the ETag) *)
Record ver := { v_num : nat; v_marker : bool; v_cid : nat }.
Record bucket := { b_versioned : bool; b_rules : list rule; b_eb : bool;
                   b_objs : list (bytes * list ver); b_next : nat }.

Record st := { s_buckets : list (bytes * bucket); s_outbox : list entry }.
Definition st_init : st := {| s_buckets := []; s_outbox := [] |}.

Fixpoint blookup (b : bytes) (l : list (bytes * bucket)) : option bucket :=
  match l with [] => None | (k, v) :: l' => if bytes_eqb b k then Some v else blookup b l' end.
Fixpoint bset (b : bytes) (v : bucket) (l : list (bytes * bucket)) : list (bytes * bucket) :=
  match l with
  | [] => [(b, v)]
  | (k, v') :: l' => if bytes_eqb b k then (k, v) :: l' else (k, v') :: bset b v l'
  end.

Fixpoint olookup (k : bytes) (l : list (bytes * list ver)) : list ver :=
  match l with [] => [] | (k', v) :: l' => if bytes_eqb k k' then v else olookup k l' end.
Fixpoint oset (k : bytes) (v : list ver) (l : list (bytes * list ver)) : list (bytes * list ver) :=
  match l with
  | [] => [(k, v)]
  | (k', v') :: l' => if bytes_eqb k k' then (k, v) :: l' else (k', v') :: oset k v l'
  end.
Definition stack_of (k : bytes) (b : bucket) : list ver := olookup k (b_objs b).
Definition with_stack (k : bytes) (st : list ver) (bump : bool) (b : bucket) : bucket :=
  {| b_versioned := b_versioned b; b_rules := b_rules b; b_eb := b_eb b; b_objs := oset k st (b_objs b);
     b_next := if bump then S (b_next b) else b_next b |}.
(* the key's current object: the newest version unless that is a delete marker *)
Definition latest_obj (k : bytes) (b : bucket) : option ver :=
  match stack_of k b with v :: _ => if v_marker v then None else Some v | [] => None end.
Definition present (k : bytes) (b : bucket) : bool := match latest_obj k b with Some _ => true | None => false end.
(* a write: a new version on top in a versioning-enabled bucket, otherwise the single (null) version is replaced;
   [cid = None]: fresh content *)
Definition add_key_cid (k : bytes) (cid : option nat) (b : bucket) : bucket :=
  let v := {| v_num := b_next b; v_marker := false; v_cid := match cid with Some c => c | None => b_next b end |} in
  with_stack k (if b_versioned b then v :: stack_of k b else [v]) true b.
Definition add_key (k : bytes) (b : bucket) : bucket := add_key_cid k None b.
(* a delete without version id: a delete marker on top (versioning enabled), otherwise the object is removed *)
Definition del_key (k : bytes) (b : bucket) : bucket :=
  if b_versioned b
  then with_stack k ({| v_num := b_next b; v_marker := true; v_cid := 0 |} :: stack_of k b) true b
  else with_stack k [] false b.

Inductive mut :=
| MPut (b k : bytes)
| MCopy (b k b2 k2 : bytes)
| MMultipart (b k : bytes)
| MDelete (b k : bytes)
| MTagPut (b k : bytes)
| MTagDel (b k : bytes).

Definition ev_put := B"s3:ObjectCreated:Put".
Definition ev_copy := B"s3:ObjectCreated:Copy".
Definition ev_mpu := B"s3:ObjectCreated:CompleteMultipartUpload".
Definition ev_del := B"s3:ObjectRemoved:Delete".
Definition ev_marker := B"s3:ObjectRemoved:DeleteMarkerCreated".
Definition ev_tagput := B"s3:ObjectTagging:Put".
Definition ev_tagdel := B"s3:ObjectTagging:Delete".

(* the wrapped mutation on the transaction's working copy: None = it returned an error;
   Some (buckets', bucket of the event, event name, key) *)
Definition apply_mut (m : mut) (bs : list (bytes * bucket)) : option (list (bytes * bucket) * bytes * bytes * bytes) :=
  match m with
  | MPut b k =>
      match blookup b bs with
      | Some bk => Some (bset b (add_key k bk) bs, b, ev_put, k)
      | None => None
      end
  | MMultipart b k =>
      match blookup b bs with
      | Some bk => Some (bset b (add_key k bk) bs, b, ev_mpu, k)
      | None => None
      end
  | MCopy b k b2 k2 =>
      match blookup b bs, blookup b2 bs with
      | Some bk, Some bk2 =>
          match latest_obj k bk with
          | Some v => Some (bset b2 (add_key_cid k2 (if bytes_eqb b b2 then Some (v_cid v) else None) (if bytes_eqb b b2 then bk else bk2)) bs, b2, ev_copy, k2)
          | None => None
          end
      | _, _ => None
      end
  | MDelete b k =>
      match blookup b bs with
      | Some bk => Some (bset b (del_key k bk) bs, b, if b_versioned bk then ev_marker else ev_del, k)
      | None => None
      end
  | MTagPut b k =>
      match blookup b bs with
      | Some bk => if present k bk then Some (bs, b, ev_tagput, k) else None
      | None => None
      end
  | MTagDel b k =>
      match blookup b bs with
      | Some bk => if present k bk then Some (bs, b, ev_tagdel, k) else None
      | None => None
      end
  end.

Definition eb_dest (b : bytes) : bytes := B"eventbridge:" ++ b.

Definition new_entry (d name key : bytes) : entry :=
  {| n_dest := d; n_event := name; n_key := key; n_attempts := 0; n_state := Pending true; n_delay := None |}.

(* buildEntriesForEvent *)
Definition entries_for (bk : bucket) (b name key : bytes) : list entry :=
  map (fun r => new_entry (r_dest r) name key) (filter (fun r => rule_matches r name key) (b_rules bk))
  ++ (if b_eb bk then [new_entry (eb_dest b) name key] else []).

(* runWithNotifications: [savefail = j > 0]: the j-th repository.Save of this transaction fails;
   [commitfail]: the database commit fails.  Returns the new committed state, success, the new rows *)
Definition run_mut (m : mut) (savefail : nat) (commitfail : bool) (s : st) : st * bool * list entry :=
  match apply_mut m (s_buckets s) with
  | None => (s, false, [])
  | Some (bs', b, name, key) =>
      let es := match blookup b bs' with Some bk => entries_for bk b name key | None => [] end in
      if ((0 <? savefail) && (savefail <=? length es)) || commitfail then (s, false, [])
      else ({| s_buckets := bs'; s_outbox := s_outbox s ++ es |}, true, es)
  end.

(* ---------- DeleteObjects (multi-object delete) through the middleware ----------
   metadatapart/delete.go DeleteObjects decides every entry on the transaction's working copy; a refused entry
   (Deleted=false, PreconditionFailed) does not fail the request; notification/storage.go DeleteObjects turns
   exactly the entries with Deleted=true into ObjectRemoved events (DeleteMarkerCreated when the result entry says
   DeleteMarker=true) *)
Inductive vref := VNone | VIdx (i : nat) | VBogus.        (* no version id / the i-th newest version / an unknown id *)
Inductive cond := CNone | CMatch | CStale.                (* no If-Match / the ETag of the addressed version as it was
                                                             when the request was built / an ETag nothing has *)
Record bent := { be_key : bytes; be_v : vref; be_c : cond }.
Inductive bres := BRefused | BDeleted (marker_event : bool).

(* references are resolved against the state before the batch (that is when the client builds the request) *)
Inductive rref := RNone | RVer (vn : option nat).
Record rent := { re_key : bytes; re_r : rref; re_c : cond; re_cid : option nat (* If-Match content *) }.

Definition resolve (bk : bucket) (e : bent) : rent :=
  let st := stack_of (be_key e) bk in
  let target := match be_v e with
                | VNone => match st with v :: _ => Some v | [] => None end
                | VIdx i => nth_error st i
                | VBogus => None
                end in
  {| re_key := be_key e;
     re_r := match be_v e with
             | VNone => RNone
             | VIdx i => RVer (option_map v_num (nth_error st i))
             | VBogus => RVer None
             end;
     re_c := be_c e;
     re_cid := match be_c e, target with
               | CMatch, Some v => if v_marker v then None else Some (v_cid v)
               | _, _ => None
               end |}.

Definition cond_holds (e : rent) (v : ver) : bool :=
  match re_c e with
  | CNone => true
  | CStale => false
  | CMatch => negb (v_marker v) && match re_cid e with Some c => Nat.eqb c (v_cid v) | None => false end
  end.
Definition has_cond (e : rent) : bool := match re_c e with CNone => false | _ => true end.

Fixpoint find_ver (vn : nat) (st : list ver) : option ver :=
  match st with [] => None | v :: st' => if Nat.eqb (v_num v) vn then Some v else find_ver vn st' end.
Definition remove_ver (vn : nat) (st : list ver) : list ver := filter (fun v => negb (Nat.eqb (v_num v) vn)) st.

Definition batch_entry (bk : bucket) (e : rent) : bucket * bres :=
  let k := re_key e in
  match re_r e with
  | RNone =>
      match latest_obj k bk with
      | Some v =>
          if cond_holds e v then (del_key k bk, BDeleted (b_versioned bk)) else (bk, BRefused)
      | None =>
          if has_cond e then (bk, BRefused)
          else if b_versioned bk then (del_key k bk, BDeleted true) else (bk, BDeleted false)
      end
  | RVer vn =>
      match match vn with Some n => find_ver n (stack_of k bk) | None => None end with
      | None => if has_cond e then (bk, BRefused) else (bk, BDeleted false)
      | Some v =>
          if cond_holds e v then (with_stack k (remove_ver (v_num v) (stack_of k bk)) false bk, BDeleted (v_marker v))
          else (bk, BRefused)
      end
  end.

Fixpoint batch_entries (bk : bucket) (es : list rent) : bucket * list bres :=
  match es with
  | [] => (bk, [])
  | e :: rest => let (bk1, r) := batch_entry bk e in let (bk2, rs) := batch_entries bk1 rest in (bk2, r :: rs)
  end.

(* the outbox rows of one result entry *)
Definition rows_of_result (bk : bucket) (b : bytes) (k : bytes) (r : bres) : list entry :=
  match r with
  | BRefused => []
  | BDeleted m => entries_for bk b (if m then ev_marker else ev_del) k
  end.
Fixpoint batch_rows (bk : bucket) (b : bytes) (ks : list bytes) (rs : list bres) : list entry :=
  match ks, rs with
  | k :: ks', r :: rs' => rows_of_result bk b k r ++ batch_rows bk b ks' rs'
  | _, _ => []
  end.

(* runWithNotifications around DeleteObjects; faults as in [run_mut] *)
Definition run_batch (b : bytes) (ents : list bent) (savefail : nat) (commitfail : bool) (s : st)
  : st * bool * list bres * list entry :=
  match blookup b (s_buckets s) with
  | None => (s, false, [], [])
  | Some bk =>
      let (bk', rs) := batch_entries bk (map (resolve bk) ents) in
      let es := batch_rows bk' b (map be_key ents) rs in
      if ((0 <? savefail) && (savefail <=? length es)) || commitfail then (s, false, [], [])
      else ({| s_buckets := bset b bk' (s_buckets s); s_outbox := s_outbox s ++ es |}, true, rs, es)
  end.

(* ---------- the dispatcher step by step: claims, leases, several owners, crashes ----------
   A row of the outbox table = entry + identity + claim (owner, lease expired?).  An owner = one
   StorageMiddleware instance (its own claimOwner string and DispatcherConfig.MaxAttempts); [o_held] is the entry
   object returned by its last claim (with the attempts value the claim persisted). *)
Fixpoint upd_nth {A} (i : nat) (x : A) (l : list A) : list A :=
  match l, i with
  | [], _ => []
  | _ :: l', O => x :: l'
  | y :: l', S i' => y :: upd_nth i' x l'
  end.

Record row := { w_e : entry; w_id : nat; w_claim : option (nat * bool) }.
Record owner := { o_id : nat; o_max : Z; o_held : option (nat * Z * entry) }.

Definition claimable (r : row) : bool :=
  match n_state (w_e r) with
  | Pending true => match w_claim r with None => true | Some (_, expired) => expired end
  | _ => false
  end.

Definition with_entry (e : entry) (c : option (nat * bool)) (r : row) : row := {| w_e := e; w_id := w_id r; w_claim := c |}.
Definition set_attempts (a : Z) (e : entry) : entry :=
  {| n_dest := n_dest e; n_event := n_event e; n_key := n_key e; n_attempts := a; n_state := n_state e; n_delay := None |}.

(* ClaimFirst: the first claimable row in (next_attempt_at, id) order = table order *)
Fixpoint claim_first (oid : nat) (rs : list row) : list row * option (nat * Z * entry) :=
  match rs with
  | [] => ([], None)
  | r :: rest =>
      if claimable r then
        let a := (n_attempts (w_e r) + 1)%Z in
        (with_entry (set_attempts a (w_e r)) (Some (oid, false)) r :: rest, Some (w_id r, a, w_e r))
      else let (rest', res) := claim_first oid rest in (r :: rest', res)
  end.

(* what dispatchEntry writes for the held entry: [Some None] = delete, [Some (Some e)] = new entry state *)
Definition handle_write (c : dcfg) (mx : Z) (fails : bytes -> Z -> bool) (e : entry) (a : Z) : option entry :=
  if fails (n_dest e) a then
    if (0 <? mx)%Z && (mx <=? a)%Z
    then Some {| n_dest := n_dest e; n_event := n_event e; n_key := n_key e; n_attempts := n_attempts e;
                 n_state := Dead; n_delay := None |}
    else Some {| n_dest := n_dest e; n_event := n_event e; n_key := n_key e; n_attempts := n_attempts e;
                 n_state := Pending false; n_delay := Some (delay c a) |}
  else None.

(* the UPDATE/DELETE ... WHERE id = ? AND claim_owner = ? of delete / release / dead-letter *)
Fixpoint apply_write (oid id : nat) (upd : option entry -> option entry) (rs : list row) : list row :=
  match rs with
  | [] => []
  | r :: rest =>
      if Nat.eqb (w_id r) id then
        match w_claim r with
        | Some (o, _) =>
            if Nat.eqb o oid then
              match upd (Some (w_e r)) with
              | Some e' => with_entry e' None r :: rest
              | None => rest
              end
            else r :: rest
        | None => r :: rest
        end
      else r :: apply_write oid id upd rest
  end.

Fixpoint find_row (id : nat) (rs : list row) : option row :=
  match rs with [] => None | r :: rest => if Nat.eqb (w_id r) id then Some r else find_row id rest end.

(* dispatchEntry of a held claim: the publish always happens (even if the row was taken over or is gone: that is
   the at-least-once duplicate); the database write only takes effect while the row still carries this owner's
   claim, and not at all when [wfail] (the write fails / the process dies before it) *)
Definition handle_held (c : dcfg) (fails : bytes -> Z -> bool) (o : owner) (wfail : bool) (rs : list row)
  : list row * option pubrec :=
  match o_held o with
  | None => (rs, None)
  | Some (id, a, e) =>
      let rec := {| p_dest := n_dest e; p_event := n_event e; p_key := n_key e; p_attempt := a;
                    p_ok := negb (fails (n_dest e) a) |} in
      if wfail then (rs, Some rec)
      else (apply_write (o_id o) id
              (fun cur => match cur with
                          | Some ce => handle_write c (o_max o) fails ce a
                          | None => None
                          end) rs, Some rec)
  end.

(* dispatchAvailable of one owner: claim + dispatch until nothing is claimable; a row it releases is not due again *)
Fixpoint dispatch_all (fuel : nat) (c : dcfg) (fails : bytes -> Z -> bool) (o : owner) (rs : list row)
  : list row * list pubrec :=
  match fuel with
  | O => (rs, [])
  | S f =>
      match claim_first (o_id o) rs with
      | (_, None) => (rs, [])
      | (rs1, Some held) =>
          let (rs2, p) := handle_held c fails {| o_id := o_id o; o_max := o_max o; o_held := Some held |} false rs1 in
          let (rs3, ps) := dispatch_all f c fails o rs2 in
          (rs3, match p with Some r => r :: ps | None => ps end)
      end
  end.

Definition expire_row (r : row) : row :=
  {| w_e := w_e r; w_id := w_id r; w_claim := match w_claim r with Some (o, _) => Some (o, true) | None => None end |}.
Definition age_row (r : row) : row := {| w_e := age_entry (w_e r); w_id := w_id r; w_claim := w_claim r |}.
Definition clear_delay (r : row) : row :=
  {| w_e := set_attempts (n_attempts (w_e r)) (w_e r); w_id := w_id r; w_claim := w_claim r |}.

(* ---------- line protocol ----------
   R <events> <filters> <name> <key>          RuleMatches; events = tok_list, filters = name=value pairs as tok_list
                                              of alternating name,value
   B <min> <max> <attempts>                   withDefaults + nextAttemptAt delay (Z, nanoseconds)
   H <maxatt> <min_ms> <max_ms> <masks> <ops> history; masks = tok-less "q3,t0,l255,e1" (dest letter + mask);
        ops separated by ';', fields by ':' (written with ',' below):
        K,b  V,b  N,b,eb,<rule>|<rule>..  (rule = dest/events/filters with ':'-free hex lists, '~' = no rules)
        P,b,k,j  C,b,k,b2,k2,j  M,b,k,j  D,b,k,j  T,b,k,j  U,b,k,j   (j = index of the failing Save, 0 = none)
        X  (one dispatchAvailable of owner 0)   A  (all pending rows become due)
        G,b,j,<key~vref~cond>|...   DeleteObjects; vref = - | v<i> (i-th newest version) | x (unknown id); cond = n | m | s
        Y,slot (claim)  E,slot,<n|f> (dispatchEntry of the held claim; f = its database write fails)
        L (all leases run out)  Z,slot,maxatt (restart of that owner with another MaxAttempts)
   outputs: see show_* below *)

(* lexicographic order on byte strings and insertion sort, for canonical listings *)
Fixpoint bytes_leb (a b : bytes) : bool :=
  match a, b with
  | [], _ => true
  | _ :: _, [] => false
  | x :: a', y :: b' => if (byteN x <? byteN y)%N then true else if (byteN y <? byteN x)%N then false else bytes_leb a' b'
  end.
Fixpoint insert_sorted (x : bytes) (l : list bytes) : list bytes :=
  match l with
  | [] => [x]
  | y :: l' => if bytes_leb x y then x :: l else y :: insert_sorted x l'
  end.
Definition sort_bytes (l : list bytes) : list bytes := fold_right insert_sorted [] l.

Definition short_event (name : bytes) : bytes := skipn 3 name.   (* drop "s3:" *)

Definition show_new_entry (e : entry) : bytes := n_dest e ++ B"|" ++ short_event (n_event e) ++ B"|" ++ n_key e.
Definition show_pub (p : pubrec) : bytes :=
  p_dest p ++ B"|" ++ short_event (p_event p) ++ B"|" ++ p_key p ++ B"|" ++ show_Z (p_attempt p) ++ B"|" ++ (if p_ok p then B"s" else B"f").
Definition show_row (e : entry) : bytes :=
  n_dest e ++ B"|" ++ short_event (n_event e) ++ B"|" ++ n_key e ++ B"|" ++ show_Z (n_attempts e) ++ B"|" ++
  match n_state e with Pending _ => B"P" | Dead => B"D" end ++
  match n_delay e with Some d => B"|" ++ show_Z (d / 1000000) | None => [] end.
Definition show_list (l : list bytes) : bytes := B"[" ++ join B"," (sort_bytes l) ++ B"]".

Definition show_claim (c : option (nat * bool)) : bytes :=
  match c with
  | None => []
  | Some (o, expired) => B"@" ++ show_nat o ++ (if expired then B"x" else [])
  end.
Definition show_wrow (r : row) : bytes := show_row (w_e r) ++ show_claim (w_claim r).
Definition show_bres (r : bres) : bytes :=
  match r with BRefused => B"r" | BDeleted true => B"D" | BDeleted false => B"d" end.

Inductive hop :=
| HCreate (b : bytes) | HVersion (b : bytes) | HConfig (b : bytes) (eb : bool) (rules : list rule)
| HMut (m : mut) (j : nat) | HBatch (b : bytes) (ents : list bent) (j : nat)
| HDispatch | HAge
| HExpire                      (* every claim lease runs out *)
| HClaim (slot : nat)          (* the owner in that slot claims one entry (and keeps it in memory) *)
| HHandle (slot : nat) (wfail : bool)   (* ... and later runs dispatchEntry on it; wfail: its database write fails *)
| HRestart (slot : nat) (maxatt : Z).   (* the process in that slot is replaced: new claim owner, new MaxAttempts *)

Record hst := { h_buckets : list (bytes * bucket); h_rows : list row; h_nextid : nat;
                h_owners : list owner; h_nextoid : nat }.

Definition hst_init (c : dcfg) : hst :=
  {| h_buckets := []; h_rows := []; h_nextid := 0;
     h_owners := map (fun i => {| o_id := i; o_max := d_maxatt c; o_held := None |}) [0; 1; 2]; h_nextoid := 3 |}.

Fixpoint number_rows (n : nat) (es : list entry) : list row :=
  match es with [] => [] | e :: es' => {| w_e := e; w_id := n; w_claim := None |} :: number_rows (S n) es' end.

Definition with_rows (rs : list row) (s : hst) : hst :=
  {| h_buckets := h_buckets s; h_rows := rs; h_nextid := h_nextid s; h_owners := h_owners s; h_nextoid := h_nextoid s |}.
Definition with_buckets (bs : list (bytes * bucket)) (s : hst) : hst :=
  {| h_buckets := bs; h_rows := h_rows s; h_nextid := h_nextid s; h_owners := h_owners s; h_nextoid := h_nextoid s |}.
Definition add_rows (es : list entry) (s : hst) : hst :=
  {| h_buckets := h_buckets s; h_rows := h_rows s ++ number_rows (h_nextid s) es; h_nextid := h_nextid s + length es;
     h_owners := h_owners s; h_nextoid := h_nextoid s |}.
Definition set_owner (slot : nat) (o : owner) (s : hst) : hst :=
  {| h_buckets := h_buckets s; h_rows := h_rows s; h_nextid := h_nextid s; h_owners := upd_nth slot o (h_owners s);
     h_nextoid := h_nextoid s |}.

Definition key_present (b k : bytes) (s : hst) : bool :=
  match blookup b (h_buckets s) with Some bk => present k bk | None => false end.

Definition mut_target (m : mut) : bytes * bytes :=
  match m with
  | MPut b k | MMultipart b k | MDelete b k | MTagPut b k | MTagDel b k => (b, k)
  | MCopy _ _ b2 k2 => (b2, k2)
  end.

Definition new_bucket : bucket := {| b_versioned := false; b_rules := []; b_eb := false; b_objs := []; b_next := 1 |}.

Definition hstep (c : dcfg) (fails : bytes -> Z -> bool) (o : hop) (s : hst) : hst * bytes :=
  match o with
  | HCreate b =>
      match blookup b (h_buckets s) with
      | Some _ => (s, B"err")
      | None => (with_buckets (bset b new_bucket (h_buckets s)) s, B"ok")
      end
  | HVersion b =>
      match blookup b (h_buckets s) with
      | None => (s, B"err")
      | Some bk => (with_buckets (bset b {| b_versioned := true; b_rules := b_rules bk; b_eb := b_eb bk; b_objs := b_objs bk;
                                            b_next := b_next bk |} (h_buckets s)) s, B"ok")
      end
  | HConfig b eb rules =>
      match blookup b (h_buckets s) with
      | None => (s, B"err")
      | Some bk => (with_buckets (bset b {| b_versioned := b_versioned bk; b_rules := rules; b_eb := eb; b_objs := b_objs bk;
                                            b_next := b_next bk |} (h_buckets s)) s, B"ok")
      end
  | HMut m j =>
      let '(s', ok, es) := run_mut m j false {| s_buckets := h_buckets s; s_outbox := [] |} in
      let s2 := add_rows es (with_buckets (s_buckets s') s) in
      let (tb, tk) := mut_target m in
      (s2, (if ok then B"ok" else B"err") ++ show_list (map show_new_entry es) ++ (if key_present tb tk s2 then B"+" else B"-"))
  | HBatch b ents j =>
      let '(s', ok, rs, es) := run_batch b ents j false {| s_buckets := h_buckets s; s_outbox := [] |} in
      let s2 := add_rows es (with_buckets (s_buckets s') s) in
      (s2, (if ok then B"ok" else B"err") ++ B"(" ++ concat (map show_bres rs) ++ B")" ++ show_list (map show_new_entry es))
  | HDispatch =>
      match nth_error (h_owners s) 0 with
      | None => (s, B"bad")
      | Some ow =>
          let rs0 := map clear_delay (h_rows s) in
          let (rs, ps) := dispatch_all (S (length rs0)) c fails ow rs0 in
          (with_rows rs s, B"pub" ++ show_list (map show_pub ps) ++ B"rows" ++ show_list (map show_wrow rs))
      end
  | HAge => (with_rows (map age_row (h_rows s)) s, B"ok")
  | HExpire => (with_rows (map expire_row (h_rows s)) s, B"ok")
  | HClaim slot =>
      match nth_error (h_owners s) slot with
      | None => (s, B"bad")
      | Some ow =>
          let (rs, res) := claim_first (o_id ow) (h_rows s) in
          match res with
          | None => (set_owner slot {| o_id := o_id ow; o_max := o_max ow; o_held := None |} s, B"none")
          | Some (id, a, e) =>
              (set_owner slot {| o_id := o_id ow; o_max := o_max ow; o_held := Some (id, a, e) |} (with_rows rs s),
               B"c" ++ show_new_entry e ++ B"|" ++ show_Z a)
          end
      end
  | HHandle slot wfail =>
      match nth_error (h_owners s) slot with
      | None => (s, B"bad")
      | Some ow =>
          let (rs, p) := handle_held c fails ow wfail (map clear_delay (h_rows s)) in
          (set_owner slot {| o_id := o_id ow; o_max := o_max ow; o_held := None |} (with_rows rs s),
           B"pub" ++ show_list (map show_pub (match p with Some r => [r] | None => [] end)) ++
           B"rows" ++ show_list (map show_wrow rs))
      end
  | HRestart slot m =>
      match nth_error (h_owners s) slot with
      | None => (s, B"bad")
      | Some _ =>
          let s1 := set_owner slot {| o_id := h_nextoid s; o_max := m; o_held := None |} s in
          ({| h_buckets := h_buckets s1; h_rows := h_rows s1; h_nextid := h_nextid s1; h_owners := h_owners s1;
              h_nextoid := S (h_nextoid s) |}, B"ok")
      end
  end.

Fixpoint hrun (c : dcfg) (fails : bytes -> Z -> bool) (ops : list hop) (s : hst) : list bytes :=
  match ops with
  | [] => []
  | o :: rest => let (s', out) := hstep c fails o s in out :: hrun c fails rest s'
  end.

(* ---- parsing ---- *)
Fixpoint pair_filters (l : list bytes) : list frule :=
  match l with
  | n :: v :: rest => {| f_name := n; f_value := v |} :: pair_filters rest
  | _ => []
  end.

Definition parse_rule (t : bytes) : option rule :=
  match split_on "/"%byte t with
  | [d; ev; fl] =>
      match untok_list ev, untok_list fl with
      | Some ev, Some fl => Some {| r_dest := d; r_events := ev; r_filters := pair_filters fl |}
      | _, _ => None
      end
  | _ => None
  end.
Definition parse_rules (t : bytes) : option (list rule) :=
  if bytes_eqb t B"~" then Some [] else mapM parse_rule (split_on "|"%byte t).

Definition parse_vref (t : bytes) : option vref :=
  match t with
  | c :: rest =>
      if bytes_eqb t B"-" then Some VNone
      else if bytes_eqb t B"x" then Some VBogus
      else if beqb c "v"%byte then option_map VIdx (parse_nat rest)
      else None
  | [] => None
  end.
Definition parse_cond (t : bytes) : option cond :=
  if bytes_eqb t B"n" then Some CNone else if bytes_eqb t B"m" then Some CMatch
  else if bytes_eqb t B"s" then Some CStale else None.
Definition parse_bent (t : bytes) : option bent :=
  match split_on "~"%byte t with
  | [k; v; c] => match parse_vref v, parse_cond c with
                 | Some v, Some c => Some {| be_key := k; be_v := v; be_c := c |}
                 | _, _ => None
                 end
  | _ => None
  end.

Definition parse_hop (t : bytes) : option hop :=
  match split_on ":"%byte t with
  | [c] => if bytes_eqb c B"X" then Some HDispatch else if bytes_eqb c B"A" then Some HAge
           else if bytes_eqb c B"L" then Some HExpire else None
  | [c; b] => if bytes_eqb c B"K" then Some (HCreate b) else if bytes_eqb c B"V" then Some (HVersion b)
              else if bytes_eqb c B"Y" then option_map HClaim (parse_nat b) else None
  | [c; a1; a2] =>
      if bytes_eqb c B"E" then
        match parse_nat a1 with
        | Some sl => if bytes_eqb a2 B"n" then Some (HHandle sl false) else if bytes_eqb a2 B"f" then Some (HHandle sl true) else None
        | None => None
        end
      else if bytes_eqb c B"Z" then
        match parse_nat a1, parse_Z a2 with Some sl, Some m => Some (HRestart sl m) | _, _ => None end
      else None
  | [c; b; k; j] =>
      if bytes_eqb c B"G" then
        match parse_nat k, mapM parse_bent (split_on "|"%byte j) with
        | Some jn, Some ents => Some (HBatch b ents jn)
        | _, _ => None
        end
      else
      match parse_nat j with
      | None => (if bytes_eqb c B"N" then
                   match parse_bool k, parse_rules j with Some eb, Some rs => Some (HConfig b eb rs) | _, _ => None end
                 else None)
      | Some jn =>
          if bytes_eqb c B"P" then Some (HMut (MPut b k) jn)
          else if bytes_eqb c B"M" then Some (HMut (MMultipart b k) jn)
          else if bytes_eqb c B"D" then Some (HMut (MDelete b k) jn)
          else if bytes_eqb c B"T" then Some (HMut (MTagPut b k) jn)
          else if bytes_eqb c B"U" then Some (HMut (MTagDel b k) jn)
          else if bytes_eqb c B"N" then
            match parse_bool k, parse_rules j with Some eb, Some rs => Some (HConfig b eb rs) | _, _ => None end
          else None
      end
  | [c; b; k; b2; k2; j] =>
      if bytes_eqb c B"C" then option_map (fun jn => HMut (MCopy b k b2 k2) jn) (parse_nat j) else None
  | _ => None
  end.

(* masks: "q3,t0,l255,e1": the a-th attempt to a destination whose name starts with that letter fails iff bit a-1 is set *)
Definition parse_mask (t : bytes) : option (byte * N) :=
  match t with c :: rest => option_map (fun n => (c, n)) (parse_N rest) | [] => None end.
Fixpoint mask_fails (ms : list (byte * N)) (d : bytes) (a : Z) : bool :=
  match ms, d with
  | (c, m) :: rest, x :: _ => if beqb c x then N.testbit m (Z.to_N (a - 1)) else mask_fails rest d a
  | _, _ => false
  end.

Definition run_line (l : bytes) : bytes :=
  match tokens l with
  | [c; ev; fl; name; key] =>
      if bytes_eqb c B"R" then
        do ev <- untok_list ev; do fl <- untok_list fl; do name <- untok_bytes name; do key <- untok_bytes key;
        show_bool (rule_matches {| r_dest := []; r_events := ev; r_filters := pair_filters fl |} name key)
      else parse_error
  | [c; mn; mx; a] =>
      if bytes_eqb c B"B" then
        do mn <- parse_Z mn; do mx <- parse_Z mx; do a <- parse_Z a;
        show_Z (delay (with_defaults {| d_maxatt := 0; d_min := mn; d_max := mx |}) a)
      else parse_error
  | [c; ma; mn; mx; masks; ops] =>
      if bytes_eqb c B"H" then
        do ma <- parse_Z ma; do mn <- parse_Z mn; do mx <- parse_Z mx;
        do ms <- mapM parse_mask (split_on ","%byte masks);
        do ops <- mapM parse_hop (split_on ";"%byte ops);
        let cfg := with_defaults {| d_maxatt := ma; d_min := (mn * 1000000)%Z; d_max := (mx * 1000000)%Z |} in
        join B";" (hrun cfg (mask_fails ms) ops (hst_init cfg))
      else parse_error
  | _ => parse_error
  end.
