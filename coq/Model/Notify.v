(* Model/Notify.v — executable model of internal/storage/notification:
     events.go      RuleMatches
     storage.go     runWithNotifications / enqueueEvents / buildEntriesForEvent (mutation + outbox rows in ONE
                    database transaction), DispatcherConfig.withDefaults, nextAttemptAt, dispatchEntry
     repository.go  ClaimFirst (attempts+1, only due and not dead-lettered rows), DeleteByClaimOwner,
                    ReleaseClaim, DeadLetter
   plus a minimal object-store state (which bucket/key exists, versioning) that decides whether the wrapped
   mutation succeeds and which event it reports.  No proofs here. *)
From Verif Require Import Bytes Codec.

(* ---------- RuleMatches ---------- *)
Record frule := { f_name : bytes; f_value : bytes }.
Record rule := { r_dest : bytes; r_events : list bytes; r_filters : list frule }.

Definition event_matches (conf name : bytes) : bool :=
  bytes_eqb conf name || (is_suffix B":*" conf && is_prefix (removelast conf) name).

Definition filter_ok (key : bytes) (f : frule) : bool :=
  if bytes_eqb (f_name f) B"prefix" then is_prefix (f_value f) key
  else if bytes_eqb (f_name f) B"suffix" then is_suffix (f_value f) key
  else true.

Definition rule_matches (r : rule) (name key : bytes) : bool :=
  existsb (fun c => event_matches c name) (r_events r) && forallb (filter_ok key) (r_filters r).

(* ---------- dispatcher configuration and backoff (durations in nanoseconds) ---------- *)
Record dcfg := { d_maxatt : Z; d_min : Z; d_max : Z }.

Definition with_defaults (c : dcfg) : dcfg :=
  let mn := if (d_min c <=? 0)%Z then 1000000000%Z else d_min c in
  let mx0 := if (d_max c <=? 0)%Z then 300000000000%Z else d_max c in
  {| d_maxatt := d_maxatt c; d_min := mn; d_max := if (mx0 <? mn)%Z then mn else mx0 |}.

(* nextAttemptAt - now, for a configuration that went through withDefaults.
   float64(min) * 2^exponent is exact below 2^53 ns; above the cap (or +Inf) the cap is used *)
Definition delay (c : dcfg) (attempts : Z) : Z :=
  let e := Z.max 0 (attempts - 1) in
  if (63 <=? e)%Z then d_max c
  else let d := (d_min c * 2 ^ e)%Z in if (d_max c <? d)%Z then d_max c else d.

(* ---------- outbox entries and the dispatcher ---------- *)
Inductive estate := Pending (due : bool) | Dead.
Record entry := { n_dest : bytes; n_event : bytes; n_key : bytes; n_attempts : Z; n_state : estate;
                  n_delay : option Z (* set by the release of the current round *) }.

(* one Publish call as seen by the publisher: destination, event, key, attempt number, success *)
Record pubrec := { p_dest : bytes; p_event : bytes; p_key : bytes; p_attempt : Z; p_ok : bool }.

(* claim + publish + delete / dead-letter / release of one row; [fails d a]: the a-th attempt to d fails *)
Definition dispatch_entry (c : dcfg) (fails : bytes -> Z -> bool) (e : entry) : list pubrec * list entry :=
  match n_state e with
  | Pending true =>
      let a := (n_attempts e + 1)%Z in
      let rec := {| p_dest := n_dest e; p_event := n_event e; p_key := n_key e; p_attempt := a;
                    p_ok := negb (fails (n_dest e) a) |} in
      if fails (n_dest e) a then
        if (0 <? d_maxatt c)%Z && (d_maxatt c <=? a)%Z
        then ([rec], [{| n_dest := n_dest e; n_event := n_event e; n_key := n_key e; n_attempts := a;
                         n_state := Dead; n_delay := None |}])
        else ([rec], [{| n_dest := n_dest e; n_event := n_event e; n_key := n_key e; n_attempts := a;
                         n_state := Pending false; n_delay := Some (delay c a) |}])
      else ([rec], [])
  | _ => ([], [{| n_dest := n_dest e; n_event := n_event e; n_key := n_key e; n_attempts := n_attempts e;
                  n_state := n_state e; n_delay := None |}])
  end.

(* dispatchAvailable: every due row is claimed exactly once (a released row is not due again) *)
Fixpoint dispatch_round (c : dcfg) (fails : bytes -> Z -> bool) (es : list entry) : list pubrec * list entry :=
  match es with
  | [] => ([], [])
  | e :: rest =>
      let (p1, e1) := dispatch_entry c fails e in
      let (p2, e2) := dispatch_round c fails rest in
      (p1 ++ p2, e1 ++ e2)
  end.

(* time passes: every pending row becomes due *)
Definition age_entry (e : entry) : entry :=
  {| n_dest := n_dest e; n_event := n_event e; n_key := n_key e; n_attempts := n_attempts e;
     n_state := match n_state e with Pending _ => Pending true | Dead => Dead end; n_delay := None |}.

(* ---------- object store + transaction ---------- *)
Record bucket := { b_versioned : bool; b_rules : list rule; b_eb : bool; b_keys : list bytes }.

Record st := { s_buckets : list (bytes * bucket); s_outbox : list entry }.
Definition st_init : st := {| s_buckets := []; s_outbox := [] |}.

Fixpoint blookup (b : bytes) (l : list (bytes * bucket)) : option bucket :=
  match l with [] => None | (k, v) :: l' => if bytes_eqb b k then Some v else blookup b l' end.
Fixpoint bset (b : bytes) (v : bucket) (l : list (bytes * bucket)) : list (bytes * bucket) :=
  match l with
  | [] => [(b, v)]
  | (k, v') :: l' => if bytes_eqb b k then (k, v) :: l' else (k, v') :: bset b v l'
  end.

Definition with_keys (ks : list bytes) (b : bucket) : bucket :=
  {| b_versioned := b_versioned b; b_rules := b_rules b; b_eb := b_eb b; b_keys := ks |}.
Definition add_key (k : bytes) (b : bucket) : bucket :=
  if mem_bytes k (b_keys b) then b else with_keys (k :: b_keys b) b.
Definition del_key (k : bytes) (b : bucket) : bucket :=
  with_keys (filter (fun x => negb (bytes_eqb x k)) (b_keys b)) b.

Inductive mut :=
| MPut (b k : bytes)
| MCopy (b k b2 k2 : bytes)
| MMultipart (b k : bytes)
| MDelete (b k : bytes)
| MTagPut (b k : bytes)
| MTagDel (b k : bytes).

Definition ev_put := B"s3:ObjectCreated:Put".
Definition ev_copy := B"s3:ObjectCreated:Copy".
Definition ev_mpu := B"s3:ObjectCreated:CompleteMultipartUpload".
Definition ev_del := B"s3:ObjectRemoved:Delete".
Definition ev_marker := B"s3:ObjectRemoved:DeleteMarkerCreated".
Definition ev_tagput := B"s3:ObjectTagging:Put".
Definition ev_tagdel := B"s3:ObjectTagging:Delete".

(* the wrapped mutation on the transaction's working copy: None = it returned an error;
   Some (buckets', bucket of the event, event name, key) *)
Definition apply_mut (m : mut) (bs : list (bytes * bucket)) : option (list (bytes * bucket) * bytes * bytes * bytes) :=
  match m with
  | MPut b k =>
      match blookup b bs with
      | Some bk => Some (bset b (add_key k bk) bs, b, ev_put, k)
      | None => None
      end
  | MMultipart b k =>
      match blookup b bs with
      | Some bk => Some (bset b (add_key k bk) bs, b, ev_mpu, k)
      | None => None
      end
  | MCopy b k b2 k2 =>
      match blookup b bs, blookup b2 bs with
      | Some bk, Some bk2 =>
          if mem_bytes k (b_keys bk)
          then Some (bset b2 (add_key k2 (if bytes_eqb b b2 then bk else bk2)) bs, b2, ev_copy, k2)
          else None
      | _, _ => None
      end
  | MDelete b k =>
      match blookup b bs with
      | Some bk => Some (bset b (del_key k bk) bs, b, if b_versioned bk then ev_marker else ev_del, k)
      | None => None
      end
  | MTagPut b k =>
      match blookup b bs with
      | Some bk => if mem_bytes k (b_keys bk) then Some (bs, b, ev_tagput, k) else None
      | None => None
      end
  | MTagDel b k =>
      match blookup b bs with
      | Some bk => if mem_bytes k (b_keys bk) then Some (bs, b, ev_tagdel, k) else None
      | None => None
      end
  end.

Definition eb_dest (b : bytes) : bytes := B"eventbridge:" ++ b.

Definition new_entry (d name key : bytes) : entry :=
  {| n_dest := d; n_event := name; n_key := key; n_attempts := 0; n_state := Pending true; n_delay := None |}.

(* buildEntriesForEvent *)
Definition entries_for (bk : bucket) (b name key : bytes) : list entry :=
  map (fun r => new_entry (r_dest r) name key) (filter (fun r => rule_matches r name key) (b_rules bk))
  ++ (if b_eb bk then [new_entry (eb_dest b) name key] else []).

(* runWithNotifications: [savefail = j > 0]: the j-th repository.Save of this transaction fails;
   [commitfail]: the database commit fails.  Returns the new committed state, success, the new rows *)
Definition run_mut (m : mut) (savefail : nat) (commitfail : bool) (s : st) : st * bool * list entry :=
  match apply_mut m (s_buckets s) with
  | None => (s, false, [])
  | Some (bs', b, name, key) =>
      let es := match blookup b bs' with Some bk => entries_for bk b name key | None => [] end in
      if ((0 <? savefail) && (savefail <=? length es)) || commitfail then (s, false, [])
      else ({| s_buckets := bs'; s_outbox := s_outbox s ++ es |}, true, es)
  end.

(* ---------- line protocol ----------
   R <events> <filters> <name> <key>          RuleMatches; events = tok_list, filters = name=value pairs as tok_list
                                              of alternating name,value
   B <min> <max> <attempts>                   withDefaults + nextAttemptAt delay (Z, nanoseconds)
   H <maxatt> <min_ms> <max_ms> <masks> <ops> history; masks = tok-less "q3,t0,l255,e1" (dest letter + mask);
        ops separated by ';', fields by ':' (written with ',' below):
        K,b  V,b  N,b,eb,<rule>|<rule>..  (rule = dest/events/filters with ':'-free hex lists, '~' = no rules)
        P,b,k,j  C,b,k,b2,k2,j  M,b,k,j  D,b,k,j  T,b,k,j  U,b,k,j   (j = index of the failing Save, 0 = none)
        X  (one dispatchAvailable)   A  (all pending rows become due)
   outputs: see show_* below *)

(* lexicographic order on byte strings and insertion sort, for canonical listings *)
Fixpoint bytes_leb (a b : bytes) : bool :=
  match a, b with
  | [], _ => true
  | _ :: _, [] => false
  | x :: a', y :: b' => if (byteN x <? byteN y)%N then true else if (byteN y <? byteN x)%N then false else bytes_leb a' b'
  end.
Fixpoint insert_sorted (x : bytes) (l : list bytes) : list bytes :=
  match l with
  | [] => [x]
  | y :: l' => if bytes_leb x y then x :: l else y :: insert_sorted x l'
  end.
Definition sort_bytes (l : list bytes) : list bytes := fold_right insert_sorted [] l.

Definition short_event (name : bytes) : bytes := skipn 3 name.   (* drop "s3:" *)

Definition show_new_entry (e : entry) : bytes := n_dest e ++ B"|" ++ short_event (n_event e) ++ B"|" ++ n_key e.
Definition show_pub (p : pubrec) : bytes :=
  p_dest p ++ B"|" ++ short_event (p_event p) ++ B"|" ++ p_key p ++ B"|" ++ show_Z (p_attempt p) ++ B"|" ++ (if p_ok p then B"s" else B"f").
Definition show_row (e : entry) : bytes :=
  n_dest e ++ B"|" ++ short_event (n_event e) ++ B"|" ++ n_key e ++ B"|" ++ show_Z (n_attempts e) ++ B"|" ++
  match n_state e with Pending _ => B"P" | Dead => B"D" end ++
  match n_delay e with Some d => B"|" ++ show_Z (d / 1000000) | None => [] end.
Definition show_list (l : list bytes) : bytes := B"[" ++ join B"," (sort_bytes l) ++ B"]".

Inductive hop :=
| HCreate (b : bytes) | HVersion (b : bytes) | HConfig (b : bytes) (eb : bool) (rules : list rule)
| HMut (m : mut) (j : nat) | HDispatch | HAge.

Definition key_present (b k : bytes) (s : st) : bool :=
  match blookup b (s_buckets s) with Some bk => mem_bytes k (b_keys bk) | None => false end.

Definition mut_target (m : mut) : bytes * bytes :=
  match m with
  | MPut b k | MMultipart b k | MDelete b k | MTagPut b k | MTagDel b k => (b, k)
  | MCopy _ _ b2 k2 => (b2, k2)
  end.

Definition hstep (c : dcfg) (fails : bytes -> Z -> bool) (o : hop) (s : st) : st * bytes :=
  match o with
  | HCreate b =>
      match blookup b (s_buckets s) with
      | Some _ => (s, B"err")
      | None => ({| s_buckets := bset b {| b_versioned := false; b_rules := []; b_eb := false; b_keys := [] |} (s_buckets s);
                    s_outbox := s_outbox s |}, B"ok")
      end
  | HVersion b =>
      match blookup b (s_buckets s) with
      | None => (s, B"err")
      | Some bk => ({| s_buckets := bset b {| b_versioned := true; b_rules := b_rules bk; b_eb := b_eb bk; b_keys := b_keys bk |} (s_buckets s);
                       s_outbox := s_outbox s |}, B"ok")
      end
  | HConfig b eb rules =>
      match blookup b (s_buckets s) with
      | None => (s, B"err")
      | Some bk => ({| s_buckets := bset b {| b_versioned := b_versioned bk; b_rules := rules; b_eb := eb; b_keys := b_keys bk |} (s_buckets s);
                       s_outbox := s_outbox s |}, B"ok")
      end
  | HMut m j =>
      let '(s', ok, es) := run_mut m j false s in
      let (tb, tk) := mut_target m in
      (s', (if ok then B"ok" else B"err") ++ show_list (map show_new_entry es) ++ (if key_present tb tk s' then B"+" else B"-"))
  | HDispatch =>
      let (ps, es) := dispatch_round c fails (s_outbox s) in
      ({| s_buckets := s_buckets s; s_outbox := es |},
       B"pub" ++ show_list (map show_pub ps) ++ B"rows" ++ show_list (map show_row es))
  | HAge => ({| s_buckets := s_buckets s; s_outbox := map age_entry (s_outbox s) |}, B"ok")
  end.

Fixpoint hrun (c : dcfg) (fails : bytes -> Z -> bool) (ops : list hop) (s : st) : list bytes :=
  match ops with
  | [] => []
  | o :: rest => let (s', out) := hstep c fails o s in out :: hrun c fails rest s'
  end.

(* ---- parsing ---- *)
Fixpoint pair_filters (l : list bytes) : list frule :=
  match l with
  | n :: v :: rest => {| f_name := n; f_value := v |} :: pair_filters rest
  | _ => []
  end.

Definition parse_rule (t : bytes) : option rule :=
  match split_on "/"%byte t with
  | [d; ev; fl] =>
      match untok_list ev, untok_list fl with
      | Some ev, Some fl => Some {| r_dest := d; r_events := ev; r_filters := pair_filters fl |}
      | _, _ => None
      end
  | _ => None
  end.
Definition parse_rules (t : bytes) : option (list rule) :=
  if bytes_eqb t B"~" then Some [] else mapM parse_rule (split_on "|"%byte t).

Definition parse_hop (t : bytes) : option hop :=
  match split_on ":"%byte t with
  | [c] => if bytes_eqb c B"X" then Some HDispatch else if bytes_eqb c B"A" then Some HAge else None
  | [c; b] => if bytes_eqb c B"K" then Some (HCreate b) else if bytes_eqb c B"V" then Some (HVersion b) else None
  | [c; b; k; j] =>
      match parse_nat j with
      | None => (if bytes_eqb c B"N" then
                   match parse_bool k, parse_rules j with Some eb, Some rs => Some (HConfig b eb rs) | _, _ => None end
                 else None)
      | Some jn =>
          if bytes_eqb c B"P" then Some (HMut (MPut b k) jn)
          else if bytes_eqb c B"M" then Some (HMut (MMultipart b k) jn)
          else if bytes_eqb c B"D" then Some (HMut (MDelete b k) jn)
          else if bytes_eqb c B"T" then Some (HMut (MTagPut b k) jn)
          else if bytes_eqb c B"U" then Some (HMut (MTagDel b k) jn)
          else if bytes_eqb c B"N" then
            match parse_bool k, parse_rules j with Some eb, Some rs => Some (HConfig b eb rs) | _, _ => None end
          else None
      end
  | [c; b; k; b2; k2; j] =>
      if bytes_eqb c B"C" then option_map (fun jn => HMut (MCopy b k b2 k2) jn) (parse_nat j) else None
  | _ => None
  end.

(* masks: "q3,t0,l255,e1": the a-th attempt to a destination whose name starts with that letter fails iff bit a-1 is set *)
Definition parse_mask (t : bytes) : option (byte * N) :=
  match t with c :: rest => option_map (fun n => (c, n)) (parse_N rest) | [] => None end.
Fixpoint mask_fails (ms : list (byte * N)) (d : bytes) (a : Z) : bool :=
  match ms, d with
  | (c, m) :: rest, x :: _ => if beqb c x then N.testbit m (Z.to_N (a - 1)) else mask_fails rest d a
  | _, _ => false
  end.

Definition run_line (l : bytes) : bytes :=
  match tokens l with
  | [c; ev; fl; name; key] =>
      if bytes_eqb c B"R" then
        do ev <- untok_list ev; do fl <- untok_list fl; do name <- untok_bytes name; do key <- untok_bytes key;
        show_bool (rule_matches {| r_dest := []; r_events := ev; r_filters := pair_filters fl |} name key)
      else parse_error
  | [c; mn; mx; a] =>
      if bytes_eqb c B"B" then
        do mn <- parse_Z mn; do mx <- parse_Z mx; do a <- parse_Z a;
        show_Z (delay (with_defaults {| d_maxatt := 0; d_min := mn; d_max := mx |}) a)
      else parse_error
  | [c; ma; mn; mx; masks; ops] =>
      if bytes_eqb c B"H" then
        do ma <- parse_Z ma; do mn <- parse_Z mn; do mx <- parse_Z mx;
        do ms <- mapM parse_mask (split_on ","%byte masks);
        do ops <- mapM parse_hop (split_on ";"%byte ops);
        let cfg := with_defaults {| d_maxatt := ma; d_min := (mn * 1000000)%Z; d_max := (mx * 1000000)%Z |} in
        join B";" (hrun cfg (mask_fails ms) ops st_init)
      else parse_error
  | _ => parse_error
  end.
