(* Model/Integrity.v — executable model of internal/storage/integrity/validator.go:
   findPartStore (reflective search over struct fields), ValidateAll (report / delete loop),
   validateObject, verifyPartChecksums, verifyObjectChecksums, and of how the storage records object
   checksums for the object kinds the harness builds (PutObject, multipart FULL_OBJECT / COMPOSITE,
   AppendObject, full and ranged CopyObject, content-deduplicated parts).
   Digests are symbolic: a number stands for "all digests of one byte string" (equal numbers <-> equal
   bytes).  Object-level values: ETag = digest of the only part | md5-of-md5s with a "-N" suffix;
   a checksum field (CRC32 stands for the CRC family, SHA256 for the SHA family) = plain digest |
   composite (digest of the part digests, "-N") | combined (CRC combine = CRC of the concatenation).
   No proofs here. *)
From Verif Require Import Bytes Codec.

Inductive ctype := TFull | TComp.
Inductive etag := Single (d : N) | Multi (ds : list N) (n : nat) | Garbled.
Inductive cks := Plain (d : N) | Comp (ds : list N) (n : nat) | Comb (ds : list N) | GarbledC.
Record part := { rec : N; actual : option N }.       (* recorded digest; digest of the stored bytes / GetPart fails *)
Record obj := { otype : ctype; oetag : etag; ocrc : option cks; osha : option cks; parts : list part }.

Fixpoint Ns_eqb (a b : list N) : bool :=
  match a, b with
  | [], [] => true
  | x :: a', y :: b' => (x =? y)%N && Ns_eqb a' b'
  | _, _ => false
  end.
Definition etag_eqb (a b : etag) : bool :=
  match a, b with
  | Single x, Single y => (x =? y)%N
  | Multi x n, Multi y k => Ns_eqb x y && Nat.eqb n k
  | _, _ => false
  end.
Definition cks_eqb (a b : cks) : bool :=
  match a, b with
  | Plain x, Plain y => (x =? y)%N
  | Comp x n, Comp y k => Ns_eqb x y && Nat.eqb n k
  | Comb x, Comb y => Ns_eqb x y
  | _, _ => false
  end.
(* CRC combine over the parts; the combine of one part is that part's plain CRC *)
Definition mk_comb (ds : list N) : cks := match ds with [d] => Plain d | _ => Comb ds end.
Definition calc_comb (ds : list N) : option cks := match ds with [] => None | _ => Some (mk_comb ds) end.

(* "if recorded != nil && calculated != nil { must be equal }" *)
Definition opt_match (recorded calculated : option cks) : bool :=
  match recorded, calculated with Some a, Some b => cks_eqb a b | _, _ => true end.

(* GetPart + CalculateChecksumsStreaming + verifyPartChecksums *)
Definition part_ok (p : part) : bool :=
  match actual p with Some a => (a =? rec p)%N | None => false end.

(* verifyObjectChecksums: exactly one part -> the object's values against the calculated part values;
   otherwise against CalculateMultipartChecksums(RECORDED part values, the object's checksum type) *)
Definition object_ok (o : obj) : bool :=
  match parts o with
  | [p] => match actual p with
           | Some a => etag_eqb (oetag o) (Single a) && opt_match (ocrc o) (Some (Plain a))
                       && opt_match (osha o) (Some (Plain a))
           | None => false
           end
  | ps => let recs := map rec ps in
          let n := length ps in
          etag_eqb (oetag o) (Multi recs n) &&
          match otype o with
          | TComp => opt_match (ocrc o) (Some (Comp recs n)) && opt_match (osha o) (Some (Comp recs n))
          | TFull => opt_match (ocrc o) (calc_comb recs)
          end
  end.

(* validateObject: Success *)
Definition validate_object (o : obj) : bool :=
  if forallb part_ok (parts o) then object_ok o else false.

(* findPartStore: a struct has a *NamedPartStores field (its Default() store is used; since /repo
   df6e7b9) or a field implementing PartStore, or a Storage field whose struct has one *)
Inductive layout := L (direct_partstore : bool) (storage_fields : list layout).
Fixpoint find_part_store (l : layout) : bool :=
  match l with L d inner => d || existsb find_part_store inner end.

(* metadataPartStorage: lifecycle, db, metadataStore, *NamedPartStores, gc, task handle, tracer.
   Before df6e7b9 no field counted (layout [L false []], ValidateAll always failed); now the
   *NamedPartStores field yields the default part store *)
Definition current_layout : layout := L true [].

(* ValidateAll: None = error; per object (success, deleted) *)
Definition validate_all (l : layout) (del : bool) (objs : list obj) : option (list (bool * bool)) :=
  if find_part_store l then
    Some (map (fun o => let s := validate_object o in (s, negb s && del)) objs)
  else None.

(* ---- several buckets -------------------------------------------------------------------------
   ValidateAll visits the buckets one after the other; per bucket it lists the CURRENT objects and
   validates / deletes them; only the report counters are carried from bucket to bucket.
   DeleteObject without a version id removes the object of an unversioned bucket and only puts a
   delete marker on top of the versions of a versioning-enabled bucket. *)
Record mbucket := { bvers : bool; bobjs : list obj }.
Inductive post := Kept | Gone | Marker.
Definition delete_effect (versioned : bool) : post := if versioned then Marker else Gone.
Definition verdict (del versioned : bool) (o : obj) : bool * bool * post :=
  let s := validate_object o in
  let d := negb s && del in
  (s, d, if d then delete_effect versioned else Kept).
Definition validate_bucket (del : bool) (b : mbucket) : list (bool * bool * post) :=
  map (verdict del (bvers b)) (bobjs b).
Record counters := { c_total : nat; c_failed : nat; c_deleted : nat }.
Definition count_true (l : list bool) : nat := length (filter (fun b => b) l).
Definition add_counters (c : counters) (r : list (bool * bool * post)) : counters :=
  {| c_total := c_total c + length r;
     c_failed := c_failed c + count_true (map (fun x : bool * bool * post => negb (fst (fst x))) r);
     c_deleted := c_deleted c + count_true (map (fun x : bool * bool * post => snd (fst x)) r) |}.
Definition bucket_step (del : bool) (acc : counters * list (list (bool * bool * post))) (b : mbucket) :=
  let r := validate_bucket del b in (add_counters (fst acc) r, snd acc ++ [r]).
Definition validate_buckets (l : layout) (del : bool) (bs : list mbucket)
  : option (counters * list (list (bool * bool * post))) :=
  if find_part_store l then
    Some (fold_left (bucket_step del) bs ({| c_total := 0; c_failed := 0; c_deleted := 0 |}, []))
  else None.

(* ---- how the storage records objects (what the harness builds) -------------------------------- *)
(* the state of the part files: a content id (= part file, parts are deduplicated by content) that was
   modified maps to its new digest (Some) or to "file gone" (None) *)
Definition world := list (N * option N).
Fixpoint wfind (w : world) (id : N) : option (option N) :=
  match w with [] => None | (k, v) :: w' => if (k =? id)%N then Some v else wfind w' id end.
Definition resolve (w : world) (id : N) : part :=
  {| rec := id; actual := match wfind w id with None => Some id | Some v => v end |}.

(* object records before the part files are looked at: the content ids of the parts *)
Record spec := { stype : ctype; setag : etag; scrc : option cks; ssha : option cks; sids : list N }.
Definition put_spec (id : N) : spec :=
  {| stype := TFull; setag := Single id; scrc := Some (Plain id); ssha := Some (Plain id); sids := [id] |}.
Definition multipart_spec (t : ctype) (ids : list N) : spec :=
  let n := length ids in
  match t with
  | TComp => {| stype := TComp; setag := Multi ids n; scrc := Some (Comp ids n); ssha := Some (Comp ids n); sids := ids |}
  | TFull => {| stype := TFull; setag := Multi ids n; scrc := calc_comb ids; ssha := None; sids := ids |}
  end.
Definition append_spec (ids : list N) : spec :=
  {| stype := TFull; setag := Multi ids (length ids); scrc := None; ssha := None; sids := ids |}.
Definition to_obj (w : world) (s : spec) : obj :=
  {| otype := stype s; oetag := setag s; ocrc := scrc s; osha := ssha s; parts := map (resolve w) (sids s) |}.

(* tampering with the recorded object values *)
Definition tamper (c : byte) (s : spec) : spec :=
  if beqb c "e"%byte then {| stype := stype s; setag := Garbled; scrc := scrc s; ssha := ssha s; sids := sids s |}
  else if beqb c "c"%byte then
    {| stype := stype s; setag := setag s; scrc := match scrc s with Some _ => Some GarbledC | None => None end;
       ssha := ssha s; sids := sids s |}
  else if beqb c "n"%byte then
    {| stype := stype s;
       setag := match setag s with Multi ds _ => Multi ds 9 | _ => Garbled end;
       scrc := match scrc s with Some (Comp ds _) => Some (Comp ds 9) | x => x end;
       ssha := ssha s; sids := sids s |}
  else if beqb c "t"%byte then
    {| stype := match stype s with TFull => TComp | TComp => TFull end;
       setag := setag s; scrc := scrc s; ssha := ssha s; sids := sids s |}
  else s.

(* ---- line protocol (see harness/c39.go) ---- *)
Definition dummy_spec : spec := put_spec 0.
Definition ids_from (base : N) (offs : list N) : list N := map (fun o => (base + o)%N) offs.
Definition kind_spec (boff : N) (sofar : list spec) (i : nat) (kind : bytes) : option spec :=
  let base := (boff + 1000 * N.of_nat (S i))%N in
  match kind with
  | [] => None
  | c :: rest =>
    if bytes_eqb kind B"S" then Some (put_spec base)
    else if bytes_eqb kind B"E" then Some (put_spec 2)
    else if bytes_eqb kind B"A" then Some (append_spec (ids_from base [0; 14]%N))
    else if bytes_eqb kind B"A1" then Some (append_spec (ids_from base [14]%N))
    else if bytes_eqb kind B"AC" then Some (append_spec (ids_from base [0; 2; 14]%N))
    else match parse_nat rest with
    | None => None
    | Some j =>
      if beqb c "M"%byte || beqb c "F"%byte then Some (multipart_spec TFull (ids_from base (map (fun p => (2 * N.of_nat p)%N) (seq 0 j))))
      else if beqb c "C"%byte then Some (multipart_spec TComp (ids_from base (map (fun p => (2 * N.of_nat p)%N) (seq 0 j))))
      else
        let src := nth j sofar dummy_spec in
        if (length sofar <=? j) then None
        else if beqb c "T"%byte then Some (put_spec (hd 0%N (sids src)))
        else if beqb c "K"%byte then Some src
        else if beqb c "R"%byte then
          Some (put_spec (match sids src with [id] => id | _ => base end))
        else if beqb c "P"%byte then Some (put_spec (base + 500)%N)
        else None
    end
  end.

(* the first fault that reaches a part file wins; flipping/truncating the empty file (id 2) changes nothing *)
Fixpoint apply_faults (w : world) (ids : list N) (faults : bytes) : world :=
  match ids, faults with
  | id :: ids', f :: faults' =>
      let w' := if beqb f "N"%byte then w
                else match wfind w id with
                     | Some _ => w
                     | None => if beqb f "X"%byte then (id, None) :: w
                               else if (id =? 2)%N then w else (id, Some (id + 1)%N) :: w
                     end in
      apply_faults w' ids' faults'
  | _, _ => w
  end.

(* "<kind>+" = the key first got an older PutObject; its part is referenced by no current object *)
Definition strip_plus (kd : bytes) : bytes * bool :=
  match rev kd with
  | c :: r => if beqb c "+"%byte then (rev r, true) else (kd, false)
  | [] => (kd, false)
  end.

(* pass 1: specs (untampered, so that copies see the source as created); pass 2: faults and tampering *)
Fixpoint build_specs (boff : N) (sofar : list spec) (i : nat) (ts : list bytes) : option (list spec) :=
  match ts with
  | [] => Some sofar
  | t :: ts' => match split_on ":"%byte t with
                | kd :: _ => match kind_spec boff sofar i (fst (strip_plus kd)) with
                             | Some s => build_specs boff (sofar ++ [s]) (S i) ts'
                             | None => None
                             end
                | [] => None
                end
  end.
Fixpoint faults_and_tampers (w : world) (specs : list spec) (ts : list bytes) : world * list spec :=
  match specs, ts with
  | s :: specs', t :: ts' =>
      let f := split_on ":"%byte t in
      let fl := nth 1 f [] in
      (* the older version's part file is unique to it: its fault letter concerns no current object *)
      let fl' := if snd (strip_plus (nth 0 f [])) then tl fl else fl in
      let w' := apply_faults w (sids s) fl' in
      let s' := match nth 2 f [] with c :: _ => tamper c s | [] => s end in
      let r := faults_and_tampers w' specs' ts' in
      (fst r, s' :: snd r)
  | _, _ => (w, [])
  end.

(* a bucket token: "<u|v><letter>=<objects>" or just "<objects>" (one unversioned bucket) *)
Definition parse_bucket (t : bytes) : bool * list bytes :=
  match split_first "="%byte t with
  | Some (pre, objs) => (match pre with c :: _ => beqb c "v"%byte | [] => false end, split_on ","%byte objs)
  | None => (false, split_on ","%byte t)
  end.
(* pass 1 over all buckets, then pass 2 threading the world (part files are shared across buckets) *)
Fixpoint build_all (b : nat) (bts : list (bool * list bytes)) : option (list (list spec)) :=
  match bts with
  | [] => Some []
  | (_, ts) :: rest =>
      match build_specs (100000 * N.of_nat (S b))%N [] 0 ts, build_all (S b) rest with
      | Some s, Some r => Some (s :: r)
      | _, _ => None
      end
  end.
Fixpoint faults_all (w : world) (specs : list (list spec)) (bts : list (bool * list bytes)) : world * list (list spec) :=
  match specs, bts with
  | s :: specs', (_, ts) :: bts' =>
      let r := faults_and_tampers w s ts in
      let r' := faults_all (fst r) specs' bts' in
      (fst r', snd r :: snd r')
  | _, _ => (w, [])
  end.

Definition show_verdicts (r : list (bool * bool * post)) : bytes :=
  map (fun x : bool * bool * post => if fst (fst x) then "-"%byte else if snd (fst x) then "D"%byte else "R"%byte) r.
Definition show_posts (r : list (bool * bool * post)) : bytes :=
  map (fun x : bool * bool * post => match snd x with Kept => "K"%byte | Gone => "G"%byte | Marker => "M"%byte end) r.

Definition run_line (l : bytes) : bytes :=
  match tokens l with
  | [md; os] =>
      let bts := map parse_bucket (split_on "/"%byte os) in
      do specs <- build_all 0 bts;
      let ws := faults_all [] specs bts in
      let buckets := map (fun vb : (bool * list bytes) * list spec =>
                            {| bvers := fst (fst vb); bobjs := map (to_obj (fst ws)) (snd vb) |})
                         (combine bts (snd ws)) in
      let del := bytes_eqb md B"D" in
      let pers := join B"/" (map (fun b => map (fun o => if validate_object o then "-"%byte else "R"%byte) (bobjs b)) buckets) in
      match validate_buckets current_layout del buckets with
      | None => B"ERR | " ++ join B"/" (map (fun b => map (fun _ => "K"%byte) (bobjs b)) buckets) ++ B" | " ++ pers
      | Some (c, rs) =>
          join B"/" (map show_verdicts rs) ++ B":" ++ show_nat (c_total c) ++ B"/" ++ show_nat (c_failed c)
          ++ B"/" ++ show_nat (c_deleted c) ++ B" | " ++ join B"/" (map show_posts rs) ++ B" | " ++ pers
      end
  | _ => parse_error
  end.
