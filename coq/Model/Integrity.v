(* Model/Integrity.v — executable model of internal/storage/integrity/validator.go:
   findPartStore (reflective search over struct fields), ValidateAll (report / delete loop),
   validateObject, verifyPartChecksums, verifyObjectChecksums.  Digests are symbolic: a number
   stands for "all digests of one byte string" (equal numbers <-> equal bytes); an object ETag is
   either the digest of its only part (PutObject) or the multipart form derived from the recorded
   part ETags ("md5-of-md5s-N").  No proofs here. *)
From Verif Require Import Bytes Codec.

Inductive etag := Single (d : N) | Multi (ds : list N).
Record part := { rec : N; actual : option N }.       (* recorded digest; digest of the stored bytes / GetPart fails *)
Record obj := { oetag : etag; parts : list part }.

Fixpoint Ns_eqb (a b : list N) : bool :=
  match a, b with
  | [], [] => true
  | x :: a', y :: b' => (x =? y)%N && Ns_eqb a' b'
  | _, _ => false
  end.
Definition etag_eqb (a b : etag) : bool :=
  match a, b with
  | Single x, Single y => (x =? y)%N
  | Multi x, Multi y => Ns_eqb x y
  | _, _ => false
  end.

(* GetPart + CalculateChecksumsStreaming + verifyPartChecksums *)
Definition part_ok (p : part) : bool :=
  match actual p with Some a => (a =? rec p)%N | None => false end.

(* verifyObjectChecksums: exactly one part -> the object's ETag against the calculated part ETag;
   otherwise the object's ETag against CalculateMultipartChecksums of the RECORDED part ETags *)
Definition object_ok (o : obj) : bool :=
  match parts o with
  | [p] => match actual p with Some a => etag_eqb (oetag o) (Single a) | None => false end
  | ps => etag_eqb (oetag o) (Multi (map rec ps))
  end.

(* validateObject: Success *)
Definition validate_object (o : obj) : bool :=
  if forallb part_ok (parts o) then object_ok o else false.

(* findPartStore: a struct has a *NamedPartStores field (its Default() store is used; since /repo
   df6e7b9) or a field implementing PartStore, or a Storage field whose struct has one *)
Inductive layout := L (direct_partstore : bool) (storage_fields : list layout).
Fixpoint find_part_store (l : layout) : bool :=
  match l with L d inner => d || existsb find_part_store inner end.

(* metadataPartStorage: lifecycle, db, metadataStore, *NamedPartStores, gc, task handle, tracer.
   Before df6e7b9 no field counted (layout [L false []], ValidateAll always failed); now the
   *NamedPartStores field yields the default part store *)
Definition current_layout : layout := L true [].

(* ValidateAll: None = error; per object (success, deleted) *)
Definition validate_all (l : layout) (del : bool) (objs : list obj) : option (list (bool * bool)) :=
  if find_part_store l then
    Some (map (fun o => let s := validate_object o in (s, negb s && del)) objs)
  else None.

(* report counters: TotalObjects / FailedObjects / DeletedObjects *)
Definition count_true (l : list bool) : nat := length (filter (fun b => b) l).
Definition show_counts (rs : list (bool * bool)) : bytes :=
  show_nat (length rs) ++ B"/" ++ show_nat (count_true (map (fun r : bool * bool => negb (fst r)) rs))
  ++ B"/" ++ show_nat (count_true (map (fun r : bool * bool => snd r) rs)).

(* ---- line protocol:  <V|D> <kind>:<faults>,...   ->   <ValidateAll>:<counts> | <per object> ---- *)
Definition mk_parts (base : N) (faults : bytes) : list part :=
  map (fun jf => let r := (base + 2 * N.of_nat (fst jf))%N in
                 {| rec := r;
                    actual := if beqb (snd jf) "X"%byte then None
                              else if beqb (snd jf) "N"%byte then Some r else Some (r + 1)%N |})
      (combine (seq 0 (length faults)) faults).
(* the storage deduplicates parts by content: all empty objects of a case reference ONE part
   (digest 1); it is gone as soon as one of them has its part file deleted; flipping / truncating an
   empty file changes nothing *)
Definition mk_obj (e_gone : bool) (i : nat) (kind faults : bytes) : obj :=
  let base := (100 * N.of_nat (S i))%N in
  if bytes_eqb kind B"E" then
    {| oetag := Single 1; parts := [{| rec := 1%N; actual := if e_gone then None else Some 1%N |}] |}
  else if bytes_eqb kind B"S" then {| oetag := Single base; parts := mk_parts base faults |}
  else let ps := mk_parts base faults in {| oetag := Multi (map rec ps); parts := ps |}.

Fixpoint mk_objs (e_gone : bool) (i : nat) (ts : list bytes) : option (list obj) :=
  match ts with
  | [] => Some []
  | t :: ts' => match split_on ":"%byte t with
                | [kd; fl] => match mk_objs e_gone (S i) ts' with
                              | Some os => Some (mk_obj e_gone i kd fl :: os)
                              | None => None
                              end
                | _ => None
                end
  end.

Definition run_line (l : bytes) : bytes :=
  match tokens l with
  | [md; os] =>
      let ts := split_on ","%byte os in
      let e_gone := existsb (fun t => is_prefix B"E:" t && negb (Nat.eqb (count_byte "X"%byte t) 0)) ts in
      do objs <- mk_objs e_gone 0 ts;
      let del := bytes_eqb md B"D" in
      let va := match validate_all current_layout del objs with
                | None => B"ERR"
                | Some rs => map (fun r : bool * bool => if fst r then "-"%byte else if snd r then "D"%byte else "R"%byte) rs
                             ++ B":" ++ show_counts rs
                end in
      va ++ B" | " ++ map (fun o => if validate_object o then "-"%byte else "R"%byte) objs
  | _ => parse_error
  end.
