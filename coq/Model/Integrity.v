(* Model/Integrity.v — executable model of internal/storage/integrity/validator.go:
   findPartStore (reflective search over struct fields), ValidateAll (report / delete loop),
   validateObject, verifyPartChecksums, verifyObjectChecksums, and of how the storage records object
   checksums for the object kinds the harness builds (PutObject, multipart FULL_OBJECT / COMPOSITE,
   AppendObject, full and ranged CopyObject, content-deduplicated parts).
   Digests are symbolic: a number stands for "all digests of one byte string" (equal numbers <-> equal
   bytes).  Object-level values: ETag = digest of the only part | md5-of-md5s with a "-N" suffix;
   a checksum field (CRC32 stands for the CRC family, SHA256 for the SHA family) = plain digest |
   composite (digest of the part digests, "-N") | combined (CRC combine = CRC of the concatenation).
   No proofs here. *)
From Verif Require Import Bytes Codec.

Inductive ctype := TFull | TComp.
Inductive etag := Single (d : N) | Multi (ds : list N) (n : nat) | Garbled.
Inductive cks := Plain (d : N) | Comp (ds : list N) (n : nat) | Comb (ds : list N) | GarbledC.
Record part := { rec : N; actual : option N }.       (* recorded digest; digest of the stored bytes / GetPart fails *)
Record obj := { otype : ctype; oetag : etag; ocrc : option cks; osha : option cks; parts : list part }.

Fixpoint Ns_eqb (a b : list N) : bool :=
  match a, b with
  | [], [] => true
  | x :: a', y :: b' => (x =? y)%N && Ns_eqb a' b'
  | _, _ => false
  end.
Definition etag_eqb (a b : etag) : bool :=
  match a, b with
  | Single x, Single y => (x =? y)%N
  | Multi x n, Multi y k => Ns_eqb x y && Nat.eqb n k
  | _, _ => false
  end.
Definition cks_eqb (a b : cks) : bool :=
  match a, b with
  | Plain x, Plain y => (x =? y)%N
  | Comp x n, Comp y k => Ns_eqb x y && Nat.eqb n k
  | Comb x, Comb y => Ns_eqb x y
  | _, _ => false
  end.
(* CRC combine over the parts; the combine of one part is that part's plain CRC *)
Definition mk_comb (ds : list N) : cks := match ds with [d] => Plain d | _ => Comb ds end.
Definition calc_comb (ds : list N) : option cks := match ds with [] => None | _ => Some (mk_comb ds) end.

(* "if recorded != nil && calculated != nil { must be equal }" *)
Definition opt_match (recorded calculated : option cks) : bool :=
  match recorded, calculated with Some a, Some b => cks_eqb a b | _, _ => true end.

(* GetPart + CalculateChecksumsStreaming + verifyPartChecksums *)
Definition part_ok (p : part) : bool :=
  match actual p with Some a => (a =? rec p)%N | None => false end.

(* verifyObjectChecksums: exactly one part -> the object's values against the calculated part values;
   otherwise against CalculateMultipartChecksums(RECORDED part values, the object's checksum type) *)
Definition object_ok (o : obj) : bool :=
  match parts o with
  | [p] => match actual p with
           | Some a => etag_eqb (oetag o) (Single a) && opt_match (ocrc o) (Some (Plain a))
                       && opt_match (osha o) (Some (Plain a))
           | None => false
           end
  | ps => let recs := map rec ps in
          let n := length ps in
          etag_eqb (oetag o) (Multi recs n) &&
          match otype o with
          | TComp => opt_match (ocrc o) (Some (Comp recs n)) && opt_match (osha o) (Some (Comp recs n))
          | TFull => opt_match (ocrc o) (calc_comb recs)
          end
  end.

(* validateObject: Success *)
Definition validate_object (o : obj) : bool :=
  if forallb part_ok (parts o) then object_ok o else false.

(* findPartStore: a struct has a *NamedPartStores field (its Default() store is used; since /repo
   df6e7b9) or a field implementing PartStore, or a Storage field whose struct has one *)
Inductive layout := L (direct_partstore : bool) (storage_fields : list layout).
Fixpoint find_part_store (l : layout) : bool :=
  match l with L d inner => d || existsb find_part_store inner end.

(* metadataPartStorage: lifecycle, db, metadataStore, *NamedPartStores, gc, task handle, tracer.
   Before df6e7b9 no field counted (layout [L false []], ValidateAll always failed); now the
   *NamedPartStores field yields the default part store *)
Definition current_layout : layout := L true [].

(* ValidateAll: None = error; per object (success, deleted) *)
Definition validate_all (l : layout) (del : bool) (objs : list obj) : option (list (bool * bool)) :=
  if find_part_store l then
    Some (map (fun o => let s := validate_object o in (s, negb s && del)) objs)
  else None.

(* ---- how the storage records objects (what the harness builds) -------------------------------- *)
(* the state of the part files: a content id (= part file, parts are deduplicated by content) that was
   modified maps to its new digest (Some) or to "file gone" (None) *)
Definition world := list (N * option N).
Fixpoint wfind (w : world) (id : N) : option (option N) :=
  match w with [] => None | (k, v) :: w' => if (k =? id)%N then Some v else wfind w' id end.
Definition resolve (w : world) (id : N) : part :=
  {| rec := id; actual := match wfind w id with None => Some id | Some v => v end |}.

(* object records before the part files are looked at: the content ids of the parts *)
Record spec := { stype : ctype; setag : etag; scrc : option cks; ssha : option cks; sids : list N }.
Definition put_spec (id : N) : spec :=
  {| stype := TFull; setag := Single id; scrc := Some (Plain id); ssha := Some (Plain id); sids := [id] |}.
Definition multipart_spec (t : ctype) (ids : list N) : spec :=
  let n := length ids in
  match t with
  | TComp => {| stype := TComp; setag := Multi ids n; scrc := Some (Comp ids n); ssha := Some (Comp ids n); sids := ids |}
  | TFull => {| stype := TFull; setag := Multi ids n; scrc := calc_comb ids; ssha := None; sids := ids |}
  end.
Definition append_spec (ids : list N) : spec :=
  {| stype := TFull; setag := Multi ids (length ids); scrc := None; ssha := None; sids := ids |}.
Definition to_obj (w : world) (s : spec) : obj :=
  {| otype := stype s; oetag := setag s; ocrc := scrc s; osha := ssha s; parts := map (resolve w) (sids s) |}.

(* tampering with the recorded object values *)
Definition tamper (c : byte) (s : spec) : spec :=
  if beqb c "e"%byte then {| stype := stype s; setag := Garbled; scrc := scrc s; ssha := ssha s; sids := sids s |}
  else if beqb c "c"%byte then
    {| stype := stype s; setag := setag s; scrc := match scrc s with Some _ => Some GarbledC | None => None end;
       ssha := ssha s; sids := sids s |}
  else if beqb c "n"%byte then
    {| stype := stype s;
       setag := match setag s with Multi ds _ => Multi ds 9 | _ => Garbled end;
       scrc := match scrc s with Some (Comp ds _) => Some (Comp ds 9) | x => x end;
       ssha := ssha s; sids := sids s |}
  else if beqb c "t"%byte then
    {| stype := match stype s with TFull => TComp | TComp => TFull end;
       setag := setag s; scrc := scrc s; ssha := ssha s; sids := sids s |}
  else s.

(* ---- line protocol (see harness/c39.go) ---- *)
Definition dummy_spec : spec := put_spec 0.
Definition ids_from (base : N) (offs : list N) : list N := map (fun o => (base + o)%N) offs.
Definition kind_spec (sofar : list spec) (i : nat) (kind : bytes) : option spec :=
  let base := (1000 * N.of_nat (S i))%N in
  match kind with
  | [] => None
  | c :: rest =>
    if bytes_eqb kind B"S" then Some (put_spec base)
    else if bytes_eqb kind B"E" then Some (put_spec 2)
    else if bytes_eqb kind B"A" then Some (append_spec (ids_from base [0; 14]%N))
    else if bytes_eqb kind B"A1" then Some (append_spec (ids_from base [14]%N))
    else if bytes_eqb kind B"AC" then Some (append_spec (ids_from base [0; 2; 14]%N))
    else match parse_nat rest with
    | None => None
    | Some j =>
      if beqb c "M"%byte || beqb c "F"%byte then Some (multipart_spec TFull (ids_from base (map (fun p => (2 * N.of_nat p)%N) (seq 0 j))))
      else if beqb c "C"%byte then Some (multipart_spec TComp (ids_from base (map (fun p => (2 * N.of_nat p)%N) (seq 0 j))))
      else
        let src := nth j sofar dummy_spec in
        if (length sofar <=? j) then None
        else if beqb c "T"%byte then Some (put_spec (hd 0%N (sids src)))
        else if beqb c "K"%byte then Some src
        else if beqb c "R"%byte then
          Some (put_spec (match sids src with [id] => id | _ => base end))
        else if beqb c "P"%byte then Some (put_spec (base + 500)%N)
        else None
    end
  end.

(* the first fault that reaches a part file wins; flipping/truncating the empty file (id 2) changes nothing *)
Fixpoint apply_faults (w : world) (ids : list N) (faults : bytes) : world :=
  match ids, faults with
  | id :: ids', f :: faults' =>
      let w' := if beqb f "N"%byte then w
                else match wfind w id with
                     | Some _ => w
                     | None => if beqb f "X"%byte then (id, None) :: w
                               else if (id =? 2)%N then w else (id, Some (id + 1)%N) :: w
                     end in
      apply_faults w' ids' faults'
  | _, _ => w
  end.

(* pass 1: specs (untampered, so that copies see the source as created); pass 2: faults and tampering *)
Fixpoint build_specs (sofar : list spec) (i : nat) (ts : list bytes) : option (list spec) :=
  match ts with
  | [] => Some sofar
  | t :: ts' => match split_on ":"%byte t with
                | kd :: _ => match kind_spec sofar i kd with
                             | Some s => build_specs (sofar ++ [s]) (S i) ts'
                             | None => None
                             end
                | [] => None
                end
  end.
Fixpoint faults_and_tampers (w : world) (specs : list spec) (ts : list bytes) : world * list spec :=
  match specs, ts with
  | s :: specs', t :: ts' =>
      let f := split_on ":"%byte t in
      let w' := apply_faults w (sids s) (nth 1 f []) in
      let s' := match nth 2 f [] with c :: _ => tamper c s | [] => s end in
      let r := faults_and_tampers w' specs' ts' in
      (fst r, s' :: snd r)
  | _, _ => (w, [])
  end.

Definition count_true (l : list bool) : nat := length (filter (fun b => b) l).
Definition show_counts (rs : list (bool * bool)) : bytes :=
  show_nat (length rs) ++ B"/" ++ show_nat (count_true (map (fun r : bool * bool => negb (fst r)) rs))
  ++ B"/" ++ show_nat (count_true (map (fun r : bool * bool => snd r) rs)).

Definition run_line (l : bytes) : bytes :=
  match tokens l with
  | [md; os] =>
      let ts := split_on ","%byte os in
      do specs <- build_specs [] 0 ts;
      let ws := faults_and_tampers [] specs ts in
      let objs := map (to_obj (fst ws)) (snd ws) in
      let del := bytes_eqb md B"D" in
      let va := match validate_all current_layout del objs with
                | None => B"ERR"
                | Some rs => map (fun r : bool * bool => if fst r then "-"%byte else if snd r then "D"%byte else "R"%byte) rs
                             ++ B":" ++ show_counts rs
                end in
      va ++ B" | " ++ map (fun o => if validate_object o then "-"%byte else "R"%byte) objs
  | _ => parse_error
  end.
