(* Model/Meta.v — M-META: executable model of the metadata/part storage
   (internal/storage/metadatapart/*.go over metadatastore/sql/*.go and the sqlite repositories),
   at the granularity of repository calls.  Faithful to what the code DOES, including its defects.
   No proofs here.  One default part store; contents are real byte strings. *)
From Verif Require Import Bytes Codec Md5.

(* ---------- values ---------- *)
Inductive vstate := VUnset | VEnabled | VSuspended.
Inductive vid := VNull | VId (n : N).                 (* version ids: "null" or a fresh id *)
Inductive etag := ENone                                 (* "" : delete markers, pending uploads *)
                | EMd5 (c : bytes) (str : bytes)        (* md5 of these bytes; str caches the rendered ETag *)
                | EMulti (cs : list bytes) (str : bytes) (* md5 of the part md5s, "-n"; str caches the rendering *)
                | ERaw (t : bytes).                     (* a literal ETag string supplied by a client *)

Definition vid_eqb (a b : vid) : bool :=
  match a, b with VNull, VNull => true | VId x, VId y => N.eqb x y | _, _ => false end.
Fixpoint list_bytes_eqb (a b : list bytes) : bool :=
  match a, b with
  | [], [] => true
  | x :: a', y :: b' => bytes_eqb x y && list_bytes_eqb a' b'
  | _, _ => false
  end.
Definition etag_eqb (a b : etag) : bool :=
  match a, b with
  | ENone, ENone => true
  | EMd5 x _, EMd5 y _ => bytes_eqb x y
  | EMulti x _, EMulti y _ => list_bytes_eqb x y
  | ERaw x, ERaw y => bytes_eqb x y
  | _, _ => false
  end.

Definition md5_etag_str (c : bytes) : bytes := B"""" ++ md5_hex c ++ B"""".
Definition multi_etag_str (cs : list bytes) : bytes :=
  B"""" ++ md5_hex (concat (map md5 cs)) ++ B"-" ++ show_nat (length cs) ++ B"""".
Definition mk_md5 (c : bytes) : etag := EMd5 c (md5_etag_str c).
Definition mk_multi (cs : list bytes) : etag := EMulti cs (multi_etag_str cs).

Record bucket := { b_name : bytes; b_ver : vstate }.

(* objects table row *)
Record orow := {
  o_id : N;
  o_bucket : bytes;
  o_key : bytes;
  o_vid : option vid;          (* None: pending upload rows *)
  o_latest : bool;
  o_dm : bool;
  o_upload : option N;         (* Some uid: upload_status = PENDING; None: COMPLETED *)
  o_created : N;
  o_updated : N;
  o_lock : N;
  o_etag : etag;
  o_size : Z;
  o_ctype : option bytes;
  o_class : option bytes;
  o_tags : list (bytes * bytes);
  o_umeta : list (bytes * bytes);
  o_written : N                (* GHOST, never printed: clock value of the last write of this row's content
                                  (insert of a completed row, completion, in-place overwrite, in-place append);
                                  exists only so that "most recently written version" is definable *)
}.

(* parts table row: the recorded content stands for the recorded size/etag/checksums *)
Record prow := { p_obj : N; p_seq : N; p_pid : N; p_content : bytes }.

Record mstate := {
  buckets : list bucket;
  objs : list orow;
  parts : list prow;
  registry : list (N * N);            (* part id -> ref_count (> 0 while present) *)
  dedup : list (bytes * N);           (* content (stands for sha256+size+checksums) -> part id *)
  store : list (N * bytes);           (* default part store: part id -> bytes *)
  next_id : N;                        (* fresh ids: rows, parts, versions, uploads *)
  clock : N
}.

Definition init : mstate :=
  {| buckets := []; objs := []; parts := []; registry := []; dedup := []; store := [];
     next_id := 1; clock := 1 |}.

(* ---------- functional record updates ---------- *)
Definition set_objs (s : mstate) (o : list orow) : mstate :=
  {| buckets := buckets s; objs := o; parts := parts s; registry := registry s; dedup := dedup s;
     store := store s; next_id := next_id s; clock := clock s |}.
Definition set_parts (s : mstate) (p : list prow) : mstate :=
  {| buckets := buckets s; objs := objs s; parts := p; registry := registry s; dedup := dedup s;
     store := store s; next_id := next_id s; clock := clock s |}.
Definition set_registry (s : mstate) (r : list (N * N)) : mstate :=
  {| buckets := buckets s; objs := objs s; parts := parts s; registry := r; dedup := dedup s;
     store := store s; next_id := next_id s; clock := clock s |}.
Definition set_dedup (s : mstate) (d : list (bytes * N)) : mstate :=
  {| buckets := buckets s; objs := objs s; parts := parts s; registry := registry s; dedup := d;
     store := store s; next_id := next_id s; clock := clock s |}.
Definition set_store (s : mstate) (st : list (N * bytes)) : mstate :=
  {| buckets := buckets s; objs := objs s; parts := parts s; registry := registry s; dedup := dedup s;
     store := st; next_id := next_id s; clock := clock s |}.
Definition set_buckets (s : mstate) (b : list bucket) : mstate :=
  {| buckets := b; objs := objs s; parts := parts s; registry := registry s; dedup := dedup s;
     store := store s; next_id := next_id s; clock := clock s |}.
Definition fresh (s : mstate) : N * mstate :=
  (next_id s,
   {| buckets := buckets s; objs := objs s; parts := parts s; registry := registry s; dedup := dedup s;
      store := store s; next_id := next_id s + 1; clock := clock s |}).
Definition tick (s : mstate) : N * mstate :=           (* time.Now() *)
  (clock s,
   {| buckets := buckets s; objs := objs s; parts := parts s; registry := registry s; dedup := dedup s;
      store := store s; next_id := next_id s; clock := clock s + 1 |}).

Definition with_row (r : orow) (latest : bool) (upd lock : N) : orow :=
  {| o_id := o_id r; o_bucket := o_bucket r; o_key := o_key r; o_vid := o_vid r; o_latest := latest;
     o_dm := o_dm r; o_upload := o_upload r; o_created := o_created r; o_updated := upd; o_lock := lock;
     o_etag := o_etag r; o_size := o_size r; o_ctype := o_ctype r; o_class := o_class r;
     o_tags := o_tags r; o_umeta := o_umeta r; o_written := o_written r |}.

(* ---------- repositories ---------- *)
Definition find_bucket (s : mstate) (b : bytes) : option bucket :=
  find (fun x => bytes_eqb (b_name x) b) (buckets s).

Definition completed (r : orow) : bool := match o_upload r with None => true | Some _ => false end.
Definition on_key (b k : bytes) (r : orow) : bool := bytes_eqb (o_bucket r) b && bytes_eqb (o_key r) k.

(* FindObjectByBucketNameAndKey: upload_status = COMPLETED AND is_latest = 1 *)
Definition find_latest (s : mstate) (b k : bytes) : option orow :=
  find (fun r => on_key b k r && completed r && o_latest r) (objs s).
(* FindObjectByBucketNameAndKeyAndVersionID *)
Definition find_version (s : mstate) (b k : bytes) (v : vid) : option orow :=
  find (fun r => on_key b k r && completed r &&
                 match o_vid r with Some v' => vid_eqb v v' | None => false end) (objs s).
Definition find_null (s : mstate) (b k : bytes) : option orow := find_version s b k VNull.
Definition find_upload (s : mstate) (b k : bytes) (u : N) : option orow :=
  find (fun r => on_key b k r && match o_upload r with Some u' => N.eqb u u' | None => false end) (objs s).
(* FindLatestObjectByBucketNameAndKeyExcludingID: ORDER BY created_at DESC LIMIT 1 *)
Definition max_created (a : option orow) (r : orow) : option orow :=
  match a with
  | None => Some r
  | Some x => if (o_created x <? o_created r)%N then Some r else Some x
  end.
Definition find_next_latest (s : mstate) (b k : bytes) (excl : N) : option orow :=
  fold_left max_created
    (filter (fun r => on_key b k r && completed r && negb (N.eqb (o_id r) excl)) (objs s)) None.

Definition delete_row (s : mstate) (id : N) : mstate :=
  set_objs s (filter (fun r => negb (N.eqb (o_id r) id)) (objs s)).

(* SaveObject on an existing id: UPDATE … WHERE id (0 rows when the row is gone);
   optimistic_lock_version + 1, updated_at = now *)
Definition update_row (s : mstate) (r : orow) : mstate :=
  let '(now, s) := tick s in
  set_objs s (map (fun x => if N.eqb (o_id x) (o_id r)
                            then with_row r (o_latest r) now (o_lock x + 1) else x) (objs s)).
(* SaveObject with Id = nil: INSERT, created_at = updated_at = now, lock version 1 *)
Definition insert_row (s : mstate) (mk : N -> N -> orow) : N * mstate :=
  let '(id, s) := fresh s in
  let '(now, s) := tick s in
  (id, set_objs s (objs s ++ [mk id now])).
(* UpdateObjectByIdAndOptimisticLockVersion: sequentially the version always matches when the row exists *)
Definition set_latest (s : mstate) (r : orow) (l : bool) : mstate :=
  update_row s (with_row r l (o_updated r) (o_lock r)).

(* part registry *)
Fixpoint reg_get (r : list (N * N)) (pid : N) : option N :=
  match r with [] => None | (p, c) :: r' => if N.eqb p pid then Some c else reg_get r' pid end.
Fixpoint reg_set (r : list (N * N)) (pid c : N) : list (N * N) :=
  match r with
  | [] => [(pid, c)]
  | (p, c') :: r' => if N.eqb p pid then (p, c) :: r' else (p, c') :: reg_set r' pid c
  end.
Definition reg_del (r : list (N * N)) (pid : N) : list (N * N) :=
  filter (fun x => negb (N.eqb (fst x) pid)) r.

(* RegisterParts: INSERT (ids are fresh or, for a duplicate id inside one call, aggregated) *)
Definition register_part (s : mstate) (pid : N) : mstate :=
  set_registry s (match reg_get (registry s) pid with
                  | None => reg_set (registry s) pid 1
                  | Some c => reg_set (registry s) pid (c + 1)
                  end).
(* TryAddReferences: ref_count + 1 WHERE ref_count > 0; false when a row is missing.
   (The Go code stops at the first missing id and the caller aborts the transaction.) *)
Fixpoint try_add_refs (r : list (N * N)) (pids : list N) : option (list (N * N)) :=
  match pids with
  | [] => Some r
  | p :: rest => match reg_get r p with
                 | Some c => if (0 <? c)%N then try_add_refs (reg_set r p (c + 1)) rest else None
                 | None => None
                 end
  end.
(* RemoveReferences for one id: decrement; at zero delete the registry row (+ dedup entry) and
   report the id as unreferenced *)
Definition remove_ref (s : mstate) (pid : N) : mstate * bool :=
  match reg_get (registry s) pid with
  | None => (s, false)
  | Some c =>
      if (c <? 1)%N then (s, false)
      else if (c =? 1)%N then
        (set_dedup (set_registry s (reg_del (registry s) pid))
                   (filter (fun x => negb (N.eqb (snd x) pid)) (dedup s)), true)
      else (set_registry s (reg_set (registry s) pid (c - 1)), false)
  end.

(* removePartRowsBy…: delete the part rows, drop their references; returns unreferenced part ids *)
Fixpoint remove_refs (s : mstate) (pids : list N) : mstate * list N :=
  match pids with
  | [] => (s, [])
  | p :: rest => let '(s, z) := remove_ref s p in
                 let '(s, zs) := remove_refs s rest in
                 (s, if z then p :: zs else zs)
  end.
Definition remove_part_rows (s : mstate) (sel : prow -> bool) : mstate * list N :=
  let gone := filter sel (parts s) in
  let s := set_parts s (filter (fun p => negb (sel p)) (parts s)) in
  remove_refs s (map p_pid gone).
Definition remove_parts_of (s : mstate) (oid : N) : mstate * list N :=
  remove_part_rows s (fun p => N.eqb (p_obj p) oid).

(* part store *)
Fixpoint store_get (st : list (N * bytes)) (pid : N) : option bytes :=
  match st with [] => None | (p, c) :: r => if N.eqb p pid then Some c else store_get r pid end.
Definition store_put (s : mstate) (pid : N) (c : bytes) : mstate := set_store s ((pid, c) :: store s).
Definition store_del (s : mstate) (pid : N) : mstate :=
  set_store s (filter (fun x => negb (N.eqb (fst x) pid)) (store s)).
(* deleteUnreferencedParts *)
Definition delete_unreferenced (s : mstate) (pids : list N) : mstate := fold_left store_del pids s.

(* a part to be attached to an object: id, content, reference already acquired? *)
Record npart := { n_pid : N; n_content : bytes; n_pre : bool }.

(* savePartRows *)
Fixpoint save_part_rows (s : mstate) (oid : N) (ps : list npart) (seq : N) : mstate :=
  match ps with
  | [] => s
  | p :: rest =>
      let s := set_parts s (parts s ++ [{| p_obj := oid; p_seq := seq; p_pid := n_pid p; p_content := n_content p |}]) in
      let s := if n_pre p then s else register_part s (n_pid p) in
      save_part_rows s oid rest (seq + 1)
  end.

Fixpoint dedup_get (d : list (bytes * N)) (c : bytes) : option N :=
  match d with [] => None | (k, p) :: r => if bytes_eqb k c then Some p else dedup_get r c end.

(* PutPart of fresh bytes followed by dedupeFreshPart *)
Definition put_fresh_part (s : mstate) (c : bytes) : npart * mstate :=
  let '(pid, s) := fresh s in
  let s := store_put s pid c in
  match dedup_get (dedup s) c with
  | Some shared =>
      match try_add_refs (registry s) [shared] with
      | Some r' => ({| n_pid := shared; n_content := c; n_pre := true |},
                    store_del (set_registry s r') pid)
      | None => (* stale index entry: removed, fresh part indexed in its place *)
          let s := set_dedup s (filter (fun x => negb (N.eqb (snd x) shared)) (dedup s)) in
          ({| n_pid := pid; n_content := c; n_pre := false |}, set_dedup s (dedup s ++ [(c, pid)]))
      end
  | None => ({| n_pid := pid; n_content := c; n_pre := false |}, set_dedup s (dedup s ++ [(c, pid)]))
  end.

Definition obj_parts (s : mstate) (oid : N) : list prow :=
  (* FindPartsByObjectIdOrderBySequenceNumberAsc; rows are kept in insertion order per object and
     sequence numbers of completed objects are inserted ascending; pending uploads are sorted *)
  filter (fun p => N.eqb (p_obj p) oid) (parts s).

Fixpoint insert_sorted (p : prow) (l : list prow) : list prow :=
  match l with
  | [] => [p]
  | q :: r => if (p_seq p <=? p_seq q)%N then p :: l else q :: insert_sorted p r
  end.
Definition sort_parts (l : list prow) : list prow := fold_right insert_sorted [] l.

(* ---------- results ---------- *)
Inductive err :=
  | NoSuchBucket | NoSuchKey | BucketExists | BucketNotEmpty | PreconditionFailed | InvalidRange
  | CurrentDM (v : vid) | VersionDM (v : vid) | InvalidPart | InvalidPartOrder | InvalidSeq
  | InvalidWriteOffset | NoSuchUpload | OtherErr.

Record lsv_entry := { le_key : bytes; le_vid : vid; le_latest : bool; le_dm : bool; le_etag : etag; le_size : Z }.

Inductive res :=
  | ROk
  | RErr (e : err)
  | RPut (v : vid) (e : etag)
  | RObj (v : vid) (e : etag) (size : Z) (lm : N) (ctype : option bytes) (body : option bytes)
  | RDel (v : option vid) (dm : bool)
  | RUpload (u : N)
  | REtag (e : etag)
  | RAppend (e : etag) (size : Z)
  | RLsv (l : list lsv_entry)
  | RLs (l : list (bytes * etag * Z)).

(* write conditions *)
Inductive cond := CNone | CIfMatch (e : etag) | CIfMatchAny | CIfNoneMatchStar.

(* the (bucket,key,COMPLETED,is_latest=1) and (bucket,key,COMPLETED,version_id) unique indexes *)
Fixpoint count_occ_f {A} (f : A -> bool) (l : list A) : nat :=
  match l with [] => 0 | x :: r => (if f x then 1 else 0) + count_occ_f f r end.
Definition unique_ok (s : mstate) : bool :=
  forallb (fun r =>
    if completed r then
      (negb (o_latest r) ||
       (count_occ_f (fun x => on_key (o_bucket r) (o_key r) x && completed x && o_latest x) (objs s) <=? 1))
      && match o_vid r with
         | Some v => count_occ_f (fun x => on_key (o_bucket r) (o_key r) x && completed x &&
                                    match o_vid x with Some v' => vid_eqb v v' | None => false end) (objs s) <=? 1
         | None => true
         end
    else true) (objs s).
(* UNIQUE(object_id, sequence_number) on parts *)
Definition parts_unique_ok (s : mstate) : bool :=
  forallb (fun p => count_occ_f (fun q => N.eqb (p_obj q) (p_obj p) && N.eqb (p_seq q) (p_seq p)) (parts s) <=? 1)
          (parts s).
(* a transaction: on error, or when a unique index is violated, everything rolls back *)
Definition commit (s0 : mstate) (r : mstate * res) : mstate * res :=
  match snd r with
  | RErr _ => (s0, snd r)
  | _ => if unique_ok (fst r) && parts_unique_ok (fst r) then r else (s0, RErr OtherErr)
  end.

Definition exists_obj (o : option orow) : bool := match o with Some r => negb (o_dm r) | None => false end.

Definition cond_fails (c : cond) (latest : option orow) : bool :=
  match c with
  | CNone => false
  | CIfMatchAny => negb (exists_obj latest)
  | CIfMatch e => negb (exists_obj latest) ||
                  match latest with Some r => negb (etag_eqb (o_etag r) e) | None => true end
  | CIfNoneMatchStar => exists_obj latest
  end.
Definition is_cond (c : cond) : bool := match c with CNone => false | _ => true end.
Definition is_inm (c : cond) : bool := match c with CIfNoneMatchStar => true | _ => false end.

Record newobj := {
  w_etag : etag; w_size : Z; w_ctype : option bytes; w_class : option bytes;
  w_tags : list (bytes * bytes); w_umeta : list (bytes * bytes); w_parts : list npart
}.

Definition mk_row (b k : bytes) (v : option vid) (latest dm : bool) (upl : option N) (w : newobj)
                  (id now : N) : orow :=
  {| o_id := id; o_bucket := b; o_key := k; o_vid := v; o_latest := latest; o_dm := dm; o_upload := upl;
     o_created := now; o_updated := now; o_lock := 1; o_etag := w_etag w; o_size := w_size w;
     o_ctype := w_ctype w; o_class := w_class w; o_tags := w_tags w; o_umeta := w_umeta w; o_written := now |}.

(* sqlMetadataStore.PutObject *)
Definition meta_put (s : mstate) (vn : N) (b k : bytes) (w : newobj) (c : cond) : mstate * res * list N :=
  match find_bucket s b with
  | None => (s, RErr NoSuchBucket, [])
  | Some bk =>
    let latest := find_latest s b k in
    if cond_fails c latest then (s, RErr PreconditionFailed, []) else
    (* conditional writes take the optimistic lock on the latest row (bumps updated_at) *)
    let s := match latest with
             | Some r => if is_cond c then set_latest s r (o_latest r) else s
             | None => s
             end in
    let latest := find_latest s b k in
    match b_ver bk with
    | VEnabled =>
        let s := match latest with Some r => set_latest s r false | None => s end in
        let '(id, s) := insert_row s (mk_row b k (Some (VId vn)) true false None w) in
        let s := save_part_rows s id (w_parts w) 0 in
        (s, RPut (VId vn) (w_etag w), [])
    | _ =>
        let nullrow := find_null s b k in
        if is_inm c && match nullrow with Some _ => true | None => false end
        then (s, RErr PreconditionFailed, []) else
        let s := match latest with Some r => set_latest s r false | None => s end in
        match nullrow with
        | Some nr =>
            (* the null row is overwritten in place: id and created_at are kept *)
            let r' := {| o_id := o_id nr; o_bucket := b; o_key := k; o_vid := Some VNull; o_latest := true;
                         o_dm := false; o_upload := None; o_created := o_created nr; o_updated := o_updated nr;
                         o_lock := o_lock nr; o_etag := w_etag w; o_size := w_size w; o_ctype := w_ctype w;
                         o_class := w_class w; o_tags := w_tags w; o_umeta := w_umeta w; o_written := clock s |} in
            let s := update_row s r' in
            let '(s, unref) := remove_parts_of s (o_id nr) in
            let s := save_part_rows s (o_id nr) (w_parts w) 0 in
            (s, RPut VNull (w_etag w), unref)
        | None =>
            let '(id, s) := insert_row s (mk_row b k (Some VNull) true false None w) in
            let s := save_part_rows s id (w_parts w) 0 in
            (s, RPut VNull (w_etag w), [])
        end
    end
  end.

Definition plain_obj (e : etag) (size : Z) (ps : list npart) : newobj :=
  {| w_etag := e; w_size := size; w_ctype := None; w_class := None; w_tags := []; w_umeta := []; w_parts := ps |}.

Definition zlen (c : bytes) : Z := Z.of_nat (length c).

(* metadataPartStorage.PutObject *)
Definition op_put (s0 : mstate) (vn : N) (b k content : bytes) (c : cond) : mstate * res :=
  commit s0 (
    let '(np, s) := put_fresh_part s0 content in
    let '(s, r, unref) := meta_put s vn b k (plain_obj (mk_md5 content) (zlen content) [np]) c in
    (delete_unreferenced s unref, r)).

(* ---------- reads ---------- *)
Definition read_parts (s : mstate) (ps : list prow) : option bytes :=
  fold_left (fun acc p => match acc, store_get (store s) (p_pid p) with
                          | Some a, Some c => Some (a ++ c)
                          | _, _ => None
                          end) ps (Some []).
Definition row_parts (s : mstate) (r : orow) : list prow := sort_parts (obj_parts s (o_id r)).
Definition parts_size (ps : list prow) : Z := fold_left (fun a p => (a + zlen (p_content p))%Z) ps 0%Z.
(* objectPartManifestComplete *)
Definition manifest_complete (s : mstate) (r : orow) : bool :=
  let ps := row_parts s r in
  Z.eqb (parts_size ps) (o_size r) && (Z.eqb (o_size r) 0 || negb (is_nil ps)).

Definition row_vid (r : orow) : vid := match o_vid r with Some v => v | None => VNull end.

Definition lookup (s : mstate) (b k : bytes) (v : option vid) : option orow + err :=
  match find_bucket s b with
  | None => inr NoSuchBucket
  | Some _ =>
      match v with
      | None => match find_latest s b k with
                | None => inr NoSuchKey
                | Some r => if o_dm r then inr (CurrentDM (row_vid r)) else inl (Some r)
                end
      | Some v => match find_version s b k v with
                  | None => inr NoSuchKey
                  | Some r => if o_dm r then inr (VersionDM (row_vid r)) else inl (Some r)
                  end
      end
  end.

Definition op_head (s : mstate) (b k : bytes) (v : option vid) : res :=
  match lookup s b k v with
  | inr e => RErr e
  | inl None => RErr NoSuchKey
  | inl (Some r) => RObj (row_vid r) (o_etag r) (o_size r) (o_updated r) (o_ctype r) None
  end.

(* GetObject without a Range: the implicit whole-object range goes through createRangeReader; since
   fix 5621e3b the empty implicit range of a zero-length object is served as an empty reader
   (before, start >= end was answered InvalidRange) *)
Definition op_get (s : mstate) (b k : bytes) (v : option vid) : res :=
  match lookup s b k v with
  | inr e => RErr e
  | inl None => RErr NoSuchKey
  | inl (Some r) =>
      if (o_size r <? 0)%Z then RErr InvalidRange else
      match read_parts s (row_parts s r) with
      | Some body => RObj (row_vid r) (o_etag r) (o_size r) (o_updated r) (o_ctype r)
                          (Some (firstn (Z.to_nat (o_size r)) body))
      | None => RErr OtherErr
      end
  end.

(* ---------- delete ---------- *)
Definition purge_row (s : mstate) (r : orow) : mstate * list N :=
  let '(s, unref) := if o_dm r then (s, []) else remove_parts_of s (o_id r) in
  (delete_row s (o_id r), unref).

Definition del_cond_fails (c : cond) (cur : option orow) : bool :=
  match c with
  | CIfMatchAny => negb (exists_obj cur)
  | CIfMatch e => negb (exists_obj cur) || match cur with Some r => negb (etag_eqb (o_etag r) e) | None => true end
  | _ => false
  end.

(* sqlMetadataStore.DeleteObject, reached after the existence probe of metadataPartStorage.DeleteObject *)
Definition meta_delete (s : mstate) (vn : N) (bk : bucket) (b k : bytes) (v : option vid) (c : cond)
  : mstate * res * list N :=
  let current := find_latest s b k in
  match v with
  | Some v =>
      match find_version s b k v with
      | None => (s, RDel (Some v) false, [])
      | Some ve =>
          if match c with CIfMatch e => o_dm ve || negb (etag_eqb (o_etag ve) e) | _ => false end
          then (s, RErr PreconditionFailed, []) else
          let '(s, unref) := purge_row s ve in
          let s := if o_latest ve then
                     match find_next_latest s b k (o_id ve) with
                     | Some nx => set_latest s nx true      (* promotion: newest created_at *)
                     | None => s
                     end
                   else s in
          (s, RDel (Some (row_vid ve)) (o_dm ve), unref)
      end
  | None =>
      if del_cond_fails c current then (s, RErr PreconditionFailed, []) else
      match b_ver bk with
      | VUnset =>
          match current with
          | Some cur =>
              let s := if is_cond c then set_latest s cur (o_latest cur) else s in
              let '(s, unref) := purge_row s cur in
              (s, RDel None false, unref)
          | None => (s, RDel None false, [])
          end
      | vs =>
          let '(s, unref) := match vs, find_null s b k with
                             | VSuspended, Some nr =>
                                 let '(s, u) := remove_parts_of s (o_id nr) in (delete_row s (o_id nr), u)
                             | _, _ => (s, [])
                             end in
          let s := match current with Some cur => set_latest s cur false | None => s end in
          let '(_, s) := insert_row s (mk_row b k (Some (VId vn)) true true None (plain_obj ENone 0 [])) in
          (s, RDel (Some (VId vn)) true, unref)
      end
  end.

Definition op_delete (s0 : mstate) (vn : N) (b k : bytes) (v : option vid) (c : cond) : mstate * res :=
  commit s0 (
  let s := s0 in
  match find_bucket s b with
  | None => (s, RErr NoSuchBucket)
  | Some bk =>
    let versioned := match b_ver bk with VUnset => false | _ => true end in
    let probe := match v with
                 | Some v => find_version s b k v
                 | None => match b_ver bk with VSuspended => find_null s b k | _ => find_latest s b k end
                 end in
    let proceed := match probe, v with
                   | Some _, _ => true
                   | None, None => versioned
                   | None, Some _ => false
                   end in
    if proceed then
      let '(s, r, unref) := meta_delete s vn bk b k v c in
      (delete_unreferenced s unref, r)
    else if is_cond c then (s, RErr PreconditionFailed) else (s, RDel None false)
  end).

(* ---------- buckets ---------- *)
Definition op_mb (s : mstate) (b : bytes) : mstate * res :=
  match find_bucket s b with
  | Some _ => (s, RErr BucketExists)
  | None => (set_buckets s (buckets s ++ [{| b_name := b; b_ver := VUnset |}]), ROk)
  end.
Definition op_rb (s : mstate) (b : bytes) : mstate * res :=
  match find_bucket s b with
  | None => (s, RErr NoSuchBucket)
  | Some _ =>
      if existsb (fun r => bytes_eqb (o_bucket r) b) (objs s) then (s, RErr BucketNotEmpty)
      else (set_buckets s (filter (fun x => negb (bytes_eqb (b_name x) b)) (buckets s)), ROk)
  end.
Definition op_ver (s : mstate) (b : bytes) (v : vstate) : mstate * res :=
  match find_bucket s b with
  | None => (s, RErr NoSuchBucket)
  | Some _ => (set_buckets s (map (fun x => if bytes_eqb (b_name x) b then {| b_name := b; b_ver := v |} else x)
                                  (buckets s)), ROk)
  end.

(* ---------- listings (projections only; paging/order are C06) ---------- *)
Definition op_lsv (s : mstate) (b : bytes) : res :=
  match find_bucket s b with
  | None => RErr NoSuchBucket
  | Some _ => RLsv (map (fun r => {| le_key := o_key r; le_vid := row_vid r; le_latest := o_latest r;
                                     le_dm := o_dm r; le_etag := o_etag r; le_size := o_size r |})
                        (filter (fun r => bytes_eqb (o_bucket r) b && completed r) (objs s)))
  end.
Definition op_ls (s : mstate) (b : bytes) : res :=
  match find_bucket s b with
  | None => RErr NoSuchBucket
  | Some _ => RLs (map (fun r => (o_key r, o_etag r, o_size r))
                       (filter (fun r => bytes_eqb (o_bucket r) b && completed r && o_latest r && negb (o_dm r))
                               (objs s)))
  end.

(* ---------- multipart ---------- *)
Definition op_cmu (s0 : mstate) (u : N) (b k : bytes) : mstate * res :=
  match find_bucket s0 b with
  | None => (s0, RErr NoSuchBucket)
  | Some _ =>
      let '(_, s) := insert_row s0 (mk_row b k None false false (Some u) (plain_obj ENone (-1) [])) in
      (s, RUpload u)
  end.

(* sqlMetadataStore.UploadPart *)
Definition meta_upload_part (s : mstate) (b k : bytes) (u : N) (pn : N) (np : npart) : mstate * res * list N :=
  match find_bucket s b with
  | None => (s, RErr NoSuchBucket, [])
  | Some _ =>
      match find_upload s b k u with
      | None => (s, RErr NoSuchKey, [])
      | Some r =>
          let '(s, unref) := remove_part_rows s (fun p => N.eqb (p_obj p) (o_id r) && N.eqb (p_seq p) pn) in
          let s := save_part_rows s (o_id r) [np] pn in
          (s, REtag (mk_md5 (n_content np)), unref)
      end
  end.

Definition op_upload_part (s0 : mstate) (b k : bytes) (u pn : N) (content : bytes) : mstate * res :=
  commit s0 (
    (* GetMultipartUpload first *)
    match find_bucket s0 b with
    | None => (s0, RErr NoSuchBucket)
    | Some _ =>
      match find_upload s0 b k u with
      | None => (s0, RErr NoSuchKey)
      | Some _ =>
          let '(np, s) := put_fresh_part s0 content in
          let '(s, r, unref) := meta_upload_part s b k u pn np in
          (delete_unreferenced s unref, r)
      end
    end).

(* declared manifest entry: part number and optionally the ETag (content) the client claims *)
Fixpoint validate_manifest (prev : N) (decl : list (N * option bytes)) (stored : list prow) : option err :=
  match decl with
  | [] => None
  | (pn, e) :: rest =>
      if (pn <=? prev)%N then Some InvalidPartOrder else
      match find (fun p => N.eqb (p_seq p) pn) stored with
      | None => Some InvalidPart
      | Some p => match e with
                  | Some c => if bytes_eqb c (p_content p) then validate_manifest pn rest stored else Some InvalidPart
                  | None => validate_manifest pn rest stored
                  end
      end
  end.

Fixpoint seqs_contiguous (i : N) (ps : list prow) : bool :=
  match ps with [] => true | p :: r => N.eqb (p_seq p) i && seqs_contiguous (i + 1) r end.

(* sqlMetadataStore.CompleteMultipartUpload *)
Definition op_complete (s0 : mstate) (vn : N) (b k : bytes) (u : N) (decl : option (list (N * option bytes))) (c : cond)
  : mstate * res :=
  commit s0 (
  let s := s0 in
  match find_bucket s b with
  | None => (s, RErr NoSuchBucket)
  | Some bk =>
    match find_upload s b k u with
    | None => (s, RErr NoSuchKey)
    | Some up =>
      let ps := sort_parts (obj_parts s (o_id up)) in
      if negb (seqs_contiguous 1 ps) then (s, RErr InvalidSeq) else
      match match decl with
            | Some (d :: ds) =>
                match validate_manifest 0 (d :: ds) ps with
                | Some e => Some e
                | None => if Nat.eqb (length (d :: ds)) (length ps) then None else Some InvalidPart
                end
            | _ => None
            end with
      | Some e => (s, RErr e)
      | None =>
        let latest := find_latest s b k in
        if cond_fails c latest then (s, RErr PreconditionFailed) else
        let s := match latest with
                 | Some r => if is_cond c then set_latest s r (o_latest r) else s
                 | None => s
                 end in
        let latest := find_latest s b k in
        let total := parts_size ps in
        let et := mk_multi (map p_content ps) in
        let finish (s : mstate) (v : vid) (unref : list N) :=
          let s := match latest with Some r => set_latest s r false | None => s end in
          (* the pending row is reused: created_at stays the upload's creation time *)
          let r' := {| o_id := o_id up; o_bucket := b; o_key := k; o_vid := Some v; o_latest := true;
                       o_dm := false; o_upload := None; o_created := o_created up; o_updated := o_updated up;
                       o_lock := o_lock up; o_etag := et; o_size := total; o_ctype := o_ctype up;
                       o_class := o_class up; o_tags := o_tags up; o_umeta := o_umeta up; o_written := clock s |} in
          (delete_unreferenced (update_row s r') unref, RPut v et) in
        match b_ver bk with
        | VEnabled => finish s (VId vn) []
        | _ =>
            match find_null s b k with
            | Some nr =>
                if is_inm c then (s, RErr PreconditionFailed) else
                let '(s, unref) := remove_parts_of s (o_id nr) in
                finish (delete_row s (o_id nr)) VNull unref
            | None => finish s VNull []
            end
        end
      end
    end
  end).

Definition op_abort (s0 : mstate) (b k : bytes) (u : N) : mstate * res :=
  commit s0 (
  match find_bucket s0 b with
  | None => (s0, RErr NoSuchBucket)
  | Some _ =>
      match find_upload s0 b k u with
      | None => (s0, RErr NoSuchKey)
      | Some up =>
          let '(s, unref) := remove_parts_of s0 (o_id up) in
          (delete_unreferenced (delete_row s (o_id up)) unref, ROk)
      end
  end).

(* ---------- append ---------- *)
Definition op_append (s0 : mstate) (vn : N) (b k content : bytes) (off : option Z) : mstate * res :=
  commit s0 (
  let s := s0 in
  match find_bucket s b with
  | None => (s, RErr NoSuchBucket)
  | Some bk =>
    let enabled := match b_ver bk with VEnabled => true | _ => false end in
    let existing := match find_latest s b k with
                    | Some r => if o_dm r then None else Some r
                    | None => None
                    end in
    if match existing with Some r => negb (manifest_complete s r) | None => false end
    then (s, RErr NoSuchKey) else
    if match off, existing with
       | Some o, None => negb (Z.eqb o 0)
       | Some o, Some r => negb (Z.eqb o (o_size r))
       | None, _ => false
       end then (s, RErr InvalidWriteOffset) else
    let '(np, s) := put_fresh_part s content in
    let old_parts := match existing with Some r => row_parts s r | None => [] end in
    let et := mk_multi (map p_content old_parts ++ [content]) in
    let total := (match existing with Some r => o_size r | None => 0 end + zlen content)%Z in
    if enabled then
      (* the new version shares the unchanged prefix: references pre-acquired *)
      match try_add_refs (registry s) (map p_pid old_parts) with
      | None => (s, RErr NoSuchKey)
      | Some reg =>
          let s := set_registry s reg in
          let shared := map (fun p => {| n_pid := p_pid p; n_content := p_content p; n_pre := true |}) old_parts in
          let w := {| w_etag := et; w_size := total;
                      w_ctype := match existing with Some r => o_ctype r | None => None end;
                      w_class := None; w_tags := []; w_umeta := []; w_parts := shared ++ [np] |} in
          let '(s, r, unref) := meta_put s vn b k w CNone in
          (delete_unreferenced s unref,
           match r with RPut _ e => RAppend e total | _ => r end)
      end
    else
      (* sqlMetadataStore.AppendObject, unversioned/suspended: in place on the latest row, whatever it is *)
      match find_latest s b k with
      | Some old =>
          let existing_rows := sort_parts (obj_parts s (o_id old)) in
          let r' := {| o_id := o_id old; o_bucket := b; o_key := k; o_vid := o_vid old; o_latest := true;
                       o_dm := false; o_upload := None; o_created := o_created old; o_updated := o_updated old;
                       o_lock := o_lock old; o_etag := et; o_size := total; o_ctype := o_ctype old;
                       o_class := o_class old; o_tags := o_tags old; o_umeta := o_umeta old; o_written := clock s |} in
          let s := update_row s r' in
          (* since fix 8a28fc6 the new part is numbered after the highest existing sequence number *)
          let next_seq := match rev existing_rows with [] => 0%N | lastp :: _ => (p_seq lastp + 1)%N end in
          let s := save_part_rows s (o_id old) [np] next_seq in
          (s, RAppend et total)
      | None =>
          let w := {| w_etag := et; w_size := total; w_ctype := None; w_class := None; w_tags := [];
                      w_umeta := []; w_parts := [np] |} in
          let '(id, s) := insert_row s (mk_row b k (Some VNull) true false None w) in
          (save_part_rows s id [np] 0, RAppend et total)
      end
  end).

(* ---------- copy (full object, one store) ---------- *)
Definition op_copy (s0 : mstate) (vn : N) (sb sk : bytes) (sv : option vid) (db dk : bytes) : mstate * res :=
  commit s0 (
  let s := s0 in
  match lookup s sb sk sv with
  | inr e => (s, RErr e)
  | inl None => (s, RErr NoSuchKey)
  | inl (Some src) =>
      if negb (manifest_complete s src) then (s, RErr NoSuchKey) else
      let ps := row_parts s src in
      match try_add_refs (registry s) (map p_pid ps) with
      | None => (s, RErr NoSuchKey)
      | Some reg =>
          let s := set_registry s reg in
          let w := {| w_etag := o_etag src; w_size := o_size src; w_ctype := o_ctype src; w_class := None;
                      w_tags := o_tags src; w_umeta := o_umeta src;
                      w_parts := map (fun p => {| n_pid := p_pid p; n_content := p_content p; n_pre := true |}) ps |} in
          let '(s, r, unref) := meta_put s vn db dk w CNone in
          (delete_unreferenced s unref, r)
      end
  end).

(* ---------- operations and the step function ---------- *)
Inductive vref := VRNone | VRNull | VROp (i : N) | VRBogus.
Inductive cref := CRNone | CRIfMatchOp (i : N) | CRIfMatchAny | CRIfMatchBogus | CRIfNoneMatch.

Inductive op :=
  | OMb (b : bytes) | ORb (b : bytes) | OVer (b : bytes) (v : vstate)
  | OPut (b k c : bytes) (cr : cref)
  | OGet (b k : bytes) (v : vref) | OHead (b k : bytes) (v : vref)
  | ODel (b k : bytes) (v : vref) (cr : cref)
  | OLsv (b : bytes) | OLs (b : bytes)
  | OCmu (b k : bytes) | OUp (b k : bytes) (u pn : N) (c : bytes)
  | OCpl (b k : bytes) (u : N) (m : option (list (N * option bytes))) (cr : cref)
  | OAbt (b k : bytes) (u : N)
  | OApp (b k c : bytes) (off : option Z)
  | OCp (sb sk : bytes) (v : vref) (db dk : bytes).

Definition res_etag (r : res) : option etag :=
  match r with
  | RPut _ e => Some e | RObj _ e _ _ _ _ => Some e | REtag e => Some e | RAppend e _ => Some e
  | _ => None
  end.
Definition bogus_etag : etag := ERaw B"""00000000000000000000000000000000""".

(* earlier results are kept newest-first; op indices count from 0 *)
Definition nth_res (hist : list res) (i : N) : option res :=
  let n := length hist in
  if (N.to_nat i <? n)%nat then nth_error hist (n - 1 - N.to_nat i) else None.

Definition resolve_cond (hist : list res) (c : cref) : cond :=
  match c with
  | CRNone => CNone
  | CRIfMatchAny => CIfMatchAny
  | CRIfMatchBogus => CIfMatch bogus_etag
  | CRIfNoneMatch => CIfNoneMatchStar
  | CRIfMatchOp i => match nth_res hist i with
                     | Some r => match res_etag r with Some e => CIfMatch e | None => CIfMatch bogus_etag end
                     | None => CIfMatch bogus_etag
                     end
  end.
(* version ids are named by the index of the operation that created them; an index that created none
   denotes a version id that does not exist *)
Definition bogus_vid : N := 1000000.
Definition resolve_vref (v : vref) : option vid :=
  match v with
  | VRNone => None | VRNull => Some VNull | VROp i => Some (VId i) | VRBogus => Some (VId bogus_vid)
  end.

(* fresh version ids / upload ids of operation i are i itself *)
Definition with_ids (s : mstate) (i : N) : mstate :=
  {| buckets := buckets s; objs := objs s; parts := parts s; registry := registry s; dedup := dedup s;
     store := store s; next_id := next_id s; clock := i * 1000 |}.

Definition step (i : N) (hist : list res) (s0 : mstate) (o : op) : mstate * res :=
  let s := with_ids s0 i in
  match o with
  | OMb b => op_mb s b
  | ORb b => op_rb s b
  | OVer b v => op_ver s b v
  | OPut b k c cr => op_put s i b k c (resolve_cond hist cr)
  | OGet b k v => (s, op_get s b k (resolve_vref v))
  | OHead b k v => (s, op_head s b k (resolve_vref v))
  | ODel b k v cr => op_delete s i b k (resolve_vref v)
                       (match resolve_cond hist cr with CIfNoneMatchStar => CNone | c => c end)
  | OLsv b => (s, op_lsv s b)
  | OLs b => (s, op_ls s b)
  | OCmu b k => op_cmu s i b k
  | OUp b k u pn c => op_upload_part s b k u pn c
  | OCpl b k u m cr => op_complete s i b k u m (resolve_cond hist cr)
  | OAbt b k u => op_abort s b k u
  | OApp b k c off => op_append s i b k c off
  | OCp sb sk v db dk => op_copy s i sb sk (resolve_vref v) db dk
  end.

Fixpoint run_from (i : N) (hist : list res) (s : mstate) (ops : list op) : mstate * list res :=
  match ops with
  | [] => (s, rev hist)
  | o :: rest => let '(s', r) := step i hist s o in run_from (i + 1) (r :: hist) s' rest
  end.
Definition run (ops : list op) : mstate * list res := run_from 0 [] init ops.

(* ---------- printing ---------- *)
Definition etag_str (e : etag) : bytes :=
  match e with
  | ENone => []
  | ERaw t => t
  | EMd5 _ str => str
  | EMulti _ str => str
  end.
Definition show_vid (v : vid) : bytes := match v with VNull => B"null" | VId n => "v"%byte :: show_N n end.
Definition show_err (e : err) : bytes :=
  match e with
  | NoSuchBucket => B"NoSuchBucket" | NoSuchKey => B"NoSuchKey" | BucketExists => B"BucketExists"
  | BucketNotEmpty => B"BucketNotEmpty" | PreconditionFailed => B"PreconditionFailed"
  | InvalidRange => B"InvalidRange" | CurrentDM v => B"CurrentDM:" ++ show_vid v
  | VersionDM v => B"VersionDM:" ++ show_vid v | InvalidPart => B"InvalidPart"
  | InvalidPartOrder => B"InvalidPartOrder" | InvalidSeq => B"InvalidSeq"
  | InvalidWriteOffset => B"InvalidWriteOffset" | NoSuchUpload => B"NoSuchUpload" | OtherErr => B"Other"
  end.
Definition colon (l : list bytes) : bytes := join B":" l.
Definition show_optb (o : option bytes) : bytes := match o with None => B"N" | Some v => "S"%byte :: tok_bytes v end.

(* insertion sort of rendered entries (byte-lexicographic) *)
Fixpoint bytes_leb (a b : bytes) : bool :=
  match a, b with
  | [], _ => true
  | _ :: _, [] => false
  | x :: a', y :: b' => if (byteN x <? byteN y)%N then true else if (byteN y <? byteN x)%N then false else bytes_leb a' b'
  end.
Fixpoint ins_bytes (x : bytes) (l : list bytes) : list bytes :=
  match l with [] => [x] | y :: r => if bytes_leb x y then x :: l else y :: ins_bytes x r end.
Definition sort_bytes (l : list bytes) : list bytes := fold_right ins_bytes [] l.

Definition show_res (r : res) : bytes :=
  match r with
  | ROk => B"ok"
  | RErr e => show_err e
  | RPut v e => colon [B"put"; show_vid v; tok_bytes (etag_str e)]
  | RObj v e size lm ct body =>
      colon [B"obj"; show_vid v; tok_bytes (etag_str e); show_Z size; show_N (lm / 1000); show_optb ct;
             match body with None => B"H" | Some b => tok_bytes b end]
  | RDel v dm => colon [B"del"; match v with None => B"-" | Some v => show_vid v end; show_bool dm]
  | RUpload u => colon [B"upl"; "u"%byte :: show_N u]
  | REtag e => colon [B"etag"; tok_bytes (etag_str e)]
  | RAppend e size => colon [B"app"; tok_bytes (etag_str e); show_Z size]
  | RLsv l => colon [B"lsv"; join B"," (sort_bytes (map (fun x =>
                 join B"/" [tok_bytes (le_key x); show_vid (le_vid x); show_bool (le_latest x); show_bool (le_dm x);
                            tok_bytes (etag_str (le_etag x)); show_Z (le_size x)]) l))]
  | RLs l => colon [B"ls"; join B"," (sort_bytes (map (fun x =>
                 join B"/" [tok_bytes (fst (fst x)); tok_bytes (etag_str (snd (fst x))); show_Z (snd x)]) l))]
  end.

(* ---------- parsing ---------- *)
Definition parse_vref (t : bytes) : option vref :=
  if bytes_eqb t B"-" then Some VRNone else if bytes_eqb t B"null" then Some VRNull
  else if bytes_eqb t B"x" then Some VRBogus
  else match t with
       | c :: r => if beqb c "#"%byte then option_map VROp (parse_N r) else None
       | [] => None
       end.
Definition parse_cref (t : bytes) : option cref :=
  if bytes_eqb t B"-" then Some CRNone else if bytes_eqb t B"im*" then Some CRIfMatchAny
  else if bytes_eqb t B"imx" then Some CRIfMatchBogus else if bytes_eqb t B"inm" then Some CRIfNoneMatch
  else match t with
       | i :: m :: h :: r => if bytes_eqb [i; m; h] B"im#" then option_map CRIfMatchOp (parse_N r) else None
       | _ => None
       end.
Definition parse_opref (t : bytes) : option N :=
  match t with c :: r => if beqb c "#"%byte then parse_N r else None | [] => None end.
Definition parse_vstate (t : bytes) : option vstate :=
  if bytes_eqb t B"E" then Some VEnabled else if bytes_eqb t B"S" then Some VSuspended
  else if bytes_eqb t B"U" then Some VUnset else None.
Definition parse_manifest_entry (t : bytes) : option (N * option bytes) :=
  match split_on "="%byte t with
  | [pn] => option_map (fun n => (n, None)) (parse_N pn)
  | [pn; c] => match parse_N pn, untok_bytes c with Some n, Some c => Some (n, Some c) | _, _ => None end
  | _ => None
  end.
Definition parse_manifest (t : bytes) : option (option (list (N * option bytes))) :=
  if bytes_eqb t B"-" then Some None else option_map Some (mapM parse_manifest_entry (split_on ","%byte t)).
Definition parse_off (t : bytes) : option (option Z) :=
  if bytes_eqb t B"-" then Some None else option_map Some (parse_Z t).

Notation "'opt' x <- e ; k" := (match e with Some x => k | None => None end)
  (at level 200, x pattern, e at level 100, k at level 200, right associativity).

Definition parse_op (t : bytes) : option op :=
  match split_on ":"%byte t with
  | [c; b] =>
      opt b <- untok_bytes b;
      if bytes_eqb c B"mb" then Some (OMb b) else if bytes_eqb c B"rb" then Some (ORb b)
      else if bytes_eqb c B"lsv" then Some (OLsv b) else if bytes_eqb c B"ls" then Some (OLs b) else None
  | [c; b; x] =>
      opt b <- untok_bytes b;
      if bytes_eqb c B"ver" then option_map (OVer b) (parse_vstate x)
      else if bytes_eqb c B"cmu" then option_map (OCmu b) (untok_bytes x) else None
  | [c; b; k; x] =>
      opt b <- untok_bytes b; opt k <- untok_bytes k;
      if bytes_eqb c B"get" then option_map (OGet b k) (parse_vref x)
      else if bytes_eqb c B"head" then option_map (OHead b k) (parse_vref x)
      else if bytes_eqb c B"abt" then option_map (OAbt b k) (parse_opref x) else None
  | [c; b; k; x; y] =>
      opt b <- untok_bytes b; opt k <- untok_bytes k;
      if bytes_eqb c B"put" then (opt x <- untok_bytes x; option_map (OPut b k x) (parse_cref y))
      else if bytes_eqb c B"del" then (opt x <- parse_vref x; option_map (ODel b k x) (parse_cref y))
      else if bytes_eqb c B"app" then (opt x <- untok_bytes x; option_map (OApp b k x) (parse_off y)) else None
  | [c; b; k; x; y; z] =>
      opt b <- untok_bytes b; opt k <- untok_bytes k;
      if bytes_eqb c B"up" then (opt u <- parse_opref x; opt pn <- parse_N y; option_map (OUp b k u pn) (untok_bytes z))
      else if bytes_eqb c B"cpl" then (opt u <- parse_opref x; opt m <- parse_manifest y; option_map (OCpl b k u m) (parse_cref z))
      else if bytes_eqb c B"cp" then (opt v <- parse_vref x; opt db <- untok_bytes y; option_map (OCp b k v db) (untok_bytes z))
      else None
  | _ => None
  end.

Definition run_line (l : bytes) : bytes :=
  match mapM parse_op (tokens l) with
  | None => parse_error
  | Some ops => unwords (map show_res (snd (run ops)))
  end.
