(* Model/Crash.v — C10: durable states a kill -9 can leave behind while one transaction of M-TX (Model/Tx.v) runs
   fault-free.  Durable state = last committed database state + the directory as it is (no power-loss modelling:
   a completed rename/write is durable, the SQLite commit is one atomic durable step).  Recovery = reopening:
   filesystemPartStore.Start only creates the directory, MetadataPartStorage.Start starts the GC loop; nothing
   looks at *.tmp / *.txbackup.* files.  No proofs here. *)
From Verif Require Import Bytes Codec Tx.

(* crash points: after k body steps (k = 0: before anything) | inside PutPart's pre-commit hook i, between its two
   renames | after pre-commit hook i | after the database commit | after after-commit hook j *)
Inductive cpoint := CBody (k : nat) | CPreHalf (i : nat) | CPre (i : nat) | CCommit | CAfter (j : nat).

Section Crash.
Variable D : Type.

Definition crash_at (pt : cpoint) (prog : list (tstep D)) (dbc : D) (fs0 : fsys) : option (D * fsys) :=
  let '(w, fs1, cells, ok) := body 0 prog dbc fs0 [] in
  match pt with
  | CBody k =>
      if (k <=? length prog)%nat then
        let '(_, fsk, _, _) := body 0 (firstn k prog) dbc fs0 [] in Some (dbc, fsk)
      else None
  | _ =>
    if negb ok then None else
    match pt with
    | CBody _ => None
    | CPre i =>
        if (i <? length cells)%nat then
          let '(_, fs2, ok2) := pre_all FNone 0 (firstn (S i) cells) fs1 in
          if ok2 then Some (dbc, fs2) else None
        else None
    | CPreHalf i =>
        match nth_error cells i with
        | Some c =>
            let '(_, fs2, ok2) := pre_all FNone 0 (firstn i cells) fs1 in
            if ok2 then
              match c_kind c with
              | CPut => Some (dbc, fst (rename (PFinal (c_id c)) (PBackup (c_n c)) fs2))
              | CDel => None
              end
            else None
        | None => None
        end
    | CCommit =>
        let '(_, fs2, ok2) := pre_all FNone 0 cells fs1 in
        if ok2 then Some (w, fs2) else None
    | CAfter j =>
        let '(cells', fs2, ok2) := pre_all FNone 0 cells fs1 in
        if ok2 && (j <? length cells')%nat then
          Some (w, fst (after_all FNone 0 (firstn (S j) cells') fs2))
        else None
    end
  end.
End Crash.
Arguments crash_at {D}.

(* ---------- line protocol
   crash <init> <prog> <point>      point = b<k> | h<i> | p<i> | c | a<j>
        output: none | db=<n> + directory listing as for tx lines
   hc <scenario> <prog> <refs-pre> <refs-post> <init>
        a storage operation whose transaction is the given M-TX program (part id 0.. = parts that exist before,
        listed in init; other ids are fresh); refs = part ids referenced by the objects visible before / after.
        output: for every crash point in execution order  <point>:<pre|post|torn>  *)
Definition parse_point (t : bytes) : option cpoint :=
  match t with
  | c :: r =>
      if beqb c "c"%byte then match r with [] => Some CCommit | _ => None end
      else if beqb c "b"%byte then option_map CBody (parse_nat r)
      else if beqb c "h"%byte then option_map CPreHalf (parse_nat r)
      else if beqb c "p"%byte then option_map CPre (parse_nat r)
      else if beqb c "a"%byte then option_map CAfter (parse_nat r)
      else None
  | [] => None
  end.

Definition run_crash_line (toks : list bytes) : bytes :=
  match toks with
  | [i; p; c] =>
      do init <- parse_init i;
      do prog <- mapM parse_step (split_on ","%byte p);
      do pt <- parse_point c;
      match crash_at pt prog 0%N (init_fs init) with
      | None => B"none"
      | Some (db, fs) => unwords ((B"db=" ++ show_N db) :: show_dir fs prog)
      end
  | _ => parse_error
  end.

Definition parse_ids (t : bytes) : option (list N) :=
  if bytes_eqb t B"_" then Some [] else mapM parse_N (split_on ","%byte t).

Definition all_present (fs : fsys) (ids : list N) : bool :=
  forallb (fun id => match fs (PFinal id) with Some _ => true | None => false end) ids.
Definition same_on (fs fs0 : fsys) (ids : list N) : bool :=
  forallb (fun id => match fs (PFinal id), fs0 (PFinal id) with
                     | Some a, Some b => bytes_eqb a b
                     | None, None => true
                     | _, _ => false
                     end) ids.

(* classification of a durable state: committed value 0 = before, anything else = after the operation *)
Definition classify (refs_pre refs_post : list N) (fs0 fsF : fsys) (s : N * fsys) : bytes :=
  let '(db, fs) := s in
  if N.eqb db 0 then (if same_on fs fs0 refs_pre then B"pre" else B"torn")
  else (if same_on fs fsF refs_post && all_present fs refs_post then B"post" else B"torn").

Definition hook_count (prog : list (tstep N)) : nat := length (prog_ids prog).
(* body crash points that exist in the code: before anything, and after each part-store call *)
Fixpoint ps_positions (k : nat) (prog : list (tstep N)) : list nat :=
  match prog with
  | [] => []
  | s :: r => (match s with SPut _ _ | SDel _ => [S k] | _ => [] end) ++ ps_positions (S k) r
  end.
Definition points_of (prog : list (tstep N)) : list (bytes * cpoint) :=
  map (fun k => ("b"%byte :: show_nat k, CBody k)) (0 :: ps_positions 0 prog) ++
  map (fun i => ("p"%byte :: show_nat i, CPre i)) (seq 0 (hook_count prog)) ++
  [(B"c", CCommit)] ++
  map (fun j => ("a"%byte :: show_nat j, CAfter j)) (seq 0 (hook_count prog)).

Definition run_hc_line (toks : list bytes) : bytes :=
  match toks with
  | [_scenario; p; rpre; rpost; i] =>
      do init <- parse_init i;
      do prog <- mapM parse_step (split_on ","%byte p);
      do refs_pre <- parse_ids rpre;
      do refs_post <- parse_ids rpost;
      let fs0 := init_fs init in
      let '(_, _, fsF) := run_tx FNone prog 0%N fs0 in
      unwords (map (fun np =>
                      fst np ++ B":" ++
                      match crash_at (snd np) prog 0%N fs0 with
                      | None => B"none"
                      | Some s => classify refs_pre refs_post fs0 fsF s
                      end) (points_of prog))
  | _ => parse_error
  end.

Definition run_line (l : bytes) : bytes :=
  match tokens l with
  | kind :: rest =>
      if bytes_eqb kind B"crash" then run_crash_line rest
      else if bytes_eqb kind B"hc" then run_hc_line rest
      else if bytes_eqb kind B"tx" then run_tx_line rest
      else parse_error
  | [] => parse_error
  end.
