(* Model/VHost.v — executable model of request addressing in the HTTP front end:
   middleware.MakeHostnameRoutingHandler (hostrouting.go), middleware.MakeVirtualHostBucketAddressingMiddleware
   (virtualhostbucketaddressing.go), the custom-domain fallback handler and the two ServeMux pattern sets of
   server.SetupServer (server.go), with net/http.ServeMux's path cleaning / wildcard matching as far as these
   patterns need it.  Paths are the decoded r.URL.Path (RawPath empty).  No proofs here. *)
From Verif Require Import Bytes Codec.

Definition slash : byte := "/"%byte.

(* strings.HasSuffix / strings.TrimSuffix *)
Definition trim_suffix (s v : bytes) : bytes :=
  if is_suffix s v then firstn (length v - length s) v else v.

(* host[:LastIndex(host, ":")] unless a "]" follows that colon (IPv6 literal without port) *)
Definition strip_port (h : bytes) : bytes :=
  match split_first ":"%byte (rev h) with
  | None => h
  | Some (after_rev, before_rev) =>
      if existsb (fun b => beqb b "]"%byte) after_rev then h else rev before_rev
  end.

(* ---- net/http cleanPath on a decoded path ---- *)
Fixpoint clean_segs (segs acc : list bytes) : list bytes :=
  match segs with
  | [] => rev acc
  | s :: t =>
      if is_empty s || bytes_eqb s B"." then clean_segs t acc
      else if bytes_eqb s B".." then clean_segs t (tl acc)
      else clean_segs t (s :: acc)
  end.
Definition ends_with_slash (p : bytes) : bool := is_suffix [slash] p.
Definition clean_path (p : bytes) : bytes :=
  match p with
  | [] => [slash]
  | c :: _ =>
      let p := if beqb c slash then p else slash :: p in
      let np := slash :: join [slash] (clean_segs (split_on slash p) []) in
      if ends_with_slash p && negb (bytes_eqb np [slash]) then np ++ [slash] else np
  end.

Inductive target :=
  | ApiRoot                       (* GET / : ListBuckets *)
  | ApiBucket (b : bytes)         (* <METHOD> /{bucket} *)
  | ApiObject (b k : bytes)       (* <METHOD> /{bucket}/{key...} *)
  | WebBucket (b : bytes)
  | WebObject (b k : bytes).
Inductive result := Routed (t : target) | Redirect (loc : bytes) | MethodNotAllowed | NotFound.

Definition api_methods : list bytes := [B"GET"; B"HEAD"; B"PUT"; B"DELETE"; B"OPTIONS"; B"POST"].
Definition read_methods : list bytes := [B"GET"; B"HEAD"].

(* segments of a cleaned path: "/" -> [""], "/b" -> ["b"], "/b/" -> ["b"; ""], "/b/k/j" -> ["b"; "k"; "j"] *)
Definition path_segments (p : bytes) : list bytes := split_on slash (tl p).

Definition mux (web : bool) (method p : bytes) : result :=
  let cp := clean_path p in
  if negb (bytes_eqb cp p) then Redirect cp
  else
    match path_segments cp with
    | [] => NotFound                                             (* unreachable: split_on is never empty *)
    | [b] =>
        if is_empty b then
          (if web then NotFound
           else if mem_bytes method read_methods then Routed ApiRoot else MethodNotAllowed)
        else if web then (if mem_bytes method read_methods then Routed (WebBucket b) else MethodNotAllowed)
        else (if mem_bytes method api_methods then Routed (ApiBucket b) else MethodNotAllowed)
    | b :: rest =>
        if web then (if mem_bytes method read_methods then Routed (WebObject b (join [slash] rest)) else MethodNotAllowed)
        else (if mem_bytes method api_methods then Routed (ApiObject b (join [slash] rest)) else MethodNotAllowed)
    end.

(* MakeVirtualHostBucketAddressingMiddleware: the rewritten r.URL.Path.
   [fixed = true]: the current code (/repo 18a80a7): only the bare root "/" or "" becomes "/bucket", everything
   else is plain concatenation.  [fixed = false]: the code before that fix,
   strings.TrimSuffix("/"+bucket+path, "/") (kept for the historical Examples). *)
Definition vhost_rewrite (fixed : bool) (api host path : bytes) : bytes :=
  let h := strip_port host in
  let suffix := "."%byte :: api in
  if negb (bytes_eqb h api) && is_suffix suffix h then
    let bucket := trim_suffix suffix h in
    if is_empty bucket then path
    else if fixed then
      (if bytes_eqb path [slash] || is_empty path then slash :: bucket else slash :: bucket ++ path)
    else trim_suffix [slash] (slash :: bucket ++ path)
  else path.

(* MakeHostnameRoutingHandler + the handlers it dispatches to *)
Definition route_gen (fixed : bool) (api web host path method : bytes) : result :=
  let h := strip_port host in
  if bytes_eqb h api || is_suffix ("."%byte :: api) h then
    mux false method (vhost_rewrite fixed api host path)
  else
    let bucket := trim_suffix ("."%byte :: web) h in
    if is_suffix ("."%byte :: web) h && negb (is_empty bucket) then mux true method (slash :: bucket ++ path)
    else mux true method (slash :: h ++ path).        (* custom domain: the host is the bucket *)
Definition route := route_gen true.

(* what the object handlers do before anything else: storage.NewObjectKey rejects the empty key *)
Definition reaches_handler (r : result) : bool :=
  match r with
  | Routed (ApiObject _ k) => negb (is_empty k)
  | Routed _ => true
  | _ => false
  end.

(* ---- line protocol:  <mode A|E> <method hex> <host hex> <path hex> <names>      (endpoints fixed below)
   names : "_" | comma separated <hex>=<0|1> : is this text a valid bucket name (storage.NewBucketName)? The naming
           rules are outside the model; the harness answers with an independent implementation for every text the
           model may derive as bucket.
   output: API-ROOT | API-BUCKET <b> | API-OBJECT <b> <k> | REJECTED | WEB <b> | REDIRECT <loc> | 405 | 404 *)
Definition api_endpoint := B"s3.localhost".
Definition web_endpoint := B"s3-website.localhost".

Fixpoint lookup_name (k : bytes) (l : list (bytes * bool)) : option bool :=
  match l with
  | [] => None
  | (k', v) :: t => if bytes_eqb k k' then Some v else lookup_name k t
  end.
Definition parse_name_entry (t : bytes) : option (bytes * bool) :=
  match split_first "="%byte t with
  | Some (x, v) => match untok_bytes x, parse_bool v with Some x, Some v => Some (x, v) | _, _ => None end
  | None => None
  end.
Definition parse_names (t : bytes) : option (list (bytes * bool)) :=
  if bytes_eqb t B"_" then Some [] else mapM parse_name_entry (split_on ","%byte t).

Definition target_bucket (t : target) : option bytes :=
  match t with
  | ApiRoot => None
  | ApiBucket b | ApiObject b _ | WebBucket b | WebObject b _ => Some b
  end.

Definition show_target (t : target) : bytes :=
  match t with
  | ApiRoot => B"API-ROOT"
  | ApiBucket b => B"API-BUCKET " ++ tok_bytes b
  | ApiObject b k => if is_empty k then B"REJECTED" else B"API-OBJECT " ++ tok_bytes b ++ B" " ++ tok_bytes k
  | WebBucket b => B"WEB " ++ tok_bytes b
  | WebObject b _ => B"WEB " ++ tok_bytes b
  end.

(* every handler starts with storage.NewBucketName(r.PathValue("bucket")) and answers 4xx when it fails *)
Definition show_result (names : list (bytes * bool)) (r : result) : bytes :=
  match r with
  | Routed t =>
      match target_bucket t with
      | None => show_target t
      | Some b => match lookup_name b names with
                  | Some true => show_target t
                  | Some false => B"REJECTED"
                  | None => B"MISSING-VALIDITY"
                  end
      end
  | Redirect loc => B"REDIRECT " ++ tok_bytes loc
  | MethodNotAllowed => B"405"
  | NotFound => B"404"
  end.

Definition run_line (l : bytes) : bytes :=
  match tokens l with
  | [mode; m; h; p; names] =>
      do m <- untok_bytes m; do h <- untok_bytes h; do p <- untok_bytes p; do names <- parse_names names;
      if bytes_eqb mode B"A" || bytes_eqb mode B"E" then show_result names (route api_endpoint web_endpoint h p m)
      else parse_error
  | [mode; m; h; p; names; api; web] =>      (* mode N: mode A under another endpoint configuration *)
      do m <- untok_bytes m; do h <- untok_bytes h; do p <- untok_bytes p; do names <- parse_names names;
      do api <- untok_bytes api; do web <- untok_bytes web;
      if bytes_eqb mode B"N" then show_result names (route api web h p m) else parse_error
  | _ => parse_error
  end.
