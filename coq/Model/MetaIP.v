(* Model/MetaIP.v — statement-granular model of a VICTIM operation of the metadata/part storage with a RIVAL operation
   that runs atomically at one statement boundary of the victim's transaction and is visible to every later statement:
   READ COMMITTED visibility (what a backend gives that does not serialize write transactions, e.g. PostgreSQL at its
   default isolation level).  On SQLite this cannot happen for real; harness/ip.go emulates it by nesting.
   The victim is written as its sequence of repository / metadata-store calls (reads keep their result in local
   variables = Go variables that go stale; writes act on the current row store; UpdateObjectByIdAndOptimisticLockVersion
   is a compare-and-swap on the version column).  Boundary p = just before the p-th modelled call (counted from 0).
   Modelled calls: R:FindLatest, R:FindParts, R:FindNull, S:LookupDedup, S:TryAddRefs / S:TryIndexDedup, R:UpdateObjectCAS,
   R:SaveObject — the same calls harness/ip.go counts (entering S:HeadObject / S:AppendObject / S:PutObject /
   S:GetVersioning is not a modelled call).  Boundaries are modelled up to and including the victim's first write to a
   row a rival may also write (from there on a real rival would wait for the row lock).  Rival = any atomic operation of
   Model/Meta.v.  No proofs here. *)
From Verif Require Import Bytes Codec Md5 Meta.

Definition rivalf := mstate -> mstate * res.
Record ipst := { ip_s : mstate; ip_n : nat; ip_r : option res }.

(* the boundary before the next modelled call *)
Definition tickc (p : nat) (rv : rivalf) (x : ipst) : ipst :=
  match ip_r x with
  | None => if Nat.eqb (ip_n x) p
            then let '(s', r) := rv (ip_s x) in {| ip_s := s'; ip_n := S (ip_n x); ip_r := Some r |}
            else {| ip_s := ip_s x; ip_n := S (ip_n x); ip_r := None |}
  | Some _ => {| ip_s := ip_s x; ip_n := S (ip_n x); ip_r := ip_r x |}
  end.
Definition upd (x : ipst) (s : mstate) : ipst := {| ip_s := s; ip_n := ip_n x; ip_r := ip_r x |}.

(* UPDATE ... WHERE id = ? AND optimistic_lock_version = ? *)
Definition cas_update (s : mstate) (r : orow) (expected : N) : option mstate :=
  match find (fun x => N.eqb (o_id x) (o_id r)) (objs s) with
  | Some x => if N.eqb (o_lock x) expected then Some (update_row s r) else None
  | None => None
  end.
Definition row_exists (s : mstate) (id : N) : bool := existsb (fun x => N.eqb (o_id x) id) (objs s).

(* outcome of the victim: final state, its result, the rival's result (None: the boundary was never reached) *)
Definition ipout := (mstate * res * option res)%type.

(* the victim's transaction rolls back: under READ COMMITTED only ITS writes disappear *)
Definition ip_fail (rv : rivalf) (s0 : mstate) (x : ipst) (e : err) : ipout :=
  (match ip_r x with Some _ => fst (rv s0) | None => s0 end, RErr e, ip_r x).
(* commit: the unique indexes are enforced *)
Definition ip_finish (rv : rivalf) (s0 : mstate) (x : ipst) (s : mstate) (r : res) : ipout :=
  if unique_ok s && parts_unique_ok s then (s, r, ip_r x) else ip_fail rv s0 x OtherErr.
(* PutObject with If-None-Match:* maps the unique-index violation of its insert to PreconditionFailed *)
Definition ip_finish_put (inm : bool) (rv : rivalf) (s0 : mstate) (x : ipst) (s : mstate) (r : res) : ipout :=
  if unique_ok s then (if parts_unique_ok s then (s, r, ip_r x) else ip_fail rv s0 x OtherErr)
  else ip_fail rv s0 x (if inm then PreconditionFailed else OtherErr).

(* PutPart of the fresh bytes, then dedupeFreshPart: S:LookupDedup, then S:TryAddRefs (hit) or S:TryIndexDedup (miss) *)
Definition ip_dedupe (p : nat) (rv : rivalf) (x : ipst) (c : bytes) : npart * ipst :=
  let '(pid, s) := fresh (ip_s x) in
  let x := upd x (store_put s pid c) in
  let x := tickc p rv x in
  let hit := dedup_get (dedup (ip_s x)) c in
  let x := tickc p rv x in
  let s := ip_s x in
  match hit with
  | Some shared =>
      match try_add_refs (registry s) [shared] with
      | Some r' => ({| n_pid := shared; n_content := c; n_pre := true |}, upd x (store_del (set_registry s r') pid))
      | None =>
          let s := set_dedup s (filter (fun e => negb (N.eqb (snd e) shared)) (dedup s)) in
          ({| n_pid := pid; n_content := c; n_pre := false |}, upd x (set_dedup s (dedup s ++ [(c, pid)])))
      end
  | None => ({| n_pid := pid; n_content := c; n_pre := false |}, upd x (set_dedup s (dedup s ++ [(c, pid)])))
  end.

(* RegisterParts is a plain INSERT: saving a part row without a pre-acquired reference fails when the id is registered *)
Definition can_register (s : mstate) (ps : list npart) : bool :=
  forallb (fun q => n_pre q || match reg_get (registry s) (n_pid q) with None => true | Some _ => false end) ps.

Fixpoint pids_prefix (stored : list prow) (manifest : list npart) : bool :=
  match stored, manifest with
  | [], _ => true
  | q :: stored', m :: manifest' => N.eqb (p_pid q) (n_pid m) && pids_prefix stored' manifest'
  | _ :: _, [] => false
  end.

(* metadataPartStorage.AppendObject over sqlMetadataStore.AppendObject *)
Definition ip_append (p : nat) (rv : rivalf) (s0 : mstate) (vn : N) (b k c : bytes) (off : option Z) : ipout :=
  match find_bucket s0 b with
  | None => (s0, RErr NoSuchBucket, None)
  | Some bk =>
    let enabled := match b_ver bk with VEnabled => true | _ => false end in
    let x := {| ip_s := s0; ip_n := 0; ip_r := None |} in
    let x := tickc p rv x in                                            (* R:FindLatest (HeadObject) *)
    let l1row := find_latest (ip_s x) b k in
    let '(x, l1parts) := match l1row with
                         | Some r => let x := tickc p rv x in (x, row_parts (ip_s x) r)   (* R:FindParts *)
                         | None => (x, [])
                         end in
    (* a delete-marker row is handed on like an object of size 0 (HeadObject returns it; only a torn read gives it parts) *)
    let existing := l1row in
    let eparts := l1parts in
    if match existing with
       | Some r => negb (Z.eqb (parts_size eparts) (o_size r) && (Z.eqb (o_size r) 0 || negb (is_nil eparts)))
       | None => false
       end then ip_fail rv s0 x NoSuchKey else
    if match off, existing with
       | Some o, None => negb (Z.eqb o 0)
       | Some o, Some r => negb (Z.eqb o (o_size r))
       | None, _ => false
       end then ip_fail rv s0 x InvalidWriteOffset else
    let '(np, x) := ip_dedupe p rv x c in
    let et := mk_multi (map p_content eparts ++ [c]) in
    let total := (match existing with Some r => o_size r | None => 0 end + zlen c)%Z in
    let ctype := match existing with Some r => o_ctype r | None => None end in
    if enabled then
      let x := match existing with Some _ => tickc p rv x | None => x end in      (* S:TryAddRefs (shared prefix) *)
      match match existing with
            | Some _ => try_add_refs (registry (ip_s x)) (map p_pid eparts)
            | None => Some (registry (ip_s x))
            end with
      | None => ip_fail rv s0 x NoSuchKey
      | Some reg =>
          let x := upd x (set_registry (ip_s x) reg) in
          let x := tickc p rv x in                                      (* R:FindLatest (PutObject) *)
          let latest2 := find_latest (ip_s x) b k in
          let x := tickc p rv x in                                      (* R:SaveObject: first write *)
          let s := ip_s x in
          let s := match latest2 with Some r => set_latest s r false | None => s end in
          let shared := map (fun q => {| n_pid := p_pid q; n_content := p_content q; n_pre := true |}) eparts in
          let w := {| w_etag := et; w_size := total; w_ctype := ctype; w_class := None; w_tags := []; w_umeta := [];
                      w_parts := shared ++ [np] |} in
          let '(id, s) := insert_row s (mk_row b k (Some (VId vn)) true false None w) in
          ip_finish rv s0 x (save_part_rows s id (w_parts w) 0) (RAppend et total)
      end
    else
      let manifest := map (fun q => {| n_pid := p_pid q; n_content := p_content q; n_pre := false |}) eparts ++ [np] in
      let x := tickc p rv x in                                          (* R:FindLatest (AppendObject) *)
      match find_latest (ip_s x) b k with
      | Some old =>
          let x := tickc p rv x in                                      (* R:FindParts *)
          let l2parts := sort_parts (obj_parts (ip_s x) (o_id old)) in
          if (length manifest <? length l2parts)%nat then ip_fail rv s0 x OtherErr else
          if negb (pids_prefix l2parts manifest) then ip_fail rv s0 x OtherErr else
          let x := tickc p rv x in                                      (* R:UpdateObjectCAS: first write *)
          let r' := {| o_id := o_id old; o_bucket := b; o_key := k; o_vid := o_vid old; o_latest := true; o_dm := false;
                       o_upload := None; o_created := o_created old; o_updated := o_updated old; o_lock := o_lock old;
                       o_etag := et; o_size := total; o_ctype := o_ctype old; o_class := o_class old;
                       o_tags := o_tags old; o_umeta := o_umeta old; o_written := clock (ip_s x) |} in
          match cas_update (ip_s x) r' (o_lock old) with
          | None => ip_fail rv s0 x InvalidWriteOffset
          | Some s =>
              let next_seq := match rev l2parts with [] => 0%N | lastp :: _ => (p_seq lastp + 1)%N end in
              let todo := skipn (length l2parts) manifest in
              if negb (can_register s todo) then ip_fail rv s0 x OtherErr else
              ip_finish rv s0 x (save_part_rows s (o_id old) todo next_seq) (RAppend et total)
          end
      | None =>
          let x := tickc p rv x in                                      (* R:SaveObject: first write *)
          let w := {| w_etag := et; w_size := total; w_ctype := ctype; w_class := None; w_tags := []; w_umeta := [];
                      w_parts := manifest |} in
          let '(id, s) := insert_row (ip_s x) (mk_row b k (Some VNull) true false None w) in
          if negb (can_register s manifest) then ip_fail rv s0 x OtherErr else
          ip_finish rv s0 x (save_part_rows s id manifest 0) (RAppend et total)
      end
  end.

(* metadataPartStorage.PutObject over sqlMetadataStore.PutObject *)
Definition ip_put (p : nat) (rv : rivalf) (s0 : mstate) (vn : N) (b k c : bytes) (cd : cond) : ipout :=
  match find_bucket s0 b with
  | None => (s0, RErr NoSuchBucket, None)
  | Some bk =>
    let x := {| ip_s := s0; ip_n := 0; ip_r := None |} in
    let '(np, x) := ip_dedupe p rv x c in
    let w := plain_obj (mk_md5 c) (zlen c) [np] in
    let x := tickc p rv x in                                            (* R:FindLatest *)
    let latest := find_latest (ip_s x) b k in
    if cond_fails cd latest then ip_fail rv s0 x PreconditionFailed else
    let '(x, latest) := if is_inm cd then let x := tickc p rv x in (x, find_latest (ip_s x) b k)   (* re-read *)
                        else (x, latest) in
    if is_inm cd && exists_obj latest then ip_fail rv s0 x PreconditionFailed else
    (* the optimistic lock of conditional writes: CAS on the version read above *)
    let '(x, locked, wrote) :=
      match latest with
      | Some r => if is_cond cd then
                    let x := tickc p rv x in                            (* R:UpdateObjectCAS: first write *)
                    match cas_update (ip_s x) (with_row r (o_latest r) (o_updated r) (o_lock r)) (o_lock r) with
                    | Some s => (upd x s, true, true)
                    | None => (x, false, true)
                    end
                  else (x, true, false)
      | None => (x, true, false)
      end in
    if negb locked then ip_fail rv s0 x PreconditionFailed else
    match b_ver bk with
    | VEnabled =>
        let x := if wrote then x else tickc p rv x in                   (* R:SaveObject: first write *)
        let s := ip_s x in
        let s := match latest with Some r => set_latest s r false | None => s end in
        let '(id, s) := insert_row s (mk_row b k (Some (VId vn)) true false None w) in
        ip_finish_put (is_inm cd) rv s0 x (save_part_rows s id (w_parts w) 0) (RPut (VId vn) (w_etag w))
    | _ =>
        let x := if wrote then x else tickc p rv x in                   (* R:FindNull *)
        let nullrow := find_null (ip_s x) b k in
        if is_inm cd && match nullrow with Some _ => true | None => false end then ip_fail rv s0 x PreconditionFailed else
        let x := if wrote then x else tickc p rv x in                   (* R:SaveObject: first write *)
        let s := ip_s x in
        let s := match latest with Some r => set_latest s r false | None => s end in
        match nullrow with
        | Some nr =>
            if negb (row_exists s (o_id nr)) then ip_fail rv s0 x OtherErr else   (* part rows of a vanished row: FK *)
            let r' := {| o_id := o_id nr; o_bucket := b; o_key := k; o_vid := Some VNull; o_latest := true;
                         o_dm := false; o_upload := None; o_created := o_created nr; o_updated := o_updated nr;
                         o_lock := o_lock nr; o_etag := w_etag w; o_size := w_size w; o_ctype := w_ctype w;
                         o_class := w_class w; o_tags := w_tags w; o_umeta := w_umeta w; o_written := clock s |} in
            let s := update_row s r' in
            let '(s, unref) := remove_parts_of s (o_id nr) in
            let s := save_part_rows s (o_id nr) (w_parts w) 0 in
            ip_finish_put (is_inm cd) rv s0 x (delete_unreferenced s unref) (RPut VNull (w_etag w))
        | None =>
            let '(id, s) := insert_row s (mk_row b k (Some VNull) true false None w) in
            ip_finish_put (is_inm cd) rv s0 x (save_part_rows s id (w_parts w) 0) (RPut VNull (w_etag w))
        end
    end
  end.

(* ---------- case lines:  IP <p> <k> <rival-op> <setup-op> ... <victim-op>  ---------- *)
Fixpoint run_hist (i : N) (hist : list res) (s : mstate) (ops : list op) : mstate * list res :=
  match ops with
  | [] => (s, hist)
  | o :: rest => let '(s', r) := step i hist s o in run_hist (i + 1) (r :: hist) s' rest
  end.

Definition ip_victim (p : nat) (rv : rivalf) (i : N) (hist : list res) (s : mstate) (o : op) : option ipout :=
  let s := with_ids s i in
  match o with
  | OApp b k c off => Some (ip_append p rv s i b k c off)
  | OPut b k c cr => Some (ip_put p rv s i b k c (resolve_cond hist cr))
  | _ => None
  end.

Definition op_key (o : op) : option (bytes * bytes) :=
  match o with OApp b k _ _ => Some (b, k) | OPut b k _ _ => Some (b, k) | ODel b k _ _ => Some (b, k) | _ => None end.

Definition show_fin (r : res) : bytes :=
  match r with
  | RObj v _ size _ _ (Some body) => B"fin:" ++ colon [show_vid v; show_Z size; tok_bytes body]
  | RErr (CurrentDM _) => B"fin:CurrentDM"
  | RErr e => B"fin:" ++ show_err e
  | _ => B"fin:?"
  end.

Definition ip_run_line (p : nat) (rival : op) (ops : list op) : bytes :=
  match rev ops with
  | [] => parse_error
  | victim :: rsetup =>
      let setup := rev rsetup in
      let n := N.of_nat (length setup) in
      let '(s, hist) := run_hist 0 [] init setup in
      let rv := fun st => step (n + 1) hist st rival in
      match ip_victim p rv n hist s victim, op_key victim with
      | Some (s', r, ro), Some (b, k) =>
          (* a boundary beyond the victim's last statement: the rival simply runs afterwards *)
          let '(s'', rr) := match ro with Some x => (s', x) | None => rv s' end in
          unwords (map show_res (rev hist) ++ [show_res r; show_res rr; show_fin (op_get s'' b k None)])
      | _, _ => parse_error
      end
  end.

(* ordinary history lines are Meta.run_line's (body repeated so that the extracted entry point keeps its name) *)
Definition meta_line (l : bytes) : bytes :=
  match mapM parse_op (tokens l) with
  | None => parse_error
  | Some ops => unwords (map show_res (snd (run ops)))
  end.

Definition run_line (l : bytes) : bytes :=
  match tokens l with
  | ip :: pt :: kt :: rt :: opst =>
      if bytes_eqb ip B"IP" then
        match parse_nat pt, parse_op rt, mapM parse_op opst with
        | Some p, Some rival, Some ops => ip_run_line p rival ops
        | _, _, _ => parse_error
        end
      else meta_line l
  | _ => meta_line l
  end.
