(* Model/StorageOutbox.v — C21: internal/storage/outbox/outbox.go over an abstract-but-executable
   inner storage (the slice of MetadataPartStorage semantics the outbox can reach with
   CreateBucket / DeleteBucket / PutObject / DeleteObject / DeleteObjects /
   PutBucketVersioningConfiguration and the reads Get/ListObjects/ListBuckets/HeadBucket/
   GetBucketVersioningConfiguration).  No proofs in this file.

   Inner storage state: bucket -> option (versioning status, key -> version list).  Functions, so
   that updates at different buckets/keys commute definitionally (Proofs use functional
   extensionality); the key and bucket universes [UK]/[UB] (all names a history mentions) make
   emptiness checks and listings computable.

   Outbox: FIFO queue of entries (id = acceptance counter, standing for the process-wide
   monotonic ULID), one worker that replays the head entry on the inner storage and deletes it on
   success / keeps it on failure (release + retry), clients whose waiting operations take a
   last-id snapshot of their entry class and poll the first entry of that class. *)
From Verif Require Import Bytes Codec.

(* ---------------------------------------------------------------- inner storage *)
Inductive vstat := VUnset | VEnabled | VSuspended.
Definition kv := (bytes * bytes)%type.
Record meta := { m_sys : list (option bytes); m_user : list kv }.
(* r_content: the object's bytes as the list of content ids of its parts (a plain put: one id);
   r_mp: the ETag is a multipart-style one (complete / append), never equal to a plain content's *)
Record rec := { r_content : list N; r_mp : bool; r_ctype : option bytes; r_class : option bytes;
                r_sys : list (option bytes); r_user : list kv; r_tags : list kv }.
(* a pending multipart upload (an object row with upload_status = pending): key, the options given
   at creation (as the record the completed object will carry), the uploaded parts number -> content *)
Record upload := { u_key : bytes; u_tmpl : rec; u_parts : list (N * N) }.
Record version := { v_null : bool; v_rec : option rec }.      (* v_rec = None: delete marker *)
Definition kstate := list version.                             (* newest (is_latest) first *)
Record bstate := { b_vers : vstat; b_objs : bytes -> kstate; b_ups : list (N * upload) }.
Definition istate := bytes -> option bstate.

Inductive err := NoSuchBucket | NoSuchKey | BucketAlreadyExists | BucketNotEmpty | PreconditionFailed | DeleteMarker
                 | InvalidPart | BadDigest.

Definition fupd {A} (f : bytes -> A) (k : bytes) (v : A) : bytes -> A :=
  fun x => if bytes_eqb x k then v else f x.

Definition init_inner : istate := fun _ => None.

(* PutObjectOptions as the storage interface takes them; o_ifmatch: Some None = "*",
   Some (Some c) = the ETag of content c *)
Record popts := { o_tags : list kv; o_meta : option meta; o_class : option bytes;
                  o_ifnone : bool; o_ifmatch : option (option N) }.

Inductive badc := BPut (b k : bytes) | BAppend (b k : bytes) | BPart (b k : bytes) (u : N).
Inductive call :=
| CCreate (b : bytes)
| CDeleteB (b : bytes)
| CPut (b k : bytes) (cid : N) (ctype : option bytes) (o : popts)
| CDel (b k : bytes) (vid : option bytes) (ifm : option (option N))
| CDels (b : bytes) (ks : list bytes)
| CVers (b : bytes) (v : vstat)
(* write-through only: multipart (the upload is named by the label the history gives it), copy
   (default directives), append (no write offset), tagging *)
| CMpCreate (b k : bytes) (u : N) (ctype : option bytes) (o : popts)
| CMpPart (b k : bytes) (u : N) (pn : N) (cid : N)
| CMpComplete (b k : bytes) (u : N) (ifnone : bool) (ifm : option (option N))
| CMpAbort (b k : bytes) (u : N)
| CCopy (sb sk db dk : bytes)
| CAppend (b k : bytes) (cid : N)
| CPutTags (b k : bytes) (tags : list kv)
| CDelTags (b k : bytes)
| CPutR (b k : bytes) (r : rec)       (* internal: unconditional put of a given record (copy's write half) *)
(* DeleteObjects with a per-entry If-Match: None = plain, Some None = the wildcard, Some (Some c) = the ETag of content c *)
| CDelsC (b : bytes) (es : list (bytes * option (option N)))
(* a write whose declared digest (Content-MD5 or an x-amz-checksum header) does not match its body: refused *)
| CBadDigest (x : badc).

Definition none6 : list (option bytes) := [None; None; None; None; None; None].
Definition fix6 (l : list (option bytes)) : list (option bytes) := firstn 6 (l ++ none6).

Definition mk_rec (cid : N) (ctype : option bytes) (o : popts) : rec :=
  {| r_content := [cid]; r_mp := false; r_ctype := ctype; r_class := o_class o;
     r_sys := match o_meta o with Some m => fix6 (m_sys m) | None => none6 end;
     r_user := match o_meta o with Some m => m_user m | None => [] end;
     r_tags := o_tags o |}.

Definition is_obj (v : version) : bool := match v_rec v with Some _ => true | None => false end.
Definition cur_exists (ks : kstate) : bool := match ks with v :: _ => is_obj v | [] => false end.
Definition cur_rec (ks : kstate) : option rec := match ks with v :: _ => v_rec v | [] => None end.
(* the plain content id an ETag stands for, if the ETag is a plain one *)
Definition plain_cid (r : rec) : option N :=
  if r_mp r then None else match r_content r with [c] => Some c | _ => None end.
Definition cur_cid (ks : kstate) : option N :=
  match cur_rec ks with Some r => plain_cid r | None => None end.
Definition csize (c : N) : N := (2 + N.of_nat (length (show_N c)) + c)%N.
Definition rsize (r : rec) : N := fold_right N.add 0%N (map csize (r_content r)).
Definition etag_ok (ks : kstate) (ifm : option (option N)) : bool :=
  match ifm with
  | None => true
  | Some None => cur_exists ks
  | Some (Some c) => match cur_cid ks with Some c' => (c =? c')%N | None => false end
  end.
Definition has_null (ks : kstate) : bool := existsb v_null ks.
Definition remove_null (ks : kstate) : kstate := filter (fun v => negb (v_null v)) ks.

(* sql/object_write.go PutObject on one key *)
Definition put_k (st : vstat) (ks : kstate) (r : rec) (ifnone : bool) (ifm : option (option N))
  : kstate * option err :=
  if negb (etag_ok ks ifm) then (ks, Some PreconditionFailed)
  else if ifnone && cur_exists ks then (ks, Some PreconditionFailed)
  else match st with
       | VEnabled => ({| v_null := false; v_rec := Some r |} :: ks, None)
       | _ => if ifnone && has_null ks then (ks, Some PreconditionFailed)
              else ({| v_null := true; v_rec := Some r |} :: remove_null ks, None)
       end.

(* metadatapart/delete.go + sql/delete.go DeleteObject on one key *)
Definition del_k (st : vstat) (ks : kstate) (vid : option bytes) (ifm : option (option N))
  : kstate * option err :=
  match vid with
  | Some v =>
      if bytes_eqb v B"null" then
        if has_null ks then
          match ifm with
          | Some (Some c) =>
              match find v_null ks with
              | Some nv => if match v_rec nv with Some r => match plain_cid r with Some c' => (c =? c')%N | None => false end | None => false end
                           then (remove_null ks, None) else (ks, Some PreconditionFailed)
              | None => (ks, None)
              end
          | _ => (remove_null ks, None)
          end
        else (ks, match ifm with Some _ => Some PreconditionFailed | None => None end)
      else (ks, match ifm with Some _ => Some PreconditionFailed | None => None end)
  | None =>
      if negb (etag_ok ks ifm) then (ks, Some PreconditionFailed)
      else match st with
           | VEnabled => ({| v_null := false; v_rec := None |} :: ks, None)
           | VSuspended => ({| v_null := false; v_rec := None |} :: remove_null ks, None)
           | VUnset => (match ks with _ :: t => t | [] => [] end, None)
           end
  end.

(* metadatapart/delete.go DeleteObjects, one entry: the pre-check compares the ETag literally, so
   the wildcard If-Match never matches; a failed condition skips the entry, the batch goes on *)
Definition entry_k (st : vstat) (ks : kstate) (cond : option (option N)) : kstate :=
  match cond with
  | None => fst (del_k st ks None None)
  | Some None => ks
  | Some (Some c) =>
      match cur_cid ks with
      | Some c' => if (c =? c')%N then fst (del_k st ks None (Some (Some c))) else ks
      | None => ks
      end
  end.
Fixpoint dels_c (st : vstat) (objs : bytes -> kstate) (es : list (bytes * option (option N))) : bytes -> kstate :=
  match es with
  | [] => objs
  | (k, cond) :: t => dels_c st (fupd objs k (entry_k st (objs k) cond)) t
  end.

(* sql/multipart.go CompleteMultipartUpload on one key: the same conditions and version handling as
   PutObject, the record is the upload's template with the assembled content *)
Fixpoint assoc_N (n : N) (l : list (N * N)) : option N :=
  match l with [] => None | (i, c) :: t => if (i =? n)%N then Some c else assoc_N n t end.
(* part numbers must be exactly 1..n (n = 0: an empty object) *)
Definition assemble (ps : list (N * N)) : option (list N) :=
  mapM (fun i => assoc_N (N.of_nat i) ps) (seq 1 (length ps)).
Definition with_content (t : rec) (c : list N) (mp : bool) : rec :=
  {| r_content := c; r_mp := mp; r_ctype := r_ctype t; r_class := r_class t; r_sys := r_sys t;
     r_user := r_user t; r_tags := r_tags t |}.

(* metadatapart/object_write.go + sql AppendObject on one key (no write offset) *)
Definition append_k (st : vstat) (ks : kstate) (c : N) : kstate * option err :=
  let fresh := {| r_content := [c]; r_mp := true; r_ctype := None; r_class := None; r_sys := none6; r_user := []; r_tags := [] |} in
  match st with
  | VEnabled =>
      let r := match cur_rec ks with
               | Some o => {| r_content := r_content o ++ [c]; r_mp := true; r_ctype := r_ctype o; r_class := None;
                              r_sys := none6; r_user := []; r_tags := [] |}
               | None => fresh end in
      ({| v_null := false; v_rec := Some r |} :: ks, None)
  | _ =>
      match ks with
      | v :: t => match v_rec v with
                  | Some o => ({| v_null := v_null v; v_rec := Some (with_content o (r_content o ++ [c]) true) |} :: t, None)
                  | None => ({| v_null := true; v_rec := Some fresh |} :: remove_null ks, None)
                  end
      | [] => ([{| v_null := true; v_rec := Some fresh |}], None)
      end
  end.

(* tagging.go: the current version's tag set *)
Definition tags_k (ks : kstate) (f : rec -> rec) : kstate * option err :=
  match ks with
  | [] => (ks, Some NoSuchKey)
  | v :: t => match v_rec v with
              | None => (ks, Some DeleteMarker)
              | Some r => ({| v_null := v_null v; v_rec := Some (f r) |} :: t, None)
              end
  end.
Definition set_tags (tg : list kv) (r : rec) : rec :=
  {| r_content := r_content r; r_mp := r_mp r; r_ctype := r_ctype r; r_class := r_class r; r_sys := r_sys r;
     r_user := r_user r; r_tags := tg |}.

(* copy.go with default directives: content, ETag kind, content type, metadata (minus the website
   redirect), user metadata and tags of the source; storage class of the request (none) *)
Definition copy_rec (r : rec) : rec :=
  {| r_content := r_content r; r_mp := r_mp r; r_ctype := r_ctype r; r_class := None;
     r_sys := firstn 5 (r_sys r) ++ [None]; r_user := r_user r; r_tags := r_tags r |}.

Fixpoint ups_find (u : N) (l : list (N * upload)) : option upload :=
  match l with [] => None | (i, x) :: t => if (i =? u)%N then Some x else ups_find u t end.
Definition ups_remove (u : N) (l : list (N * upload)) : list (N * upload) :=
  filter (fun p => negb (fst p =? u)%N) l.

Section Inner.
Variable UK : list bytes.      (* key universe *)
Variable UB : list bytes.      (* bucket universe *)

(* DeleteBucket: no object row at all, pending uploads included *)
Definition bucket_empty (bs : bstate) : bool :=
  forallb (fun k => match b_objs bs k with [] => true | _ => false end) UK
  && match b_ups bs with [] => true | _ => false end.

Definition set_key (s : istate) (b : bytes) (bs : bstate) (k : bytes) (ks : kstate) : istate :=
  fupd s b (Some {| b_vers := b_vers bs; b_objs := fupd (b_objs bs) k ks; b_ups := b_ups bs |}).

Fixpoint dels_k (st : vstat) (objs : bytes -> kstate) (ks : list bytes) : bytes -> kstate :=
  match ks with
  | [] => objs
  | k :: t => dels_k st (fupd objs k (fst (del_k st (objs k) None None))) t
  end.

(* the source half of CopyObject *)
Definition copy_src (s : istate) (sb sk : bytes) : err + rec :=
  match s sb with
  | None => inl NoSuchBucket
  | Some bs => match b_objs bs sk with
               | [] => inl NoSuchKey
               | v :: _ => match v_rec v with Some r => inr (copy_rec r) | None => inl DeleteMarker end
               end
  end.
Definition put_rec (s : istate) (b k : bytes) (r : rec) : istate * option err :=
  match s b with
  | None => (s, Some NoSuchBucket)
  | Some bs => match put_k (b_vers bs) (b_objs bs k) r false None with
               | (ks', None) => (set_key s b bs k ks', None)
               | (_, Some e) => (s, Some e)
               end
  end.

(* the calls that work on one key of one bucket plus the bucket's pending uploads *)
Definition keyop (c : call) : option (bytes * bytes) :=
  match c with
  | CMpCreate b k _ _ _ | CMpPart b k _ _ _ | CMpComplete b k _ _ _ | CMpAbort b k _
  | CAppend b k _ | CPutTags b k _ | CDelTags b k => Some (b, k)
  | CBadDigest (BPut b k) | CBadDigest (BAppend b k) | CBadDigest (BPart b k _) => Some (b, k)
  | _ => None
  end.
Definition kstep (c : call) (st : vstat) (ks : kstate) (ups : list (N * upload))
  : kstate * list (N * upload) * option err :=
  match c with
  | CMpCreate _ k u ctype o =>
      (ks, (u, {| u_key := k; u_tmpl := with_content (mk_rec 0 ctype o) [] true; u_parts := [] |}) :: ups_remove u ups, None)
  | CMpPart _ k u pn cid =>
      match ups_find u ups with
      | Some x => if bytes_eqb (u_key x) k
                  then (ks, (u, {| u_key := k; u_tmpl := u_tmpl x;
                                   u_parts := (pn, cid) :: filter (fun p => negb (fst p =? pn)%N) (u_parts x) |}) :: ups_remove u ups, None)
                  else (ks, ups, Some NoSuchKey)
      | None => (ks, ups, Some NoSuchKey)
      end
  | CMpComplete _ k u ifnone ifm =>
      match ups_find u ups with
      | Some x =>
          if bytes_eqb (u_key x) k then
            match assemble (u_parts x) with
            | None => (ks, ups, Some InvalidPart)
            | Some content =>
                match put_k st ks (with_content (u_tmpl x) content true) ifnone ifm with
                | (ks', None) => (ks', ups_remove u ups, None)
                | (_, Some e) => (ks, ups, Some e)
                end
            end
          else (ks, ups, Some NoSuchKey)
      | None => (ks, ups, Some NoSuchKey)
      end
  | CMpAbort _ k u =>
      match ups_find u ups with
      | Some x => if bytes_eqb (u_key x) k then (ks, ups_remove u ups, None) else (ks, ups, Some NoSuchKey)
      | None => (ks, ups, Some NoSuchKey)
      end
  | CAppend _ _ cid => let '(ks', e) := append_k st ks cid in (ks', ups, e)
  | CPutTags _ _ tg => let '(ks', e) := tags_k ks (set_tags tg) in (ks', ups, e)
  | CDelTags _ _ => let '(ks', e) := tags_k ks (set_tags []) in (ks', ups, e)
  (* the digest is validated after the body was consumed and before anything is recorded; UploadPart
     resolves its upload first *)
  | CBadDigest (BPart _ k u) =>
      match ups_find u ups with
      | Some x => if bytes_eqb (u_key x) k then (ks, ups, Some BadDigest) else (ks, ups, Some NoSuchKey)
      | None => (ks, ups, Some NoSuchKey)
      end
  | CBadDigest _ => (ks, ups, Some BadDigest)
  | _ => (ks, ups, None)
  end.

(* the inner storage: one call, atomically (every MetadataPartStorage method is one transaction) *)
Definition apply_call (s : istate) (c : call) : istate * option err :=
  match c with
  | CCreate b =>
      match s b with
      | Some _ => (s, Some BucketAlreadyExists)
      | None => (fupd s b (Some {| b_vers := VUnset; b_objs := fun _ => []; b_ups := [] |}), None)
      end
  | CDeleteB b =>
      match s b with
      | None => (s, Some NoSuchBucket)
      | Some bs => if bucket_empty bs then (fupd s b None, None) else (s, Some BucketNotEmpty)
      end
  | CPut b k cid ctype o =>
      match s b with
      | None => (s, Some NoSuchBucket)
      | Some bs =>
          match put_k (b_vers bs) (b_objs bs k) (mk_rec cid ctype o) (o_ifnone o) (o_ifmatch o) with
          | (ks', None) => (set_key s b bs k ks', None)
          | (_, Some e) => (s, Some e)
          end
      end
  | CDel b k vid ifm =>
      match s b with
      | None => (s, Some NoSuchBucket)
      | Some bs =>
          match del_k (b_vers bs) (b_objs bs k) vid ifm with
          | (ks', None) => (set_key s b bs k ks', None)
          | (_, Some e) => (s, Some e)
          end
      end
  | CDels b ks =>
      match s b with
      | None => (s, Some NoSuchBucket)
      | Some bs => (fupd s b (Some {| b_vers := b_vers bs; b_objs := dels_k (b_vers bs) (b_objs bs) ks; b_ups := b_ups bs |}), None)
      end
  | CVers b v =>
      match s b with
      | None => (s, Some NoSuchBucket)
      | Some bs => (fupd s b (Some {| b_vers := v; b_objs := b_objs bs; b_ups := b_ups bs |}), None)
      end
  | CDelsC b es =>
      match s b with
      | None => (s, Some NoSuchBucket)
      | Some bs => (fupd s b (Some {| b_vers := b_vers bs; b_objs := dels_c (b_vers bs) (b_objs bs) es; b_ups := b_ups bs |}), None)
      end
  | CBadDigest (BPut b k) =>
      (* PutObject validates the digest before it looks the bucket up *)
      (s, Some BadDigest)
  | CCopy sb sk db dk =>
      match copy_src s sb sk with
      | inl e => (s, Some e)
      | inr r => put_rec s db dk r
      end
  | CPutR b k r => put_rec s b k r
  | _ =>
      match keyop c with
      | None => (s, None)
      | Some (b, k) =>
          match s b with
          | None => (s, Some NoSuchBucket)
          | Some bs =>
              match kstep c (b_vers bs) (b_objs bs k) (b_ups bs) with
              | (ks', ups', None) =>
                  (fupd s b (Some {| b_vers := b_vers bs; b_objs := fupd (b_objs bs) k ks'; b_ups := ups' |}), None)
              | (_, _, Some e) => (s, Some e)
              end
          end
      end
  end.

Inductive rd :=
| RGet (b k : bytes) | RList (b : bytes) | RListBuckets | RHeadBucket (b : bytes) | RGetVers (b : bytes)
| RTags (b k : bytes).

Inductive res :=
| ResCall (e : option err)                 (* a write: OK or the error *)
| ResObj (r : rec) | ResErr (e : err)
| ResKeys (l : list (bytes * N)) | ResBuckets (l : list bytes) | ResVers (v : vstat) | ResTags (l : list kv)
| ResBlocked                               (* the operation is waiting for the outbox *)
| ResWorker (r : option (option err))      (* None: nothing to claim; Some r: replay result *)
| ResNone.                                 (* join with nothing in flight / busy *)

Definition list_keys (bs : bstate) : list (bytes * N) :=
  flat_map (fun k => match cur_rec (b_objs bs k) with Some r => [(k, rsize r)] | None => [] end) UK.

Definition read_inner (s : istate) (r : rd) : res :=
  match r with
  | RGet b k =>
      match s b with
      | None => ResErr NoSuchBucket
      | Some bs => match b_objs bs k with
                   | [] => ResErr NoSuchKey
                   | v :: _ => match v_rec v with Some r => ResObj r | None => ResErr DeleteMarker end
                   end
      end
  | RList b => match s b with None => ResErr NoSuchBucket | Some bs => ResKeys (list_keys bs) end
  | RListBuckets => ResBuckets (filter (fun b => match s b with Some _ => true | None => false end) UB)
  | RHeadBucket b => match s b with None => ResErr NoSuchBucket | Some _ => ResCall None end
  | RGetVers b => match s b with None => ResErr NoSuchBucket | Some bs => ResVers (b_vers bs) end
  | RTags b k =>
      match s b with
      | None => ResErr NoSuchBucket
      | Some bs => match b_objs bs k with
                   | [] => ResErr NoSuchKey
                   | v :: _ => match v_rec v with Some r => ResTags (r_tags r) | None => ResErr DeleteMarker end
                   end
      end
  end.

(* ---------------------------------------------------------------- outbox *)
(* storage_outbox_entries row (+ its chunk / tag / user-metadata rows): what is serialized *)
Inductive payload :=
| PCreate (b : bytes)
| PDeleteB (b : bytes)
| PPut (b k : bytes) (cid : N) (ctype : option bytes) (class : option bytes)
       (sys : list (option bytes)) (tags : list kv) (user : list kv)
| PDel (b k : bytes) (vid : option bytes).
Record entry := { e_id : N; e_pl : payload }.

Definition pl_bucket (p : payload) : bytes :=
  match p with PCreate b | PDeleteB b | PPut b _ _ _ _ _ _ _ | PDel b _ _ => b end.
(* the key column: bucket operations are stored with the empty key *)
Definition pl_key (p : payload) : bytes :=
  match p with PCreate _ | PDeleteB _ => [] | PPut _ k _ _ _ _ _ _ | PDel _ k _ => k end.

(* PutObject: SaveStorageOutboxEntry + SaveStorageOutboxEntryPutOptions (only when a class, a
   non-empty tag set or a metadata struct is given; otherwise the columns stay NULL / no rows) *)
Definition ser_put (b k : bytes) (cid : N) (ctype : option bytes) (o : popts) : payload :=
  let has := match o_class o, o_tags o, o_meta o with None, [], None => false | _, _, _ => true end in
  if has then
    PPut b k cid ctype (o_class o)
         (match o_meta o with Some m => fix6 (m_sys m) | None => none6 end)
         (o_tags o)
         (match o_meta o with Some m => m_user m | None => [] end)
  else PPut b k cid ctype None none6 [] [].

(* maybeProcessOutboxEntries: readStorageOutboxPutOptions + the inner call issued for an entry *)
Definition replay_call (p : payload) : call :=
  match p with
  | PCreate b => CCreate b
  | PDeleteB b => CDeleteB b
  | PPut b k cid ctype class sys tags user =>
      let m := if forallb (fun x => match x with None => true | Some _ => false end) sys
                  && match user with [] => true | _ => false end
               then None else Some {| m_sys := sys; m_user := user |} in
      CPut b k cid ctype {| o_tags := tags; o_meta := m; o_class := class; o_ifnone := false; o_ifmatch := None |}
  | PDel b k vid => CDel b k vid None
  end.

(* the four entry classes a waiting operation can name *)
Inductive wclass := WKey (b k : bytes) | WBucket (b : bytes) | WGlobalB (b : bytes) | WGlobalAll
                  | WTwo (w1 w2 : wclass).     (* CopyObject: the source key's class, then the destination's *)
Fixpoint conflict (w : wclass) (p : payload) : bool :=
  match w with
  | WTwo a b => conflict a p || conflict b p
  | WKey b k => bytes_eqb (pl_bucket p) b && (is_empty (pl_key p) || bytes_eqb (pl_key p) k)
  | WBucket b => bytes_eqb (pl_bucket p) b
  | WGlobalB b => bytes_eqb (pl_bucket p) b && is_empty (pl_key p)
  | WGlobalAll => is_empty (pl_key p)
  end.

Definition rd_class (r : rd) : wclass :=
  match r with
  | RGet b k => WKey b k | RList b => WBucket b | RListBuckets => WGlobalAll
  | RHeadBucket b => WGlobalB b | RGetVers b => WGlobalB b
  | RTags b k => WKey b k
  end.

(* what is still to be done by an operation that had to wait *)
Inductive cont := KCall (c : call) | KRead (r : rd).
Record ostate := { inner : istate; queue : list entry; next_id : N;
                   inflight : option (cont * wclass * N) }.

Definition init_state : ostate := {| inner := init_inner; queue := []; next_id := 1; inflight := None |}.

Definition vers_of (s : istate) (b : bytes) : option vstat := option_map b_vers (s b).

(* routing of a client write: None = enqueue these payloads, Some w = write through after
   waiting for class w.  (GetBucketVersioningConfiguration is asked of the inner storage without
   waiting; NoSuchBucket counts as "not versioned".) *)
Definition route (s : istate) (c : call) : option wclass * list payload :=
  match c with
  | CCreate b => (None, [PCreate b])
  | CDeleteB b => (None, [PDeleteB b])
  | CPut b k cid ctype o =>
      let cond := o_ifnone o || match o_ifmatch o with Some _ => true | None => false end in
      let ver := match vers_of s b with Some VEnabled => true | _ => false end in
      if cond || ver then (Some (WKey b k), []) else (None, [ser_put b k cid ctype o])
  | CDel b k vid ifm =>
      let cond := match ifm with Some _ => true | None => false end in
      let ver := match vers_of s b with Some VEnabled | Some VSuspended => true | _ => false end in
      if cond || ver then (Some (WKey b k), []) else (None, [PDel b k vid])
  | CDels b ks =>
      let ver := match vers_of s b with Some VEnabled | Some VSuspended => true | _ => false end in
      if ver then (Some (WBucket b), []) else (None, map (fun k => PDel b k None) ks)
  | CVers b _ => (Some (WBucket b), [])
  | CMpCreate b k _ _ _ | CMpPart b k _ _ _ | CMpComplete b k _ _ _ | CMpAbort b k _
  | CAppend b k _ | CPutTags b k _ | CDelTags b k | CPutR b k _ => (Some (WKey b k), [])
  | CCopy sb sk db dk => (Some (WTwo (WKey sb sk) (WKey db dk)), [])
  | CDelsC b es =>
      let cond := existsb (fun e => match snd e with Some _ => true | None => false end) es in
      let ver := match vers_of s b with Some VEnabled | Some VSuspended => true | _ => false end in
      if cond || ver then (Some (WBucket b), []) else (None, map (fun e => PDel b (fst e) None) es)
  | CBadDigest (BPut b k) =>
      (* routed like an unconditional PutObject; on the queued path it is refused inside the outbox
         transaction (rolled back: no entry), see [rejects] *)
      match vers_of s b with Some VEnabled => (Some (WKey b k), []) | _ => (None, []) end
  | CBadDigest (BAppend b k) | CBadDigest (BPart b k _) => (Some (WKey b k), [])
  end.
(* calls the queued path refuses after their body was consumed *)
Definition rejects (c : call) : bool := match c with CBadDigest _ => true | _ => false end.

Fixpoint enqueue (q : list entry) (n : N) (ps : list payload) : list entry * N :=
  match ps with
  | [] => (q, n)
  | p :: t => enqueue (q ++ [{| e_id := n; e_pl := p |}]) (n + 1)%N t
  end.

(* findLast / findFirst of a class: ids; the queue is kept in id order *)
Definition first_conf (w : wclass) (q : list entry) : option N :=
  option_map e_id (find (fun e => conflict w (e_pl e)) q).
Definition last_conf (w : wclass) (q : list entry) : option N :=
  option_map e_id (find (fun e => conflict w (e_pl e)) (rev q)).
(* the polling loop's exit condition for snapshot [snap] *)
Definition wait_done (w : wclass) (snap : N) (q : list entry) : bool :=
  match first_conf w q with None => true | Some i => (snap <? i)%N end.

Definition perform (s : ostate) (k : cont) : ostate * res :=
  match k with
  | KCall c => let '(i', r) := apply_call (inner s) c in
               ({| inner := i'; queue := queue s; next_id := next_id s; inflight := None |}, ResCall r)
  | KRead r => ({| inner := inner s; queue := queue s; next_id := next_id s; inflight := None |},
                read_inner (inner s) r)
  end.

(* a waiting operation: snapshot; nothing of the class pending -> proceed at once *)
Definition begin_wait (s : ostate) (k : cont) (w : wclass) : ostate * res :=
  match last_conf w (queue s) with
  | None => perform s k
  | Some snap => ({| inner := inner s; queue := queue s; next_id := next_id s;
                     inflight := Some (k, w, snap) |}, ResBlocked)
  end.

Inductive op := OCall (c : call) | ORead (r : rd) | OWork | OJoin.

Definition step (s : ostate) (o : op) : ostate * res :=
  match o with
  | OCall c =>
      match route (inner s) c with
      | (None, ps) =>
          if rejects c then (s, ResCall (Some BadDigest))      (* refused: nothing is enqueued *)
          else
          (* accepted into the outbox: allowed also while another operation waits (other client) *)
          let '(q', n') := enqueue (queue s) (next_id s) ps in
          ({| inner := inner s; queue := q'; next_id := n'; inflight := inflight s |}, ResCall None)
      | (Some w, _) =>
          match inflight s with
          | Some _ => (s, ResNone)
          | None => begin_wait s (KCall c) w
          end
      end
  | ORead r =>
      match inflight s with
      | Some _ => (s, ResNone)
      | None => begin_wait s (KRead r) (rd_class r)
      end
  | OJoin =>
      match inflight s with
      | None => (s, ResNone)
      | Some (k, w, snap) => if wait_done w snap (queue s) then perform s k else (s, ResBlocked)
      end
  | OWork =>
      match queue s with
      | [] => (s, ResWorker None)
      | e :: t =>
          match apply_call (inner s) (replay_call (e_pl e)) with
          | (i', None) => ({| inner := i'; queue := t; next_id := next_id s; inflight := inflight s |},
                           ResWorker (Some None))
          | (_, Some er) => (s, ResWorker (Some (Some er)))     (* released, retried later *)
          end
      end
  end.

Fixpoint run (s : ostate) (ops : list op) : ostate * list res :=
  match ops with
  | [] => (s, [])
  | o :: t => let '(s1, r) := step s o in let '(s2, rs) := run s1 t in (s2, r :: rs)
  end.

End Inner.

(* ---------------------------------------------------------------- line protocol
   <buckets> <keys> <op> ... ; buckets/keys are tok_lists (the universes, sorted by the harness);
   an op is one token, fields separated by '/':
     cb/<b>  db/<b>  put/<b>/<k>/<cid>/<ctype>/<class>/<meta>/<tags>/<ifnone>/<ifmatch>
     del/<b>/<k>/<vid>/<ifmatch>  dels/<b>/<keys>  ver/<b>/E|S
     get/<b>/<k>  ls/<b>  lb  hb/<b>  gv/<b>  W  J
     cmu/<b>/<k>/<label>/<ctype>/<class>/<meta>/<tags>  up/<b>/<k>/<label>/<partno>/<cid>
     cpl/<b>/<k>/<label>/<ifnone>/<ifmatch>  abt/<b>/<k>/<label>  cp/<sb>/<sk>/<db>/<dk>  app/<b>/<k>/<cid>
     ptag/<b>/<k>/<tags>  dtag/<b>/<k>  gtag/<b>/<k>
     delsc/<b>/<k>:<ifmatch>,...   (DeleteObjects with per-entry If-Match)
     bad/put/<b>/<k>  bad/app/<b>/<k>  bad/up/<b>/<k>/<label>   (declared digest does not match the body)
   optional bytes: N | S<hex>; kv lists: _ | k=v,k=v (hex); meta: N | M:<sys6>:<user> with sys6 six
   optional tokens separated by ','; ifmatch: N | * | <cid>.
   output: one token per op, then the sweep of the inner storage and the number of pending entries *)
Definition tok_opt (o : option bytes) : bytes :=
  match o with None => B"N" | Some v => "S"%byte :: tok_bytes v end.
Definition untok_opt (t : bytes) : option (option bytes) :=
  match t with
  | b :: rest => if beqb b "S"%byte then option_map Some (untok_bytes rest)
                 else if bytes_eqb t B"N" then Some None else None
  | [] => None
  end.
Definition tok_kv (p : kv) : bytes := tok_bytes (fst p) ++ B"=" ++ tok_bytes (snd p).
Definition untok_kv (t : bytes) : option kv :=
  match split_on "="%byte t with
  | [a; b] => match untok_bytes a, untok_bytes b with Some x, Some y => Some (x, y) | _, _ => None end
  | _ => None
  end.
Definition tok_kvs (l : list kv) : bytes := match l with [] => B"_" | _ => join B"," (map tok_kv l) end.
Definition untok_kvs (t : bytes) : option (list kv) :=
  if bytes_eqb t B"_" then Some [] else mapM untok_kv (split_on ","%byte t).
Definition tok_sys (l : list (option bytes)) : bytes := join B"," (map tok_opt l).
Definition untok_sys (t : bytes) : option (list (option bytes)) := mapM untok_opt (split_on ","%byte t).
Definition untok_meta (t : bytes) : option (option meta) :=
  if bytes_eqb t B"N" then Some None else
  match split_on ":"%byte t with
  | [m; s; u] => if bytes_eqb m B"M" then
                   match untok_sys s, untok_kvs u with
                   | Some s, Some u => Some (Some {| m_sys := s; m_user := u |})
                   | _, _ => None
                   end
                 else None
  | _ => None
  end.
Definition untok_ifm (t : bytes) : option (option (option N)) :=
  if bytes_eqb t B"N" then Some None
  else if bytes_eqb t B"*" then Some (Some None)
  else option_map (fun n => Some (Some n)) (parse_N t).
Definition untok_vstat (t : bytes) : option vstat :=
  if bytes_eqb t B"E" then Some VEnabled else if bytes_eqb t B"S" then Some VSuspended
  else if bytes_eqb t B"U" then Some VUnset else None.

Definition untok_centry (t : bytes) : option (bytes * option (option N)) :=
  match split_on ":"%byte t with
  | [k; c] => match untok_bytes k, untok_ifm c with Some k, Some c => Some (k, c) | _, _ => None end
  | _ => None
  end.
Definition parse_bad (l : list bytes) : option op :=
  match l with
  | [w; b; k] =>
      match untok_bytes b, untok_bytes k with
      | Some b, Some k =>
          if bytes_eqb w B"put" then Some (OCall (CBadDigest (BPut b k)))
          else if bytes_eqb w B"app" then Some (OCall (CBadDigest (BAppend b k)))
          else None
      | _, _ => None
      end
  | [w; b; k; u] =>
      if bytes_eqb w B"up" then
        match untok_bytes b, untok_bytes k, parse_N u with
        | Some b, Some k, Some u => Some (OCall (CBadDigest (BPart b k u)))
        | _, _, _ => None
        end
      else None
  | _ => None
  end.
Definition parse_op_main (t : bytes) : option op :=
  match split_on "/"%byte t with
  | [c] => if bytes_eqb c B"W" then Some OWork else if bytes_eqb c B"J" then Some OJoin
           else if bytes_eqb c B"lb" then Some (ORead RListBuckets) else None
  | [c; b] =>
      match untok_bytes b with
      | Some b =>
          if bytes_eqb c B"cb" then Some (OCall (CCreate b))
          else if bytes_eqb c B"db" then Some (OCall (CDeleteB b))
          else if bytes_eqb c B"ls" then Some (ORead (RList b))
          else if bytes_eqb c B"hb" then Some (ORead (RHeadBucket b))
          else if bytes_eqb c B"gv" then Some (ORead (RGetVers b))
          else None
      | None => None
      end
  | [c; b; x] =>
      match untok_bytes b with
      | Some b =>
          if bytes_eqb c B"get" then option_map (fun k => ORead (RGet b k)) (untok_bytes x)
          else if bytes_eqb c B"gtag" then option_map (fun k => ORead (RTags b k)) (untok_bytes x)
          else if bytes_eqb c B"dtag" then option_map (fun k => OCall (CDelTags b k)) (untok_bytes x)
          else if bytes_eqb c B"dels" then option_map (fun ks => OCall (CDels b ks)) (untok_list x)
          else if bytes_eqb c B"delsc" then option_map (fun es => OCall (CDelsC b es)) (mapM untok_centry (split_on ","%byte x))
          else if bytes_eqb c B"ver" then option_map (fun v => OCall (CVers b v)) (untok_vstat x)
          else None
      | None => None
      end
  | [c; b; k; x] =>
      match untok_bytes b, untok_bytes k with
      | Some b, Some k =>
          if bytes_eqb c B"abt" then option_map (fun u => OCall (CMpAbort b k u)) (parse_N x)
          else if bytes_eqb c B"app" then option_map (fun cid => OCall (CAppend b k cid)) (parse_N x)
          else if bytes_eqb c B"ptag" then option_map (fun tg => OCall (CPutTags b k tg)) (untok_kvs x)
          else None
      | _, _ => None
      end
  | [c; b; k; vid; ifm] =>
      if bytes_eqb c B"del" then
        match untok_bytes b, untok_bytes k, untok_opt vid, untok_ifm ifm with
        | Some b, Some k, Some vid, Some ifm => Some (OCall (CDel b k vid ifm))
        | _, _, _, _ => None
        end
      else if bytes_eqb c B"cp" then
        match untok_bytes b, untok_bytes k, untok_bytes vid, untok_bytes ifm with
        | Some sb, Some sk, Some db, Some dk => Some (OCall (CCopy sb sk db dk))
        | _, _, _, _ => None
        end
      else None
  | [c; b; k; u; x; y] =>
      match untok_bytes b, untok_bytes k, parse_N u with
      | Some b, Some k, Some u =>
          if bytes_eqb c B"up" then
            match parse_N x, parse_N y with Some pn, Some cid => Some (OCall (CMpPart b k u pn cid)) | _, _ => None end
          else if bytes_eqb c B"cpl" then
            match parse_bool x, untok_ifm y with Some ifn, Some ifm => Some (OCall (CMpComplete b k u ifn ifm)) | _, _ => None end
          else None
      | _, _, _ => None
      end
  | [c; b; k; u; ct; cl; m; tg] =>
      if bytes_eqb c B"cmu" then
        match untok_bytes b, untok_bytes k, parse_N u, untok_opt ct, untok_opt cl with
        | Some b, Some k, Some u, Some ct, Some cl =>
            match untok_meta m, untok_kvs tg with
            | Some m, Some tg =>
                Some (OCall (CMpCreate b k u ct {| o_tags := tg; o_meta := m; o_class := cl; o_ifnone := false; o_ifmatch := None |}))
            | _, _ => None
            end
        | _, _, _, _, _ => None
        end
      else None
  | [c; b; k; cid; ct; cl; m; tg; ifn; ifm] =>
      if bytes_eqb c B"put" then
        match untok_bytes b, untok_bytes k, parse_N cid, untok_opt ct, untok_opt cl with
        | Some b, Some k, Some cid, Some ct, Some cl =>
            match untok_meta m, untok_kvs tg, parse_bool ifn, untok_ifm ifm with
            | Some m, Some tg, Some ifn, Some ifm =>
                Some (OCall (CPut b k cid ct {| o_tags := tg; o_meta := m; o_class := cl;
                                                o_ifnone := ifn; o_ifmatch := ifm |}))
            | _, _, _, _ => None
            end
        | _, _, _, _, _ => None
        end
      else None
  | _ => None
  end.

Definition parse_op (t : bytes) : option op :=
  match split_on "/"%byte t with
  | c :: rest => if bytes_eqb c B"bad" then parse_bad rest else parse_op_main t
  | [] => None
  end.

Definition show_err (e : err) : bytes :=
  match e with
  | NoSuchBucket => B"NoSuchBucket" | NoSuchKey => B"NoSuchKey"
  | BucketAlreadyExists => B"BucketAlreadyExists" | BucketNotEmpty => B"BucketNotEmpty"
  | PreconditionFailed => B"PreconditionFailed" | DeleteMarker => B"DeleteMarker"
  | InvalidPart => B"InvalidPart" | BadDigest => B"BadDigest"
  end.
Definition show_oerr (e : option err) : bytes :=
  match e with None => B"OK" | Some e => B"E:" ++ show_err e end.
Definition show_vstat (v : vstat) : bytes :=
  match v with VUnset => B"U" | VEnabled => B"E" | VSuspended => B"S" end.
Definition show_class (c : option bytes) : bytes :=
  match c with None => tok_bytes B"STANDARD" | Some [] => tok_bytes B"STANDARD" | Some c => tok_bytes c end.
Definition show_rec (r : rec) : bytes :=
  B"O:" ++ join B"+" (map show_N (r_content r)) ++ B":" ++ tok_opt (r_ctype r) ++ B":" ++ show_class (r_class r) ++ B":"
  ++ tok_sys (r_sys r) ++ B":" ++ tok_kvs (r_user r) ++ B":" ++ tok_kvs (r_tags r).
Definition show_keys (l : list (bytes * N)) : bytes :=
  match l with
  | [] => B"L:_"
  | _ => B"L:" ++ join B"," (map (fun p => tok_bytes (fst p) ++ B"=" ++ show_N (snd p)) l)
  end.
Definition show_res (r : res) : bytes :=
  match r with
  | ResCall e => show_oerr e
  | ResObj r => show_rec r
  | ResErr e => B"E:" ++ show_err e
  | ResKeys l => show_keys l
  | ResBuckets l => B"B:" ++ tok_list l
  | ResVers v => B"V:" ++ show_vstat v
  | ResTags l => B"T:" ++ tok_kvs l
  | ResBlocked => B"BLK"
  | ResWorker None => B"W:IDLE"
  | ResWorker (Some e) => B"W:" ++ show_oerr e
  | ResNone => B"NONE"
  end.

(* sweep of the inner storage: per existing bucket its versioning status and, per key with any
   version, the current object (or DM), the number of versions and of delete markers *)
Definition count_dm (ks : kstate) : nat := length (filter (fun v => negb (is_obj v)) ks).
Definition show_key_state (k : bytes) (ks : kstate) : bytes :=
  tok_bytes k ++ B"~" ++
  (match ks with
   | v :: _ => match v_rec v with Some r => show_rec r | None => B"DM" end
   | [] => B"-" end)
  ++ B"~" ++ show_nat (length ks) ++ B"~" ++ show_nat (count_dm ks).
Definition sweep_bucket (UK : list bytes) (b : bytes) (bs : bstate) : bytes :=
  B"S|" ++ tok_bytes b ++ B"|" ++ show_vstat (b_vers bs) ++ B"|u" ++ show_nat (length (b_ups bs)) ++
  concat (map (fun k => match b_objs bs k with [] => [] | ks => B"|" ++ show_key_state k ks end) UK).
Definition sweep (UK UB : list bytes) (s : istate) : list bytes :=
  flat_map (fun b => match s b with Some bs => [sweep_bucket UK b bs] | None => [] end) UB.

Definition run_line_single (l : bytes) : bytes :=
  match tokens l with
  | bt :: kt :: ops =>
      do UB <- untok_list bt;
      do UK <- untok_list kt;
      do ops <- mapM parse_op ops;
      let '(s, rs) := run UK UB init_state ops in
      unwords (map show_res rs ++ [B"#"] ++ sweep UK UB (inner s) ++ [B"Q" ++ show_nat (length (queue s))])
  | _ => parse_error
  end.

(* the entry class an operation waits for before it touches the inner storage, as coded in
   outbox.go (for calls that are routed to the queue the class is irrelevant) *)
Definition call_class (c : call) : wclass :=
  match c with
  | CPut b k _ _ _ | CDel b k _ _
  | CMpCreate b k _ _ _ | CMpPart b k _ _ _ | CMpComplete b k _ _ _ | CMpAbort b k _
  | CAppend b k _ | CPutTags b k _ | CDelTags b k | CPutR b k _ => WKey b k
  | CCopy sb sk db dk => WTwo (WKey sb sk) (WKey db dk)
  | CDels b _ | CVers b _ | CCreate b | CDeleteB b | CDelsC b _ => WBucket b
  | CBadDigest (BPut b k) | CBadDigest (BAppend b k) | CBadDigest (BPart b k _) => WKey b k
  end.
Definition cont_class (k : cont) : wclass :=
  match k with KCall c => call_class c | KRead r => rd_class r end.

(* ---------------------------------------------------------------- specification vocabulary
   (used by the statements in Properties/C21.v; still no proofs) *)
Section Spec.
Variable UK UB : list bytes.

(* direct application of calls to a storage, in order *)
Definition app (s : istate) (c : call) : istate := fst (apply_call UK s c).
Definition apps (s : istate) (cs : list call) : istate := fold_left app cs s.

(* the continuation a step completes (an operation that returns to its caller with a result
   computed on the inner storage), if any *)
Definition completes (s : ostate) (o : op) : option cont :=
  match o with
  | OCall c =>
      match route (inner s) c, inflight s with
      | (Some w, _), None => match last_conf w (queue s) with None => Some (KCall c) | Some _ => None end
      | _, _ => None
      end
  | ORead r =>
      match inflight s with
      | None => match last_conf (rd_class r) (queue s) with None => Some (KRead r) | Some _ => None end
      | Some _ => None
      end
  | OJoin =>
      match inflight s with
      | Some (k, w, snap) => if wait_done w snap (queue s) then Some k else None
      | None => None
      end
  | OWork => None
  end.

(* the writes a step accepts: a queued call when it is committed to the outbox, a write-through
   call when it is applied *)
Definition accepts (s : ostate) (o : op) : list call :=
  match o with
  | OCall c => match route (inner s) c with
               | (None, _) => if rejects c then [] else [c]
               | (Some _, _) => match completes s o with Some _ => [c] | None => [] end
               end
  | OJoin => match completes s o with Some (KCall c) => [c] | _ => [] end
  | _ => []
  end.

Fixpoint accepted (s : ostate) (ops : list op) : list call :=
  match ops with
  | [] => []
  | o :: t => accepts s o ++ accepted (fst (step UK UB s o)) t
  end.

(* one client: while an operation waits, only the worker moves *)
Fixpoint seqclient (s : ostate) (ops : list op) : bool :=
  match ops with
  | [] => true
  | o :: t =>
      (match inflight s, o with
       | Some _, OCall _ => false
       | Some _, ORead _ => false
       | _, _ => true
       end) && seqclient (fst (step UK UB s o)) t
  end.

(* what the same operation returns on a plain storage in state [q] *)
Definition direct (q : istate) (k : cont) : res :=
  match k with
  | KCall c => ResCall (snd (apply_call UK q c))
  | KRead r => read_inner UK UB q r
  end.

Definition state_after (ops : list op) : ostate := fst (run UK UB init_state ops).
End Spec.
